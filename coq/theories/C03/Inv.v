(* C03 — invariants of the device tracker, by induction over histories. *)
From Coq Require Import List Bool NArith ZArith Lia.
From AUC Require Import Prelude.PyStr Prelude.PyDict C16.Model C03.Model Gen.Ssdp.
Import ListNotations.

Local Notation KS := str_eqb_spec.

(* the last sighting's location carries the device's validity *)
Definition loc_ok (d : device) : Prop :=
  NoDup (dkeys (d_locs d)) /\ exists loc, dget str_eqb (d_locs d) loc = Some (d_valid_to d).

Definition watermark_ok (ds : dict pystr device) (nv : option Z) : Prop :=
  match nv with
  | Some m => forall u d, In (u, d) ds -> (m <= d_valid_to d)%Z
  | None => ds = []
  end.

Record Inv (t : tracker) : Prop := {
  inv_nodup : NoDup (dkeys (devices t));
  inv_mark : watermark_ok (devices t) (next_valid_to t);
  inv_locs : forall u d, In (u, d) (devices t) -> loc_ok d
}.

Lemma Inv0 : Inv tracker0.
Proof. constructor; cbn; [constructor | reflexivity | tauto]. Qed.

(* ------------------------------------------------------------------ purge *)
Lemma purge_locations_ok d now :
  loc_ok d -> ~ (now > d_valid_to d)%Z -> loc_ok (purge_locations d now).
Proof.
  intros [Hnd [loc Hl]] Hle. split; cbn.
  - unfold dkeys in *. clear -Hnd. induction (d_locs d) as [|[k v] r IH]; cbn; [constructor|].
    inversion Hnd as [|? ? Hn Hr]; subst. destruct (negb (now >? v)%Z); cbn; [|auto].
    constructor; [|auto]. intros Hin. apply Hn.
    clear -Hin. induction r as [|[k' v'] r IH]; cbn in *; [tauto|].
    destruct (negb (now >? v')%Z); cbn in *; intuition.
  - exists loc. clear Hnd. induction (d_locs d) as [|[k v] r IH]; cbn in *; [discriminate|].
    destruct (str_eqb k loc) eqn:E.
    + inversion Hl; subst. assert (Hf : (now >? d_valid_to d)%Z = false) by lia.
      rewrite Hf. cbn. now rewrite E.
    + destruct (negb (now >? v)%Z); cbn; [rewrite E|]; auto.
  Qed.

(* what the scan keeps, and the running minimum *)
Lemma purge_scan_spec now : forall ds nv ds' nv',
  purge_scan now ds nv = (ds', nv') ->
  (forall u d, In (u, d) ds -> loc_ok d) ->
  (* kept devices are exactly the unexpired ones, possibly with expired locations purged *)
  (forall u d', In (u, d') ds' ->
     exists d, In (u, d) ds /\ ~ (now > d_valid_to d)%Z /\ d_valid_to d' = d_valid_to d /\
               d_search d' = d_search d /\ d_adv d' = d_adv d /\ loc_ok d' /\
               (d' = d \/ d' = purge_locations d now)) /\
  (forall u d, In (u, d) ds -> ~ (now > d_valid_to d)%Z -> exists d', In (u, d') ds') /\
  dkeys ds' = dkeys (filter (fun e => negb (now >? d_valid_to (snd e))%Z) ds) /\
  (* the minimum *)
  match nv' with
  | Some m => (forall u d', In (u, d') ds' -> (m <= d_valid_to d')%Z) /\
              (match nv with Some m0 => (m <= m0)%Z | None => True end)
  | None => ds' = [] /\ nv = None
  end.
Proof.
  induction ds as [|[u d] r IH]; intros nv ds' nv' H Hl; cbn in H.
  - inversion H; subst. split; [intros ? ? []|]. split; [intros ? ? []|]. split; [reflexivity|].
    destruct nv'; [split; [intros ? ? [] | lia] | split; reflexivity].
  - assert (Hlr : forall u d, In (u, d) r -> loc_ok d) by (intros; eapply Hl; right; eauto).
    destruct (now >? d_valid_to d)%Z eqn:E.
    + destruct (IH _ _ _ H Hlr) as [A [B [K M]]]. repeat split.
      * intros u0 d' Hin. destruct (A _ _ Hin) as [d0 [Hi R]]. exists d0. split; [now right | exact R].
      * intros u0 d0 [Heq|Hin] Hle; [inversion Heq; subst; lia | eauto].
      * cbn. rewrite E. cbn. exact K.
      * exact M.
    + assert (Hle : ~ (now > d_valid_to d)%Z) by lia.
      destruct (match nv with None => true | Some m => (d_valid_to d <? m)%Z end) eqn:El.
      * destruct (purge_scan now r (Some (d_valid_to d))) as [r' nv1] eqn:Er. inversion H; subst.
        destruct (IH _ _ _ Er Hlr) as [A [B [K M]]]. repeat split.
        -- intros u0 d' [Heq|Hin].
           ++ inversion Heq; subst. exists d. split; [now left|]. split; [exact Hle|].
              split; [reflexivity|]. split; [reflexivity|]. split; [reflexivity|].
              split; [apply purge_locations_ok; [eapply Hl; now left | exact Hle] | now right].
           ++ destruct (A _ _ Hin) as [d0 [Hi R]]. exists d0. split; [now right | exact R].
        -- intros u0 d0 [Heq|Hin] Hle0; [inversion Heq; subst; eexists; now left|].
           destruct (B _ _ Hin Hle0) as [d' Hd']. exists d'. now right.
        -- cbn. rewrite E. cbn. f_equal. exact K.
        -- destruct nv' as [m|]; [|destruct M; discriminate].
           destruct M as [M1 M2]. split.
           ++ intros u0 d' [Heq|Hin]; [inversion Heq; subst; cbn; exact M2 | eauto].
           ++ destruct nv as [m0|]; [|exact I]. lia.
      * destruct (purge_scan now r nv) as [r' nv1] eqn:Er. inversion H; subst.
        destruct nv as [m0|]; [|discriminate].
        destruct (IH _ _ _ Er Hlr) as [A [B [K M]]]. repeat split.
        -- intros u0 d' [Heq|Hin].
           ++ inversion Heq; subst. exists d'. split; [now left|]. split; [exact Hle|].
              split; [reflexivity|]. split; [reflexivity|]. split; [reflexivity|].
              split; [eapply Hl; now left | now left].
           ++ destruct (A _ _ Hin) as [d0 [Hi R]]. exists d0. split; [now right | exact R].
        -- intros u0 d0 [Heq|Hin] Hle0; [inversion Heq; subst; eexists; now left|].
           destruct (B _ _ Hin Hle0) as [d' Hd']. exists d'. now right.
        -- cbn. rewrite E. cbn. f_equal. exact K.
        -- destruct nv' as [m|]; [|destruct M; discriminate].
           destruct M as [M1 M2]. split; [|exact M2].
           intros u0 d' [Heq|Hin]; [inversion Heq; subst; lia | eauto].
Qed.

Lemma NoDup_keys_filter (V : Type) (f : pystr * V -> bool) (l : dict pystr V) :
  NoDup (dkeys l) -> NoDup (dkeys (filter f l)).
Proof.
  unfold dkeys. induction l as [|[k v] r IH]; cbn; intros H; [constructor|].
  inversion H as [|? ? Hn Hr]; subst. destruct (f (k, v)); cbn; [|auto].
  constructor; [|auto]. intros Hin. apply Hn. apply in_map_iff in Hin as [[k' v'] [Hk Hi]].
  cbn in Hk. subst. apply filter_In in Hi as [Hi _]. apply in_map_iff. now exists (k, v').
Qed.

Definition kept_from (t : tracker) (now : Z) (u : pystr) (d' : device) : Prop :=
  exists d, In (u, d) (devices t) /\ ~ (now > d_valid_to d)%Z /\ d_valid_to d' = d_valid_to d /\
            d_search d' = d_search d /\ d_adv d' = d_adv d /\ (d' = d \/ d' = purge_locations d now).

Lemma purge_devices_spec t now : Inv t ->
  Inv (purge_devices t now) /\
  (forall u d', In (u, d') (devices (purge_devices t now)) -> kept_from t now u d') /\
  (forall u d, In (u, d) (devices t) -> ~ (now > d_valid_to d)%Z ->
               exists d', In (u, d') (devices (purge_devices t now))).
Proof.
  intros [Hnd Hm Hl]. unfold purge_devices.
  assert (Scan : forall ds' nv', purge_scan now (devices t) None = (ds', nv') ->
    Inv {| devices := ds'; next_valid_to := nv' |} /\
    (forall u d', In (u, d') ds' -> kept_from t now u d') /\
    (forall u d, In (u, d) (devices t) -> ~ (now > d_valid_to d)%Z -> exists d', In (u, d') ds')).
  { intros ds' nv' E. destruct (purge_scan_spec now _ _ _ _ E Hl) as [A [B [K M]]]. split; [|split].
    - constructor; cbn [devices next_valid_to].
      + rewrite K. now apply NoDup_keys_filter.
      + destruct nv' as [m|]; [exact (proj1 M) | exact (proj1 M)].
      + intros u d' Hin. destruct (A _ _ Hin) as [d [_ [_ [_ [_ [_ [Hok _]]]]]]]. exact Hok.
    - intros u d' Hin. destruct (A _ _ Hin) as [d [H1 [H2 [H3 [H4 [H5 [_ H7]]]]]]].
      exists d. auto 10.
    - exact B. }
  destruct (next_valid_to t) as [m|] eqn:En.
  - destruct (m >? now)%Z eqn:Em.
    + split; [constructor; auto; now rewrite En|]. split.
      * intros u d' Hin. exists d'. cbn in Hm. specialize (Hm _ _ Hin).
        repeat split; auto; lia.
      * intros u d Hin _. now exists d.
    + destruct (purge_scan now (devices t) None) as [ds' nv'] eqn:E. now apply Scan.
  - destruct (purge_scan now (devices t) None) as [ds' nv'] eqn:E. now apply Scan.
Qed.

Lemma In_sset (V : Type) (ds : dict pystr V) k v u d :
  NoDup (dkeys ds) ->
  (In (u, d) (sset ds k v) <-> (u = k /\ d = v) \/ (u <> k /\ In (u, d) ds)).
Proof.
  intros Hnd. unfold sset. pose proof (NoDup_dset str_eqb KS ds k v Hnd) as Hnd'. split.
  - intros Hin. apply (In_dget str_eqb KS _ _ _ Hnd') in Hin. rewrite (dget_dset str_eqb KS) in Hin.
    destruct (KS k u) as [->|Hne].
    + inversion Hin. now left.
    + right. split; [congruence|]. now apply (dget_In str_eqb KS).
  - intros [[-> ->]|[Hne Hin]]; apply (dget_In str_eqb KS); rewrite (dget_dset str_eqb KS).
    + destruct (KS k k); congruence.
    + destruct (KS k u) as [->|_]; [congruence|]. now apply (In_dget str_eqb KS).
Qed.

Lemma In_sdel (V : Type) (ds : dict pystr V) k u d :
  NoDup (dkeys ds) -> (In (u, d) (sdel ds k) <-> u <> k /\ In (u, d) ds).
Proof.
  intros Hnd. unfold sdel. pose proof (NoDup_ddel str_eqb ds k Hnd) as Hnd'. split.
  - intros Hin. apply (In_dget str_eqb KS _ _ _ Hnd') in Hin.
    rewrite (dget_ddel str_eqb KS) in Hin by exact Hnd.
    destruct (KS k u) as [->|Hne]; [discriminate|]. split; [congruence|]. now apply (dget_In str_eqb KS).
  - intros [Hne Hin]. apply (dget_In str_eqb KS). rewrite (dget_ddel str_eqb KS) by exact Hnd.
    destruct (KS k u) as [->|_]; [congruence|]. now apply (In_dget str_eqb KS).
Qed.

Section Step.
  Variable ipver : pystr -> option N.

  Lemma see_device_None t h t' :
    see_device ipver t h = (t', None) -> t' = purge_devices t (ts_of h).
  Proof.
    unfold see_device. destruct (hstr h k_usn) as [[|c r]|]; try (intros H; now inversion H).
    destruct (udn_from_usn (c :: r)); intros H; now inversion H.
  Qed.

  Definition fresh_or (t1 : tracker) (udn : pystr) (f : device -> dict pystr hdrs) : dict pystr hdrs :=
    match sget (devices t1) udn with Some d => f d | None => [] end.

  Lemma see_device_Some t h t' udn nl :
    Inv t -> see_device ipver t h = (t', Some (udn, nl)) ->
    let now := ts_of h in
    let t1 := purge_devices t now in
    let vt := extract_valid_to h now in
    Inv t' /\
    (exists usn, hstr h k_usn = Some usn /\ udn_from_usn usn = Some udn) /\
    (exists d1, In (udn, d1) (devices t') /\ d_valid_to d1 = vt /\
                dget str_eqb (d_locs d1) (location_of h) = Some vt /\
                d_search d1 = fresh_or t1 udn d_search /\ d_adv d1 = fresh_or t1 udn d_adv) /\
    (forall u d, u <> udn -> (In (u, d) (devices t') <-> In (u, d) (devices t1))).
  Proof.
    intros Hi. cbv zeta. destruct (purge_devices_spec t (ts_of h) Hi) as [Hi1 _].
    unfold see_device. destruct (hstr h k_usn) as [[|c r]|] eqn:Eu; try discriminate.
    destruct (udn_from_usn (c :: r)) as [u0|] eqn:Ed; [|discriminate].
    set (t1 := purge_devices t (ts_of h)) in *. set (vt := extract_valid_to h (ts_of h)).
    intros H. inversion H; subst; clear H.
    destruct Hi1 as [Hnd1 Hm1 Hl1].
    set (d0locs := match sget (devices t1) udn with Some d => d_locs d | None => [] end).
    assert (Hd0 : NoDup (dkeys d0locs)).
    { unfold d0locs. destruct (sget (devices t1) udn) as [d|] eqn:E; [|constructor].
      apply (dget_In str_eqb KS) in E. apply (Hl1 _ _ E). }
    match goal with
    | |- Inv {| devices := sset _ _ ?D; next_valid_to := _ |} /\ _ => set (d1 := D)
    end.
    assert (Hd1v : d_valid_to d1 = vt) by reflexivity.
    assert (Hd1l : d_locs d1 = sset d0locs (location_of h) vt).
    { unfold d1, d0locs. destruct (sget (devices t1) udn); reflexivity. }
    split; [|split; [|split]].
    - constructor; cbn [devices next_valid_to].
      + now apply (NoDup_dset str_eqb KS).
      + destruct (next_valid_to t1) as [m|] eqn:En.
        * cbn in Hm1. destruct (m >? vt)%Z eqn:Em; cbn; intros u d Hin;
            apply (In_sset _ _ _ _ _ _ Hnd1) in Hin; destruct Hin as [[-> ->]|[_ Hin]];
            try (rewrite Hd1v; lia); specialize (Hm1 _ _ Hin); lia.
        * cbn in Hm1. rewrite Hm1. cbn. intros u d [Heq|[]]. inversion Heq; subst. rewrite Hd1v. lia.
      + intros u d Hin. apply (In_sset _ _ _ _ _ _ Hnd1) in Hin. destruct Hin as [[-> ->]|[_ Hin]]; [|eauto].
        split.
        * rewrite Hd1l. now apply (NoDup_dset str_eqb KS).
        * exists (location_of h). rewrite Hd1l, Hd1v. unfold sset. rewrite (dget_dset str_eqb KS).
          destruct (KS (location_of h) (location_of h)); congruence.
    - exists (c :: r). auto.
    - exists d1. split; [apply (In_sset _ _ _ _ _ _ Hnd1); now left|]. split; [reflexivity|]. split.
      + rewrite Hd1l. unfold sset. rewrite (dget_dset str_eqb KS).
        destruct (KS (location_of h) (location_of h)); congruence.
      + unfold d1, fresh_or. destruct (sget (devices t1) udn); split; reflexivity.
    - intros u d Hne. cbn [devices]. rewrite (In_sset _ _ _ _ _ _ Hnd1). intuition congruence.
  Qed.

  Lemma upd_device_Inv t udn f :
    Inv t -> (forall d, d_valid_to (f d) = d_valid_to d /\ d_locs (f d) = d_locs d) -> Inv (upd_device t udn f).
  Proof.
    intros [Hnd Hm Hl] Hf. unfold upd_device. destruct (sget (devices t) udn) as [d0|] eqn:E; [|now constructor].
    pose proof (dget_In str_eqb KS _ _ E) as Hin0.
    constructor; cbn [devices next_valid_to].
    - now apply (NoDup_dset str_eqb KS).
    - unfold watermark_ok in *. destruct (next_valid_to t) as [m|].
      + intros u d Hin. apply In_sset in Hin; [|exact Hnd]. destruct Hin as [[-> ->]|[_ Hin]].
        * rewrite (proj1 (Hf d0)). eapply Hm; eauto.
        * eapply Hm; eauto.
      + rewrite Hm in Hin0. contradiction.
    - intros u d Hin. apply In_sset in Hin; [|exact Hnd]. destruct Hin as [[-> ->]|[_ Hin]].
      + destruct (Hf d0) as [Hv Hlo]. unfold loc_ok. rewrite Hv, Hlo. eapply Hl; eauto.
      + eapply Hl; eauto.
  Qed.

  Lemma upd_device_In t udn f u d :
    NoDup (dkeys (devices t)) ->
    (In (u, d) (devices (upd_device t udn f)) <->
     (u = udn /\ exists d0, In (udn, d0) (devices t) /\ d = f d0) \/ (u <> udn /\ In (u, d) (devices t))).
  Proof.
    intros Hnd. unfold upd_device. destruct (sget (devices t) udn) as [d0|] eqn:E.
    - cbn [devices]. rewrite (In_sset _ _ _ _ _ _ Hnd). pose proof (dget_In str_eqb KS _ _ E) as Hin0. split.
      + intros [[-> ->]|H]; [left; eauto | now right].
      + intros [[-> [d0' [Hin ->]]]|H]; [left; split; [reflexivity|] | now right].
        apply (In_dget str_eqb KS _ _ _ Hnd) in Hin. unfold sget in E. congruence.
    - split; [|intros [[-> [d0 [Hin _]]]|[_ H]]; [|exact H]].
      + intros Hin. destruct (KS u udn) as [->|Hne]; [|now right].
        apply (In_dget str_eqb KS _ _ _ Hnd) in Hin. unfold sget in E. congruence.
      + apply (In_dget str_eqb KS _ _ _ Hnd) in Hin. unfold sget in E. congruence.
  Qed.

  Lemma see_search_Inv t h : Inv t -> Inv (fst (see_search ipver t h)).
  Proof.
    intros Hi. unfold see_search. destruct (negb (valid_search_headers h)); [exact Hi|].
    destruct (see_device ipver t h) as [t1 [[udn nl]|]] eqn:E.
    - destruct (see_device_Some _ _ _ _ _ Hi E) as [Hi1 _].
      destruct (hstr h k_st); [|exact Hi1]. destruct (sget (devices t1) udn); [|exact Hi1].
      cbn [fst]. apply upd_device_Inv; [exact Hi1|]. intros dd; split; reflexivity.
    - apply see_device_None in E. subst. apply purge_devices_spec. exact Hi.
  Qed.

  Lemma see_advertisement_Inv t h b : Inv t -> Inv (fst (see_advertisement ipver t h b)).
  Proof.
    intros Hi. unfold see_advertisement. destruct (negb (valid_advertisement_headers h)); [exact Hi|].
    destruct (see_device ipver t h) as [t1 [[udn nl]|]] eqn:E.
    - destruct (see_device_Some _ _ _ _ _ Hi E) as [Hi1 _].
      destruct (hstr h k_nt); [|exact Hi1]. destruct (sget (devices t1) udn); [|exact Hi1].
      cbn [fst]. apply upd_device_Inv; [exact Hi1|]. intros dd; split; reflexivity.
    - apply see_device_None in E. subst. apply purge_devices_spec. exact Hi.
  Qed.

  Lemma sdel_Inv t udn : Inv t -> Inv {| devices := sdel (devices t) udn; next_valid_to := next_valid_to t |}.
  Proof.
    intros [Hnd Hm Hl]. constructor; cbn [devices next_valid_to].
    - now apply (NoDup_ddel str_eqb).
    - destruct (next_valid_to t) as [m|]; cbn in *.
      + intros u d Hin. apply (In_sdel _ _ _ _ _ Hnd) in Hin. destruct Hin. eauto.
      + now rewrite Hm.
    - intros u d Hin. apply (In_sdel _ _ _ _ _ Hnd) in Hin. destruct Hin. eauto.
  Qed.

  Lemma unsee_Inv t h : Inv t -> Inv (fst (unsee_advertisement t h)).
  Proof.
    intros Hi. unfold unsee_advertisement. destruct (negb (valid_byebye_headers h)); [exact Hi|].
    destruct (hstr h k_usn) as [[|c r]|]; try exact Hi.
    destruct (udn_from_usn (c :: r)); [|exact Hi].
    destruct (sget (devices t) p); [|exact Hi]. destruct (hstr h k_nt); [|exact Hi].
    cbn [fst]. now apply sdel_Inv.
  Qed.

  Lemma on_adv_Inv t h : Inv t -> Inv (fst (fst (on_adv ipver t h))).
  Proof.
    intros Hi. unfold on_adv. destruct (is_discover h); [exact Hi|].
    destruct (hget h k_nts) as [v|]; [|exact Hi].
    set (h' := with_source h src_advertisement).
    destruct (match v with HStr x => str_eqb x nts_alive | _ => false end).
    { pose proof (see_advertisement_Inv t h' false Hi) as H.
      destruct (see_advertisement ipver t h' false) as [t' [[u ty]|]]; exact H. }
    destruct (match v with HStr x => str_eqb x nts_byebye | _ => false end).
    { pose proof (unsee_Inv t h' Hi) as H.
      destruct (unsee_advertisement t h') as [t' [[[u ty] d]|]]; exact H. }
    destruct (match v with HStr x => str_eqb x nts_update | _ => false end); [|exact Hi].
    pose proof (see_advertisement_Inv t h' true Hi) as H.
    destruct (see_advertisement ipver t h' true) as [t' [[u ty]|]]; exact H.
  Qed.

  Lemma on_srch_Inv th t h : Inv t -> Inv (fst (fst (on_srch ipver th t h))).
  Proof.
    intros Hi. unfold on_srch. destruct (is_discover h); [exact Hi|].
    destruct (htruthy h k_nts); [exact Hi|].
    set (h' := with_source h src_search).
    destruct (negb _); [exact Hi|].
    pose proof (see_search_Inv t h' Hi) as H.
    destruct (see_search ipver t h') as [t' [[[u ty] s]|]]; exact H.
  Qed.

  Theorem step_Inv th t o : Inv t -> Inv (fst (fst (step ipver th t o))).
  Proof.
    intros Hi. destruct o as [items|items|nw]; cbn [step].
    - apply on_adv_Inv, Hi.
    - apply on_srch_Inv, Hi.
    - cbn [fst]. apply purge_devices_spec. exact Hi.
  Qed.
End Step.
