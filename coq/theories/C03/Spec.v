(* C03 — specification of device lifetime, over (history, observed device maps).  The clauses are
   executable booleans; the same definitions judge the model (theorems) and the implementation. *)
From Coq Require Import List Bool NArith ZArith.
From AUC Require Import Prelude.PyStr Prelude.PyDict C16.Model C16.Spec C03.Model Gen.Ssdp.
Import ListNotations.
Local Open Scope N_scope.

(* what is observed after every operation: the known-device map (udn, valid_to, locations with
   their own validity) and the watermark *)
Definition dev_obs := (pystr * Z * list (pystr * Z))%type.
Record obs := { o_note : option (pystr * pystr * N);      (* callback: udn, type, source code *)
                o_combined : list (pystr * hval);          (* combined headers at callback time *)
                o_devs : list dev_obs;
                o_next : option Z }.

(* ------------------------------------------------------------------ reading a message *)
(* a header by case-insensitive name: the last item whose folded name matches (a header map) *)
Definition item_get (items : list (pystr * hval)) (lk : pystr) : option hval :=
  dlast str_eqb (map (fun kv => (lower (fst kv), snd kv)) items) lk.
Definition item_str (items : list (pystr * hval)) (lk : pystr) : option pystr :=
  match item_get items lk with Some (HStr s) => Some s | _ => None end.
Definition nonempty (o : option pystr) : bool := match o with Some (_ :: _) => true | _ => false end.
Definition item_time (items : list (pystr * hval)) : Z :=
  match item_get items k_timestamp with Some (HTime t) => t | _ => 0%Z end.

(* "uuid USN": the device name is the text before "::" *)
Definition usn_udn (items : list (pystr * hval)) : option pystr :=
  match item_str items k_usn with Some u => udn_from_usn u | None => None end.

(* Reading "an http(s) location that is neither loopback nor IPv4 link-local", on structured URLs
   scheme://host... : scheme http or https; host not 127.0.0.1, [::1], 169.254.* *)
Definition s_http : pystr := [104;116;116;112;58;47;47].
Definition s_https : pystr := [104;116;116;112;115;58;47;47].
Definition after_scheme (loc : pystr) : option pystr :=
  if starts_with s_http loc then Some (skipn 7 loc)
  else if starts_with s_https loc then Some (skipn 8 loc) else None.
Fixpoint host_of (s : pystr) : pystr :=
  match s with
  | [] => []
  | c :: r => if (c =? 47) || (c =? 63) || (c =? 35) then [] else c :: host_of r
  end.
Definition s_loop4 : pystr := [49;50;55;46;48;46;48;46;49].       (* 127.0.0.1 *)
Definition s_loop6 : pystr := [91;58;58;49;93].                   (* [::1] *)
Definition s_ll4 : pystr := [49;54;57;46;50;53;52;46].            (* 169.254. *)
Definition strip_port (h : pystr) : pystr :=
  match h with
  | 91 :: _ => before_sep [93] h ++ (if contains [93] h then [93] else [])     (* "[v6]" with or without ":port" *)
  | _ => before_sep [58] h
  end.
Definition good_location (loc : pystr) : bool :=
  match after_scheme loc with
  | Some rest =>
      let h := strip_port (host_of rest) in
      match h with [] => false | _ => true end &&
      negb (str_eqb h s_loop4) && negb (str_eqb h s_loop6) && negb (starts_with s_ll4 h)
  | None => false
  end.
(* the textual test of the reference implementation, with its literals pinned here (the proofs tie
   them to the constants generated from the current source) *)
Definition spec_location_ok (loc : pystr) : bool :=
  match loc with [] => false | _ => true end &&
  starts_with [104;116;116;112] loc &&
  negb (existsb (fun bad => contains bad loc)
          [[58;47;47;49;50;55;46;48;46;48;46;49]; [58;47;47;91;58;58;49;93]; [58;47;47;49;54;57;46;50;53;52]]).
(* the reading's domain: locations on which that textual test and the reading agree *)
Definition location_in_reading (loc : pystr) : bool := Bool.eqb (spec_location_ok loc) (good_location loc).

(* max-age=N in CACHE-CONTROL, 900 s when none is given; None = beyond any representable time *)
Definition spec_uncache_after (cc : pystr) : option Z :=
  match search_max_age [109;97;120;45;97;103;101] cc with
  | Some n => if n <=? TD_MAX_SECONDS then Some (Z.of_N n * 1000000)%Z else None
  | None => Some 900000000%Z
  end.

Inductive kind := KSearch | KAlive | KUpdate | KByebye | KOther.
Definition msg_kind (o : op) : kind :=
  match o with
  | Purge _ => KOther
  | Adv items =>
      if match item_str items k_man with Some s => str_eqb s ssdp_discover | None => false end then KOther
      else match item_get items k_nts with
           | Some (HStr s) => if str_eqb s nts_alive then KAlive else if str_eqb s nts_byebye then KByebye
                              else if str_eqb s nts_update then KUpdate else KOther
           | _ => KOther
           end
  | Srch items =>
      if match item_str items k_man with Some s => str_eqb s ssdp_discover | None => false end then KOther
      else if nonempty (item_str items k_nts) then KOther else KSearch
  end.
Definition op_items (o : op) : list (pystr * hval) :=
  match o with Adv i | Srch i => i | Purge _ => [] end.
Definition op_type (o : op) : option pystr :=
  match msg_kind o with
  | KSearch => item_str (op_items o) k_st
  | KAlive | KUpdate | KByebye => item_str (op_items o) k_nt
  | KOther => None
  end.
Definition op_time (o : op) : option Z :=
  match o with Purge t => Some t | Adv i | Srch i => Some (item_time i) end.

(* a valid sighting names a device by a uuid USN, has a type and a good location *)
Definition msg_loc (items : list (pystr * hval)) : pystr :=
  match item_str items k_location with Some l => l | None => [] end.
Definition spec_valid_to (items : list (pystr * hval)) : Z :=
  let ts := item_time items in
  let cc := match item_str items [99;97;99;104;101;45;99;111;110;116;114;111;108] with Some s => s | None => [] end in
  match spec_uncache_after cc with
  | Some age => if (ts + age >? DT_MAX)%Z then DT_MAX else (ts + age)%Z
  | None => DT_MAX
  end.
Definition sighting_items (items : list (pystr * hval)) (ty : option pystr) : option (pystr * Z * Z) :=
  match usn_udn items, ty with
  | Some u, Some (_ :: _) =>
      if good_location (msg_loc items) then Some (u, item_time items, spec_valid_to items) else None
  | _, _ => None
  end.
Definition sighting (o : op) : option (pystr * Z * Z) :=       (* udn, timestamp, valid_to *)
  match msg_kind o with
  | KSearch | KAlive | KUpdate => sighting_items (op_items o) (op_type o)
  | _ => None
  end.
Definition byebye_of (o : op) : option pystr :=
  match msg_kind o with
  | KByebye => match usn_udn (op_items o), op_type o with
               | Some u, Some (_ :: _) => Some u
               | _, _ => None
               end
  | _ => None
  end.

(* ------------------------------------------------------------------ the domain *)

(* Reading: the targeted search listener (unicast target) is not part of this property; the _udn
   metadata is the one the decoder derives from USN; locations lie inside the reading. *)
Definition op_in_domain (o : op) : bool :=
  match o with
  | Purge _ => true
  | Adv items | Srch items =>
      nodupb str_eqb (map (fun kv => lower (fst kv)) items) &&
      (* real headers are strings; only the decoder's _metadata carries other objects *)
      forallb (fun kv => is_meta (lower (fst kv)) ||
                         match snd kv with HStr _ => true | _ => false end) items &&
      match item_str items k_location with
      | Some l => location_in_reading l
      | None => match item_get items k_location with None => true | Some _ => false end
      end &&
      match item_get items k_udn, usn_udn items with
      | Some (HStr u), Some u' => str_eqb u u'
      | None, None => true
      | _, _ => false
      end &&
      match item_get items k_timestamp with
      | Some (HTime t) => (0 <=? t)%Z && (t <=? DT_MAX)%Z
      | _ => false
      end
  end.
Definition in_domain (ops : list op) : bool := forallb op_in_domain ops.

(* ------------------------------------------------------------------ clauses *)
Definition find_dev (u : pystr) (ds : list dev_obs) : option dev_obs :=
  find (fun d => str_eqb (fst (fst d)) u) ds.
Definition dev_eqb (a b : dev_obs) : bool :=
  let '(u1, v1, l1) := a in let '(u2, v2, l2) := b in
  str_eqb u1 u2 && (v1 =? v2)%Z &&
  perm_eqb (fun x y => str_eqb (fst x) (fst y) && (snd x =? snd y)%Z) l1 l2.

(* 1 presence: the device of the latest valid sighting (no byebye since, no later processed time
   beyond its validity) is present with a location *)
(* devices that must be present after the history [ops]: computed forward *)
Definition step_due (due : list (pystr * Z)) (o : op) : list (pystr * Z) :=
  let due1 := match op_time o with
              | Some t => filter (fun e => (t <=? snd e)%Z) due       (* still within validity *)
              | None => due
              end in
  match sighting o with
  | Some (u, _, vt) => (u, vt) :: filter (fun e => negb (str_eqb (fst e) u)) due1
  | None =>
      match byebye_of o with
      | Some u => filter (fun e => negb (str_eqb (fst e) u)) due1
      | None => due1
      end
  end.

Definition c_presence (due : list (pystr * Z)) (ob : obs) : bool :=
  forallb (fun e => match find_dev (fst e) (o_devs ob) with
                    | Some (_, _, (_ :: _)) => true
                    | _ => false
                    end) due.

(* 2 purged: after a valid sighting or a purge at t nothing that ended before t remains *)
Definition c_purged (o : op) (ob : obs) : bool :=
  match o, sighting o with
  | Purge t, _ => forallb (fun d => (t <=? snd (fst d))%Z) (o_devs ob)
  | _, Some (_, t, _) => forallb (fun d => (t <=? snd (fst d))%Z) (o_devs ob)
  | _, None => true
  end.

(* 3 byebye removes the named device and only it, at once *)
Definition c_byebye (o : op) (prev ob : obs) : bool :=
  match byebye_of o with
  | Some u =>
      match find_dev u (o_devs prev) with
      | Some _ =>
          perm_eqb dev_eqb (filter (fun d => negb (str_eqb (fst (fst d)) u)) (o_devs prev)) (o_devs ob)
      | None => true
      end
  | None => true
  end.

(* 4 a message that is not a valid sighting never creates or refreshes a device *)
Definition c_inert (o : op) (prev ob : obs) : bool :=
  match o, sighting o with
  | Purge _, _ => true
  | _, Some _ => true
  | _, None => forallb (fun d => existsb (dev_eqb d) (o_devs prev)) (o_devs ob)
  end.

(* 5 validity = timestamp + max-age, 900 s by default *)
Definition c_valid_to (o : op) (ob : obs) : bool :=
  match sighting o with
  | Some (u, _, vt) => match find_dev u (o_devs ob) with
                       | Some (_, v, locs) => (v =? vt)%Z && existsb (fun l => (snd l =? vt)%Z) locs
                       | None => false
                       end
  | None => true
  end.
