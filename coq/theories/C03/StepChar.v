(* C03 — what one operation does to the device map, in the specification's vocabulary. *)
From Coq Require Import List Bool NArith ZArith Lia.
From AUC Require Import Prelude.PyStr Prelude.PyDict C16.Model C16.Spec C16.Proofs
  C03.Model C03.Spec C03.Inv C03.Bridge Gen.Ssdp.
Import ListNotations.

Local Notation KS := str_eqb_spec.
Local Notation TInv := C03.Inv.Inv.

(* ------------------------------------------------------------------ the domain, as facts *)
Record msg_dom (items : list (pystr * hval)) : Prop := {
  md_ok : items_ok items;
  md_str : forall lk v, item_get items lk = Some v -> is_meta lk = false -> exists s, v = HStr s;
  md_loc : match item_str items k_location with
           | Some l => location_in_reading l = true
           | None => item_get items k_location = None
           end;
  md_udn : match item_get items k_udn, usn_udn items with
           | Some (HStr u), Some u' => u = u'
           | None, None => True
           | _, _ => False
           end;
  md_ts : exists t, item_get items k_timestamp = Some (HTime t) /\ (0 <= t <= DT_MAX)%Z
}.

(* the literals of the specification are those of the current source *)
Lemma location_ok_spec l : location_ok l = spec_location_ok l.
Proof. reflexivity. Qed.
Lemma uncache_spec cc : uncache_after cc = spec_uncache_after cc.
Proof. reflexivity. Qed.
Lemma cache_control_key_spec : cache_control_key = [99;97;99;104;101;45;99;111;110;116;114;111;108]%N.
Proof. reflexivity. Qed.

Lemma str_eqb_true a b : str_eqb a b = true -> a = b.
Proof. destruct (KS a b); congruence. Qed.

Lemma msg_dom_of items :
  (nodupb str_eqb (map (fun kv => lower (fst kv)) items) &&
   forallb (fun kv => is_meta (lower (fst kv)) ||
                      match snd kv with HStr _ => true | _ => false end) items &&
   match item_str items k_location with
   | Some l => location_in_reading l
   | None => match item_get items k_location with None => true | Some _ => false end
   end &&
   match item_get items k_udn, usn_udn items with
   | Some (HStr u), Some u' => str_eqb u u'
   | None, None => true
   | _, _ => false
   end &&
   match item_get items k_timestamp with
   | Some (HTime t) => (0 <=? t)%Z && (t <=? DT_MAX)%Z
   | _ => false
   end) = true -> msg_dom items.
Proof.
  intros H. apply andb_true_iff in H as [H Hts]. apply andb_true_iff in H as [H Hudn].
  apply andb_true_iff in H as [H Hloc]. apply andb_true_iff in H as [Hnd Hstr].
  constructor.
  - exact Hnd.
  - intros lk v Hg Hm. unfold item_get in Hg. apply (dlast_In str_eqb KS) in Hg.
    apply in_map_iff in Hg as [[k w] [Heq Hin]]. cbn in Heq. inversion Heq; subst.
    rewrite forallb_forall in Hstr. specialize (Hstr _ Hin). cbn in Hstr. rewrite Hm in Hstr. cbn in Hstr.
    destruct v; try discriminate. eauto.
  - destruct (item_str items k_location); [exact Hloc|]. destruct (item_get items k_location); [discriminate|reflexivity].
  - destruct (item_get items k_udn) as [[u| |]|], (usn_udn items); try discriminate; auto.
    now apply str_eqb_true.
  - destruct (item_get items k_timestamp) as [[|t|]|]; try discriminate.
    exists t. split; [reflexivity|]. apply andb_true_iff in Hts as [A B]. lia.
Qed.

Lemma op_dom_adv items : op_in_domain (Adv items) = true -> msg_dom items.
Proof. apply msg_dom_of. Qed.
Lemma op_dom_srch items : op_in_domain (Srch items) = true -> msg_dom items.
Proof. apply msg_dom_of. Qed.

Section Char.
  Variable ipver : pystr -> option N.

  Section Msg.
    Variable items : list (pystr * hval).
    Variable h : hdrs.
    Hypothesis D : msg_dom items.
    Hypothesis R : reads_as h items.

    Lemma rd_str lk : tracker_reads lk = true -> hstr h lk = item_str items lk.
    Proof. intros Hne. unfold hstr, item_str. now rewrite (R lk Hne). Qed.

    Lemma truthy_plain lk : tracker_reads lk = true -> is_meta lk = false ->
      htruthy h lk = nonempty (item_str items lk).
    Proof.
      intros Hne Hm. unfold htruthy, nonempty, item_str. rewrite (R lk Hne).
      destruct (item_get items lk) as [v|] eqn:E; [|reflexivity].
      destruct (md_str _ D _ _ E Hm) as [s ->]. destruct s; reflexivity.
    Qed.

    Lemma usn_udn_inv u : usn_udn items = Some u ->
      exists c r, item_str items k_usn = Some (c :: r) /\ udn_from_usn (c :: r) = Some u.
    Proof.
      unfold usn_udn. destruct (item_str items k_usn) as [[|c r]|]; try discriminate.
      intros H. eauto.
    Qed.

    Lemma truthy_udn : htruthy h k_udn = match usn_udn items with Some _ => true | None => false end.
    Proof.
      unfold htruthy. rewrite (R k_udn eq_refl). pose proof (md_udn _ D) as M.
      destruct (item_get items k_udn) as [[u| |]|]; destruct (usn_udn items) as [u'|] eqn:E;
        try contradiction; try reflexivity.
      subst u'. destruct (usn_udn_inv _ E) as [c [r [_ Hu]]]. apply udn_nonempty in Hu.
      destruct u; [congruence | reflexivity].
    Qed.

    Lemma loc_read : location_of h = msg_loc items.
    Proof. unfold location_of, msg_loc. now rewrite (rd_str k_location eq_refl). Qed.

    Lemma loc_ok_good : location_ok (msg_loc items) = good_location (msg_loc items).
    Proof.
      pose proof (md_loc _ D) as M. unfold msg_loc. destruct (item_str items k_location) as [l|].
      - unfold location_in_reading in M. rewrite location_ok_spec. now apply eqb_prop in M.
      - reflexivity.
    Qed.

    Lemma ts_read : ts_of h = item_time items.
    Proof. unfold ts_of, item_time. now rewrite (R k_timestamp eq_refl). Qed.

    Lemma vt_read : extract_valid_to h (item_time items) = spec_valid_to items.
    Proof.
      unfold extract_valid_to, spec_valid_to.
      rewrite (rd_str cache_control_key eq_refl), uncache_spec, cache_control_key_spec. reflexivity.
    Qed.

    Lemma ts_range : (0 <= item_time items <= DT_MAX)%Z.
    Proof. destruct (md_ts _ D) as [t [E Ht]]. unfold item_time. now rewrite E. Qed.

    (* the spec's validity is not before the time stamp *)
    Lemma uncache_nonneg cc age : spec_uncache_after cc = Some age -> (0 <= age)%Z.
    Proof.
      unfold spec_uncache_after. destruct (search_max_age _ cc) as [n|].
      - destruct (n <=? TD_MAX_SECONDS)%N; [|discriminate]. intros H; inversion H. lia.
      - intros H; inversion H. lia.
    Qed.

    Lemma vt_ge_ts : (item_time items <= spec_valid_to items)%Z.
    Proof.
      pose proof ts_range as T. unfold spec_valid_to.
      destruct (spec_uncache_after _) as [age|] eqn:E; [|lia].
      apply uncache_nonneg in E. destruct (item_time items + age >? DT_MAX)%Z eqn:G; lia.
    Qed.

    (* _see_device on a message naming a uuid device *)
    Lemma see_device_char t u : TInv t -> usn_udn items = Some u ->
      exists t' nl, see_device ipver t h = (t', Some (u, nl)) /\ TInv t' /\
        (exists d1, In (u, d1) (devices t') /\ d_valid_to d1 = spec_valid_to items /\
                    dget str_eqb (d_locs d1) (msg_loc items) = Some (spec_valid_to items) /\
                    d_search d1 = fresh_or (purge_devices t (item_time items)) u d_search /\
                    d_adv d1 = fresh_or (purge_devices t (item_time items)) u d_adv) /\
        (forall u' d', u' <> u ->
           (In (u', d') (devices t') <-> In (u', d') (devices (purge_devices t (item_time items))))).
    Proof.
      intros Hi Hu. destruct (usn_udn_inv _ Hu) as [c [r [Hs Hd]]].
      destruct (see_device ipver t h) as [t' [[u0 nl]|]] eqn:E.
      - destruct (see_device_Some _ _ _ _ _ _ Hi E) as [Hi' [[usn [Hus Hud]] [Hd1 Hoth]]].
        rewrite (rd_str k_usn eq_refl), Hs in Hus. inversion Hus; subst usn.
        assert (u0 = u) by congruence. subst u0.
        rewrite ts_read, vt_read, loc_read in *.
        exists t', nl. auto.
      - exfalso. unfold see_device in E. rewrite (rd_str k_usn eq_refl), Hs, Hd in E. discriminate.
    Qed.
  End Msg.
End Char.

Lemma sdel_absent (V : Type) (ds : dict pystr V) u : dget str_eqb ds u = None -> sdel ds u = ds.
Proof.
  unfold sdel. induction ds as [|[k v] r IH]; cbn; [reflexivity|].
  destruct (str_eqb k u); [discriminate|]. intros H. now rewrite IH.
Qed.

Section Char2.
  Variable ipver : pystr -> option N.

  Definition sight_facts (t t' : tracker) (u : pystr) (ts vt : Z) : Prop :=
    (exists d, In (u, d) (devices t') /\ d_valid_to d = vt /\
               exists loc, dget str_eqb (d_locs d) loc = Some vt) /\
    (forall u' d', u' <> u ->
       (In (u', d') (devices t') <-> In (u', d') (devices (purge_devices t ts)))).

  Lemma upd_keeps t1 u d1 f vt :
    TInv t1 -> In (u, d1) (devices t1) -> d_valid_to d1 = vt ->
    (exists loc, dget str_eqb (d_locs d1) loc = Some vt) ->
    (forall d, d_valid_to (f d) = d_valid_to d /\ d_locs (f d) = d_locs d) ->
    forall t ts,
      (forall u' d', u' <> u -> (In (u', d') (devices t1) <-> In (u', d') (devices (purge_devices t ts)))) ->
      sight_facts t (upd_device t1 u f) u ts vt.
  Proof.
    intros Hi Hin Hv Hl Hf t ts Hoth. pose proof (inv_nodup _ Hi) as Hnd. split.
    - exists (f d1). destruct (Hf d1) as [Fv Fl]. split; [|split].
      + apply upd_device_In; [exact Hnd|]. left. split; [reflexivity|]. eauto.
      + congruence.
      + now rewrite Fl.
    - intros u' d' Hne. rewrite upd_device_In by exact Hnd. rewrite <- (Hoth u' d' Hne). intuition congruence.
  Qed.

  Section Msg2.
    Variable items : list (pystr * hval).
    Variable h : hdrs.
    Hypothesis D : msg_dom items.
    Hypothesis R : reads_as h items.

    Lemma see_advertisement_char t b : TInv t -> nonempty (item_str items k_nts) = true ->
      match sighting_items items (item_str items k_nt) with
      | Some (u, ts, vt) => sight_facts t (fst (see_advertisement ipver t h b)) u ts vt
      | None => fst (see_advertisement ipver t h b) = t
      end.
    Proof.
      intros Hi Hnts. unfold see_advertisement, valid_advertisement_headers.
      rewrite (truthy_udn items h D R), (truthy_plain items h D R k_nt eq_refl eq_refl),
        (truthy_plain items h D R k_nts eq_refl eq_refl), Hnts, (loc_read items h R),
        (loc_ok_good items D).
      unfold sighting_items. destruct (usn_udn items) as [u|] eqn:Eu; [|reflexivity].
      destruct (item_str items k_nt) as [[|c r]|] eqn:Ent; try reflexivity.
      cbn [nonempty andb]. destruct (good_location (msg_loc items)); [|reflexivity]. cbn [negb].
      destruct (see_device_char ipver items h R t u Hi Eu) as [t1 [nl [E [Hi1 [[d1 [Hin [Hv [Hl _]]]] Hoth]]]]].
      rewrite E, (rd_str items h R k_nt eq_refl), Ent.
      pose proof (In_dget str_eqb KS _ _ _ (inv_nodup _ Hi1) Hin) as Hg. unfold sget. rewrite Hg. cbn [fst].
      eapply upd_keeps; eauto; try (intros dd; split; reflexivity).
    Qed.

    Lemma see_search_char t : TInv t ->
      match sighting_items items (item_str items k_st) with
      | Some (u, ts, vt) => sight_facts t (fst (see_search ipver t h)) u ts vt
      | None => fst (see_search ipver t h) = t
      end.
    Proof.
      intros Hi. unfold see_search, valid_search_headers.
      rewrite (truthy_udn items h D R), (truthy_plain items h D R k_st eq_refl eq_refl),
        (loc_read items h R), (loc_ok_good items D).
      unfold sighting_items. destruct (usn_udn items) as [u|] eqn:Eu; [|reflexivity].
      destruct (item_str items k_st) as [[|c r]|] eqn:Est; try reflexivity.
      cbn [nonempty andb]. destruct (good_location (msg_loc items)); [|reflexivity]. cbn [negb].
      destruct (see_device_char ipver items h R t u Hi Eu) as [t1 [nl [E [Hi1 [[d1 [Hin [Hv [Hl _]]]] Hoth]]]]].
      rewrite E, (rd_str items h R k_st eq_refl), Est.
      pose proof (In_dget str_eqb KS _ _ _ (inv_nodup _ Hi1) Hin) as Hg. unfold sget. rewrite Hg. cbn [fst].
      eapply upd_keeps; eauto; try (intros dd; split; reflexivity).
    Qed.

    Lemma unsee_char t : nonempty (item_str items k_nts) = true ->
      devices (fst (unsee_advertisement t h)) =
      match usn_udn items, item_str items k_nt with
      | Some u, Some (_ :: _) => sdel (devices t) u
      | _, _ => devices t
      end.
    Proof.
      intros Hnts. unfold unsee_advertisement, valid_byebye_headers.
      rewrite (truthy_udn items h D R), (truthy_plain items h D R k_nt eq_refl eq_refl),
        (truthy_plain items h D R k_nts eq_refl eq_refl), Hnts.
      destruct (usn_udn items) as [u|] eqn:Eu; [|reflexivity].
      destruct (item_str items k_nt) as [[|c r]|] eqn:Ent; try reflexivity.
      cbn [nonempty andb negb]. destruct (usn_udn_inv items u Eu) as [c0 [r0 [Hs Hd]]].
      rewrite (rd_str items h R k_usn eq_refl), Hs, Hd, (rd_str items h R k_nt eq_refl), Ent.
      destruct (sget (devices t) u) eqn:Eg; [reflexivity|]. cbn [fst]. symmetry. now apply sdel_absent.
    Qed.
  End Msg2.

  (* ---------------------------------------------------------------- one step of the listener *)
  Definition step_effect (t t' : tracker) (o : op) : Prop :=
    match sighting o with
    | Some (u, ts, vt) => op_time o = Some ts /\ sight_facts t t' u ts vt
    | None =>
        match byebye_of o with
        | Some u => devices t' = sdel (devices t) u
        | None => match o with Purge now => t' = purge_devices t now | _ => devices t' = devices t end
        end
    end.

  Lemma sighting_items_time items ty u ts vt :
    sighting_items items ty = Some (u, ts, vt) -> ts = item_time items.
  Proof.
    unfold sighting_items. destruct (usn_udn items); [|discriminate].
    destruct ty as [[|? ?]|]; try discriminate.
    destruct (good_location (msg_loc items)); [|discriminate]. intros H; now inversion H.
  Qed.

  (* close a branch where the model ran see_advertisement / see_search (fact C) *)
  Ltac fin_sight C :=
    cbn [fst] in *; cbv beta iota in *;
    match goal with
    | |- context [sighting_items ?i ?ty] =>
        let Es := fresh "Es" in
        destruct (sighting_items i ty) as [[[? ?] ?]|] eqn:Es;
        [ apply sighting_items_time in Es; subst; split; [reflexivity | exact C]
        | rewrite C; reflexivity ]
    end.

  Ltac fin_bye C :=
    cbn [fst] in *; cbv beta iota in *;
    repeat match type of C with
           | context [match ?x with _ => _ end] => destruct x
           end;
    cbv beta iota; exact C.

  Theorem step_char t o : TInv t -> op_in_domain o = true ->
    step_effect t (fst (fst (step ipver [] t o))) o.
  Proof.
    intros Hi Hd. destruct o as [items|items|nw].
    - (* advertisement listener *)
      pose proof (op_dom_adv _ Hd) as D. destruct (mk_hdrs_ok items (md_ok _ D)) as [Hi0 Hg0].
      destruct (sourced_reads items src_advertisement (md_ok _ D)) as [_ R].
      unfold step_effect, sighting, byebye_of, msg_kind, op_type, msg_kind, op_items, op_time.
      cbn [step]. unfold on_adv, is_discover, hstr. rewrite !Hg0. unfold item_str.
      assert (Main :
        match item_get items k_nts with
        | Some (HStr s) =>
            (str_eqb s nts_alive = true -> forall C' : True, True) /\ True
        | _ => True
        end) by (destruct (item_get items k_nts) as [[?| |]|]; auto).
      clear Main.
      destruct (match item_get items k_man with Some (HStr s) => Some s | _ => None end) as [m|] eqn:Em;
        [destruct (str_eqb m ssdp_discover); [reflexivity|]|];
        (destruct (item_get items k_nts) as [[s| |]|] eqn:En; try reflexivity;
         destruct (str_eqb s nts_alive) eqn:E1;
         [ apply str_eqb_true in E1; subst s;
           pose proof (see_advertisement_char items _ D R t false Hi) as C;
           unfold item_str in C; rewrite En in C; specialize (C eq_refl);
           destruct (see_advertisement ipver t _ false) as [t' [[u ty]|]]; fin_sight C
         | destruct (str_eqb s nts_byebye) eqn:E2;
           [ apply str_eqb_true in E2; subst s;
             pose proof (unsee_char items _ D R t) as C; unfold item_str in C; rewrite En in C;
             specialize (C eq_refl);
             destruct (unsee_advertisement t _) as [t' [[[u ty] d]|]]; fin_bye C
           | destruct (str_eqb s nts_update) eqn:E3; [|reflexivity];
             apply str_eqb_true in E3; subst s;
             pose proof (see_advertisement_char items _ D R t true Hi) as C;
             unfold item_str in C; rewrite En in C; specialize (C eq_refl);
             destruct (see_advertisement ipver t _ true) as [t' [[u ty]|]]; fin_sight C ] ]).
    - (* search listener *)
      pose proof (op_dom_srch _ Hd) as D. destruct (mk_hdrs_ok items (md_ok _ D)) as [Hi0 Hg0].
      destruct (sourced_reads items src_search (md_ok _ D)) as [_ R].
      unfold step_effect, sighting, byebye_of, msg_kind, op_type, msg_kind, op_items, op_time.
      cbn [step]. unfold on_srch, is_discover, hstr. rewrite !Hg0.
      assert (Ht : htruthy (mk_hdrs items) k_nts = nonempty (item_str items k_nts)).
      { unfold htruthy, nonempty, item_str. rewrite Hg0.
        destruct (item_get items k_nts) as [v|] eqn:E; [|reflexivity].
        destruct (md_str _ D _ _ E eq_refl) as [s ->]. destruct s; reflexivity. }
      rewrite Ht. clear Ht. unfold item_str.
      destruct (match item_get items k_man with Some (HStr s) => Some s | _ => None end) as [m|] eqn:Em;
        [destruct (str_eqb m ssdp_discover); [reflexivity|]|];
        (destruct (nonempty (match item_get items k_nts with Some (HStr s) => Some s | _ => None end));
         [reflexivity|]; cbn [negb];
         pose proof (see_search_char items _ D R t Hi) as C; unfold item_str in C;
         destruct (see_search ipver t _) as [t' [[[u ty] s]|]]; fin_sight C).
    - reflexivity.
  Qed.
End Char2.
