(* C03/C04 — executable model of the SSDP device tracker and the three listener layers:
   ssdp_listener.py (valid_*_headers, extract_uncache_after, extract_valid_to, SsdpDevice,
   same_headers_differ, location_changed, SsdpDeviceTracker, SsdpListener._on_xxx handlers),
   advertisement.py:_on_data, search.py:_on_data.  Header maps are C16 bodies.  Definitions only. *)
From Coq Require Import List Bool NArith ZArith.
From AUC Require Import Prelude.PyStr Prelude.PyDict C16.Model Gen.Ssdp.
Import ListNotations.
Local Open Scope N_scope.

(* ------------------------------------------------------------------ header values *)
Inductive hval :=
| HStr (s : pystr)
| HTime (t : Z)            (* datetime, microseconds since datetime.min *)
| HTok (n : N).            (* any other metadata object (address tuples, port, None), by identity *)

Definition hval_eqb (a b : hval) : bool :=
  match a, b with
  | HStr x, HStr y => str_eqb x y
  | HTime x, HTime y => (x =? y)%Z
  | HTok x, HTok y => x =? y
  | _, _ => false
  end.

Definition lower_ext (c : N) : N := c.          (* header names are ASCII tokens *)
Definition lower : pystr -> pystr := lower_with lower_ext.
Definition hdrs := body pystr hval.
Definition hget (h : hdrs) (lk : pystr) : option hval := b_get_lower str_eqb h lk.
Definition hstr (h : hdrs) (lk : pystr) : option pystr :=
  match hget h lk with Some (HStr s) => Some s | _ => None end.
(* headers.get_lower(k) is truthy: a non-empty string (other objects count as truthy) *)
Definition htruthy (h : hdrs) (lk : pystr) : bool :=
  match hget h lk with Some (HStr []) => false | Some _ => true | None => false end.

Definition is_meta (lk : pystr) : bool := match lk with c :: _ => c =? 95 | [] => false end.

(* ------------------------------------------------------------------ strings *)
Fixpoint contains (needle hay : pystr) : bool :=
  match hay with
  | [] => match needle with [] => true | _ => false end
  | _ :: r => starts_with needle hay || contains needle r
  end.

(* str.partition(sep)[0] *)
Fixpoint before_sep (sep s : pystr) : pystr :=
  match s with
  | [] => []
  | c :: r => if starts_with sep s then [] else c :: before_sep sep r
  end.

Definition s_uuid : pystr := [117;117;105;100;58].          (* "uuid:" *)
(* ssdp.py:udn_from_usn; lower() of the prefix is ASCII-exact (no other scalar lowers to u,i,d,:) *)
Definition udn_from_usn (usn : pystr) : option pystr :=
  if starts_with s_uuid (lower_with (fun c => c) (firstn 5 usn))
  then Some (before_sep [58;58] usn) else None.

(* ------------------------------------------------------------------ max-age *)
Definition is_space (c : N) : bool :=
  ((9 <=? c) && (c <=? 13)) || ((28 <=? c) && (c <=? 32)) || (c =? 133) || (c =? 160) ||
  (c =? 5760) || ((8192 <=? c) && (c <=? 8202)) || (c =? 8232) || (c =? 8233) || (c =? 8239) ||
  (c =? 8287) || (c =? 12288).
(* \d for str patterns: ASCII plus the two non-ASCII digit blocks the generators use *)
Definition digit_val (c : N) : option N :=
  if (48 <=? c) && (c <=? 57) then Some (c - 48)
  else if (1632 <=? c) && (c <=? 1641) then Some (c - 1632)
  else if (65296 <=? c) && (c <=? 65305) then Some (c - 65296)
  else None.
Fixpoint skip_spaces (s : pystr) : pystr :=
  match s with c :: r => if is_space c then skip_spaces r else s | [] => [] end.
Fixpoint take_number (s : pystr) (acc : option N) : option N :=
  match s with
  | c :: r => match digit_val c with
              | Some d => take_number r (Some (10 * match acc with Some a => a | None => 0 end + d))
              | None => acc
              end
  | [] => acc
  end.
(* case-insensitive literal prefix (ASCII letters) *)
Fixpoint ci_prefix (p s : pystr) : option pystr :=
  match p, s with
  | [], _ => Some s
  | x :: p', y :: s' => if lower_char (fun c => c) y =? x then ci_prefix p' s' else None
  | _ :: _, [] => None
  end.
(* CACHE_CONTROL_RE.search: leftmost match of  <word>\s*=\s*(\d+)  *)
Definition match_here (word s : pystr) : option N :=
  match ci_prefix word s with
  | Some r => match skip_spaces r with
              | 61 :: r' => take_number (skip_spaces r') None
              | _ => None
              end
  | None => None
  end.
Fixpoint search_max_age (word s : pystr) : option N :=
  match match_here word s with
  | Some n => Some n
  | None => match s with [] => None | _ :: r => search_max_age word r end
  end.

Definition DT_MAX : Z := 315537897599999999%Z.          (* datetime.max *)
Definition TD_MAX_SECONDS : N := 86399999999999.        (* largest n with timedelta(seconds=n) *)

(* extract_uncache_after: None = timedelta.max *)
Definition uncache_after (cc : pystr) : option Z :=
  match search_max_age cache_control_word cc with
  | Some n => if n <=? TD_MAX_SECONDS then Some (Z.of_N n * 1000000)%Z else None
  | None => Some (Z.of_N default_max_age * 1000000)%Z
  end.
Definition extract_valid_to (h : hdrs) (ts : Z) : Z :=
  match uncache_after (match hstr h cache_control_key with Some s => s | None => [] end) with
  | Some age => if (ts + age >? DT_MAX)%Z then DT_MAX else (ts + age)%Z
  | None => DT_MAX
  end.

(* ------------------------------------------------------------------ validity predicates *)
Definition k_udn : pystr := [95;117;100;110].
Definition k_st : pystr := [115;116].
Definition k_nt : pystr := [110;116].
Definition k_nts : pystr := [110;116;115].
Definition k_usn : pystr := [117;115;110].
Definition k_man : pystr := [109;97;110].
Definition k_location : pystr := [108;111;99;97;116;105;111;110].
Definition k_timestamp : pystr := [95;116;105;109;101;115;116;97;109;112].
Definition k_source : pystr := [95;115;111;117;114;99;101].
Definition k_host : pystr := [95;104;111;115;116].

Definition location_of (h : hdrs) : pystr := match hstr h k_location with Some s => s | None => [] end.
Definition location_ok (loc : pystr) : bool :=
  match loc with [] => false | _ => true end &&
  starts_with loc_required_prefix loc &&
  negb (existsb (fun bad => contains bad loc) loc_forbidden).

Definition valid_search_headers (h : hdrs) : bool :=
  htruthy h k_udn && htruthy h k_st && location_ok (location_of h).
Definition valid_advertisement_headers (h : hdrs) : bool :=
  htruthy h k_udn && htruthy h k_nt && htruthy h k_nts && location_ok (location_of h).
Definition valid_byebye_headers (h : hdrs) : bool :=
  htruthy h k_udn && htruthy h k_nt && htruthy h k_nts.

(* ------------------------------------------------------------------ devices *)
Record device := {
  d_valid_to : Z;
  d_locs : dict pystr Z;                  (* location -> valid_to *)
  d_search : dict pystr hdrs;             (* type -> latest search headers *)
  d_adv : dict pystr hdrs;                (* type -> latest advertisement headers *)
  d_last_seen : Z
}.
Record tracker := { devices : dict pystr device; next_valid_to : option Z }.
Definition tracker0 : tracker := {| devices := []; next_valid_to := None |}.

Definition sget {V} := @dget pystr str_eqb V.
Definition sset {V} := @dset pystr str_eqb V.
Definition sdel {V} := @ddel pystr str_eqb V.

Definition purge_locations (d : device) (now : Z) : device :=
  {| d_valid_to := d_valid_to d;
     d_locs := filter (fun kv => negb (now >? snd kv)%Z) (d_locs d);
     d_search := d_search d; d_adv := d_adv d; d_last_seen := d_last_seen d |}.

(* the scan of purge_devices: keep, running minimum, locations purged only where the minimum drops *)
Fixpoint purge_scan (now : Z) (ds : dict pystr device) (nv : option Z)
  : dict pystr device * option Z :=
  match ds with
  | [] => ([], nv)
  | (u, d) :: r =>
      if (now >? d_valid_to d)%Z then purge_scan now r nv
      else
        let lowers := match nv with None => true | Some m => (d_valid_to d <? m)%Z end in
        if lowers then
          let '(r', nv') := purge_scan now r (Some (d_valid_to d)) in
          ((u, purge_locations d now) :: r', nv')
        else
          let '(r', nv') := purge_scan now r nv in ((u, d) :: r', nv')
  end.

Definition purge_devices (t : tracker) (now : Z) : tracker :=
  match next_valid_to t with
  | Some m => if (m >? now)%Z then t
              else let '(ds, nv) := purge_scan now (devices t) None in
                   {| devices := ds; next_valid_to := nv |}
  | None => let '(ds, nv) := purge_scan now (devices t) None in
            {| devices := ds; next_valid_to := nv |}
  end.

Section WithIpVersion.
  (* ip_version_from_location: urlparse + ip_address, an oracle (no law assumed) *)
  Variable ipver : pystr -> option N.

  Definition location_changed (d : device) (h : hdrs) : bool :=
    match location_of h with
    | [] => false
    | loc =>
        match d_locs d with
        | [] => true
        | locs =>
            if dhas str_eqb locs loc then false
            else match ipver loc with
                 | None => false
                 | Some v => existsb (fun kv => match ipver (fst kv) with
                                                | Some w => w =? v
                                                | None => false
                                                end) locs
                 end
        end
    end.

  Definition ts_of (h : hdrs) : Z := match hget h k_timestamp with Some (HTime t) => t | _ => 0%Z end.

  (* _see_device: (tracker, Some (udn, device before add_location?, new_location)) *)
  Definition see_device (t : tracker) (h : hdrs) : tracker * option (pystr * bool) :=
    let now := ts_of h in
    let t1 := purge_devices t now in
    match hstr h k_usn with
    | Some (c :: r) =>
        match udn_from_usn (c :: r) with
        | Some udn =>
            let valid_to := extract_valid_to h now in
            let d0 := match sget (devices t1) udn with
                      | Some d => {| d_valid_to := valid_to; d_locs := d_locs d; d_search := d_search d;
                                     d_adv := d_adv d; d_last_seen := d_last_seen d |}
                      | None => {| d_valid_to := valid_to; d_locs := []; d_search := []; d_adv := [];
                                   d_last_seen := 0%Z |}
                      end in
            let new_loc := location_changed d0 h in
            let d1 := {| d_valid_to := valid_to;
                         d_locs := sset (d_locs d0) (location_of h) valid_to;
                         d_search := d_search d0; d_adv := d_adv d0; d_last_seen := now |} in
            let nv := match next_valid_to t1 with
                      | Some m => if (m >? valid_to)%Z then Some valid_to else Some m
                      | None => Some valid_to
                      end in
            ({| devices := sset (devices t1) udn d1; next_valid_to := nv |}, Some (udn, new_loc))
        | None => (t1, None)
        end
    | _ => (t1, None)
    end.

  (* lower_header != "" and lower_header[0] == "_", or in IGNORED_HEADERS *)
  Definition ignored (lk : pystr) : bool := is_meta lk || existsb (str_eqb lk) ignored_headers.

  (* same_headers_differ(current, new) *)
  Definition same_headers_differ (cur new : hdrs) : bool :=
    existsb (fun e =>
               let lk := fst e in
               if ignored lk then false
               else match dget str_eqb (bcmap new) lk with
                    | Some nk =>
                        match dget str_eqb (bdata cur) (snd e), dget str_eqb (bdata new) nk with
                        | Some a, Some b => negb (hval_eqb a b)
                        | _, _ => false
                        end
                    | None => false
                    end) (bcmap cur).

  Inductive source := SearchChanged | SearchAlive | AdvAlive | AdvByebye | AdvUpdate.
  (* what the user callback receives: device, type, source *)
  Definition notification := (pystr * pystr * source)%type.

  Definition upd_device (t : tracker) (udn : pystr) (f : device -> device) : tracker :=
    match sget (devices t) udn with
    | Some d => {| devices := sset (devices t) udn (f d); next_valid_to := next_valid_to t |}
    | None => t
    end.

  Definition see_search (t : tracker) (h : hdrs) : tracker * option notification :=
    if negb (valid_search_headers h) then (t, None) else
    let udn0 := match hstr h k_udn with Some s => s | None => [] end in
    let is_new_device := negb (dhas str_eqb (devices t) udn0) in
    match see_device t h with
    | (t1, Some (udn, new_loc)) =>
        match hstr h k_st, sget (devices t1) udn with
        | Some st, Some d =>
            let is_new_service := negb (dhas str_eqb (d_adv d) st) && negb (dhas str_eqb (d_search d) st) in
            let differ := match sget (d_search d) st with
                          | Some old => same_headers_differ old h
                          | None => false
                          end in
            let changed := is_new_device || is_new_service || new_loc || differ in
            let t2 := upd_device t1 udn (fun d =>
                        {| d_valid_to := d_valid_to d; d_locs := d_locs d;
                           d_search := sset (d_search d) st h; d_adv := d_adv d;
                           d_last_seen := d_last_seen d |}) in
            (t2, Some (udn, st, if changed then SearchChanged else SearchAlive))
        | _, _ => (t1, None)
        end
    | (t1, None) => (t1, None)
    end.

  (* see_advertisement: returns propagate flag *)
  Definition see_advertisement (t : tracker) (h : hdrs) (is_update : bool)
    : tracker * option (pystr * pystr) :=
    if negb (valid_advertisement_headers h) then (t, None) else
    let udn0 := match hstr h k_udn with Some s => s | None => [] end in
    let is_new_device := negb (dhas str_eqb (devices t) udn0) in
    match see_device t h with
    | (t1, Some (udn, new_loc)) =>
        match hstr h k_nt, sget (devices t1) udn with
        | Some nt, Some d =>
            let is_new_service := negb (dhas str_eqb (d_adv d) nt) && negb (dhas str_eqb (d_search d) nt) in
            let differ := match sget (d_adv d) nt with
                          | Some old => same_headers_differ old h
                          | None => false
                          end in
            let nts_is_update := match hstr h k_nts with Some s => str_eqb s nts_update | None => false end in
            let propagate := nts_is_update || is_new_device || is_new_service || new_loc || differ in
            let t2 := upd_device t1 udn (fun d =>
                        {| d_valid_to := d_valid_to d; d_locs := d_locs d; d_search := d_search d;
                           d_adv := sset (d_adv d) nt h; d_last_seen := d_last_seen d |}) in
            (t2, if propagate then Some (udn, nt) else None)
        | _, _ => (t1, None)
        end
    | (t1, None) => (t1, None)
    end.

  (* unsee_advertisement: the removed device (with the byebye headers stored) is handed to the callback *)
  Definition unsee_advertisement (t : tracker) (h : hdrs) : tracker * option (pystr * pystr * device) :=
    if negb (valid_byebye_headers h) then (t, None) else
    match hstr h k_usn with
    | Some (c :: r) =>
        match udn_from_usn (c :: r) with
        | Some udn =>
            match sget (devices t) udn, hstr h k_nt with
            | Some d, Some nt =>
                let d' := {| d_valid_to := d_valid_to d; d_locs := d_locs d; d_search := d_search d;
                             d_adv := sset (d_adv d) nt h; d_last_seen := d_last_seen d |} in
                ({| devices := sdel (devices t) udn; next_valid_to := next_valid_to t |},
                 Some (udn, nt, d'))
            | _, _ => (t, None)
            end
        | None => (t, None)
        end
    | _ => (t, None)
    end.

  (* SsdpDevice.combined_headers(type): search overlaid by advertisement, minus _source when both *)
  Definition combined_headers (d : device) (ty : pystr) : option hdrs :=
    match sget (d_search d) ty, sget (d_adv d) ty with
    | Some s, Some a =>
        match b_combine str_eqb s a with
        | Some c => match b_del_lower str_eqb c k_source with Some c' => Some c' | None => None end
        | None => None
        end
    | Some s, None => Some s
    | None, Some a => Some a
    | None, None => b_init str_eqb lower []
    end.

  (* ---------------------------------------------------------------- listener layers *)
  Inductive op :=
  | Adv (items : list (pystr * hval))     (* datagram handed to the advertisement listener *)
  | Srch (items : list (pystr * hval))    (* datagram handed to the search listener *)
  | Purge (now : Z).                       (* tracker.purge_devices(now) *)

  Definition with_source (h : hdrs) (src : pystr) : hdrs :=
    match b_set str_eqb lower h k_source (HStr src) with Some h' => h' | None => h end.

  Definition is_discover (h : hdrs) : bool :=
    match hstr h k_man with Some s => str_eqb s ssdp_discover | None => false end.

  (* advertisement.py:_on_data then SsdpListener._on_alive/_on_update/_on_byebye *)
  Definition on_adv (t : tracker) (h : hdrs) : tracker * option notification * option device :=
    if is_discover h then (t, None, None) else
    match hget h k_nts with
    | None => (t, None, None)
    | Some ntsv =>
        let h := with_source h src_advertisement in
        let is s := match ntsv with HStr x => str_eqb x s | _ => false end in
        if is nts_alive then
          match see_advertisement t h false with
          | (t', Some (u, ty)) => (t', Some (u, ty, AdvAlive), sget (devices t') u)
          | (t', None) => (t', None, None)
          end
        else if is nts_byebye then
          match unsee_advertisement t h with
          | (t', Some (u, ty, d)) => (t', Some (u, ty, AdvByebye), Some d)
          | (t', None) => (t', None, None)
          end
        else if is nts_update then
          match see_advertisement t h true with
          | (t', Some (u, ty)) => (t', Some (u, ty, AdvUpdate), sget (devices t') u)
          | (t', None) => (t', None, None)
          end
        else (t, None, None)
    end.

  (* search.py:_on_data then SsdpListener._on_search; target_host = "" for multicast targets *)
  Definition on_srch (target_host : pystr) (t : tracker) (h : hdrs)
    : tracker * option notification * option device :=
    if is_discover h then (t, None, None) else
    if htruthy h k_nts then (t, None, None) else
    let h := with_source h src_search in
    let host_ok := match target_host with
                   | [] => true
                   | _ => match hget h k_host with
                          | Some (HStr x) => str_eqb x target_host
                          | _ => false
                          end
                   end in
    if negb host_ok then (t, None, None) else
    match see_search t h with
    | (t', Some (u, ty, src)) => (t', Some (u, ty, src), sget (devices t') u)
    | (t', None) => (t', None, None)
    end.

  Definition mk_hdrs (items : list (pystr * hval)) : hdrs :=
    match b_init str_eqb lower items with Some b => b | None => {| bdata := []; bcmap := [] |} end.

  Definition step (target_host : pystr) (t : tracker) (o : op)
    : tracker * option notification * option device :=
    match o with
    | Adv items => on_adv t (mk_hdrs items)
    | Srch items => on_srch target_host t (mk_hdrs items)
    | Purge now => (purge_devices t now, None, None)
    end.
End WithIpVersion.
