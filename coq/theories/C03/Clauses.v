(* C03 — the five clauses hold of every run of the model (induction over histories). *)
From Coq Require Import List Bool NArith ZArith Lia.
From AUC Require Import Prelude.PyStr Prelude.PyDict C16.Model C16.Spec C16.Proofs
  C03.Model C03.Spec C03.Inv C03.Bridge C03.StepChar C03.Run Gen.Ssdp.
Import ListNotations.

Local Notation KS := str_eqb_spec.
Local Notation TInv := C03.Inv.Inv.

Definition dev_view (e : pystr * device) : dev_obs := (fst e, d_valid_to (snd e), d_locs (snd e)).

Lemma str_eqb_refl s : str_eqb s s = true.
Proof. destruct (KS s s); congruence. Qed.

Lemma perm_eqb_refl (A : Type) (eqb : A -> A -> bool) (l : list A) :
  (forall x, eqb x x = true) -> perm_eqb eqb l l = true.
Proof. intros H. induction l as [|x r IH]; cbn; [reflexivity|]. now rewrite H. Qed.

Lemma dev_eqb_refl d : dev_eqb d d = true.
Proof.
  destruct d as [[u v] l]. cbn. rewrite str_eqb_refl, Z.eqb_refl. cbn.
  apply perm_eqb_refl. intros [k z]. cbn. now rewrite str_eqb_refl, Z.eqb_refl.
Qed.

Lemma find_dev_view ds u d :
  NoDup (dkeys ds) -> In (u, d) ds -> find_dev u (map dev_view ds) = Some (u, d_valid_to d, d_locs d).
Proof.
  unfold find_dev. induction ds as [|[k v] r IH]; cbn; [tauto|]. intros Hnd [Heq|Hin].
  - inversion Heq; subst. now rewrite str_eqb_refl.
  - inversion Hnd as [|? ? Hn Hr]; subst. destruct (KS k u) as [->|Hne].
    + exfalso. apply Hn. apply in_map_iff. now exists (u, d).
    + now apply IH.
Qed.

Lemma find_dev_none ds u : dget str_eqb ds u = None -> find_dev u (map dev_view ds) = None.
Proof.
  unfold find_dev. induction ds as [|[k v] r IH]; cbn; [reflexivity|].
  destruct (str_eqb k u); [discriminate | exact IH].
Qed.

(* devices that must be present *)
Definition DueInv (due : list (pystr * Z)) (t : tracker) : Prop :=
  forall u vt, In (u, vt) due -> exists d, In (u, d) (devices t) /\ d_valid_to d = vt.

Lemma purge_keeps t now u d : TInv t -> In (u, d) (devices t) -> (now <= d_valid_to d)%Z ->
  exists d', In (u, d') (devices (purge_devices t now)) /\ d_valid_to d' = d_valid_to d.
Proof.
  intros Hi Hin Hle. destruct (purge_devices_spec t now Hi) as [_ [K B]].
  destruct (B u d Hin) as [d' Hd']; [lia|]. exists d'. split; [exact Hd'|].
  destruct (K _ _ Hd') as [d0 [Hin0 [_ [Hv _]]]].
  pose proof (inv_nodup _ Hi) as Hnd.
  apply (In_dget str_eqb KS _ _ _ Hnd) in Hin. apply (In_dget str_eqb KS _ _ _ Hnd) in Hin0.
  congruence.
Qed.

Lemma purge_bound t now u d : TInv t -> In (u, d) (devices (purge_devices t now)) -> (now <= d_valid_to d)%Z.
Proof.
  intros Hi Hin. destruct (purge_devices_spec t now Hi) as [_ [K _]].
  destruct (K _ _ Hin) as [d0 [_ [Hle [Hv _]]]]. lia.
Qed.

Lemma purge_subset t now u d' : TInv t -> In (u, d') (devices (purge_devices t now)) ->
  exists d, In (u, d) (devices t) /\ d_valid_to d' = d_valid_to d /\ (d' = d \/ d' = purge_locations d now).
Proof.
  intros Hi Hin. destruct (purge_devices_spec t now Hi) as [_ [K _]].
  destruct (K _ _ Hin) as [d0 [H1 [_ [H3 [_ [_ H6]]]]]]. eauto.
Qed.

Section Run.
  Variable ipver : pystr -> option N.

  Lemma due_step due t t' o :
    TInv t -> TInv t' -> DueInv due t -> step_effect t t' o -> DueInv (step_due due o) t'.
  Proof.
    intros Hi Hi' Hdue He u vt Hin. unfold step_due in Hin. unfold step_effect in He.
    destruct (sighting o) as [[[u0 ts] vt0]|] eqn:Es.
    - destruct He as [Ht [[d1 [Hin1 [Hv1 _]]] Hoth]]. rewrite Ht in Hin.
      destruct Hin as [Heq|Hin]; [inversion Heq; subst; eauto|].
      apply filter_In in Hin as [Hin Hne]. apply filter_In in Hin as [Hin Hle].
      apply negb_true_iff in Hne. cbn in Hne, Hle.
      assert (Hu : u <> u0) by (intros ->; now rewrite str_eqb_refl in Hne).
      destruct (Hdue _ _ Hin) as [d [Hd Hv]].
      destruct (purge_keeps t ts u d Hi Hd) as [d' [Hd' Hv']]; [lia|].
      exists d'. split; [now apply Hoth | congruence].
    - assert (Hsub : forall u vt, In (u, vt) (match op_time o with
                                                | Some t0 => filter (fun e => (t0 <=? snd e)%Z) due
                                                | None => due end) -> In (u, vt) due).
      { intros u1 v1 H. destruct (op_time o); [now apply filter_In in H|exact H]. }
      destruct (byebye_of o) as [u0|] eqn:Eb.
      + apply filter_In in Hin as [Hin Hne]. apply negb_true_iff in Hne. cbn in Hne.
        assert (Hu : u <> u0) by (intros ->; now rewrite str_eqb_refl in Hne).
        destruct (Hdue _ _ (Hsub _ _ Hin)) as [d [Hd Hv]]. exists d. split; [|exact Hv].
        rewrite He. apply In_sdel; [apply Hi|]. auto.
      + destruct o as [items|items|nw].
        * destruct (Hdue _ _ (Hsub _ _ Hin)) as [d [Hd Hv]]. exists d. now rewrite He.
        * destruct (Hdue _ _ (Hsub _ _ Hin)) as [d [Hd Hv]]. exists d. now rewrite He.
        * cbn in Hin. apply filter_In in Hin as [Hin Hle]. cbn in Hle.
          destruct (Hdue _ _ Hin) as [d [Hd Hv]]. subst t'.
          destruct (purge_keeps t nw u d Hi Hd) as [d' [Hd' Hv']]; [lia|]. exists d'. split; [exact Hd'|congruence].
  Qed.

  Lemma presence_ok due t n dv : TInv t -> DueInv due t -> c_presence due (obs_of t n dv) = true.
  Proof.
    intros Hi Hdue. unfold c_presence. apply forallb_forall. intros [u vt] Hin. cbn [fst].
    destruct (Hdue _ _ Hin) as [d [Hd _]]. cbn [o_devs obs_of].
    change (map (fun e => (fst e, d_valid_to (snd e), d_locs (snd e))) (devices t)) with (map dev_view (devices t)).
    rewrite (find_dev_view _ _ _ (inv_nodup _ Hi) Hd).
    destruct (inv_locs _ Hi _ _ Hd) as [_ [loc Hl]]. destruct (d_locs d); [discriminate|reflexivity].
  Qed.

  Lemma forallb_view (P : dev_obs -> bool) ds :
    (forall u d, In (u, d) ds -> P (u, d_valid_to d, d_locs d) = true) -> forallb P (map dev_view ds) = true.
  Proof.
    intros H. apply forallb_forall. intros x Hx. apply in_map_iff in Hx as [[u d] [<- Hin]]. now apply H.
  Qed.

  Lemma purged_ok t t' o n dv : TInv t -> TInv t' -> op_in_domain o = true -> step_effect t t' o ->
    c_purged o (obs_of t' n dv) = true.
  Proof.
    intros Hi Hi' Hd He. unfold c_purged, step_effect in *. cbn [o_devs obs_of].
    change (map (fun e => (fst e, d_valid_to (snd e), d_locs (snd e))) (devices t')) with (map dev_view (devices t')).
    destruct (sighting o) as [[[u0 ts] vt0]|] eqn:Es.
    - destruct He as [Ht [[d1 [Hin1 [Hv1 _]]] Hoth]].
      assert (Hvt : (ts <= vt0)%Z).
      { unfold sighting in Es. destruct (msg_kind o); try discriminate;
          unfold sighting_items in Es; destruct (usn_udn (op_items o)); try discriminate;
          destruct (op_type o) as [[|? ?]|]; try discriminate;
          destruct (good_location _); try discriminate; inversion Es; subst;
          (destruct o as [items|items|nw]; cbn [op_items];
           [apply (vt_ge_ts items (op_dom_adv _ Hd)) | apply (vt_ge_ts items (op_dom_srch _ Hd)) | discriminate]). }
      assert (G : forallb (fun d => (ts <=? snd (fst d))%Z) (map dev_view (devices t')) = true).
      { apply forallb_view. intros u d Hin. cbn. apply Z.leb_le.
        destruct (KS u u0) as [->|Hne].
        - pose proof (inv_nodup _ Hi') as Hnd.
          apply (In_dget str_eqb KS _ _ _ Hnd) in Hin. apply (In_dget str_eqb KS _ _ _ Hnd) in Hin1.
          assert (d = d1) by congruence. subst. lia.
        - apply Hoth in Hin; [|exact Hne]. now apply purge_bound in Hin. }
      destruct o; [rewrite Es; exact G | rewrite Es; exact G | discriminate Es].
    - destruct o as [items|items|nw].
      + now rewrite Es.
      + now rewrite Es.
      + cbn in He. subst t'.
        apply forallb_view. intros u d Hin. cbn. apply Z.leb_le. now apply purge_bound in Hin.
  Qed.

  Lemma sdel_filter ds u : NoDup (dkeys ds) ->
    map dev_view (sdel ds u) = filter (fun d => negb (str_eqb (fst (fst d)) u)) (map dev_view ds).
  Proof.
    unfold sdel. induction ds as [|[k v] r IH]; cbn; [reflexivity|]. intros Hnd.
    inversion Hnd as [|? ? Hn Hr]; subst. destruct (KS k u) as [->|Hne]; cbn.
    - clear IH. assert (G : forall r', ~ In u (map fst r') ->
        map dev_view r' = filter (fun d => negb (str_eqb (fst (fst d)) u)) (map dev_view r')).
      { induction r' as [|[k' v'] r' IH']; cbn; [reflexivity|]. intros Hn'.
        destruct (KS k' u) as [->|Hne']; [exfalso; apply Hn'; now left|]. cbn. f_equal. apply IH'. tauto. }
      now apply G.
    - f_equal. now apply IH.
  Qed.

  Lemma byebye_ok t t' o n dv n0 dv0 : TInv t -> step_effect t t' o ->
    c_byebye o (obs_of t n0 dv0) (obs_of t' n dv) = true.
  Proof.
    intros Hi He. unfold c_byebye, step_effect in *.
    destruct (byebye_of o) as [u|] eqn:Eb; [|reflexivity].
    assert (Es : sighting o = None).
    { unfold byebye_of in Eb. unfold sighting. destruct (msg_kind o); try discriminate; reflexivity. }
    rewrite Es in He. cbn [o_devs obs_of].
    change (map (fun e => (fst e, d_valid_to (snd e), d_locs (snd e))) (devices t)) with (map dev_view (devices t)).
    change (map (fun e => (fst e, d_valid_to (snd e), d_locs (snd e))) (devices t')) with (map dev_view (devices t')).
    destruct (find_dev u (map dev_view (devices t))); [|reflexivity].
    rewrite He, (sdel_filter _ u (inv_nodup _ Hi)). apply perm_eqb_refl. apply dev_eqb_refl.
  Qed.

  Lemma inert_ok t t' o n dv n0 dv0 : TInv t -> step_effect t t' o ->
    c_inert o (obs_of t n0 dv0) (obs_of t' n dv) = true.
  Proof.
    intros Hi He. unfold c_inert, step_effect in *.
    destruct o as [items|items|nw]; [| |reflexivity].
    - destruct (sighting (Adv items)); [reflexivity|]. cbn [o_devs obs_of].
      apply forallb_forall. intros x Hx. apply existsb_exists. exists x. split; [|apply dev_eqb_refl].
      destruct (byebye_of (Adv items)) as [u|].
      + rewrite He in Hx. apply in_map_iff in Hx as [[u' d'] [<- Hin]].
        apply In_sdel in Hin; [|apply Hi]. apply in_map_iff. exists (u', d'). tauto.
      + now rewrite He in Hx.
    - destruct (sighting (Srch items)); [reflexivity|]. cbn [o_devs obs_of].
      apply forallb_forall. intros x Hx. apply existsb_exists. exists x. split; [|apply dev_eqb_refl].
      destruct (byebye_of (Srch items)) as [u|].
      + rewrite He in Hx. apply in_map_iff in Hx as [[u' d'] [<- Hin]].
        apply In_sdel in Hin; [|apply Hi]. apply in_map_iff. exists (u', d'). tauto.
      + now rewrite He in Hx.
  Qed.

  Lemma valid_to_ok t t' o n dv : TInv t' -> step_effect t t' o -> c_valid_to o (obs_of t' n dv) = true.
  Proof.
    intros Hi' He. unfold c_valid_to, step_effect in *.
    destruct (sighting o) as [[[u0 ts] vt0]|]; [|reflexivity].
    destruct He as [_ [[d1 [Hin1 [Hv1 [loc Hl]]]] _]]. cbn [o_devs obs_of].
    change (map (fun e => (fst e, d_valid_to (snd e), d_locs (snd e))) (devices t')) with (map dev_view (devices t')).
    rewrite (find_dev_view _ _ _ (inv_nodup _ Hi') Hin1). rewrite Hv1, Z.eqb_refl. cbn.
    apply existsb_exists. exists (loc, vt0). split; [now apply (dget_In str_eqb KS)|]. cbn. apply Z.eqb_refl.
  Qed.

  Theorem clauses_hold ops : forall t due n0 dv0 k,
    TInv t -> DueInv due t -> in_domain ops = true ->
    clauses_from k due (obs_of t n0 dv0) ops (run_from [] ipver t ops) = [].
  Proof.
    induction ops as [|o ops IH]; intros t due n0 dv0 k Hi Hdue Hdom; [reflexivity|].
    cbn in Hdom. apply andb_true_iff in Hdom as [Ho Hr].
    cbn [run_from]. pose proof (step_char ipver t o Hi Ho) as He.
    pose proof (step_Inv ipver [] t o Hi) as Hi'.
    destruct (step ipver [] t o) as [[t' n] dv] eqn:Est. cbn [fst] in *.
    pose proof (due_step due t t' o Hi Hi' Hdue He) as Hdue'.
    cbn [clauses_from].
    rewrite (presence_ok _ t' n dv Hi' Hdue'), (purged_ok t t' o n dv Hi Hi' Ho He),
      (byebye_ok t t' o n dv n0 dv0 Hi He), (inert_ok t t' o n dv n0 dv0 Hi He),
      (valid_to_ok t t' o n dv Hi' He).
    cbn [app]. now apply IH.
  Qed.
End Run.

Theorem spec_holds (i : input) : dom i = true -> spec_failures i (model_run i) = [].
Proof.
  destruct i as [[th tab] ops]. unfold dom, spec_failures, model_run. destruct th; [|discriminate].
  intros Hd. change obs0 with (obs_of tracker0 None None).
  apply clauses_hold; [apply Inv0 | intros u vt [] | exact Hd].
Qed.

(* the same on the in-domain prefix of ANY history: what the correspondence check evaluates *)
Lemma in_domain_prefix ops : in_domain (dom_prefix ops) = true.
Proof.
  induction ops as [|o r IH]; [reflexivity|]. cbn [dom_prefix]. destruct (op_in_domain o) eqn:E; [|reflexivity].
  cbn [in_domain forallb]. now rewrite E.
Qed.

Lemma run_from_prefix th ipv : forall ops t,
  firstn (length (dom_prefix ops)) (run_from th ipv t ops) = run_from th ipv t (dom_prefix ops).
Proof.
  induction ops as [|o r IH]; intros t; [reflexivity|]. cbn [dom_prefix].
  destruct (op_in_domain o); [|reflexivity]. cbn [length run_from].
  destruct (step ipv th t o) as [[t' n] d]. cbn [firstn]. f_equal. apply IH.
Qed.

Theorem spec_holds_prefix (i : input) : spec_failures_prefix i (model_run i) = [].
Proof.
  destruct i as [[th tab] ops]. unfold spec_failures_prefix, model_run. destruct th; [|reflexivity]. cbv zeta.
  rewrite run_from_prefix.
  exact (spec_holds ([], tab, dom_prefix ops) (in_domain_prefix ops)).
Qed.
