(* C15 — the TIMEOUT header: the server's parser returns n on every spelling of "Second-n" (n >= 0). *)
From Coq Require Import List Bool NArith ZArith Lia ZifyBool ZifyN Decimal DecimalZ DecimalPos.
From AUC Require Import Prelude.PyStr C15.Model.
Import ListNotations.
Local Open Scope N_scope.

Definition all_digits (s : pystr) : Prop := Forall (fun c => is_digit c = true) s.

Lemma render_uint_digits u : all_digits (render_uint u).
Proof. induction u; cbn; constructor; auto. Qed.

Lemma parse_render_uint u : parse_uint (render_uint u) = Some u.
Proof. induction u; cbn; rewrite ?IHu; reflexivity. Qed.

Lemma digit_not_space c : is_digit c = true -> is_space c = false.
Proof. unfold is_digit, is_space. lia. Qed.

Lemma lstrip_id s : Forall (fun c => is_space c = false) s -> lstrip s = s.
Proof. intros H. destruct H as [|c r Hc Hr]; cbn; [reflexivity | now rewrite Hc]. Qed.

Lemma strip_id s : Forall (fun c => is_space c = false) s -> strip s = s.
Proof.
  intros H. unfold strip. rewrite (lstrip_id s H).
  rewrite lstrip_id; [apply rev_involutive|]. apply Forall_rev. exact H.
Qed.

Lemma drop_underscores_digits s : all_digits s -> s <> [] ->
  forall b, drop_underscores b s = Some s.
Proof.
  induction 1 as [|c r Hc Hr IH]; intros Hne b; [congruence|]. cbn.
  assert (E : (c =? 95) = false).
  { unfold is_digit in Hc. apply andb_true_iff in Hc as [H1 H2]. apply N.leb_le in H1, H2.
    apply N.eqb_neq. lia. }
  rewrite E, Hc. destruct r as [|c' r'].
  - reflexivity.
  - rewrite IH by congruence. reflexivity.
Qed.

Lemma render_uint_nonnil u : u <> Nil -> render_uint u <> [].
Proof. destruct u; cbn; congruence. Qed.

Lemma split_sign_digit c r : is_digit c = true -> split_sign (c :: r) = (false, c :: r).
Proof.
  intros Hc. unfold is_digit in Hc. apply andb_true_iff in Hc as [H1 H2]. apply N.leb_le in H1, H2.
  assert (H : c = 48 \/ c = 49 \/ c = 50 \/ c = 51 \/ c = 52 \/ c = 53 \/ c = 54 \/ c = 55 \/
              c = 56 \/ c = 57) by lia.
  repeat (destruct H as [->|H]; [reflexivity|]). subst. reflexivity.
Qed.

Lemma int_of_str_render_pos u : u <> Nil -> int_of_str (render_uint u) = Some (Z.of_int (Pos u)).
Proof.
  intros Hu. unfold int_of_str.
  pose proof (render_uint_digits u) as Hd. pose proof (render_uint_nonnil u Hu) as Hne.
  rewrite strip_id by (eapply Forall_impl; [|exact Hd]; intros; now apply digit_not_space).
  destruct (render_uint u) as [|c r] eqn:E; [congruence|].
  inversion Hd as [|? ? Hc Hr]; subst.
  rewrite (split_sign_digit c r Hc), Hc. cbn [negb].
  rewrite (drop_underscores_digits (c :: r)) by (try congruence; exact Hd).
  rewrite <- E, parse_render_uint. reflexivity.
Qed.

Lemma str_of_int_nonneg z : (0 <= z)%Z ->
  all_digits (str_of_int z) /\ int_of_str (str_of_int z) = Some z.
Proof.
  intros Hz. unfold str_of_int. destruct z as [|p|p]; [| |lia]; cbn [Z.to_int render_int].
  - split; [repeat constructor|reflexivity].
  - split; [apply render_uint_digits|].
    rewrite int_of_str_render_pos by apply Unsigned.to_uint_nonnil.
    f_equal. change (Pos (Pos.to_uint p)) with (Z.to_int (Z.pos p)). apply DecimalZ.of_to.
Qed.

(* ------------------------------------------------------------------ lower / replace *)
Lemma lower_app a b : lower (a ++ b) = lower a ++ lower b.
Proof. unfold lower, lower_with. apply map_app. Qed.

Lemma lower_digits s : all_digits s -> lower s = s.
Proof.
  induction 1 as [|c r Hc Hr IH]; [reflexivity|]. unfold lower, lower_with in *. cbn. rewrite IH. f_equal.
  unfold lower_char. unfold is_digit in Hc.
  destruct ((65 <=? c) && (c <=? 90)) eqn:E1; [lia|]. destruct (c <? 128) eqn:E2; [reflexivity|lia].
Qed.

Lemma lower_case_style s : Forall (fun c => lower_char (fun c => c) (upper_char c) = c /\ lower_char (fun c => c) c = c) s ->
  forall style, lower (case_style style s) = s.
Proof.
  induction 1 as [|c r [H1 H2] Hr IH]; intros style; [reflexivity|].
  cbn [case_style]. unfold lower, lower_with in *. cbn [map]. rewrite IH. f_equal.
  destruct (N.odd style); auto.
Qed.

Lemma lower_second style : lower (case_style style s_second) = s_second.
Proof. apply lower_case_style. unfold s_second. repeat constructor. Qed.

Lemma remove_pat_digits s : all_digits s -> remove_pat s_second O s = s.
Proof.
  induction 1 as [|c r Hc Hr IH]; [reflexivity|]. cbn [remove_pat].
  assert (E : starts_with s_second (c :: r) = false).
  { unfold s_second. cbn [starts_with]. unfold is_digit in Hc. destruct (115 =? c) eqn:E; [lia|reflexivity]. }
  rewrite E, IH. reflexivity.
Qed.

Lemma starts_with_app p s : starts_with p (p ++ s) = true.
Proof. induction p as [|c p IH]; cbn; auto. now rewrite N.eqb_refl. Qed.

Lemma remove_pat_skip pat l s : remove_pat pat (length l) (l ++ s) = remove_pat pat O s.
Proof. induction l as [|c l IH]; cbn [length app remove_pat]; auto. Qed.

Definition second_tl : pystr := [101; 99; 111; 110; 100; 45].

Lemma remove_pat_second s : all_digits s -> remove_pat s_second O (s_second ++ s) = s.
Proof.
  intros H. change (s_second ++ s) with (115 :: (second_tl ++ s)). cbn [remove_pat].
  change (115 :: second_tl ++ s) with (s_second ++ s). rewrite starts_with_app.
  change (Nat.pred (length s_second)) with (length second_tl). rewrite remove_pat_skip.
  now apply remove_pat_digits.
Qed.

Theorem parse_timeout_sec n style : (0 <= n)%Z ->
  parse_timeout (case_style style s_second ++ str_of_int n) = Some n.
Proof.
  intros Hn. destruct (str_of_int_nonneg n Hn) as [Hd Hi].
  unfold parse_timeout. rewrite lower_app, lower_second, (lower_digits _ Hd), (remove_pat_second _ Hd).
  exact Hi.
Qed.
