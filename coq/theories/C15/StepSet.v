(* C15 — assignments to state variables keep the relation. *)
From Coq Require Import List Bool NArith ZArith Lia ZifyBool ZifyN Arith.
From AUC Require Import Prelude.PyStr Gen.Eventing C15.Model C15.Spec C15.Lemmas C15.Inv C15.Batch C15.Steps.
Import ListNotations.
Local Open Scope Z_scope.

Lemma upd_upd {A} (l : list A) i a b : upd (upd l i a) i b = upd l i b.
Proof. revert i. induction l as [|x l IH]; intros [|i]; cbn; auto. now rewrite IH. Qed.

Section StepSet.
  Variable c : cfg.

  Lemma check_run_eq ns hi sp r pvs' ss' :
    fold_left (apply_trig c (r_t r)) (r_trig r) (sp_vars sp, []) = (pvs', []) ->
    fold_left (apply_note (r_t r)) (r_notes r) (sp_subs sp, []) = (ss', []) ->
    (sp_now sp <=? r_t r) && (r_t r <=? hi) = true ->
    counts_ok ns (length (r_trig r)) (r_notes r) = true ->
    check_run c ns hi (sp, []) r =
      ({| sp_now := r_t r; sp_nsid := sp_nsid sp; sp_vars := pvs'; sp_subs := ss' |}, []).
  Proof.
    intros H1 H2 H3 H4. unfold check_run. cbn [fst snd]. rewrite H1, H2, H3, H4. reflexivity.
  Qed.

  Lemma vrel_upd vs pvs t i d vr' pv' :
    vrel c vs pvs t -> nth_error c i = Some d -> var_ok d vr' pv' t ->
    vrel c (upd vs i vr') (upd pvs i pv') t.
  Proof.
    intros [L1 [L2 H]] Hc Hok. split; [now rewrite length_upd|]. split; [now rewrite length_upd|].
    intros j d' vr pv Hc' Hv Hp. rewrite nth_error_upd in Hv. rewrite nth_error_upd in Hp.
    destruct (Nat.eqb_spec i j) as [->|Hne].
    - destruct (nth_error vs j); [|discriminate]. destruct (nth_error pvs j); [|discriminate].
      inversion Hv; inversion Hp; subst. rewrite Hc in Hc'. inversion Hc'; subst. exact Hok.
    - eapply H; eauto.
  Qed.

  Lemma vrel_upd_l vs pvs t i d vr' pv :
    vrel c vs pvs t -> nth_error c i = Some d -> nth_error pvs i = Some pv -> var_ok d vr' pv t ->
    vrel c (upd vs i vr') pvs t.
  Proof.
    intros Hv Hc Hp Hok. rewrite <- (upd_same pvs i pv Hp). eapply vrel_upd; eauto.
  Qed.

  (* timers only look at v_last and v_dfr *)
  Lemma timers_upd vs tm t i vr vr' :
    timers_ok c vs tm t -> nth_error vs i = Some vr -> v_last vr' = v_last vr -> v_dfr vr' = v_dfr vr ->
    timers_ok c (upd vs i vr') tm t.
  Proof.
    intros [Hnd [H2 H3]] Hvr Hl Hd. split; [exact Hnd|]. split.
    - intros w j Hin. destruct (H2 w j Hin) as [d [v [Hc [Hv [Hev [Hdf [Hw Ht]]]]]]].
      destruct (Nat.eq_dec i j) as [->|Hne].
      + rewrite Hvr in Hv. inversion Hv; subst v. exists d, vr'. rewrite (nth_error_upd_eq _ _ _ _ Hvr).
        repeat split; auto; congruence.
      + exists d, v. rewrite nth_error_upd_ne by auto. repeat split; auto.
    - intros j v Hv Hdf. destruct (Nat.eq_dec i j) as [->|Hne].
      + rewrite (nth_error_upd_eq _ _ _ _ Hvr) in Hv. inversion Hv; subst v. apply (H3 j vr Hvr). congruence.
      + rewrite nth_error_upd_ne in Hv by auto. eapply H3; eauto.
  Qed.

  (* a variable without the deferred flag has no timer *)
  Lemma no_timer vs tm t i vr :
    timers_ok c vs tm t -> nth_error vs i = Some vr -> v_dfr vr = false -> ~ In i (map snd tm).
  Proof.
    intros [_ [H2 _]] Hvr Hd Hin. apply in_map_iff in Hin. destruct Hin as [[w j] [Hj Hin]]. cbn in Hj. subst j.
    destruct (H2 w i Hin) as [d [v [_ [Hv [_ [Hdf _]]]]]]. rewrite Hvr in Hv. inversion Hv; subst. congruence.
  Qed.

  Lemma timers_upd_nodfr vs tm t i vr vr' :
    timers_ok c vs tm t -> nth_error vs i = Some vr -> v_dfr vr = false -> v_dfr vr' = false ->
    timers_ok c (upd vs i vr') tm t.
  Proof.
    intros Htm Hvr Hd Hd'. pose proof (no_timer _ _ _ _ _ Htm Hvr Hd) as Hno.
    destruct Htm as [Hnd [H2 H3]]. split; [exact Hnd|]. split.
    - intros w j Hin. destruct (H2 w j Hin) as [d [v [Hc [Hv Hrest]]]].
      assert (Hne : i <> j). { intros ->. apply Hno. apply in_map_iff. exists (w, j). auto. }
      exists d, v. rewrite nth_error_upd_ne by auto. auto.
    - intros j v Hv Hdf. destruct (Nat.eq_dec i j) as [->|Hne].
      + rewrite (nth_error_upd_eq _ _ _ _ Hvr) in Hv. inversion Hv; subst v. congruence.
      + rewrite nth_error_upd_ne in Hv by auto. eapply H3; eauto.
  Qed.

  Lemma subs_ok_vars vs vs' n t ms sps :
    (forall last, fresh_ok c vs last -> fresh_ok c vs' last) ->
    subs_ok c vs n t ms sps -> subs_ok c vs' n t ms sps.
  Proof.
    intros Hfr [H1 [H2 [H3 H4]]]. split; [auto|]. split; [auto|]. split; [|auto].
    intros s Hin. destruct (H3 s Hin) as [Ha [Hb [ss [Hf [Hc [Hd [He [Hg Hh]]]]]]]].
    split; auto. split; auto. exists ss. split; auto. unfold sub_match. auto 10.
  Qed.

  (* the content claim survives an update that leaves the variable deferred, unchanged, or is not evented *)
  Lemma fresh_upd vs i d vr vr' last :
    nth_error c i = Some d -> nth_error vs i = Some vr ->
    (d_ev d = false \/ v_dfr vr' = true \/ (v_val vr' = v_val vr /\ v_dfr vr' = v_dfr vr)) ->
    fresh_ok c vs last -> fresh_ok c (upd vs i vr') last.
  Proof.
    intros Hc Hvr Hcase Hfr j d' v Hc' Hv Hev.
    destruct (Nat.eq_dec i j) as [->|Hne].
    - rewrite (nth_error_upd_eq _ _ _ _ Hvr) in Hv. inversion Hv; subst v.
      rewrite Hc in Hc'. inversion Hc'; subst d'.
      destruct Hcase as [Hne|[Hd|[Hval Hd]]]; [congruence|auto|].
      destruct (Hfr j d vr Hc Hvr Hev) as [Hl|Hdf]; [left; congruence|right; congruence].
    - rewrite nth_error_upd_ne in Hv by auto. eapply Hfr; eauto.
  Qed.

  Lemma spec_pvs_eq pvs i pv d x t :
    nth_error pvs i = Some pv -> (d_ev d = false \/ opt_eqb (p_val pv) (Some x) = false) ->
    (if opt_eqb (p_val pv) (Some x) then pvs else upd pvs i (p_changed pv x (d_ev d) t)) =
    upd pvs i (p_changed pv x (d_ev d) t).
  Proof.
    intros Hp Hcase. destruct (opt_eqb (p_val pv) (Some x)) eqn:E; auto.
    destruct Hcase as [Hev|Hf]; [|congruence]. rewrite Hev. apply opt_eqb_eq in E.
    symmetry. apply upd_same. rewrite Hp. f_equal. destruct pv; cbn in *. now subst.
  Qed.

  (* the assignment is stored and nothing is sent: variable not evented, or already deferred *)
  Lemma set_quiet t0 m sp i d vr pv x :
    Rt c t0 m sp -> nth_error c i = Some d -> nth_error (vars m) i = Some vr -> nth_error (sp_vars sp) i = Some pv ->
    valid d x = true -> (d_ev d = false \/ v_dfr vr = true) ->
    Rt c t0 (set_vars m (upd (vars m) i (set_val vr (Some x))))
         (sp_set_vars sp (upd (sp_vars sp) i (p_changed pv x (d_ev d) (sp_now sp)))).
  Proof.
    intros [Hnow [Hns [H0 [Hv [Htm Hsubs]]]]] Hc Hvr Hp Hvalid Hcase.
    destruct Hv as [L1 [L2 Hv']]. pose proof (Hv' i d vr pv Hc Hvr Hp) as [Hval [Hvd [Hrate Hev]]].
    unfold Rt. cbn [now nsid vars timers subs set_vars sp_set_vars sp_now sp_nsid sp_vars sp_subs].
    split; [exact Hnow|]. split; [exact Hns|]. split; [exact H0|]. split; [|split].
    - apply vrel_upd with (d := d); [exact (conj L1 (conj L2 Hv'))|exact Hc|].
      unfold var_ok. cbn [set_val v_val v_last v_dfr p_changed p_val p_trig p_dirty].
      split; [reflexivity|]. split; [exact Hvalid|]. split; [exact Hrate|].
      destruct (d_ev d) eqn:E.
      + destruct Hcase as [Hf|Hd]; [discriminate|]. destruct Hev as [Hl [Hdd [Hle Hchg]]].
        repeat split; auto. intros _. cbn [p_chg p_changed]. lia.
      + exact Hev.
    - eapply timers_upd; eauto.
    - eapply subs_ok_vars; [|exact Hsubs]. intros last. eapply fresh_upd; eauto.
      destruct Hcase as [Hf|Hd]; [left; exact Hf|right; left; exact Hd].
  Qed.

  (* the change is parked on a timer *)
  Lemma set_arm t0 m sp i d vr pv x :
    Rt c t0 m sp -> t0 <= now m ->
    nth_error c i = Some d -> nth_error (vars m) i = Some vr -> nth_error (sp_vars sp) i = Some pv ->
    valid d x = true -> d_ev d = true -> v_dfr vr = false -> now m < v_last vr + d_rate d ->
    Rt c t0 (set_timers (set_vars m (upd (vars m) i (set_dfr (set_val vr (Some x)) true)))
                     (timers m ++ [(v_last vr + d_rate d, i)]))
         (sp_set_vars sp (upd (sp_vars sp) i (p_changed pv x true (sp_now sp)))).
  Proof.
    intros [Hnow [Hns [H0 [Hv [Htm Hsubs]]]]] Ht0 Hc Hvr Hp Hvalid Hevd Hdf Hlt.
    destruct Hv as [L1 [L2 Hv']]. pose proof (Hv' i d vr pv Hc Hvr Hp) as [Hval [Hvd [Hrate Hev]]].
    rewrite Hevd in Hev. destruct Hev as [Hl [Hdd [Hle Hchg]]].
    pose proof (no_timer _ _ _ _ _ Htm Hvr Hdf) as Hno.
    unfold Rt. cbn [now nsid vars timers subs set_vars set_timers sp_set_vars sp_now sp_nsid sp_vars sp_subs].
    split; [exact Hnow|]. split; [exact Hns|]. split; [exact H0|]. split; [|split].
    - apply vrel_upd with (d := d); [exact (conj L1 (conj L2 Hv'))|exact Hc|].
      unfold var_ok. cbn [set_val set_dfr v_val v_last v_dfr p_changed p_val p_trig p_dirty].
      rewrite Hevd. repeat split; auto. intros _. cbn [p_chg p_changed]. lia.
    - destruct Htm as [Hnd [H2 H3]]. split; [|split].
      + rewrite map_app. cbn. apply NoDup_app_one; auto.
      + intros w j Hin. apply in_app_or in Hin. destruct Hin as [Hin|[Heq|[]]].
        * destruct (H2 w j Hin) as [d' [v [Hc' [Hv1 Hrest]]]].
          assert (Hne : i <> j). { intros ->. apply Hno. apply in_map_iff. exists (w, j). auto. }
          exists d', v. rewrite nth_error_upd_ne by auto. auto.
        * inversion Heq; subst w j. exists d, (set_dfr (set_val vr (Some x)) true).
          rewrite (nth_error_upd_eq _ _ _ _ Hvr). cbn. repeat split; auto. lia.
      + intros j v Hv1 Hd1. rewrite map_app. apply in_or_app. destruct (Nat.eq_dec i j) as [->|Hne].
        * right. cbn. auto.
        * left. rewrite nth_error_upd_ne in Hv1 by auto. eapply H3; eauto.
    - eapply subs_ok_vars; [|exact Hsubs]. intros last. eapply fresh_upd; eauto.
  Qed.

  Lemma counts_from_bound ns k notes :
    (forall sid, (count_sid sid notes <= k)%nat) -> counts_ok ns k notes = true.
  Proof.
    intros H. unfold counts_ok. apply forallb_forall. intros n _. apply Nat.leb_le.
    specialize (H (n_sid n)). lia.
  Qed.

  (* the change is evented at once *)
  Lemma set_immediate t0 m sp i d vr pv x :
    Rt c t0 m sp -> nth_error c i = Some d -> nth_error (vars m) i = Some vr -> nth_error (sp_vars sp) i = Some pv ->
    valid d x = true -> d_ev d = true -> v_dfr vr = false -> v_last vr + d_rate d <= now m ->
    let m1 := set_vars m (upd (vars m) i (set_last (set_val vr (Some x)) (now m))) in
    let sp1 := sp_set_vars sp (upd (sp_vars sp) i (p_changed pv x true (sp_now sp))) in
    exists sp2,
      check_runs c None (sp_now sp) sp1 (mk_runs (now m) [i] (snd (send_batch c m1))) = (sp2, []) /\
      Rt c t0 (fst (send_batch c m1)) (sp_set_now sp2 (sp_now sp)).
  Proof.
    intros HR Hc Hvr Hp Hvalid Hevd Hdf Hle m1 sp1.
    pose proof HR as [Hnow [Hns [H0 [Hv [Htm Hsubs]]]]].
    destruct Hv as [L1 [L2 Hv']]. pose proof (Hv' i d vr pv Hc Hvr Hp) as [Hval [Hvd [Hrate Hev]]].
    rewrite Hevd in Hev. destruct Hev as [Hl [Hdd [Hle' Hchg]]].
    set (PC := p_changed pv x true (sp_now sp)).
    set (PV := p_triggered PC (now m)).
    set (sp1' := sp_set_vars sp (upd (sp_vars sp) i PV)).
    assert (HR0 : R0t c t0 m1 sp1').
    { unfold R0t, m1, sp1'. cbn [now nsid vars timers subs set_vars sp_set_vars sp_now sp_nsid sp_vars sp_subs].
      split; [exact Hnow|]. split; [exact Hns|]. split; [exact H0|]. split; [|split].
      - apply vrel_upd with (d := d); [exact (conj L1 (conj L2 Hv'))|exact Hc|].
        unfold var_ok, PV, PC. cbn [set_val set_last v_val v_last v_dfr p_changed p_triggered p_val p_trig p_dirty].
        rewrite Hevd. repeat split; auto; try lia; try (intros; discriminate).
      - eapply timers_upd_nodfr; eauto.
      - eapply subs_ok_weaken; eauto. }
    destruct (batch_Rt c t0 m1 sp1' [] HR0) as [sps' [Hfold [HR2 [Hcount _]]]].
    assert (Hne : mk_runs (now m) [i] (snd (send_batch c m1)) =
                  [{| r_t := now m; r_trig := [i]; r_notes := snd (send_batch c m1) |}]) by reflexivity.
    rewrite Hne. unfold check_runs. cbn [fold_left].
    eexists. split.
    - apply check_run_eq with (pvs' := upd (sp_vars sp) i PV) (ss' := sps').
      + cbn [r_t r_trig fold_left]. unfold apply_trig, sp1. cbn [fst snd sp_vars sp_set_vars].
        rewrite (nth_error_upd_eq _ _ _ _ Hp), Hc, upd_upd, Hevd. fold PC.
        replace (p_trig PC + d_rate d <=? now m) with true
          by (symmetry; apply Z.leb_le; unfold PC; cbn [p_changed p_trig]; lia).
        reflexivity.
      + cbn [r_t r_notes]. exact Hfold.
      + cbn [r_t]. unfold sp1. cbn [sp_now sp_set_vars]. rewrite Hnow, Z.leb_refl. reflexivity.
      + cbn [r_trig r_notes length]. now apply counts_from_bound.
    - exact HR2.
  Qed.

  Lemma Rt_set_now t0 m sp : Rt c t0 m sp -> Rt c t0 m (sp_set_now sp (now m)).
  Proof. intros [H1 H]. split; [reflexivity|exact H]. Qed.

  (* the assignment, from a state whose pending timers may be overdue (not due at t0 <= now): what the model
     does is what [spec_assign] expects, the runs pass the specification, the relation is kept *)
  Lemma set_R t0 m sp i x :
    Rt c t0 m sp -> t0 <= now m ->
    exists spA sp1,
      (forall rs, spec_assign c (finish_step c rs) sp i x (fst (snd (do_set c m i x))) =
                  finish_step c rs spA None (sp_now sp) []) /\
      sp_now spA = now m /\
      check_runs c None (now m) spA (snd (snd (do_set c m i x))) = (sp1, []) /\
      Rt c t0 (fst (do_set c m i x)) (sp_set_now sp1 (now m)) /\
      now (fst (do_set c m i x)) = now m /\
      (forall r, In r (snd (snd (do_set c m i x))) -> r_t r = now m).
  Proof.
    intros HR Ht0.
    pose proof HR as [Hnow [Hns [H0 [Hv [Htm Hsubs]]]]].
    (* nothing is sent: the state spA the specification reaches is related to the model's *)
    assert (Hquiet : forall m1 spA res,
               (forall rs, spec_assign c (finish_step c rs) sp i x res = finish_step c rs spA None (sp_now sp) []) ->
               Rt c t0 m1 spA -> now m1 = now m ->
               exists spA sp1,
                 (forall rs, spec_assign c (finish_step c rs) sp i x (fst (snd (m1, (res, @nil run)))) =
                             finish_step c rs spA None (sp_now sp) []) /\
                 sp_now spA = now m /\
                 check_runs c None (now m) spA (snd (snd (m1, (res, @nil run)))) = (sp1, []) /\
                 Rt c t0 (fst (m1, (res, @nil run))) (sp_set_now sp1 (now m)) /\
                 now (fst (m1, (res, @nil run))) = now m /\
                 (forall r, In r (snd (snd (m1, (res, @nil run)))) -> r_t r = now m)).
    { intros m1 spA res Hs HR1 Hn1. exists spA, spA. cbn [fst snd]. split; [exact Hs|].
      split; [destruct HR1 as [E _]; congruence|]. split; [reflexivity|]. split.
      - rewrite <- Hn1. now apply Rt_set_now.
      - split; [exact Hn1|]. intros r []. }
    unfold do_set.
    destruct (nth_error c i) as [d|] eqn:Hc.
    2:{ assert (Hlen : (length c <= i)%nat) by now apply nth_error_None.
        destruct Hv as [L1 [L2 _]].
        assert (E1 : nth_error (vars m) i = None) by (apply nth_error_None; lia).
        assert (E2 : nth_error (sp_vars sp) i = None) by (apply nth_error_None; lia).
        rewrite E1. apply Hquiet with (spA := sp); [|exact HR|reflexivity].
        intros rs. unfold spec_assign. rewrite E2. reflexivity. }
    destruct (vrel_nth c _ _ _ i d Hv Hc) as [vr [pv [Hvr [Hp Hok]]]]. rewrite Hvr.
    destruct Hok as [Hval [Hvd [Hrate Hev]]].
    destruct (d_ev d && opt_eqb (v_val vr) (Some x)) eqn:Esame.
    - (* same value *)
      apply andb_true_iff in Esame. destruct Esame as [Hevd Hsame]. apply opt_eqb_eq in Hsame.
      rewrite Hsame in Hvd.
      apply Hquiet with (spA := sp_set_vars sp (sp_vars sp)); [|exact HR|reflexivity].
      intros rs. unfold spec_assign. rewrite Hp, Hc, Hvd, <- Hval, Hsame, opt_eqb_refl. reflexivity.
    - destruct (valid d x) eqn:Evalid; cbn [negb].
      2:{ apply Hquiet with (spA := sp); [|exact HR|reflexivity].
          intros rs. unfold spec_assign. rewrite Hp, Hc, Evalid. reflexivity. }
      assert (Hcase : d_ev d = false \/ opt_eqb (p_val pv) (Some x) = false).
      { apply andb_false_iff in Esame. destruct Esame as [He|He]; [left; exact He|right; now rewrite <- Hval]. }
      assert (Hspec : forall rs, spec_assign c (finish_step c rs) sp i x (SSet 1) =
                 finish_step c rs (sp_set_vars sp (upd (sp_vars sp) i (p_changed pv x (d_ev d) (sp_now sp))))
                             None (sp_now sp) []).
      { intros rs. unfold spec_assign. rewrite Hp, Hc, Evalid. rewrite (spec_pvs_eq _ _ _ _ _ _ Hp Hcase).
        reflexivity. }
      destruct (negb (d_ev d) || v_dfr vr) eqn:Eq.
      + (* stored, nothing sent *)
        assert (Hq : d_ev d = false \/ v_dfr vr = true).
        { apply orb_true_iff in Eq. destruct Eq as [He|He]; [left; now apply negb_true_iff|right; exact He]. }
        apply Hquiet with (1 := Hspec); [|reflexivity].
        exact (set_quiet t0 m sp i d vr pv x HR Hc Hvr Hp Evalid Hq).
      + apply orb_false_iff in Eq. destruct Eq as [Hevd Hdf]. apply negb_false_iff in Hevd.
        destruct (v_last vr + d_rate d <=? now m) eqn:El.
        * (* evented at once *)
          apply Z.leb_le in El.
          destruct (set_immediate t0 m sp i d vr pv x HR Hc Hvr Hp Evalid Hevd Hdf El) as [sp2 [Hrun HR2]].
          rewrite (surjective_pairing (send_batch c _)). cbn [fst snd].
          rewrite Hevd in Hspec.
          rewrite Hnow in Hrun at 1. rewrite Hnow in HR2.
          eexists. exists sp2. split; [exact Hspec|]. split; [exact Hnow|].
          split; [exact Hrun|]. split; [exact HR2|].
          split; [reflexivity|].
          intros r Hin. destruct (snd (send_batch c _)); cbn [mk_runs] in Hin; destruct Hin as [<-|[]]; reflexivity.
        * (* parked on a timer *)
          apply Z.leb_gt in El. rewrite Hevd in Hspec.
          apply Hquiet with (1 := Hspec); [|reflexivity].
          exact (set_arm t0 m sp i d vr pv x HR Ht0 Hc Hvr Hp Evalid Hevd Hdf El).
  Qed.

  Lemma step_set m sp i x : R c m sp -> step_ok c m sp (OSet i x).
  Proof.
    intros HR. unfold step_ok. cbn [step adv_of]. rewrite Z.add_0_r.
    pose proof HR as [Hnow _].
    destruct (set_R (now m) m sp i x HR (Z.le_refl _)) as [spA [sp1 [Hspec [HnA [Hruns [HR1 [Hn1 _]]]]]]].
    change (spec_step c sp (OSet i x) (snd (do_set c m i x)))
      with (spec_assign c (finish_step c (snd (snd (do_set c m i x)))) sp i x (fst (snd (do_set c m i x)))).
    rewrite Hspec, Hnow.
    assert (HR2 : R c (fst (do_set c m i x)) (sp_set_now sp1 (now m))) by (eapply Rt_R; [exact HR1|now symmetry]).
    eexists. split; [eapply finish_ok; [exact Hruns|exact HR2]|]. split; [exact HR2|exact Hn1].
  Qed.
End StepSet.
