(* C15 — instantiation used by the correspondence check (never by a theorem). *)
From Coq Require Import List Bool NArith ZArith.
From AUC Require Export Prelude.PyStr Gen.Eventing C15.Model C15.Spec.
Import ListNotations.
Local Open Scope N_scope.

(* canonical form of an observation: within a run, triggers ordered by variable, NOTIFY requests ordered by
   SID (stable: the order of one subscriber's events is kept), bodies ordered by variable index *)
Fixpoint ins_nat (x : nat) (l : list nat) : list nat :=
  match l with [] => [x] | y :: r => if Nat.ltb x y then x :: l else y :: ins_nat x r end.
Fixpoint ins_val (x : nat * option N) (l : list (nat * option N)) :=
  match l with [] => [x] | y :: r => if Nat.ltb (fst x) (fst y) then x :: l else y :: ins_val x r end.
Fixpoint ins_note (x : note) (l : list note) : list note :=
  match l with [] => [x] | y :: r => if n_sid x <? n_sid y then x :: l else y :: ins_note x r end.
Definition canon_note (n : note) : note :=
  {| n_cb := n_cb n; n_sid := n_sid n; n_seq := n_seq n; n_vals := fold_left (fun a x => ins_val x a) (n_vals n) [] |}.
Definition canon_run (r : run) : run :=
  {| r_t := r_t r; r_trig := fold_left (fun a x => ins_nat x a) (r_trig r) [];
     r_notes := fold_left (fun a x => ins_note x a) (map canon_note (r_notes r)) [] |}.

Definition optN_eqb (a b : option N) := opt_eqb a b.
Definition optZ_eqb (a b : option Z) :=
  match a, b with Some x, Some y => Z.eqb x y | None, None => true | _, _ => false end.
Fixpoint list_eqb {A} (eqb : A -> A -> bool) (a b : list A) : bool :=
  match a, b with
  | [], [] => true
  | x :: a', y :: b' => eqb x y && list_eqb eqb a' b'
  | _, _ => false
  end.
Definition note_eqb (a b : note) : bool :=
  (n_cb a =? n_cb b) && (n_sid a =? n_sid b) && (n_seq a =? n_seq b) && vals_eqb (n_vals a) (n_vals b).
Definition run_eqb (a b : run) : bool :=
  Z.eqb (r_t a) (r_t b) && list_eqb Nat.eqb (r_trig a) (r_trig b) && list_eqb note_eqb (r_notes a) (r_notes b).
Definition sres_eqb (a b : sres) : bool :=
  match a, b with
  | SNone, SNone | SRaised, SRaised | SJump, SJump => true
  | SResp s1 i1 g1 f1, SResp s2 i2 g2 f2 => (s1 =? s2) && optN_eqb i1 i2 && optZ_eqb g1 g2 && Bool.eqb f1 f2
  | SSet a, SSet b => a =? b
  | SDeliv a1 b1, SDeliv a2 b2 => (a1 =? a2) && (b1 =? b2)
  | _, _ => false
  end.
Definition runs_eqb (a b : list run) : bool := list_eqb run_eqb (map canon_run a) (map canon_run b).
Definition step_eqb (a b : step_obs) : bool := sres_eqb (fst a) (fst b) && runs_eqb (snd a) (snd b).

Fixpoint first_diff (n : N) (a b : list step_obs) : option N :=
  match a, b with
  | [], [] => None
  | x :: a', y :: b' => if step_eqb x y then first_diff (N.succ n) a' b' else Some n
  | _, _ => Some n
  end.
Definition obs_diff (a b : observation) : option N :=
  if runs_eqb (fst a) (fst b) then first_diff 1 (snd a) (snd b) else Some 0.

Fixpoint dedup (seen : list N) (l : list (N * N)) : list (N * N) :=
  match l with
  | [] => []
  | (c, d) :: r => if existsb (N.eqb c) seen then dedup seen r else (c, d) :: dedup (c :: seen) r
  end.

(* (case index, kind, detail): kind 0 = the model's observation differs from the implementation's (detail = first
   differing step, 0 = construction); kind c in 1..8 = clause c fails on the IMPLEMENTATION's observation
   (detail = step) *)
Fixpoint report (base : N) (cases : list (input * observation)) : list (N * N * N) :=
  match cases with
  | [] => []
  | (i, o) :: r =>
      (match obs_diff (model_run i) o with Some p => [(base, 0, p)] | None => [] end) ++
      (if in_domain i then map (fun cd => (base, fst cd, snd cd)) (dedup [] (spec_ok i o)) else []) ++
      report (N.succ base) r
  end.

Definition replay (c : input * observation) :=
  (model_run (fst c), spec_ok (fst c) (snd c), spec_ok (fst c) (model_run (fst c)), in_domain (fst c),
   obs_diff (model_run (fst c)) (snd c)).

(* ------------------------------------------------------------------ compact literals for the generated case files
   (all numbers are Z literals; -1 stands for None where an option is meant) *)
Local Open Scope Z_scope.
Definition zopt (z : Z) : option N := if z <? 0 then None else Some (Z.to_N z).
Definition zv (p : Z * Z) : nat * option N := (Z.to_nat (fst p), zopt (snd p)).
Definition nt (cb sid seq : Z) (vals : list (Z * Z)) : note :=
  {| n_cb := Z.to_N cb; n_sid := Z.to_N sid; n_seq := Z.to_N seq; n_vals := map zv vals |}.
Definition rn (t : Z) (trig : list Z) (notes : list note) : run :=
  {| r_t := t; r_trig := map Z.to_nat trig; r_notes := notes |}.
Definition dc (ev rate def mx : Z) : decl :=
  {| d_ev := negb (ev =? 0); d_rate := rate; d_def := zopt def; d_max := zopt mx |}.
Definition tA : tmo := TAbsent.
Definition tS (n style : Z) : tmo := TSec n (Z.to_N style).
Definition tR (s : list Z) : tmo := TRaw (map Z.to_N s).
Definition sA := SAbsent. Definition sE := SEmpty. Definition sB := SBogus.
Definition sI (n : Z) := SIdx (Z.to_N n).
Definition oSub (cb : Z) (t : tmo) (sid : sidref) : op := OSub (zopt cb) t sid.
Definition oUns (sid : sidref) : op := OUnsub sid.
Definition oSet (i x : Z) : op := OSet (Z.to_nat i) (Z.to_N x).
Definition oAdv (dt : Z) : op := OAdv (Z.to_N dt).
Definition oLate (dt i x : Z) : op := OLate (Z.to_N dt) (Z.to_nat i) (Z.to_N x).
Definition oDel (k outcome : Z) : op := ODeliver (Z.to_nat k) (Z.to_N outcome).
Definition oJmp (sid key : Z) : op := OJump (Z.to_N sid) (Z.to_N key).
Definition rNo : sres := SNone.
Definition rRa : sres := SRaised.
Definition rJu : sres := SJump.
Definition rSet (c : Z) : sres := SSet (Z.to_N c).
Definition rDel (sid seq : Z) : sres := SDeliv (Z.to_N sid) (Z.to_N seq).
Definition rRe (st sid : Z) (first : Z) : sres := SResp (Z.to_N st) (zopt sid) None (negb (first =? 0)).
Definition rRg (st sid g : Z) (first : Z) : sres := SResp (Z.to_N st) (zopt sid) (Some g) (negb (first =? 0)).
Definition mk_case (c : list decl) (ops : list op) (init : list run) (steps : list step_obs) : input * observation :=
  ((c, ops), (init, steps)).
