(* C15 — the relation between the model state and the specification state, and what a fan-out does to it. *)
From Coq Require Import List Bool NArith ZArith Lia ZifyBool ZifyN Arith.
From AUC Require Import Prelude.PyStr Gen.Eventing C15.Model C15.Spec C15.Lemmas.
Import ListNotations.
Local Open Scope Z_scope.

Section Inv.
  Variable c : cfg.

  Definition var_ok (d : decl) (vr : var) (pv : pvar) (t : Z) : Prop :=
    v_val vr = p_val pv /\
    (match v_val vr with Some x => valid d x = true | None => True end) /\
    0 <= d_rate d /\
    (if d_ev d then v_last vr = p_trig pv /\ v_dfr vr = p_dirty pv /\ v_last vr <= t /\
                    (p_dirty pv = true -> p_trig pv <= p_chg pv)
     else v_dfr vr = false /\ p_dirty pv = false).

  Definition vrel (vs : list var) (pvs : list pvar) (t : Z) : Prop :=
    length vs = length c /\ length pvs = length c /\
    forall i d vr pv, nth_error c i = Some d -> nth_error vs i = Some vr -> nth_error pvs i = Some pv ->
                      var_ok d vr pv t.

  Definition timers_ok (vs : list var) (tm : list (Z * nat)) (t : Z) : Prop :=
    NoDup (map snd tm) /\
    (forall w i, In (w, i) tm -> exists d vr, nth_error c i = Some d /\ nth_error vs i = Some vr /\
         d_ev d = true /\ v_dfr vr = true /\ w = v_last vr + d_rate d /\ t < w) /\
    (forall i vr, nth_error vs i = Some vr -> v_dfr vr = true -> In i (map snd tm)).

  Definition fresh_ok (vs : list var) (last : list (nat * option N)) : Prop :=
    forall i d vr, nth_error c i = Some d -> nth_error vs i = Some vr -> d_ev d = true ->
       lookup i last = Some (v_val vr) \/ v_dfr vr = true.

  Definition sub_match (vs : list var) (s : sub) (ss : ssub) : Prop :=
    ss_sid ss = s_sid s /\ ss_cb ss = s_cb s /\ ss_exp ss = s_exp s /\ ss_key ss = s_key s /\
    fresh_ok vs (ss_last ss).

  Definition subs_ok (vs : list var) (n : N) (t : Z) (ms : list sub) (sps : list ssub) : Prop :=
    NoDup (map s_sid ms) /\ NoDup (map ss_sid sps) /\
    (forall s, In s ms -> (s_sid s < n)%N /\ (s_key s <= seq_max)%N /\
         exists ss, find_ssub (s_sid s) sps = Some ss /\ sub_match vs s ss) /\
    (forall ss, In ss sps -> (ss_sid ss < n)%N /\
         (t < ss_exp ss -> exists s, find_sub (ss_sid ss) ms = Some s)).

  (* the same without the claim about the last event's content (used while a variable has just changed) *)
  Definition sub_match0 (s : sub) (ss : ssub) : Prop :=
    ss_sid ss = s_sid s /\ ss_cb ss = s_cb s /\ ss_exp ss = s_exp s /\ ss_key ss = s_key s.
  Definition subs_ok0 (n : N) (t : Z) (ms : list sub) (sps : list ssub) : Prop :=
    NoDup (map s_sid ms) /\ NoDup (map ss_sid sps) /\
    (forall s, In s ms -> (s_sid s < n)%N /\ (s_key s <= seq_max)%N /\
         exists ss, find_ssub (s_sid s) sps = Some ss /\ sub_match0 s ss) /\
    (forall ss, In ss sps -> (ss_sid ss < n)%N /\
         (t < ss_exp ss -> exists s, find_sub (ss_sid ss) ms = Some s)).

  Lemma subs_ok_weaken vs n t ms sps : subs_ok vs n t ms sps -> subs_ok0 n t ms sps.
  Proof.
    intros [H1 [H2 [H3 H4]]]. split; [auto|]. split; [auto|]. split; [|auto].
    intros s Hin. destruct (H3 s Hin) as [Ha [Hb [ss [Hf [Hc [Hd [He [Hg _]]]]]]]].
    split; auto. split; auto. exists ss. split; auto. unfold sub_match0. auto.
  Qed.

  Definition R0 (m : state) (sp : sstate) : Prop :=
    sp_now sp = now m /\ sp_nsid sp = nsid m /\ 0 <= now m /\
    vrel (vars m) (sp_vars sp) (now m) /\ timers_ok (vars m) (timers m) (now m) /\
    subs_ok0 (nsid m) (now m) (subs m) (sp_subs sp).

  Definition R (m : state) (sp : sstate) : Prop :=
    sp_now sp = now m /\ sp_nsid sp = nsid m /\ 0 <= now m /\
    vrel (vars m) (sp_vars sp) (now m) /\ timers_ok (vars m) (timers m) (now m) /\
    subs_ok (vars m) (nsid m) (now m) (subs m) (sp_subs sp).

  (* the same relations when the pending timers are only known not to have been due at an EARLIER time t0 (the
     clock moved on while the loop did not run: some of them may be overdue).  R m sp is Rt (now m) m sp. *)
  Definition R0t (t0 : Z) (m : state) (sp : sstate) : Prop :=
    sp_now sp = now m /\ sp_nsid sp = nsid m /\ 0 <= now m /\
    vrel (vars m) (sp_vars sp) (now m) /\ timers_ok (vars m) (timers m) t0 /\
    subs_ok0 (nsid m) (now m) (subs m) (sp_subs sp).

  Definition Rt (t0 : Z) (m : state) (sp : sstate) : Prop :=
    sp_now sp = now m /\ sp_nsid sp = nsid m /\ 0 <= now m /\
    vrel (vars m) (sp_vars sp) (now m) /\ timers_ok (vars m) (timers m) t0 /\
    subs_ok (vars m) (nsid m) (now m) (subs m) (sp_subs sp).

  Lemma R_Rt m sp : R m sp -> Rt (now m) m sp.
  Proof. intros H. exact H. Qed.

  Lemma Rt_R t0 m sp : Rt t0 m sp -> t0 = now m -> R m sp.
  Proof. intros H ->. exact H. Qed.

  Lemma Rt_R0t t0 m sp : Rt t0 m sp -> R0t t0 m sp.
  Proof.
    intros [H1 [H2 [H3 [H4 [H5 H6]]]]]. unfold R0t. repeat (split; [assumption|]).
    eapply subs_ok_weaken; eauto.
  Qed.

  Lemma R_R0 m sp : R m sp -> R0 m sp.
  Proof.
    intros [H1 [H2 [H3 [H4 [H5 H6]]]]]. unfold R0. repeat (split; [assumption|]).
    eapply subs_ok_weaken; eauto.
  Qed.

  Lemma vrel_nth vs pvs t i d :
    vrel vs pvs t -> nth_error c i = Some d ->
    exists vr pv, nth_error vs i = Some vr /\ nth_error pvs i = Some pv /\ var_ok d vr pv t.
  Proof.
    intros [L1 [L2 H]] Hc.
    assert (Hi : (i < length c)%nat) by (apply nth_error_Some; congruence).
    destruct (nth_error vs i) as [vr|] eqn:E1; [|apply nth_error_None in E1; lia].
    destruct (nth_error pvs i) as [pv|] eqn:E2; [|apply nth_error_None in E2; lia].
    exists vr, pv. split; [reflexivity|]. split; [reflexivity|]. eapply H; eauto.
  Qed.

  Lemma vrel_vals vs pvs t : vrel vs pvs t -> map v_val vs = map p_val pvs.
  Proof.
    intros [L1 [L2 H]]. apply nth_error_ext'. intros i.
    rewrite !nth_error_map.
    destruct (nth_error vs i) as [vr|] eqn:E1; destruct (nth_error pvs i) as [pv|] eqn:E2; cbn; auto.
    - destruct (nth_error c i) as [d|] eqn:E3.
      + f_equal. apply (H i d vr pv E3 E1 E2).
      + apply nth_error_None in E3. assert (i < length vs)%nat by (apply nth_error_Some; congruence). lia.
    - apply nth_error_None in E2. assert (i < length vs)%nat by (apply nth_error_Some; congruence). lia.
    - apply nth_error_None in E1. assert (i < length pvs)%nat by (apply nth_error_Some; congruence). lia.
  Qed.

  (* clause 3 follows from the relation *)
  Lemma R_fresh m sp : R m sp -> fresh_all c sp = true.
  Proof.
    intros [Hnow [_ [_ [Hv [[_ [Htm Hdf]] [Hnd1 [Hnd2 [Hms Hsp]]]]]]]].
    unfold fresh_all. apply forallb_forall. intros ss Hin.
    destruct (sp_now sp <? ss_exp ss) eqn:E; [|reflexivity]. cbn [negb orb].
    rewrite Hnow in *. apply Z.ltb_lt in E.
    destruct (Hsp ss Hin) as [_ Hex]. destruct (Hex E) as [s Hs].
    apply find_sub_some in Hs. destruct Hs as [Hs Hsid].
    destruct (Hms s Hs) as [_ [_ [ss' [Hf [_ [_ [_ [_ Hfr]]]]]]]].
    rewrite Hsid, (find_ssub_in _ Hnd2 ss Hin) in Hf. inversion Hf; subst ss'. clear Hf.
    apply fresh_from_true. intros i d pv Hc Hp Hev. cbn [Nat.add].
    destruct (vrel_nth _ _ _ i d Hv Hc) as [vr [pv' [Hvr [Hpv' Hok]]]].
    rewrite Hp in Hpv'. inversion Hpv'; subst pv'. clear Hpv'.
    destruct Hok as [Hval [_ [Hrate Hev']]]. rewrite Hev in Hev'. destruct Hev' as [Hl [Hd [Hle _]]].
    destruct (Hfr i d vr Hc Hvr Hev) as [Hlk|Hdfr].
    - left. exists (v_val vr). split; auto. rewrite Hval. apply opt_eqb_refl.
    - right. split; [congruence|].
      specialize (Hdf i vr Hvr Hdfr). apply in_map_iff in Hdf. destruct Hdf as [[w i'] [Hi' Hin']].
      cbn in Hi'. subst i'. destruct (Htm w i Hin') as [d' [vr' [Hc' [Hvr' [_ [_ [Hw Hlt]]]]]]].
      rewrite Hc in Hc'. rewrite Hvr in Hvr'. inversion Hc'; inversion Hvr'; subst. lia.
  Qed.
End Inv.
