(* C15 — executable model of the GENA publisher side of async_upnp_client/server.py:
     EventSubscriber (event key, wrap, expiry), UpnpServerService.{add,del,get}_subscriber,
     async_send_events (expiry filter, rendering of every evented variable, SEQ allocation, fan-out),
     UpnpEventableStateVariable.value setter (_last_sent, max_rate, _defered_event, timer),
     trigger_event, subscribe_handler (TIMEOUT parsing, subscribe / renew paths), unsubscribe_handler.

   Granularity: one transition = one external action followed by running the event loop until it is
   quiescent (no ready handle, no due timer).  Virtual time in milliseconds (Z) relative to the instant
   the service object is built; [OAdv dt] moves the clock to every due timer in turn (as a sleeping
   loop does) and then to now+dt.  [OLate dt v x] is the one schedule in which an action meets overdue timers:
   the clock moves by dt while the loop does not run, the assignment runs first (its callback was already in the
   ready queue; _run_once appends the due timers behind it) and the timers that are due fire in the same
   iteration - one quiescence run.

   The model follows the REPAIRED code (proposed/C15/D11.diff: the deferred event is armed with
   call_later(delay, <sync callback>) which clears the flag and triggers; proposed/C15/D12.diff: the
   subscriber is registered before its initial event is sent).  Definitions only, no proofs. *)
From Coq Require Import List Bool NArith ZArith Decimal DecimalZ.
From AUC Require Import Prelude.PyStr Gen.Eventing.
Import ListNotations.
Local Open Scope Z_scope.

(* ------------------------------------------------------------------ int(str), str(int)  (as in C08/Model.v) *)
Fixpoint render_uint (u : Decimal.uint) : pystr :=
  match u with
  | Nil => []
  | D0 u => 48%N :: render_uint u | D1 u => 49%N :: render_uint u | D2 u => 50%N :: render_uint u
  | D3 u => 51%N :: render_uint u | D4 u => 52%N :: render_uint u | D5 u => 53%N :: render_uint u
  | D6 u => 54%N :: render_uint u | D7 u => 55%N :: render_uint u | D8 u => 56%N :: render_uint u
  | D9 u => 57%N :: render_uint u
  end.
Definition render_int (i : Decimal.int) : pystr :=
  match i with Pos u => render_uint u | Neg u => 45%N :: render_uint u end.
Definition str_of_int (z : Z) : pystr := render_int (Z.to_int z).

Fixpoint parse_uint (s : pystr) : option Decimal.uint :=
  match s with
  | [] => Some Nil
  | c :: r =>
      match parse_uint r with
      | Some u =>
          match c with
          | 48 => Some (D0 u) | 49 => Some (D1 u) | 50 => Some (D2 u) | 51 => Some (D3 u)
          | 52 => Some (D4 u) | 53 => Some (D5 u) | 54 => Some (D6 u) | 55 => Some (D7 u)
          | 56 => Some (D8 u) | 57 => Some (D9 u) | _ => None
          end%N
      | None => None
      end
  end.

Definition is_space (c : N) : bool :=
  (((9 <=? c) && (c <=? 13)) || ((28 <=? c) && (c <=? 32)) || (c =? 133) || (c =? 160) ||
   (c =? 5760) || ((8192 <=? c) && (c <=? 8202)) || (c =? 8232) || (c =? 8233) || (c =? 8239) ||
   (c =? 8287) || (c =? 12288))%N.
Fixpoint lstrip (s : pystr) : pystr :=
  match s with c :: r => if is_space c then lstrip r else s | [] => [] end.
Definition strip (s : pystr) : pystr := List.rev (lstrip (List.rev (lstrip s))).
Definition is_digit (c : N) : bool := ((48 <=? c) && (c <=? 57))%N.
Fixpoint drop_underscores (prev_digit : bool) (s : pystr) : option pystr :=
  match s with
  | [] => if prev_digit then Some [] else None
  | c :: r =>
      if (c =? 95)%N then
        if prev_digit then
          match r with
          | d :: _ => if is_digit d then drop_underscores false r else None
          | [] => None
          end
        else None
      else match drop_underscores (is_digit c) r with Some t => Some (c :: t) | None => None end
  end.
Definition split_sign (s : pystr) : bool * pystr :=
  match s with
  | 45%N :: r => (true, r)
  | 43%N :: r => (false, r)
  | _ => (false, s)
  end.
(* int(s) for ASCII digits; None = ValueError *)
Definition int_of_str (s : pystr) : option Z :=
  let '(neg, body) := split_sign (strip s) in
  match body with
  | [] => None
  | c :: _ =>
      if negb (is_digit c) then None else
      match drop_underscores false body with
      | Some ds =>
          match parse_uint ds with
          | Some u => Some (Z.of_int (if neg then Neg u else Pos u))
          | None => None
          end
      | None => None
      end
  end.

(* ------------------------------------------------------------------ the TIMEOUT header *)
Definition s_second : pystr := [115; 101; 99; 111; 110; 100; 45]%N.      (* "second-" *)
Definition lower (s : pystr) : pystr := lower_with (fun c => c) s.

(* s.replace(pat, "") for a non-empty pat; [skip] = characters of a match still to be dropped *)
Fixpoint remove_pat (pat : pystr) (skip : nat) (s : pystr) : pystr :=
  match s with
  | [] => []
  | c :: r =>
      match skip with
      | S k => remove_pat pat k r
      | O => if starts_with pat s then remove_pat pat (Nat.pred (length pat)) r
             else c :: remove_pat pat O r
      end
  end.

(* int(timeout.lower().replace("second-", "")) *)
Definition parse_timeout (h : pystr) : option Z := int_of_str (remove_pat s_second O (lower h)).

(* what the history says about the TIMEOUT header of a SUBSCRIBE *)
Inductive tmo :=
| TAbsent                          (* no TIMEOUT header *)
| TSec (n : Z) (style : N)         (* f"Second-{n}" with the letters' case chosen by the bits of style *)
| TRaw (s : pystr).                (* any other text *)

Fixpoint case_style (style : N) (s : pystr) : pystr :=
  match s with
  | [] => []
  | c :: r => (if N.odd style then upper_char c else c) :: case_style (N.div2 style) r
  end.
Definition render_tmo (t : tmo) : option pystr :=
  match t with
  | TAbsent => None
  | TSec n style => Some (case_style style s_second ++ str_of_int n)
  | TRaw s => Some s
  end.

(* ------------------------------------------------------------------ configuration, state *)
Record decl := { d_ev : bool;            (* created with create_event_var (else create_state_var) *)
                 d_rate : Z;             (* max_rate in ms (0 = none) *)
                 d_def : option N;       (* default value *)
                 d_max : option N }.     (* allowed_range {min 0, max} *)
Definition cfg := list decl.

Record sub := { s_sid : N; s_cb : N; s_key : N; s_exp : Z }.
Record var := { v_val : option N; v_last : Z; v_dfr : bool }.
Record state := { now : Z; nsid : N; subs : list sub; vars : list var;
                  timers : list (Z * nat);       (* (loop time the timer is due, variable) in creation order *)
                  outs : list (N * N) }.         (* outstanding NOTIFY requests (sid, seq), ordered by SID *)

(* datetime.fromtimestamp(0, utc) seen from the harness' base instant 2023-11-14T22:13:20Z *)
Definition epoch : Z := -1700000000000.
(* datetime.max / datetime.min seen from the base instant (ms): now + timedelta outside => OverflowError *)
Definition wall_max : Z := 251702300799999.
Definition wall_min : Z := -63835596800000.
Definition wall_ok (z : Z) : bool := (wall_min <=? z) && (z <=? wall_max).

Definition set_now (st : state) (t : Z) : state :=
  {| now := t; nsid := nsid st; subs := subs st; vars := vars st; timers := timers st; outs := outs st |}.
Definition set_nsid (st : state) (n : N) : state :=
  {| now := now st; nsid := n; subs := subs st; vars := vars st; timers := timers st; outs := outs st |}.
Definition set_subs (st : state) (l : list sub) : state :=
  {| now := now st; nsid := nsid st; subs := l; vars := vars st; timers := timers st; outs := outs st |}.
Definition set_vars (st : state) (l : list var) : state :=
  {| now := now st; nsid := nsid st; subs := subs st; vars := l; timers := timers st; outs := outs st |}.
Definition set_timers (st : state) (l : list (Z * nat)) : state :=
  {| now := now st; nsid := nsid st; subs := subs st; vars := vars st; timers := l; outs := outs st |}.
Definition set_outs (st : state) (l : list (N * N)) : state :=
  {| now := now st; nsid := nsid st; subs := subs st; vars := vars st; timers := timers st; outs := l |}.

Fixpoint upd {A} (l : list A) (i : nat) (x : A) : list A :=
  match l, i with
  | [], _ => []
  | _ :: r, O => x :: r
  | y :: r, S k => y :: upd r k x
  end.

(* ------------------------------------------------------------------ events *)
(* the body of a NOTIFY: (index, value) of every evented variable, in declaration order; the value
   None is Python's None (rendered "None") *)
Fixpoint snap_from (i : nat) (c : cfg) (vals : list (option N)) : list (nat * option N) :=
  match c, vals with
  | d :: c', x :: vals' => (if d_ev d then [(i, x)] else []) ++ snap_from (S i) c' vals'
  | _, _ => []
  end.
Definition snapshot (c : cfg) (vals : list (option N)) := snap_from O c vals.

Record note := { n_cb : N; n_sid : N; n_seq : N; n_vals : list (nat * option N) }.
(* what happened in one quiescence run at virtual time r_t: the variables whose trigger_event ran and
   the NOTIFY requests issued *)
Record run := { r_t : Z; r_trig : list nat; r_notes : list note }.
Definition mk_runs (t : Z) (trig : list nat) (notes : list note) : list run :=
  match trig, notes with
  | [], [] => []
  | _, _ => [{| r_t := t; r_trig := trig; r_notes := notes |}]
  end.

(* EventSubscriber.get_next_seq: the key after k *)
Definition next_key (k : N) : N := if (seq_max <? k + 1)%N then seq_restart else (k + 1)%N.
Definition bump (s : sub) : sub :=
  {| s_sid := s_sid s; s_cb := s_cb s; s_key := next_key (s_key s); s_exp := s_exp s |}.
Definition note_for (body : list (nat * option N)) (s : sub) : note :=
  {| n_cb := s_cb s; n_sid := s_sid s; n_seq := s_key s; n_vals := body |}.

(* outstanding requests are kept ordered by SID (stable: one subscriber's requests in issue order) *)
Fixpoint ins_out (x : N * N) (l : list (N * N)) : list (N * N) :=
  match l with
  | [] => [x]
  | y :: r => if (fst x <? fst y)%N then x :: l else y :: ins_out x r
  end.
Definition add_outs (l : list (N * N)) (new : list (N * N)) : list (N * N) :=
  fold_left (fun acc x => ins_out x acc) new l.

(* async_send_events() without argument: drop expired subscribers, one NOTIFY to each remaining one *)
Definition send_batch (c : cfg) (st : state) : state * list note :=
  let live := filter (fun s => now st <? s_exp s) (subs st) in
  let body := snapshot c (map v_val (vars st)) in
  (set_outs (set_subs st (map bump live)) (add_outs (outs st) (map (fun s => (s_sid s, s_key s)) live)),
   map (note_for body) live).

Fixpoint send_batches (n : nat) (c : cfg) (st : state) : state * list note :=
  match n with
  | O => (st, [])
  | S k => let '(st1, n1) := send_batch c st in
           let '(st2, n2) := send_batches k c st1 in (st2, n1 ++ n2)
  end.

(* ------------------------------------------------------------------ operations, observations *)
Inductive sidref :=
| SAbsent           (* no SID header *)
| SEmpty            (* SID header with empty value *)
| SIdx (n : N)      (* the n-th SID the server has issued so far (a bogus SID if there is none) *)
| SBogus.           (* a SID the server never issued *)

Inductive op :=
| OSub (cb : option N) (t : tmo) (sid : sidref)     (* SUBSCRIBE request: subscription or renewal *)
| OUnsub (sid : sidref)                             (* UNSUBSCRIBE request *)
| OSet (v : nat) (x : N)                            (* state_variable(v).value = x *)
| OAdv (dt : N)                                     (* the clock advances by dt ms *)
| OLate (dt : N) (v : nat) (x : N)                  (* the clock advances by dt ms while the loop does not run, then
                                                       state_variable(v).value = x is processed BEFORE the timers
                                                       that became due (they fire in the same loop iteration) *)
| ODeliver (k : nat) (outcome : N)                  (* k-th outstanding NOTIFY (ordered by SID) completes: 0 = transport error, else status *)
| OJump (sid : N) (key : N).                        (* instrumentation: the subscriber's event key is set to key *)

Inductive sres :=
| SNone
| SResp (status : N) (sid : option N) (granted : option Z) (resp_first : bool)
| SRaised                                           (* the handler raised before any response was written *)
| SSet (code : N)                                   (* 1 = assignment returned, 2 = UpnpValueError *)
| SDeliv (sid seq : N)
| SJump.
Definition step_obs := (sres * list run)%type.

Definition find_sub (sid : N) (l : list sub) : option sub := find (fun s => (s_sid s =? sid)%N) l.
Fixpoint remove_first (sid : N) (l : list sub) : list sub :=
  match l with
  | [] => []
  | s :: r => if (s_sid s =? sid)%N then r else s :: remove_first sid r
  end.
Definition set_exp (s : sub) (e : Z) : sub := {| s_sid := s_sid s; s_cb := s_cb s; s_key := s_key s; s_exp := e |}.
Definition set_key (s : sub) (k : N) : sub := {| s_sid := s_sid s; s_cb := s_cb s; s_key := k; s_exp := s_exp s |}.
Definition map_sub (sid : N) (f : sub -> sub) (l : list sub) : list sub :=
  map (fun s => if (s_sid s =? sid)%N then f s else s) l.

(* the SID header as the handlers see it: None = absent, Some None = a value that matches nobody (or is
   empty: [empty] tells), Some (Some n) = the SID issued n-th *)
Definition sid_truthy (st : state) (r : sidref) : option N :=
  match r with
  | SIdx n => if (n <? nsid st)%N then Some n else Some (nsid st)   (* nsid st: matches nobody *)
  | SBogus => Some (nsid st)
  | _ => None
  end.

Definition refused (status : N) : step_obs := (SResp status None None true, []).

Definition do_subscribe (c : cfg) (st : state) (cb : option N) (t : tmo) (sid : sidref) : state * step_obs :=
  let tv := match render_tmo t with
            | None => Some None
            | Some h => match parse_timeout h with Some z => Some (Some z) | None => None end
            end in
  match tv with
  | None => (st, refused 400)                                     (* ValueError from int() *)
  | Some tv =>
      let granted := match tv with Some z => z | None => default_timeout end in
      let e := now st + 1000 * granted in
      match sid_truthy st sid with
      | Some n =>                                                 (* renewal *)
          match find_sub n (subs st) with
          | Some _ =>
              if wall_ok e then
                (set_subs st (map_sub n (fun s => set_exp s e) (subs st)), (SResp 200 (Some n) (Some granted) true, []))
              else (st, (SRaised, []))                            (* OverflowError out of the handler *)
          | None => (st, refused 404)
          end
      | None =>
          match cb with
          | None => (st, refused 404)
          | Some cbv =>
              if negb (wall_ok e) then (st, (SRaised, [])) else
              let s := {| s_sid := nsid st; s_cb := cbv; s_key := seq_init; s_exp := e |} in
              let st1 := set_nsid st (N.succ (nsid st)) in
              match sid with
              | SAbsent =>                                        (* initial subscription *)
                  let body := snapshot c (map v_val (vars st)) in
                  let st2 := set_outs (set_subs st1 (subs st ++ [bump s])) (add_outs (outs st) [(s_sid s, s_key s)]) in
                  (st2, (SResp 200 (Some (s_sid s)) (Some granted) true, mk_runs (now st) [] [note_for body s]))
              | _ =>                                              (* SID: "" - answered, never registered *)
                  (st1, (SResp 200 (Some (s_sid s)) (Some granted) true, []))
              end
          end
      end
  end.

Definition do_unsubscribe (st : state) (sid : sidref) : state * step_obs :=
  match sid_truthy st sid with
  | Some n =>
      match find_sub n (subs st) with
      | Some _ => (set_subs st (remove_first n (subs st)), (SResp 200 None None true, []))
      | None => (st, refused 412)
      end
  | None => (st, refused 412)
  end.

Definition opt_eqb (a b : option N) : bool :=
  match a, b with
  | Some x, Some y => (x =? y)%N
  | None, None => true
  | _, _ => false
  end.
Definition valid (d : decl) (x : N) : bool :=
  match d_max d with Some m => (x <=? m)%N | None => true end.
Definition set_val (v : var) (x : option N) : var := {| v_val := x; v_last := v_last v; v_dfr := v_dfr v |}.
Definition set_last (v : var) (t : Z) : var := {| v_val := v_val v; v_last := t; v_dfr := v_dfr v |}.
Definition set_dfr (v : var) (b : bool) : var := {| v_val := v_val v; v_last := v_last v; v_dfr := b |}.

Definition do_set (c : cfg) (st : state) (i : nat) (x : N) : state * step_obs :=
  match nth_error (vars st) i, nth_error c i with
  | Some vr, Some d =>
      if d_ev d && opt_eqb (v_val vr) (Some x) then (st, (SSet 1, []))        (* same value: nothing happens *)
      else if negb (valid d x) then (st, (SSet 2, []))                        (* UpnpValueError, value kept *)
      else
        let vr1 := set_val vr (Some x) in
        if negb (d_ev d) || v_dfr vr then (set_vars st (upd (vars st) i vr1), (SSet 1, []))
        else if v_last vr + d_rate d <=? now st then
          (* create_task(trigger_event) -> _last_sent = now; create_task(async_send_events()) *)
          let st1 := set_vars st (upd (vars st) i (set_last vr1 (now st))) in
          let '(st2, notes) := send_batch c st1 in
          (st2, (SSet 1, mk_runs (now st) [i] notes))
        else
          (set_timers (set_vars st (upd (vars st) i (set_dfr vr1 true)))
                      (timers st ++ [(v_last vr + d_rate d, i)]), (SSet 1, []))
  | _, _ => (st, (SNone, []))
  end.

(* the timers due at the current time fire in one loop iteration: each clears its variable's flag and
   creates the trigger task; then every trigger task runs (_last_sent = now), then every send task *)
Definition fire_var (t : Z) (vs : list var) (i : nat) : list var :=
  match nth_error vs i with
  | Some vr => upd vs i (set_last (set_dfr vr false) t)
  | None => vs
  end.
Definition fire (c : cfg) (st : state) : state * list run :=
  let due := filter (fun wi => fst wi <=? now st) (timers st) in
  let rest := filter (fun wi => negb (fst wi <=? now st)) (timers st) in
  let vs := fold_left (fire_var (now st)) (map snd due) (vars st) in
  let '(st1, notes) := send_batches (length due) c (set_timers (set_vars st vs) rest) in
  (st1, mk_runs (now st) (map snd due) notes).

Fixpoint min_when (l : list (Z * nat)) : option Z :=
  match l with
  | [] => None
  | (w, _) :: r => match min_when r with Some m => Some (Z.min w m) | None => Some w end
  end.

Fixpoint advance (fuel : nat) (c : cfg) (st : state) (target : Z) : state * list run :=
  match fuel with
  | O => (set_now st target, [])
  | S f =>
      match min_when (timers st) with
      | Some w =>
          if w <=? target then
            let '(st1, r) := fire c (set_now st (Z.max (now st) w)) in
            let '(st2, rs) := advance f c st1 target in (st2, r ++ rs)
          else (set_now st target, [])
      | None => (set_now st target, [])
      end
  end.

(* the assignment and the timers that fire behind it belong to ONE quiescence run: the triggers and the NOTIFY
   requests of the parts, in order *)
Definition merge_runs (t : Z) (rs : list run) : list run :=
  mk_runs t (flat_map r_trig rs) (flat_map r_notes rs).

(* the clock moves on without the loop running; the assignment is processed at the new clock value exactly
   as [do_set] does (a pending deferred event absorbs the change, whether its timer is overdue or not); then
   the timers that are due at that clock value fire as in one pass of [advance] that does not move the clock *)
Definition do_late (c : cfg) (st : state) (dt : N) (i : nat) (x : N) : state * step_obs :=
  let '(st1, ob) := do_set c (set_now st (now st + Z.of_N dt)) i x in
  let '(st2, rs2) := advance (S (length (timers st1))) c st1 (now st1) in
  (st2, (fst ob, merge_runs (now st1) (snd ob ++ rs2))).

Fixpoint remove_nth {A} (k : nat) (l : list A) : list A :=
  match l, k with
  | [], _ => []
  | _ :: r, O => r
  | y :: r, S k' => y :: remove_nth k' r
  end.

Definition step (c : cfg) (st : state) (o : op) : state * step_obs :=
  match o with
  | OSub cb t sid => do_subscribe c st cb t sid
  | OUnsub sid => do_unsubscribe st sid
  | OSet i x => do_set c st i x
  | OAdv dt =>
      let '(st1, rs) := advance (S (length (timers st))) c st (now st + Z.of_N dt) in (st1, (SNone, rs))
  | OLate dt i x => do_late c st dt i x
  | ODeliver k _ =>
      match nth_error (outs st) k with
      | Some x => (set_outs st (remove_nth k (outs st)), (SDeliv (fst x) (snd x), []))
      | None => (st, (SNone, []))
      end
  | OJump sid k =>
      match find_sub sid (subs st) with
      | Some _ => (set_subs st (map_sub sid (fun s => set_key s k) (subs st)), (SJump, []))
      | None => (st, (SNone, []))
      end
  end.

(* building the service: variables with a default value are assigned through the setter, which
   triggers an event (to nobody) and so starts their moderation interval at time 0 *)
Definition init_var (d : decl) : var :=
  {| v_val := d_def d;
     v_last := match d_def d with Some _ => if d_ev d then 0 else epoch | None => epoch end;
     v_dfr := false |}.
Fixpoint init_trig (i : nat) (c : cfg) : list nat :=
  match c with
  | [] => []
  | d :: r => (match d_def d with Some _ => if d_ev d then [i] else [] | None => [] end) ++ init_trig (S i) r
  end.
Definition init_state (c : cfg) : state :=
  {| now := 0; nsid := 0%N; subs := []; vars := map init_var c; timers := []; outs := [] |}.
Definition init_obs (c : cfg) : list run := mk_runs 0 (init_trig O c) [].

Fixpoint run_ops (c : cfg) (st : state) (ops : list op) : list step_obs :=
  match ops with
  | [] => []
  | o :: r => let '(st1, ob) := step c st o in ob :: run_ops c st1 r
  end.

Definition input := (cfg * list op)%type.
Definition observation := (list run * list step_obs)%type.
Definition model_run (i : input) : observation :=
  (init_obs (fst i), run_ops (fst i) (init_state (fst i)) (snd i)).
