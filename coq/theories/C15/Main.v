(* C15 — construction of the service, the induction over histories, and the clause theorems. *)
From Coq Require Import List Bool NArith ZArith Lia ZifyBool ZifyN Arith.
From AUC Require Import Prelude.PyStr Gen.Eventing C15.Model C15.Spec C15.Lemmas C15.Inv C15.Batch C15.Steps
  C15.StepSet C15.StepAdv C15.StepLate.
Import ListNotations.
Local Open Scope Z_scope.

Lemma settled_from_true c : forall pvs t last k,
  (forall i d pv, nth_error c i = Some d -> nth_error pvs i = Some pv -> d_ev d = true ->
     p_chg pv + d_rate d <= t -> exists x, lookup (k + i) last = Some x /\ opt_eqb x (p_val pv) = true) ->
  settled_from k c pvs t last = true.
Proof.
  induction c as [|d c IH]; intros pvs t last k H; cbn; auto.
  destruct pvs as [|pv pvs]; auto.
  apply andb_true_iff. split.
  - destruct (d_ev d) eqn:Hev; cbn; auto.
    destruct (p_chg pv + d_rate d <=? t) eqn:E; cbn; auto. apply Z.leb_le in E.
    destruct (H 0%nat d pv eq_refl eq_refl Hev E) as [x [Hl He]].
    rewrite Nat.add_0_r in Hl. rewrite Hl, He. reflexivity.
  - apply IH. intros i d' pv' Hc Hp Hev' Hle.
    replace (S k + i)%nat with (k + S i)%nat by lia. now apply (H (S i) d' pv').
Qed.

(* indices of the variables assigned (and therefore triggered) while the service is built *)
Lemma init_trig_spec c : forall k j,
  In j (init_trig k c) <-> (k <= j)%nat /\ exists d x, nth_error c (j - k) = Some d /\ d_ev d = true /\ d_def d = Some x.
Proof.
  induction c as [|d c IH]; intros k j; cbn [init_trig].
  - split; [intros []|]. intros [_ [d [x [H _]]]]. destruct (j - k)%nat; discriminate.
  - rewrite in_app_iff, IH. split.
    + intros [Hin|[Hle [d' [x [Hn Hr]]]]].
      * destruct (d_def d) as [x|] eqn:Ed; [|contradiction]. destruct (d_ev d) eqn:Ee; [|contradiction].
        destruct Hin as [<-|[]]. split; [lia|]. exists d, x. rewrite Nat.sub_diag. auto.
      * split; [lia|]. exists d', x. replace (j - k)%nat with (S (j - S k)) by lia. auto.
    + intros [Hle [d' [x [Hn [Hev Hdef]]]]]. destruct (Nat.eq_dec j k) as [->|Hne].
      * left. rewrite Nat.sub_diag in Hn. inversion Hn; subst d'. rewrite Hdef, Hev. now left.
      * right. split; [lia|]. exists d', x. replace (j - k)%nat with (S (j - S k)) in Hn by lia. auto.
Qed.

Lemma init_trig_nodup c : forall k, NoDup (init_trig k c).
Proof.
  induction c as [|d c IH]; intros k; cbn [init_trig]; [constructor|].
  destruct (d_def d); [destruct (d_ev d)|]; cbn [app]; auto.
  constructor; auto. intros Hin. apply init_trig_spec in Hin. lia.
Qed.

Section Main.
  Variable c : cfg.
  Hypothesis Hcfg : forallb decl_ok c = true.

  Lemma decl_ok_nth i d : nth_error c i = Some d -> decl_ok d = true.
  Proof. intros H. apply nth_error_In in H. eapply forallb_forall in Hcfg; eauto. Qed.

  Definition init_pvs := upd_all (trig_var 0) (init_trig 0 c) (map init_pvar c).
  Definition init_sp : sstate := {| sp_now := 0; sp_nsid := 0%N; sp_vars := init_pvs; sp_subs := [] |}.

  Lemma init_R : R c (init_state c) init_sp.
  Proof.
    unfold R, init_state, init_sp. cbn [now nsid vars timers subs sp_now sp_nsid sp_vars sp_subs].
    split; [reflexivity|]. split; [reflexivity|]. split; [lia|]. split; [|split].
    - split; [now rewrite map_length|]. split; [unfold init_pvs; now rewrite upd_all_length, map_length|].
      intros j d vr pv Hc Hvr Hp. rewrite nth_error_map, Hc in Hvr. cbn in Hvr. inversion Hvr; subst vr.
      pose proof (decl_ok_nth j d Hc) as Hok. unfold decl_ok in Hok.
      apply andb_true_iff in Hok. destruct Hok as [Hok Hdm]. apply andb_true_iff in Hok. destruct Hok as [Hr1 Hr2].
      assert (Hp0 : nth_error (map init_pvar c) j = Some (init_pvar d)) by (rewrite nth_error_map, Hc; reflexivity).
      assert (Hvalid : match d_def d with Some x => valid d x = true | None => True end).
      { unfold valid. destruct (d_def d); auto; try (destruct (d_max d); auto). }
      destruct (in_dec Nat.eq_dec j (init_trig 0 c)) as [Hin|Hnotin].
      + unfold init_pvs in Hp. rewrite (upd_all_in _ _ _ _ _ (init_trig_nodup c 0) Hin Hp0) in Hp.
        inversion Hp; subst pv. apply init_trig_spec in Hin. destruct Hin as [_ [d' [x [Hn [Hev Hdef]]]]].
        rewrite Nat.sub_0_r, Hc in Hn. inversion Hn; subst d'.
        unfold var_ok, init_var, trig_var. cbn [v_val v_last v_dfr p_triggered init_pvar p_val p_trig p_dirty].
        rewrite Hev, Hdef. rewrite Hdef in Hvalid. repeat split; auto; try lia; try (intros; discriminate).
      + unfold init_pvs in Hp. rewrite upd_all_out in Hp by auto. rewrite Hp0 in Hp. inversion Hp; subst pv.
        unfold var_ok, init_var. cbn [v_val v_last v_dfr init_pvar p_val p_trig p_dirty p_chg].
        split; [reflexivity|]. split; [exact Hvalid|]. split; [lia|].
        destruct (d_ev d) eqn:Hev; [|auto].
        destruct (d_def d) as [x|] eqn:Hdef.
        * exfalso. apply Hnotin. apply init_trig_spec. split; [lia|]. exists d, x. rewrite Nat.sub_0_r. auto.
        * unfold epoch. repeat split; auto; try lia; try (intros; discriminate).
    - split; [constructor|]. split; [intros w i []|].
      intros i vr Hvr Hd. rewrite nth_error_map in Hvr. destruct (nth_error c i); [|discriminate].
      cbn in Hvr. inversion Hvr; subst vr. cbn in Hd. discriminate.
    - split; [constructor|]. split; [constructor|]. split; intros s [].
  Qed.

  Lemma init_check :
    exists sp0, check_runs c None 0 (init_sstate c) (init_obs c) = (sp0, []) /\ R c (init_state c) sp0.
  Proof.
    unfold init_obs. destruct (init_trig 0 c) as [|i0 is0] eqn:E.
    - cbn [mk_runs]. exists (init_sstate c). split; [reflexivity|].
      pose proof init_R as H. unfold init_sp, init_pvs in H. rewrite E in H. exact H.
    - assert (Hruns : mk_runs 0 (i0 :: is0) [] = [{| r_t := 0; r_trig := i0 :: is0; r_notes := [] |}]) by reflexivity.
      rewrite Hruns. unfold check_runs. cbn [fold_left]. eexists. split.
      + apply check_run_eq with (pvs' := init_pvs) (ss' := []).
        * cbn [r_t r_trig init_sstate sp_vars]. unfold init_pvs. rewrite E. apply trig_fold.
          -- rewrite <- E. apply init_trig_nodup.
          -- intros i Hin. rewrite <- E in Hin. apply init_trig_spec in Hin.
             destruct Hin as [_ [d [x [Hn [Hev Hdef]]]]]. rewrite Nat.sub_0_r in Hn.
             exists d, (init_pvar d). split; auto. split; [rewrite nth_error_map, Hn; reflexivity|]. split; auto.
             pose proof (decl_ok_nth i d Hn) as Hok. unfold decl_ok in Hok.
             cbn [init_pvar p_trig]. unfold epoch. lia.
        * reflexivity.
        * reflexivity.
        * reflexivity.
      + exact init_R.
  Qed.

  (* every operation of the domain *)
  Lemma step_all m sp o :
    R c m sp -> op_ok o = true -> now m <= horizon -> step_ok c m sp o.
  Proof.
    intros HR Hok Hh. destruct o as [cb t sid|sid|i x|dt|dt i x|k oc|sid k].
    - cbn in Hok. destruct sid; try discriminate.
      + now apply step_subscribe.
      + apply step_renew; auto.
      + apply step_renew; auto.
    - now apply step_unsub.
    - now apply step_set.
    - now apply step_adv.
    - now apply step_late.
    - now apply step_deliver.
    - apply step_jump; auto. cbn in Hok. unfold seq_max. lia.
  Qed.

  Fixpoint run_state (m : state) (ops : list op) : state :=
    match ops with [] => m | o :: r => run_state (fst (step c m o)) r end.

  Lemma total_adv_nonneg ops : 0 <= total_adv ops.
  Proof. induction ops as [|o r IH]; cbn; [lia|]. destruct o; lia. Qed.

  Lemma total_adv_cons o r : total_adv (o :: r) = adv_of o + total_adv r.
  Proof. destruct o; reflexivity. Qed.

  Lemma run_ok : forall ops m sp idx,
    R c m sp -> forallb op_ok ops = true -> now m + total_adv ops <= horizon ->
    spec_steps c sp idx ops (run_ops c m ops) = [] /\
    R c (run_state m ops) (spec_fold c sp ops (run_ops c m ops)).
  Proof.
    induction ops as [|o r IH]; intros m sp idx HR Hok Hh; [split; [reflexivity|exact HR]|].
    cbn [forallb] in Hok. apply andb_true_iff in Hok. destruct Hok as [Ho Hr].
    rewrite total_adv_cons in Hh. pose proof (total_adv_nonneg r) as Hnn.
    assert (Hadv : 0 <= adv_of o) by (destruct o; cbn; lia).
    destruct (step_all m sp o HR Ho) as [sp' [Hs [HR' Hn']]]; [lia|].
    cbn [run_ops run_state]. rewrite (surjective_pairing (step c m o)).
    cbn [spec_steps spec_fold fst snd]. rewrite Hs. cbn [map app fst].
    apply IH; auto. lia.
  Qed.

  (* clause 9 from the relation *)
  Lemma R_ec m sp : R c m sp -> ec_ok c sp = true.
  Proof.
    intros [Hnow [_ [_ [Hv [[_ [Htm Hdf]] [Hnd1 [Hnd2 [Hms Hsp]]]]]]]].
    unfold ec_ok. apply forallb_forall. intros ss Hin.
    destruct (sp_now sp <? ss_exp ss) eqn:E; [|reflexivity]. cbn [negb orb].
    rewrite Hnow in *. apply Z.ltb_lt in E.
    destruct (Hsp ss Hin) as [_ Hex]. destruct (Hex E) as [s Hs].
    apply find_sub_some in Hs. destruct Hs as [Hs Hsid].
    destruct (Hms s Hs) as [_ [_ [ss' [Hf [_ [_ [_ [_ Hfr]]]]]]]].
    rewrite Hsid, (find_ssub_in _ Hnd2 ss Hin) in Hf. inversion Hf; subst ss'. clear Hf.
    apply settled_from_true. intros i d pv Hc Hp Hev Hle. cbn [Nat.add].
    destruct (vrel_nth c _ _ _ i d Hv Hc) as [vr [pv' [Hvr [Hpv' Hok]]]].
    rewrite Hp in Hpv'. inversion Hpv'; subst pv'. clear Hpv'.
    destruct Hok as [Hval [_ [Hrate Hev']]]. rewrite Hev in Hev'. destruct Hev' as [Hl [Hd [Hle' Hchg]]].
    destruct (Hfr i d vr Hc Hvr Hev) as [Hlk|Hdfr].
    - exists (v_val vr). split; auto. rewrite Hval. apply opt_eqb_refl.
    - exfalso. specialize (Hdf i vr Hvr Hdfr). apply in_map_iff in Hdf. destruct Hdf as [[w i'] [Hi' Hin']].
      cbn in Hi'. subst i'. destruct (Htm w i Hin') as [d' [vr' [Hc' [Hvr' [_ [_ [Hw Hlt]]]]]]].
      rewrite Hc in Hc'. rewrite Hvr in Hvr'. inversion Hc'; inversion Hvr'; subst.
      assert (p_trig pv <= p_chg pv) by (apply Hchg; congruence). lia.
  Qed.
End Main.

(* ------------------------------------------------------------------ the theorems *)
Theorem all_clauses : forall i, in_domain i = true -> spec_ok i (model_run i) = [].
Proof.
  intros [c ops] Hdom. unfold in_domain in Hdom. cbn [fst snd] in Hdom.
  apply andb_true_iff in Hdom. destruct Hdom as [Hdom Hh]. apply andb_true_iff in Hdom. destruct Hdom as [Hcfg Hops].
  apply Z.leb_le in Hh.
  unfold spec_ok, spec_final, model_run. cbn [fst snd].
  destruct (init_check c Hcfg) as [sp0 [Hinit HR0]]. rewrite Hinit. cbn [map app fst].
  destruct (run_ok c Hcfg ops (init_state c) sp0 1%N HR0 Hops) as [Hsteps HRf]; [cbn; lia|].
  rewrite Hsteps. cbn [app]. rewrite (R_ec c Hcfg _ _ HRf). reflexivity.
Qed.

Corollary clause_holds : forall cl i, in_domain i = true -> ~ In cl (map fst (spec_ok i (model_run i))).
Proof. intros cl i H. rewrite (all_clauses i H). intros []. Qed.

(* what clause 9 says, as a proposition *)
Lemma settled_from_sound c : forall pvs t last k,
  settled_from k c pvs t last = true ->
  forall i d pv, nth_error c i = Some d -> nth_error pvs i = Some pv -> d_ev d = true ->
    p_chg pv + d_rate d <= t -> lookup (k + i) last = Some (p_val pv).
Proof.
  induction c as [|d0 c IH]; intros pvs t last k H i d pv Hc Hp Hev Hle; [destruct i; discriminate|].
  destruct pvs as [|pv0 pvs]; [destruct i; discriminate|].
  cbn [settled_from] in H. apply andb_true_iff in H. destruct H as [H1 H2].
  destruct i as [|i]; cbn in Hc, Hp.
  - inversion Hc; inversion Hp; subst. rewrite Hev in H1. cbn [negb orb] in H1.
    replace (p_chg pv + d_rate d <=? t) with true in H1 by (symmetry; apply Z.leb_le; lia).
    cbn [negb orb] in H1. rewrite Nat.add_0_r.
    destruct (lookup k last) as [x|]; [|discriminate]. apply opt_eqb_eq in H1. now subst.
  - replace (k + S i)%nat with (S k + i)%nat by lia. eapply IH; eauto.
Qed.

Definition eventually_consistent (c : cfg) (sp : sstate) : Prop :=
  forall ss, In ss (sp_subs sp) -> sp_now sp < ss_exp ss ->            (* every unexpired subscriber *)
  forall i d pv, nth_error c i = Some d -> nth_error (sp_vars sp) i = Some pv -> d_ev d = true ->
    p_chg pv + d_rate d <= sp_now sp ->                                  (* last change at least one interval ago *)
    lookup i (ss_last ss) = Some (p_val pv).                             (* its last event carries the current value *)

Lemma ec_ok_sound c sp : ec_ok c sp = true -> eventually_consistent c sp.
Proof.
  intros H ss Hin Hlt i d pv Hc Hp Hev Hle. unfold ec_ok in H.
  eapply forallb_forall in H; eauto. replace (sp_now sp <? ss_exp ss) with true in H by (symmetry; apply Z.ltb_lt; lia).
  cbn [negb orb] in H. change i with (0 + i)%nat. eapply settled_from_sound; eauto.
Qed.

Theorem eventual_consistency : forall i, in_domain i = true ->
  eventually_consistent (fst i) (spec_final i (model_run i)).
Proof.
  intros i Hdom. apply ec_ok_sound. pose proof (all_clauses i Hdom) as H. unfold spec_ok in H.
  destruct (check_runs (fst i) None 0 (init_sstate (fst i)) (fst (model_run i))) as [sp0 f0].
  apply app_eq_nil in H. destruct H as [_ H]. apply app_eq_nil in H. destruct H as [_ H].
  destruct (ec_ok (fst i) (spec_final i (model_run i))); [reflexivity|discriminate].
Qed.

Theorem key_succession :
  (forall k, (k < 4294967295)%N -> next_key k = (k + 1)%N) /\ next_key 4294967295%N = 1%N /\
  (forall k, (k <= 4294967295)%N -> (1 <= next_key k <= 4294967295)%N).
Proof.
  unfold next_key, seq_max, seq_restart. split; [|split].
  - intros k Hk. destruct (4294967295 <? k + 1)%N eqn:E; lia.
  - reflexivity.
  - intros k Hk. destruct (4294967295 <? k + 1)%N eqn:E; lia.
Qed.
