(* C15 — clock advances: due timers fire, the relation is kept. *)
From Coq Require Import List Bool NArith ZArith Lia ZifyBool ZifyN Arith.
From AUC Require Import Prelude.PyStr Gen.Eventing C15.Model C15.Spec C15.Lemmas C15.Inv C15.Batch C15.Steps C15.StepSet.
Import ListNotations.
Local Open Scope Z_scope.

(* update the listed positions of a list *)
Definition upd_at {A} (g : A -> A) (l : list A) (i : nat) : list A :=
  match nth_error l i with Some a => upd l i (g a) | None => l end.
Definition upd_all {A} (g : A -> A) (is : list nat) (l : list A) : list A := fold_left (upd_at g) is l.

Lemma upd_at_length {A} (g : A -> A) l i : length (upd_at g l i) = length l.
Proof. unfold upd_at. destruct (nth_error l i); auto. apply length_upd. Qed.

Lemma upd_all_length {A} (g : A -> A) is : forall l, length (upd_all g is l) = length l.
Proof.
  induction is as [|i is IH]; intros l; cbn; auto. unfold upd_all in IH. rewrite IH. apply upd_at_length.
Qed.

Lemma upd_at_other {A} (g : A -> A) l i j : i <> j -> nth_error (upd_at g l i) j = nth_error l j.
Proof. intros Hne. unfold upd_at. destruct (nth_error l i); auto. now apply nth_error_upd_ne. Qed.

Lemma upd_all_out {A} (g : A -> A) is : forall l j, ~ In j is -> nth_error (upd_all g is l) j = nth_error l j.
Proof.
  induction is as [|i is IH]; intros l j Hnotin; cbn; auto.
  unfold upd_all in IH. rewrite IH by (intros H; apply Hnotin; now right).
  apply upd_at_other. intros ->. apply Hnotin. now left.
Qed.

Lemma upd_all_in {A} (g : A -> A) is : forall l j a,
  NoDup is -> In j is -> nth_error l j = Some a -> nth_error (upd_all g is l) j = Some (g a).
Proof.
  induction is as [|i is IH]; intros l j a Hnd Hin Ha; [contradiction|].
  inversion Hnd as [|? ? Hnotin Hnd']; subst. cbn.
  destruct (Nat.eq_dec i j) as [->|Hne].
  - fold (upd_all g is (upd_at g l j)). rewrite upd_all_out by auto.
    unfold upd_at. rewrite Ha. eapply nth_error_upd_eq; eauto.
  - destruct Hin as [->|Hin]; [contradiction|].
    unfold upd_all in IH. apply IH; auto. now rewrite upd_at_other.
Qed.

Lemma filter_split_length {A} (p : A -> bool) l :
  (length (filter p l) + length (filter (fun x => negb (p x)) l))%nat = length l.
Proof. induction l as [|a l IH]; cbn; auto. destruct (p a); cbn; lia. Qed.

Lemma nodup_snd_disjoint (p : Z * nat -> bool) tm w w' j :
  NoDup (map snd tm) -> In (w, j) (filter p tm) -> In (w', j) (filter (fun x => negb (p x)) tm) -> False.
Proof.
  intros Hnd H1 H2. apply filter_In in H1, H2. destruct H1 as [H1 P1]. destruct H2 as [H2 P2].
  assert (E : (w, j) = (w', j)).
  { clear P1 P2. induction tm as [|[w0 j0] tm IH]; [contradiction|].
    cbn in Hnd. inversion Hnd as [|? ? Hnotin Hnd']; subst.
    destruct H1 as [E1|H1]; destruct H2 as [E2|H2].
    - congruence.
    - inversion E1; subst. exfalso. apply Hnotin. apply in_map_iff. exists (w', j). auto.
    - inversion E2; subst. exfalso. apply Hnotin. apply in_map_iff. exists (w, j). auto.
    - now apply IH. }
  rewrite <- E in P2. rewrite P1 in P2. discriminate.
Qed.

Section StepAdv.
  Variable c : cfg.

  Lemma fire_vars_eq t is vs :
    fold_left (fire_var t) is vs = upd_all (fun vr => set_last (set_dfr vr false) t) is vs.
  Proof. reflexivity. Qed.

  Definition trig_var (t : Z) (pv : pvar) : pvar := p_triggered pv t.

  (* clause 4 (first half) for the triggers of the due timers *)
  Lemma trig_fold t : forall is pvs f,
    NoDup is ->
    (forall i, In i is -> exists d pv, nth_error c i = Some d /\ nth_error pvs i = Some pv /\
                                       d_ev d = true /\ p_trig pv + d_rate d <= t) ->
    fold_left (apply_trig c t) is (pvs, f) = (upd_all (trig_var t) is pvs, f).
  Proof.
    induction is as [|i is IH]; intros pvs f Hnd H; [reflexivity|].
    inversion Hnd as [|? ? Hnotin Hnd']; subst.
    destruct (H i (or_introl eq_refl)) as [d [pv [Hc [Hp [Hev Hle]]]]].
    cbn [fold_left]. unfold apply_trig at 2. cbn [fst snd]. rewrite Hp, Hc, Hev.
    replace (p_trig pv + d_rate d <=? t) with true by (symmetry; apply Z.leb_le; lia).
    cbn [andb chk]. rewrite app_nil_r.
    rewrite IH; auto.
    - unfold upd_all at 2. cbn [fold_left]. unfold upd_at at 2. rewrite Hp. reflexivity.
    - intros j Hin. destruct (H j (or_intror Hin)) as [d' [pv' [Hc' [Hp' Hrest]]]].
      exists d', pv'. split; auto. split; auto.
      rewrite nth_error_upd_ne; auto. intros ->. contradiction.
  Qed.

  Definition due_of (m : state) := filter (fun wi : Z * nat => fst wi <=? now m) (timers m).
  Definition rest_of (m : state) := filter (fun wi : Z * nat => negb (fst wi <=? now m)) (timers m).
  Definition fired_vars (m : state) :=
    upd_all (fun vr => set_last (set_dfr vr false) (now m)) (map snd (due_of m)) (vars m).
  Definition fired_state (m : state) := set_timers (set_vars m (fired_vars m)) (rest_of m).

  Lemma fire_eq m :
    fire c m = (fst (send_batches (length (due_of m)) c (fired_state m)),
                mk_runs (now m) (map snd (due_of m)) (snd (send_batches (length (due_of m)) c (fired_state m)))).
  Proof.
    unfold fire. fold (due_of m). fold (rest_of m). rewrite fire_vars_eq. fold (fired_vars m). fold (fired_state m).
    destruct (send_batches (length (due_of m)) c (fired_state m)). reflexivity.
  Qed.

  (* the pending timers were not due at some time t0: those due now may be OVERDUE (a late assignment) *)
  Lemma fire_R t0 m sp hi :
    sp_now sp <= now m -> now m <= hi -> sp_nsid sp = nsid m -> 0 <= now m ->
    vrel c (vars m) (sp_vars sp) (now m) ->
    timers_ok c (vars m) (timers m) t0 ->
    subs_ok c (vars m) (nsid m) (now m) (subs m) (sp_subs sp) ->
    (exists w i, In (w, i) (timers m) /\ w <= now m) ->
    exists sp2, fold_left (check_run c None hi) (snd (fire c m)) (sp, []) = (sp2, []) /\
                R c (fst (fire c m)) sp2 /\ now (fst (fire c m)) = now m /\
                (length (timers (fst (fire c m))) < length (timers m))%nat.
  Proof.
    intros Hlo Hhi Hns H0 Hv Htm Hsubs [w0 [i0 [Hin0 Hw0]]].
    set (t := now m) in *.
    pose proof Htm as [Hnd [Htm2 Htm3]].
    assert (Hdue : forall w i, In (w, i) (due_of m) ->
               exists d vr pv, nth_error c i = Some d /\ nth_error (vars m) i = Some vr /\
                               nth_error (sp_vars sp) i = Some pv /\ d_ev d = true /\ v_dfr vr = true /\
                               var_ok d vr pv t /\ v_last vr + d_rate d <= t).
    { intros w i Hin. apply filter_In in Hin. destruct Hin as [Hin Hle]. cbn in Hle. apply Z.leb_le in Hle.
      destruct (Htm2 w i Hin) as [d [vr [Hc [Hvr [Hev [Hdf [Hw Hlt]]]]]]].
      destruct (vrel_nth c _ _ _ i d Hv Hc) as [vr' [pv [Hvr' [Hp Hok]]]].
      rewrite Hvr in Hvr'. inversion Hvr'; subst vr'.
      exists d, vr, pv. repeat split; auto; try apply Hok. fold t in Hle. lia. }
    assert (Hnd_is : NoDup (map snd (due_of m))) by (apply NoDup_map_filter; auto).
    assert (Hne : due_of m <> []).
    { intros E. assert (Hin : In (w0, i0) (due_of m)).
      { apply filter_In. split; auto. cbn. apply Z.leb_le. auto. }
      rewrite E in Hin. contradiction. }
    (* the weak relation after the flags are cleared and the triggers ran *)
    set (sp1 := {| sp_now := t; sp_nsid := sp_nsid sp;
                   sp_vars := upd_all (trig_var t) (map snd (due_of m)) (sp_vars sp); sp_subs := sp_subs sp |}).
    assert (HR0 : R0 c (fired_state m) sp1).
    { unfold R0, fired_state, sp1.
      cbn [now nsid vars timers subs set_vars set_timers sp_now sp_nsid sp_vars sp_subs]. fold t.
      split; [reflexivity|]. split; [exact Hns|]. split; [exact H0|]. split; [|split].
      - destruct Hv as [L1 [L2 Hv']]. split; [unfold fired_vars; now rewrite upd_all_length|].
        split; [now rewrite upd_all_length|].
        intros j d vr pv Hc Hvr Hp.
        destruct (vrel_nth c _ _ _ j d (conj L1 (conj L2 Hv')) Hc) as [vr0 [pv0 [Hvr0 [Hp0 Hok0]]]].
        destruct (in_dec Nat.eq_dec j (map snd (due_of m))) as [Hin|Hnotin].
        + unfold fired_vars in Hvr. rewrite (upd_all_in _ _ _ _ _ Hnd_is Hin Hvr0) in Hvr.
          rewrite (upd_all_in _ _ _ _ _ Hnd_is Hin Hp0) in Hp. inversion Hvr; inversion Hp; subst vr pv.
          apply in_map_iff in Hin. destruct Hin as [[w j'] [Hj Hin]]. cbn in Hj. subst j'.
          destruct (Hdue w j Hin) as [d' [vr' [pv' [Hc' [_ [_ [Hev _]]]]]]].
          rewrite Hc in Hc'. inversion Hc'; subst d'.
          destruct Hok0 as [Hval [Hvd [Hrate _]]].
          unfold var_ok, trig_var. cbn [set_last set_dfr v_val v_last v_dfr p_triggered p_val p_trig p_dirty].
          rewrite Hev. fold t. repeat split; auto; try lia; try (intros; discriminate).
        + unfold fired_vars in Hvr. rewrite upd_all_out in Hvr by auto. rewrite upd_all_out in Hp by auto.
          rewrite Hvr0 in Hvr. rewrite Hp0 in Hp. inversion Hvr; inversion Hp; subst. exact Hok0.
      - split; [apply NoDup_map_filter; auto|]. split.
        + intros w j Hin.
          assert (Hnotin : ~ In j (map snd (due_of m))).
          { intros Hj. apply in_map_iff in Hj. destruct Hj as [[w' j'] [Hj' Hin']]. cbn in Hj'. subst j'.
            exact (nodup_snd_disjoint (fun wi => fst wi <=? now m) (timers m) w' w j Hnd Hin' Hin). }
          apply filter_In in Hin. destruct Hin as [Hin Hgt]. cbn in Hgt. apply negb_true_iff, Z.leb_gt in Hgt.
          destruct (Htm2 w j Hin) as [d [vr [Hc [Hvr Hrest]]]].
          exists d, vr. unfold fired_vars. rewrite upd_all_out by auto.
          destruct Hrest as [Ha [Hb [Hc0 Hd]]]. repeat split; auto.
        + intros j v Hvj Hdf.
          destruct (in_dec Nat.eq_dec j (map snd (due_of m))) as [Hin|Hnotin].
          * exfalso. destruct Hv as [L1 _].
            assert (Hlt : (j < length (vars m))%nat).
            { rewrite <- (upd_all_length (fun vr => set_last (set_dfr vr false) t) (map snd (due_of m))).
              apply nth_error_Some. unfold fired_vars in Hvj. fold t in Hvj. congruence. }
            destruct (nth_error (vars m) j) as [v0|] eqn:Ev0; [|apply nth_error_None in Ev0; lia].
            unfold fired_vars in Hvj. rewrite (upd_all_in _ _ _ _ _ Hnd_is Hin Ev0) in Hvj.
            inversion Hvj; subst v. cbn in Hdf. discriminate.
          * unfold fired_vars in Hvj. rewrite upd_all_out in Hvj by auto.
            specialize (Htm3 j v Hvj Hdf). apply in_map_iff in Htm3. destruct Htm3 as [[w j'] [Hj' Hin']].
            cbn in Hj'. subst j'. apply in_map_iff. exists (w, j). split; auto.
            apply filter_In. split; auto. cbn. fold t.
            destruct (w <=? t) eqn:E; auto. exfalso. apply Hnotin. apply in_map_iff. exists (w, j). split; auto.
            apply filter_In. split; auto.
      - eapply subs_ok_weaken; eauto. }
    destruct (length (due_of m)) as [|k] eqn:Elen; [destruct (due_of m); [congruence|discriminate]|].
    destruct (batches_R0 c k (fired_state m) sp1 [] HR0) as [sps' [Hfold [HR2 [Hcount [Hn2 [_ [_ Ht2]]]]]]].
    rewrite fire_eq, Elen. cbn [fst snd].
    assert (Hruns : mk_runs (now m) (map snd (due_of m)) (snd (send_batches (S k) c (fired_state m))) =
                    [{| r_t := t; r_trig := map snd (due_of m);
                        r_notes := snd (send_batches (S k) c (fired_state m)) |}]).
    { destruct (due_of m) as [|x l]; [congruence|reflexivity]. }
    rewrite Hruns. cbn [fold_left].
    eexists. split; [|split; [|split]].
    - apply check_run_eq with (pvs' := upd_all (trig_var t) (map snd (due_of m)) (sp_vars sp)) (ss' := sps').
      + cbn [r_t r_trig]. apply trig_fold; auto.
        intros i Hin. apply in_map_iff in Hin. destruct Hin as [[w i'] [Hi Hin]]. cbn in Hi. subst i'.
        destruct (Hdue w i Hin) as [d [vr [pv [Hc [Hvr [Hp [Hev [Hdf [Hok Hw]]]]]]]]].
        exists d, pv. repeat split; auto. destruct Hok as [_ [_ [_ Hev']]]. rewrite Hev in Hev'.
        destruct Hev' as [Hl _]. lia.
      + cbn [r_t r_notes]. exact Hfold.
      + cbn [r_t]. apply andb_true_iff. split; apply Z.leb_le; lia.
      + cbn [r_trig r_notes]. rewrite map_length, Elen. now apply counts_from_bound.
    - exact HR2.
    - exact Hn2.
    - rewrite Ht2. unfold fired_state. cbn [timers set_timers set_vars].
      pose proof (filter_split_length (fun wi : Z * nat => fst wi <=? now m) (timers m)) as Hsplit.
      change (length (due_of m) + length (rest_of m) = length (timers m))%nat in Hsplit.
      rewrite Elen in Hsplit. lia.
  Qed.

  Lemma var_ok_mono d vr pv t t' : t <= t' -> var_ok d vr pv t -> var_ok d vr pv t'.
  Proof.
    intros Hle [H1 [H2 [H3 H4]]]. split; auto. split; auto. split; auto.
    destruct (d_ev d); auto. destruct H4 as [Ha [Hb [Hc Hd]]]. repeat split; auto. lia.
  Qed.

  Lemma vrel_mono vs pvs t t' : t <= t' -> vrel c vs pvs t -> vrel c vs pvs t'.
  Proof.
    intros Hle [L1 [L2 H]]. split; auto. split; auto. intros i d vr pv Hc Hv Hp.
    eapply var_ok_mono; eauto.
  Qed.

  Lemma subs_ok_mono vs n t t' ms sps : t <= t' -> subs_ok c vs n t ms sps -> subs_ok c vs n t' ms sps.
  Proof.
    intros Hle [H1 [H2 [H3 H4]]]. split; auto. split; auto. split; auto.
    intros ss Hin. destruct (H4 ss Hin) as [Ha Hb]. split; auto. intros Ht. apply Hb. lia.
  Qed.

  Lemma timers_ok_time vs tm t t' :
    (forall w i, In (w, i) tm -> t' < w) -> timers_ok c vs tm t -> timers_ok c vs tm t'.
  Proof.
    intros Hall [H1 [H2 H3]]. split; auto. split; auto.
    intros w i Hin. destruct (H2 w i Hin) as [d [vr [Ha [Hb [Hc [Hd [He Hf]]]]]]].
    exists d, vr. repeat split; auto. eapply Hall; eauto.
  Qed.

  (* time passes and no timer is due *)
  Lemma R_wait t0 m sp t' :
    Rt c t0 m sp -> now m <= t' -> (forall w i, In (w, i) (timers m) -> t' < w) ->
    R c (set_now m t') (sp_set_now sp t').
  Proof.
    intros [Hnow [Hns [H0 [Hv [Htm Hsubs]]]]] Hle Hall. unfold R.
    cbn [now nsid vars timers subs set_now sp_set_now sp_now sp_nsid sp_vars sp_subs].
    split; [reflexivity|]. split; [exact Hns|]. split; [lia|]. split; [|split].
    - eapply vrel_mono; eauto.
    - eapply timers_ok_time; eauto.
    - eapply subs_ok_mono; eauto.
  Qed.

  Lemma advance_R fuel : forall t0 m sp target,
    Rt c t0 m sp -> now m <= target -> (length (timers m) < fuel)%nat ->
    exists sp2, fold_left (check_run c None target) (snd (advance fuel c m target)) (sp, []) = (sp2, []) /\
                R c (fst (advance fuel c m target)) (sp_set_now sp2 target) /\
                now (fst (advance fuel c m target)) = target.
  Proof.
    induction fuel as [|f IH]; intros t0 m sp target HR Hle Hlen; [lia|].
    cbn [advance].
    assert (Hwait : (forall w i, In (w, i) (timers m) -> target < w) ->
              exists sp2, fold_left (check_run c None target) [] (sp, []) = (sp2, []) /\
                          R c (set_now m target) (sp_set_now sp2 target) /\ now (set_now m target) = target).
    { intros Hall. exists sp. split; [reflexivity|]. split; [now apply R_wait with (t0 := t0)|reflexivity]. }
    destruct (min_when (timers m)) as [w|] eqn:Emin.
    2:{ apply min_when_none in Emin. cbn [fst snd]. apply Hwait. rewrite Emin. intros w i []. }
    destruct (min_when_some _ _ Emin) as [[i0 Hi0] Hmin].
    destruct (w <=? target) eqn:Ew.
    2:{ apply Z.leb_gt in Ew. cbn [fst snd]. apply Hwait. intros w' i Hin. specialize (Hmin w' i Hin). lia. }
    apply Z.leb_le in Ew.
    pose proof HR as [Hnow [Hns [H0 [Hv [Htm Hsubs]]]]].
    set (m1 := set_now m (Z.max (now m) w)).
    destruct (fire_R t0 m1 sp target) as [sp1 [Hf1 [HR1 [Hn1 Hl1]]]].
    - unfold m1. cbn [now set_now]. lia.
    - unfold m1. cbn [now set_now]. lia.
    - exact Hns.
    - unfold m1. cbn [now set_now]. lia.
    - unfold m1. cbn [now vars set_now]. eapply vrel_mono; [|exact Hv]. lia.
    - unfold m1. cbn [now vars timers set_now]. exact Htm.
    - unfold m1. cbn [now vars nsid subs set_now]. eapply subs_ok_mono; [|exact Hsubs]. lia.
    - exists w, i0. split; [exact Hi0|]. unfold m1. cbn [now set_now]. lia.
    - destruct (IH (now (fst (fire c m1))) (fst (fire c m1)) sp1 target HR1) as [sp2 [Hf2 [HR2 Hn2]]].
      + rewrite Hn1. unfold m1. cbn [now set_now]. lia.
      + change (timers m1) with (timers m) in Hl1. lia.
      + rewrite (surjective_pairing (fire c m1)).
        rewrite (surjective_pairing (advance f c (fst (fire c m1)) target)). cbn [fst snd].
        exists sp2. rewrite fold_left_app, Hf1. split; [exact Hf2|]. split; [exact HR2|exact Hn2].
  Qed.

  Lemma step_adv m sp dt : R c m sp -> step_ok c m sp (OAdv dt).
  Proof.
    intros HR. unfold step_ok. cbn [step adv_of].
    pose proof HR as [Hnow _].
    destruct (advance_R (S (length (timers m))) (now m) m sp (now m + Z.of_N dt) HR) as [sp2 [Hf [HR2 Hn2]]]; [lia|lia|].
    rewrite (surjective_pairing (advance _ c m _)). cbn [fst snd]. unfold spec_step. cbn [fst snd chk].
    rewrite Hnow.
    eexists. split; [eapply finish_ok; [exact Hf|exact HR2]|]. split; [exact HR2|exact Hn2].
  Qed.
End StepAdv.
