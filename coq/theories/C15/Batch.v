(* C15 — one fan-out (async_send_events) seen by the specification. *)
From Coq Require Import List Bool NArith ZArith Lia ZifyBool ZifyN Arith.
From AUC Require Import Prelude.PyStr Gen.Eventing C15.Model C15.Spec C15.Lemmas C15.Inv.
Import ListNotations.
Local Open Scope Z_scope.

Definition sent_all (body : list (nat * option N)) (live : list sub) (sps : list ssub) : list ssub :=
  map (fun ss => match find_sub (ss_sid ss) live with
                 | Some s => ss_sent ss (next_key (s_key s)) body
                 | None => ss
                 end) sps.

Lemma sent_all_sids body live sps : map ss_sid (sent_all body live sps) = map ss_sid sps.
Proof.
  unfold sent_all. rewrite map_map. apply map_ext. intros ss. destruct (find_sub (ss_sid ss) live); auto.
Qed.

Lemma find_ssub_sent_all body live sps x :
  find_ssub x (sent_all body live sps) =
  match find_ssub x sps with
  | Some ss => Some (match find_sub (ss_sid ss) live with
                     | Some s => ss_sent ss (next_key (s_key s)) body
                     | None => ss
                     end)
  | None => None
  end.
Proof.
  unfold find_ssub, sent_all. induction sps as [|a l IH]; cbn; auto.
  assert (E : ss_sid (match find_sub (ss_sid a) live with
                      | Some s => ss_sent a (next_key (s_key s)) body | None => a end) = ss_sid a)
    by (destruct (find_sub (ss_sid a) live); auto).
  rewrite E. destruct (ss_sid a =? x)%N; auto.
Qed.

Lemma sent_all_nil body sps : sent_all body [] sps = sps.
Proof. unfold sent_all. cbn. apply map_id. Qed.

Lemma sent_all_cons body s live sps :
  ~ In (s_sid s) (map s_sid live) ->
  sent_all body live (map_ssub (s_sid s) (fun x => ss_sent x (next_key (s_key s)) body) sps)
  = sent_all body (s :: live) sps.
Proof.
  intros Hnotin. unfold sent_all, map_ssub. rewrite map_map. apply map_ext. intros ss.
  unfold find_sub at 2. cbn [find]. fold (find_sub (ss_sid ss) live).
  rewrite (N.eqb_sym (s_sid s) (ss_sid ss)).
  destruct (N.eqb_spec (ss_sid ss) (s_sid s)) as [He|Hne].
  - cbn [ss_sid ss_sent]. rewrite He.
    rewrite find_sub_absent; auto.
    intros s' Hin Hs'. apply Hnotin. rewrite <- Hs'. now apply in_map.
  - reflexivity.
Qed.

(* the notes of one fan-out, checked by the specification: no failing clause, every addressee advanced *)
Lemma notes_fold body t : forall live sps f,
  NoDup (map s_sid live) ->
  (forall s, In s live -> t < s_exp s /\ (s_key s <= seq_max)%N /\
      exists ss, find_ssub (s_sid s) sps = Some ss /\ ss_cb ss = s_cb s /\ ss_exp ss = s_exp s /\
                 ss_key ss = s_key s) ->
  fold_left (apply_note t) (map (note_for body) live) (sps, f) = (sent_all body live sps, f).
Proof.
  induction live as [|s live IH]; intros sps f Hnd H.
  - cbn. now rewrite sent_all_nil.
  - inversion Hnd as [|? ? Hnotin Hnd']; subst.
    cbn [map fold_left]. unfold apply_note at 2. cbn [fst snd note_for n_sid n_seq n_cb n_vals].
    destruct (H s (or_introl eq_refl)) as [Hexp [Hkey [ss [Hf [Hcb [Hex Hk]]]]]].
    rewrite Hf, Hex, Hcb, Hk.
    replace (t <? s_exp s) with true by (symmetry; apply Z.ltb_lt; lia).
    rewrite !N.eqb_refl. cbn [andb chk]. rewrite !app_nil_r.
    rewrite (next_key_spec _ Hkey).
    rewrite IH; auto.
    + now rewrite sent_all_cons.
    + intros s' Hin. destruct (H s' (or_intror Hin)) as [Hexp' [Hkey' [ss' [Hf' Hrest]]]].
      repeat split; auto.
      rewrite find_ssub_map_ssub by reflexivity. rewrite Hf'.
      destruct (N.eqb_spec (ss_sid ss') (s_sid s)) as [He|Hne].
      * exfalso. apply Hnotin. apply find_ssub_some in Hf'. destruct Hf' as [_ Hsid].
        rewrite <- He, Hsid. now apply in_map.
      * eexists; split; [reflexivity|exact Hrest].
Qed.

Lemma count_sid_app sid a b : count_sid sid (a ++ b) = (count_sid sid a + count_sid sid b)%nat.
Proof. unfold count_sid. now rewrite filter_app, app_length. Qed.

Lemma filter_notes_none body sid l :
  (forall s, In s l -> s_sid s <> sid) ->
  filter (fun n => (n_sid n =? sid)%N) (map (note_for body) l) = [].
Proof.
  induction l as [|a l IH]; intros H; cbn; auto.
  destruct (N.eqb_spec (s_sid a) sid) as [He|Hne].
  - exfalso. apply (H a); cbn; auto.
  - apply IH. intros s Hin. apply H. now right.
Qed.

Lemma count_le1 body sid l : NoDup (map s_sid l) -> (count_sid sid (map (note_for body) l) <= 1)%nat.
Proof.
  unfold count_sid. induction l as [|a l IH]; intros Hnd; cbn; [lia|].
  inversion Hnd as [|? ? Hnotin Hnd']; subst. specialize (IH Hnd').
  destruct (N.eqb_spec (s_sid a) sid) as [He|Hne]; cbn [length]; [|lia].
  rewrite filter_notes_none; [cbn; lia|].
  intros s Hin Hs. apply Hnotin. rewrite He, <- Hs. now apply in_map.
Qed.

Section Batch.
  Variable c : cfg.

  Lemma map_bump_sids l : map s_sid (map bump l) = map s_sid l.
  Proof. rewrite map_map. now apply map_ext. Qed.

  Lemma find_sub_bump x l :
    find_sub x (map bump l) = match find_sub x l with Some s => Some (bump s) | None => None end.
  Proof. unfold find_sub. induction l as [|a l IH]; cbn; auto. destruct (s_sid a =? x)%N; auto. Qed.

  (* what the relation needs about the subscriber lists after a fan-out at time t *)
  Lemma batch_subs vs n t ms sps :
    length vs = length c ->
    subs_ok0 n t ms sps ->
    let live := filter (fun s => t <? s_exp s) ms in
    let body := snapshot c (map v_val vs) in
    subs_ok c vs n t (map bump live) (sent_all body live sps) /\
    (forall s, In s live -> t < s_exp s /\ (s_key s <= seq_max)%N /\
        exists ss, find_ssub (s_sid s) sps = Some ss /\ ss_cb ss = s_cb s /\ ss_exp ss = s_exp s /\
                   ss_key ss = s_key s) /\
    NoDup (map s_sid live).
  Proof.
    intros Hlen [Hnd1 [Hnd2 [Hms Hsp]]] live body.
    assert (Hndl : NoDup (map s_sid live)) by (apply NoDup_map_filter; auto).
    assert (Hlive : forall s, In s live -> In s ms /\ t < s_exp s).
    { intros s Hin. apply filter_In in Hin. destruct Hin as [Hin Ht]. apply Z.ltb_lt in Ht. auto. }
    split; [|split]; auto.
    - split; [now rewrite map_bump_sids|]. split; [now rewrite sent_all_sids|]. split.
      + intros s' Hin'. apply in_map_iff in Hin'. destruct Hin' as [s [<- Hin]].
        destruct (Hlive s Hin) as [Hin0 Ht].
        destruct (Hms s Hin0) as [Hlt [Hk [ss [Hf [Hsid [Hcb [Hex Hkey]]]]]]].
        cbn [bump s_sid s_key]. split; auto. split; [now apply next_key_bound|].
        rewrite find_ssub_sent_all, Hf. rewrite Hsid.
        rewrite (find_sub_in _ Hndl s Hin).
        eexists. split; [reflexivity|].
        unfold sub_match. cbn [ss_sent ss_sid ss_cb ss_exp ss_key ss_last bump s_sid s_cb s_exp s_key].
        repeat split; auto.
        intros i d vr Hc Hvr Hev. left. unfold body. eapply lookup_snapshot; eauto.
        rewrite nth_error_map, Hvr. reflexivity.
      + intros ss' Hin'. unfold sent_all in Hin'. apply in_map_iff in Hin'. destruct Hin' as [ss [Heq Hin]].
        destruct (Hsp ss Hin) as [Hlt Hex].
        assert (E1 : ss_sid ss' = ss_sid ss) by (subst ss'; destruct (find_sub (ss_sid ss) live); auto).
        assert (E2 : ss_exp ss' = ss_exp ss) by (subst ss'; destruct (find_sub (ss_sid ss) live); auto).
        rewrite E1, E2. split; auto. intros Ht. destruct (Hex Ht) as [s Hs].
        pose proof (find_sub_some _ _ _ Hs) as [Hin0 Hsid].
        destruct (Hms s Hin0) as [_ [_ [ss0 [Hf0 [_ [_ [Hex0 _]]]]]]].
        rewrite Hsid, (find_ssub_in _ Hnd2 ss Hin) in Hf0. inversion Hf0; subst ss0.
        assert (Hl : In s live) by (apply filter_In; split; auto; apply Z.ltb_lt; lia).
        exists (bump s). rewrite find_sub_bump. rewrite <- Hsid, (find_sub_in _ Hndl s Hl). reflexivity.
    - intros s Hin. destruct (Hlive s Hin) as [Hin0 Ht].
      destruct (Hms s Hin0) as [_ [Hk [ss [Hf [_ [Hcb [Hex Hkey]]]]]]].
      split; auto. split; auto. exists ss. auto.
  Qed.

  (* send_batch: the relation is kept, the specification finds nothing wrong with the notes *)
  Lemma batch_Rt t0 m sp f :
    R0t c t0 m sp ->
    exists sps',
      fold_left (apply_note (now m)) (snd (send_batch c m)) (sp_subs sp, f) = (sps', f) /\
      Rt c t0 (fst (send_batch c m)) (sp_set_subs sp sps') /\
      (forall sid, (count_sid sid (snd (send_batch c m)) <= 1)%nat) /\
      now (fst (send_batch c m)) = now m /\ nsid (fst (send_batch c m)) = nsid m /\
      vars (fst (send_batch c m)) = vars m /\ timers (fst (send_batch c m)) = timers m.
  Proof.
    intros [Hnow [Hns [H0 [Hv [Htm Hsubs]]]]].
    destruct Hv as [L1 Hv'].
    destruct (batch_subs (vars m) (nsid m) (now m) (subs m) (sp_subs sp) L1 Hsubs) as [Hs' [Hlive Hndl]].
    unfold send_batch. cbn [fst snd].
    eexists. split; [apply notes_fold; auto|].
    split.
    - unfold Rt. cbn [now nsid vars timers subs set_outs set_subs sp_set_subs sp_now sp_nsid sp_vars sp_subs].
      split; [exact Hnow|]. split; [exact Hns|]. split; [exact H0|]. split; [exact (conj L1 Hv')|].
      split; [exact Htm|exact Hs'].
    - split; [intros sid; now apply count_le1|]. cbn. auto.
  Qed.

  Lemma batch_R m sp f :
    R0 c m sp ->
    exists sps',
      fold_left (apply_note (now m)) (snd (send_batch c m)) (sp_subs sp, f) = (sps', f) /\
      R c (fst (send_batch c m)) (sp_set_subs sp sps') /\
      (forall sid, (count_sid sid (snd (send_batch c m)) <= 1)%nat) /\
      now (fst (send_batch c m)) = now m /\ nsid (fst (send_batch c m)) = nsid m /\
      vars (fst (send_batch c m)) = vars m /\ timers (fst (send_batch c m)) = timers m.
  Proof. intros H. exact (batch_Rt (now m) m sp f H). Qed.

  Lemma send_batches_S k m :
    send_batches (S k) c m =
    (fst (send_batches k c (fst (send_batch c m))),
     snd (send_batch c m) ++ snd (send_batches k c (fst (send_batch c m)))).
  Proof.
    cbn [send_batches]. destruct (send_batch c m) as [st1 n1]. cbn [fst snd].
    destruct (send_batches k c st1) as [st2 n2]. reflexivity.
  Qed.

  Lemma R_set_subs_twice sp a b : sp_set_subs (sp_set_subs sp a) b = sp_set_subs sp b.
  Proof. reflexivity. Qed.

  (* any number of further fan-outs *)
  Lemma batches_R k : forall m sp f,
    R c m sp ->
    exists sps',
      fold_left (apply_note (now m)) (snd (send_batches k c m)) (sp_subs sp, f) = (sps', f) /\
      R c (fst (send_batches k c m)) (sp_set_subs sp sps') /\
      (forall sid, (count_sid sid (snd (send_batches k c m)) <= k)%nat) /\
      now (fst (send_batches k c m)) = now m /\ nsid (fst (send_batches k c m)) = nsid m /\
      vars (fst (send_batches k c m)) = vars m /\ timers (fst (send_batches k c m)) = timers m.
  Proof.
    induction k as [|k IH]; intros m sp f HR.
    - cbn. exists (sp_subs sp). split; [reflexivity|]. split.
      + destruct sp; exact HR.
      + split; [intros; unfold count_sid; cbn; lia|]. auto.
    - rewrite send_batches_S. cbn [fst snd].
      destruct (batch_R m sp f (R_R0 c m sp HR)) as [sps1 [Hf1 [HR1 [Hc1 [Hn1 [Hs1 [Hv1 Ht1]]]]]]].
      destruct (IH (fst (send_batch c m)) (sp_set_subs sp sps1) f HR1)
        as [sps2 [Hf2 [HR2 [Hc2 [Hn2 [Hs2 [Hv2 Ht2]]]]]]].
      exists sps2. rewrite fold_left_app, Hf1. rewrite Hn1 in Hf2. cbn [sp_set_subs sp_subs] in Hf2.
      split; [exact Hf2|]. split; [exact HR2|].
      split.
      + intros sid. rewrite count_sid_app. specialize (Hc1 sid). specialize (Hc2 sid). lia.
      + repeat split; congruence.
  Qed.

  (* at least one fan-out, starting from the weak relation *)
  Lemma batches_R0 k m sp f :
    R0 c m sp ->
    exists sps',
      fold_left (apply_note (now m)) (snd (send_batches (S k) c m)) (sp_subs sp, f) = (sps', f) /\
      R c (fst (send_batches (S k) c m)) (sp_set_subs sp sps') /\
      (forall sid, (count_sid sid (snd (send_batches (S k) c m)) <= S k)%nat) /\
      now (fst (send_batches (S k) c m)) = now m /\ nsid (fst (send_batches (S k) c m)) = nsid m /\
      vars (fst (send_batches (S k) c m)) = vars m /\ timers (fst (send_batches (S k) c m)) = timers m.
  Proof.
    intros HR0. rewrite send_batches_S. cbn [fst snd].
    destruct (batch_R m sp f HR0) as [sps1 [Hf1 [HR1 [Hc1 [Hn1 [Hs1 [Hv1 Ht1]]]]]]].
    destruct (batches_R k (fst (send_batch c m)) (sp_set_subs sp sps1) f HR1)
      as [sps2 [Hf2 [HR2 [Hc2 [Hn2 [Hs2 [Hv2 Ht2]]]]]]].
    exists sps2. rewrite fold_left_app, Hf1. rewrite Hn1 in Hf2. cbn [sp_set_subs sp_subs] in Hf2.
    split; [exact Hf2|]. split; [exact HR2|].
    split.
    - intros sid. rewrite count_sid_app. specialize (Hc1 sid). specialize (Hc2 sid). lia.
    - repeat split; congruence.
  Qed.
End Batch.
