(* C15 — every operation keeps the relation and produces an observation the specification accepts:
   the requests (SUBSCRIBE, renewal, UNSUBSCRIBE), NOTIFY completion, key jump. *)
From Coq Require Import List Bool NArith ZArith Lia ZifyBool ZifyN Arith.
From AUC Require Import Prelude.PyStr Gen.Eventing C15.Model C15.Spec C15.Lemmas C15.Timeout C15.Inv C15.Batch.
Import ListNotations.
Local Open Scope Z_scope.

Definition adv_of (o : op) : Z := match o with OAdv dt => Z.of_N dt | _ => 0 end.

Section Steps.
  Variable c : cfg.

  Definition step_ok (m : state) (sp : sstate) (o : op) : Prop :=
    exists sp', spec_step c sp o (snd (step c m o)) = (sp', []) /\ R c (fst (step c m o)) sp' /\
                now (fst (step c m o)) = now m + adv_of o.

  Lemma finish_ok rs m' sp1 sp2 ns hi :
    check_runs c ns hi sp1 rs = (sp2, []) -> R c m' (sp_set_now sp2 hi) ->
    finish_step c rs sp1 ns hi [] = (sp_set_now sp2 hi, []).
  Proof. intros H HR. unfold finish_step. rewrite H. rewrite (R_fresh c _ _ HR). reflexivity. Qed.

  Lemma finish_norun m' sp1 :
    R c m' sp1 -> finish_step c [] sp1 None (sp_now sp1) [] = (sp_set_now sp1 (sp_now sp1), []) /\
                  R c m' (sp_set_now sp1 (sp_now sp1)).
  Proof.
    intros HR. assert (HR' : R c m' (sp_set_now sp1 (sp_now sp1))) by exact HR.
    split; auto. eapply finish_ok; [reflexivity|exact HR'].
  Qed.

  (* ---------------------------------------------------------------- subscriber list updates *)
  Lemma subs_ok_map vs n t ms sps sid f g :
    (forall s, s_sid (f s) = s_sid s) -> (forall s, ss_sid (g s) = ss_sid s) ->
    (forall s ss, (s_key s <= seq_max)%N -> sub_match c vs s ss ->
                  (s_key (f s) <= seq_max)%N /\ sub_match c vs (f s) (g ss)) ->
    (exists s, find_sub sid ms = Some s) ->
    subs_ok c vs n t ms sps -> subs_ok c vs n t (map_sub sid f ms) (map_ssub sid g sps).
  Proof.
    intros Hf Hg Hfg [s0 Hs0] [Hnd1 [Hnd2 [Hms Hsp]]].
    split; [now rewrite map_sub_sids|]. split; [now rewrite map_ssub_sids|]. split.
    - intros s' Hin'. unfold map_sub in Hin'. apply in_map_iff in Hin'. destruct Hin' as [s [Heq Hin]].
      destruct (Hms s Hin) as [Hlt [Hk [ss [Hfs Hm]]]].
      assert (Hsid' : s_sid s' = s_sid s) by (subst s'; destruct (s_sid s =? sid)%N; auto).
      rewrite Hsid'. split; auto.
      rewrite find_ssub_map_ssub by auto. rewrite Hfs.
      assert (Hss : ss_sid ss = s_sid s) by apply Hm. rewrite Hss.
      destruct (s_sid s =? sid)%N; subst s'.
      + destruct (Hfg s ss Hk Hm) as [Hk' Hm']. split; auto. eexists; split; [reflexivity|auto].
      + split; auto. eexists; split; [reflexivity|auto].
    - intros ss' Hin'. unfold map_ssub in Hin'. apply in_map_iff in Hin'. destruct Hin' as [ss [Heq Hin]].
      destruct (Hsp ss Hin) as [Hlt Hex].
      assert (Hsid' : ss_sid ss' = ss_sid ss) by (subst ss'; destruct (ss_sid ss =? sid)%N; auto).
      rewrite Hsid'. split; auto. intros Ht.
      rewrite find_sub_map_sub by auto.
      destruct (N.eqb_spec (ss_sid ss) sid) as [He|Hne].
      + rewrite He, Hs0. eauto.
      + subst ss'. destruct (Hex Ht) as [s Hs]. rewrite Hs. eauto.
  Qed.

  Lemma subs_ok_remove vs n t ms sps sid :
    subs_ok c vs n t ms sps ->
    subs_ok c vs n t (filter (fun s => negb (s_sid s =? sid)%N) ms)
                     (filter (fun s => negb (ss_sid s =? sid)%N) sps).
  Proof.
    intros [Hnd1 [Hnd2 [Hms Hsp]]].
    split; [now apply NoDup_map_filter|]. split; [now apply NoDup_map_filter|]. split.
    - intros s Hin. apply filter_In in Hin. destruct Hin as [Hin Hne].
      destruct (Hms s Hin) as [Hlt [Hk [ss [Hfs Hm]]]]. split; auto. split; auto.
      exists ss. split; auto. rewrite find_ssub_filter_nodup by auto. rewrite Hfs.
      assert (Hss : ss_sid ss = s_sid s) by apply Hm. rewrite Hss, Hne. reflexivity.
    - intros ss Hin. apply filter_In in Hin. destruct Hin as [Hin Hne].
      destruct (Hsp ss Hin) as [Hlt Hex]. split; auto. intros Ht. destruct (Hex Ht) as [s Hs].
      exists s. rewrite find_sub_filter_nodup by auto. rewrite Hs.
      apply find_sub_some in Hs. destruct Hs as [_ Hsid]. rewrite Hsid, Hne. reflexivity.
  Qed.

  Lemma subs_ok_add vs n t ms sps s ss :
    s_sid s = n -> (s_key s <= seq_max)%N -> sub_match c vs s ss ->
    subs_ok c vs n t ms sps -> subs_ok c vs (N.succ n) t (ms ++ [s]) (sps ++ [ss]).
  Proof.
    intros Hsid Hk Hm [Hnd1 [Hnd2 [Hms Hsp]]].
    assert (Hss : ss_sid ss = n) by (destruct Hm as [H _]; congruence).
    assert (Ha1 : forall x, In x ms -> s_sid x <> n) by (intros x Hin; destruct (Hms x Hin); lia).
    assert (Ha2 : forall x, In x sps -> ss_sid x <> n) by (intros x Hin; destruct (Hsp x Hin); lia).
    split; [|split; [|split]].
    - rewrite map_app. cbn. apply NoDup_app_one; auto.
      intros Hin. apply in_map_iff in Hin. destruct Hin as [x [Hx Hin]]. apply (Ha1 x Hin). congruence.
    - rewrite map_app. cbn. apply NoDup_app_one; auto.
      intros Hin. apply in_map_iff in Hin. destruct Hin as [x [Hx Hin]]. apply (Ha2 x Hin). congruence.
    - intros x Hin. apply in_app_or in Hin. destruct Hin as [Hin|[<-|[]]].
      + destruct (Hms x Hin) as [Hlt [Hkx [sx [Hfx Hmx]]]]. split; [lia|]. split; auto.
        exists sx. split; auto. rewrite find_ssub_app, Hfx. reflexivity.
      + split; [lia|]. split; auto. exists ss. split; auto.
        rewrite find_ssub_app, find_ssub_absent by (rewrite Hsid; auto).
        unfold find_ssub. cbn. rewrite Hss, Hsid, N.eqb_refl. reflexivity.
    - intros x Hin. apply in_app_or in Hin. destruct Hin as [Hin|[<-|[]]].
      + destruct (Hsp x Hin) as [Hlt Hex]. split; [lia|]. intros Ht. destruct (Hex Ht) as [y Hy].
        exists y. rewrite find_sub_app, Hy. reflexivity.
      + split; [lia|]. intros _. exists s. rewrite find_sub_app, find_sub_absent by (rewrite Hss; auto).
        unfold find_sub. cbn. rewrite Hss, Hsid, N.eqb_refl. reflexivity.
  Qed.

  (* ---------------------------------------------------------------- NOTIFY completion, key jump *)
  Lemma R_outs m l sp : R c m sp -> R c (set_outs m l) sp.
  Proof. intros H. exact H. Qed.

  Lemma step_deliver m sp k oc : R c m sp -> step_ok m sp (ODeliver k oc).
  Proof.
    intros HR. unfold step_ok. cbn [step adv_of]. rewrite Z.add_0_r.
    destruct (nth_error (outs m) k) as [x|]; cbn [fst snd]; unfold spec_step; cbn [fst snd chk].
    - destruct (finish_norun (set_outs m (remove_nth k (outs m))) sp (R_outs m _ sp HR)) as [Hf HR'].
      eexists. split; [exact Hf|]. split; [exact HR'|reflexivity].
    - destruct (finish_norun m sp HR) as [Hf HR']. eexists. split; [exact Hf|]. split; [exact HR'|reflexivity].
  Qed.

  Lemma step_jump m sp sid k : R c m sp -> (k <= seq_max)%N -> step_ok m sp (OJump sid k).
  Proof.
    intros HR Hk. unfold step_ok. cbn [step adv_of]. rewrite Z.add_0_r.
    destruct (find_sub sid (subs m)) as [s|] eqn:Hfs; cbn [fst snd]; unfold spec_step; cbn [fst snd].
    - assert (HR1 : R c (set_subs m (map_sub sid (fun s => set_key s k) (subs m)))
                      (sp_set_subs sp (map_ssub sid (fun s => ss_set_key s k) (sp_subs sp)))).
      { destruct HR as [H1 [H2 [H3 [H4 [H5 H6]]]]]. unfold R. repeat (split; [assumption|]).
        cbn [subs set_subs sp_subs sp_set_subs vars nsid now].
        apply subs_ok_map; auto; [|eauto].
        intros s0 ss0 _ [Ha [Hb [Hc [Hd He]]]]. split; [exact Hk|]. unfold sub_match. cbn. auto. }
      destruct (finish_norun _ _ HR1) as [Hf HR']. eexists. split; [exact Hf|]. split; [exact HR'|reflexivity].
    - destruct (finish_norun m sp HR) as [Hf HR']. eexists. split; [exact Hf|]. split; [exact HR'|reflexivity].
  Qed.

  (* ---------------------------------------------------------------- UNSUBSCRIBE *)
  Lemma find_sub_nsid m sp : R c m sp -> find_sub (nsid m) (subs m) = None.
  Proof.
    intros [_ [_ [_ [_ [_ [_ [_ [Hms _]]]]]]]]. apply find_sub_absent. intros s Hin.
    destruct (Hms s Hin) as [Hlt _]. lia.
  Qed.

  Lemma lapsed m sp n ss :
    R c m sp -> find_sub n (subs m) = None -> find_ssub n (sp_subs sp) = Some ss ->
    (sp_now sp <? ss_exp ss) = false.
  Proof.
    intros [Hnow [_ [_ [_ [_ [_ [_ [_ Hsp]]]]]]]] Hf Hfs.
    apply find_ssub_some in Hfs. destruct Hfs as [Hin Hsid].
    destruct (Hsp ss Hin) as [_ Hex]. apply Z.ltb_ge. rewrite Hnow.
    destruct (Z.lt_ge_cases (now m) (ss_exp ss)) as [Hlt|Hge]; [|lia].
    destruct (Hex Hlt) as [s Hs]. rewrite Hsid in Hs. congruence.
  Qed.

  Lemma known m sp n s :
    R c m sp -> find_sub n (subs m) = Some s ->
    exists ss, find_ssub n (sp_subs sp) = Some ss /\ sub_match c (vars m) s ss.
  Proof.
    intros [_ [_ [_ [_ [_ [_ [_ [Hms _]]]]]]]] Hf. apply find_sub_some in Hf. destruct Hf as [Hin Hsid].
    destruct (Hms s Hin) as [_ [_ [ss [Hfs Hm]]]]. rewrite Hsid in Hfs. eauto.
  Qed.

  (* a request the model refuses without touching anything *)
  Lemma refused_unknown m sp st cl :
    R c m sp -> (400 <=? st)%N && (st <? 500)%N = true ->
    finish_step c [] sp None (sp_now sp) (chk cl (is_4xx (SResp st None None true))) =
      (sp_set_now sp (sp_now sp), []) /\ R c m (sp_set_now sp (sp_now sp)).
  Proof.
    intros HR Hst. cbn [is_4xx]. rewrite Hst. cbn [chk]. now apply finish_norun.
  Qed.

  Lemma step_unsub m sp sid : R c m sp -> step_ok m sp (OUnsub sid).
  Proof.
    intros HR. unfold step_ok. cbn [step adv_of]. rewrite Z.add_0_r.
    pose proof HR as [Hnow [Hns _]].
    assert (Hrefuse : forall cl, exists sp',
               finish_step c [] sp None (sp_now sp) (chk cl (is_4xx (SResp 412 None None true))) = (sp', []) /\
               R c m sp' /\ now m = now m).
    { intros cl. destruct (refused_unknown m sp 412%N cl HR eq_refl) as [Hf HR']. eauto. }
    unfold do_unsubscribe, spec_step.
    destruct sid as [| |n|]; cbn [sid_truthy named_sid fst snd refused]; try apply Hrefuse.
    - rewrite Hns. destruct (n <? nsid m)%N eqn:Hn.
      + destruct (find_sub n (subs m)) as [s|] eqn:Hfs; cbn [fst snd].
        * destruct (known m sp n s HR Hfs) as [ss [Hfss Hm]]. rewrite Hfss.
          assert (HR1 : R c (set_subs m (remove_first n (subs m)))
                          (sp_set_subs sp (filter (fun s => negb (ss_sid s =? n)%N) (sp_subs sp)))).
          { destruct HR as [H1 [H2 [H3 [H4 [H5 H6]]]]]. unfold R. repeat (split; [assumption|]).
            cbn [subs set_subs sp_subs sp_set_subs vars nsid now].
            rewrite remove_first_filter by apply H6. now apply subs_ok_remove. }
          destruct (finish_norun _ _ HR1) as [Hf HR']. eexists. split; [exact Hf|]. split; [exact HR'|reflexivity].
        * destruct (find_ssub n (sp_subs sp)) as [ss|] eqn:Hfss; [|apply Hrefuse].
          rewrite (lapsed m sp n ss HR Hfs Hfss). apply Hrefuse.
      + rewrite (find_sub_nsid m sp HR). apply Hrefuse.
    - rewrite (find_sub_nsid m sp HR). apply Hrefuse.
  Qed.
End Steps.
