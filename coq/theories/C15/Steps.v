(* C15 — every operation keeps the relation and produces an observation the specification accepts:
   the requests (SUBSCRIBE, renewal, UNSUBSCRIBE), NOTIFY completion, key jump. *)
From Coq Require Import List Bool NArith ZArith Lia ZifyBool ZifyN Arith.
From AUC Require Import Prelude.PyStr Gen.Eventing C15.Model C15.Spec C15.Lemmas C15.Timeout C15.Inv C15.Batch.
Import ListNotations.
Local Open Scope Z_scope.

Definition adv_of (o : op) : Z := match o with OAdv dt => Z.of_N dt | OLate dt _ _ => Z.of_N dt | _ => 0 end.

Section Steps.
  Variable c : cfg.

  Definition step_ok (m : state) (sp : sstate) (o : op) : Prop :=
    exists sp', spec_step c sp o (snd (step c m o)) = (sp', []) /\ R c (fst (step c m o)) sp' /\
                now (fst (step c m o)) = now m + adv_of o.

  Lemma finish_ok rs m' sp1 sp2 ns hi :
    check_runs c ns hi sp1 rs = (sp2, []) -> R c m' (sp_set_now sp2 hi) ->
    finish_step c rs sp1 ns hi [] = (sp_set_now sp2 hi, []).
  Proof. intros H HR. unfold finish_step. rewrite H. rewrite (R_fresh c _ _ HR). reflexivity. Qed.

  Lemma finish_norun m' sp1 :
    R c m' sp1 -> finish_step c [] sp1 None (sp_now sp1) [] = (sp_set_now sp1 (sp_now sp1), []) /\
                  R c m' (sp_set_now sp1 (sp_now sp1)).
  Proof.
    intros HR. assert (HR' : R c m' (sp_set_now sp1 (sp_now sp1))) by exact HR.
    split; auto. eapply finish_ok; [reflexivity|exact HR'].
  Qed.

  (* ---------------------------------------------------------------- subscriber list updates *)
  Lemma subs_ok_map vs n t ms sps sid f g :
    (forall s, s_sid (f s) = s_sid s) -> (forall s, ss_sid (g s) = ss_sid s) ->
    (forall s ss, (s_key s <= seq_max)%N -> sub_match c vs s ss ->
                  (s_key (f s) <= seq_max)%N /\ sub_match c vs (f s) (g ss)) ->
    (exists s, find_sub sid ms = Some s) ->
    subs_ok c vs n t ms sps -> subs_ok c vs n t (map_sub sid f ms) (map_ssub sid g sps).
  Proof.
    intros Hf Hg Hfg [s0 Hs0] [Hnd1 [Hnd2 [Hms Hsp]]].
    split; [now rewrite map_sub_sids|]. split; [now rewrite map_ssub_sids|]. split.
    - intros s' Hin'. unfold map_sub in Hin'. apply in_map_iff in Hin'. destruct Hin' as [s [Heq Hin]].
      destruct (Hms s Hin) as [Hlt [Hk [ss [Hfs Hm]]]].
      assert (Hsid' : s_sid s' = s_sid s) by (subst s'; destruct (s_sid s =? sid)%N; auto).
      rewrite Hsid'. split; auto.
      rewrite find_ssub_map_ssub by auto. rewrite Hfs.
      assert (Hss : ss_sid ss = s_sid s) by apply Hm. rewrite Hss.
      destruct (s_sid s =? sid)%N; subst s'.
      + destruct (Hfg s ss Hk Hm) as [Hk' Hm']. split; auto. eexists; split; [reflexivity|auto].
      + split; auto. eexists; split; [reflexivity|auto].
    - intros ss' Hin'. unfold map_ssub in Hin'. apply in_map_iff in Hin'. destruct Hin' as [ss [Heq Hin]].
      destruct (Hsp ss Hin) as [Hlt Hex].
      assert (Hsid' : ss_sid ss' = ss_sid ss) by (subst ss'; destruct (ss_sid ss =? sid)%N; auto).
      rewrite Hsid'. split; auto. intros Ht.
      rewrite find_sub_map_sub by auto.
      destruct (N.eqb_spec (ss_sid ss) sid) as [He|Hne].
      + rewrite He, Hs0. eauto.
      + subst ss'. destruct (Hex Ht) as [s Hs]. rewrite Hs. eauto.
  Qed.

  Lemma subs_ok_remove vs n t ms sps sid :
    subs_ok c vs n t ms sps ->
    subs_ok c vs n t (filter (fun s => negb (s_sid s =? sid)%N) ms)
                     (filter (fun s => negb (ss_sid s =? sid)%N) sps).
  Proof.
    intros [Hnd1 [Hnd2 [Hms Hsp]]].
    split; [now apply NoDup_map_filter|]. split; [now apply NoDup_map_filter|]. split.
    - intros s Hin. apply filter_In in Hin. destruct Hin as [Hin Hne].
      destruct (Hms s Hin) as [Hlt [Hk [ss [Hfs Hm]]]]. split; auto. split; auto.
      exists ss. split; auto. rewrite find_ssub_filter_nodup by auto. rewrite Hfs.
      assert (Hss : ss_sid ss = s_sid s) by apply Hm. rewrite Hss, Hne. reflexivity.
    - intros ss Hin. apply filter_In in Hin. destruct Hin as [Hin Hne].
      destruct (Hsp ss Hin) as [Hlt Hex]. split; auto. intros Ht. destruct (Hex Ht) as [s Hs].
      exists s. rewrite find_sub_filter_nodup by auto. rewrite Hs.
      apply find_sub_some in Hs. destruct Hs as [_ Hsid]. rewrite Hsid, Hne. reflexivity.
  Qed.

  Lemma subs_ok_add vs n t ms sps s ss :
    s_sid s = n -> (s_key s <= seq_max)%N -> sub_match c vs s ss ->
    subs_ok c vs n t ms sps -> subs_ok c vs (N.succ n) t (ms ++ [s]) (sps ++ [ss]).
  Proof.
    intros Hsid Hk Hm [Hnd1 [Hnd2 [Hms Hsp]]].
    assert (Hss : ss_sid ss = n) by (destruct Hm as [H _]; congruence).
    assert (Ha1 : forall x, In x ms -> s_sid x <> n) by (intros x Hin; destruct (Hms x Hin); lia).
    assert (Ha2 : forall x, In x sps -> ss_sid x <> n) by (intros x Hin; destruct (Hsp x Hin); lia).
    split; [|split; [|split]].
    - rewrite map_app. cbn. apply NoDup_app_one; auto.
      intros Hin. apply in_map_iff in Hin. destruct Hin as [x [Hx Hin]]. apply (Ha1 x Hin). congruence.
    - rewrite map_app. cbn. apply NoDup_app_one; auto.
      intros Hin. apply in_map_iff in Hin. destruct Hin as [x [Hx Hin]]. apply (Ha2 x Hin). congruence.
    - intros x Hin. apply in_app_or in Hin. destruct Hin as [Hin|[<-|[]]].
      + destruct (Hms x Hin) as [Hlt [Hkx [sx [Hfx Hmx]]]]. split; [lia|]. split; auto.
        exists sx. split; auto. rewrite find_ssub_app, Hfx. reflexivity.
      + split; [lia|]. split; auto. exists ss. split; auto.
        rewrite find_ssub_app, find_ssub_absent by (rewrite Hsid; auto).
        unfold find_ssub. cbn. rewrite Hss, Hsid, N.eqb_refl. reflexivity.
    - intros x Hin. apply in_app_or in Hin. destruct Hin as [Hin|[<-|[]]].
      + destruct (Hsp x Hin) as [Hlt Hex]. split; [lia|]. intros Ht. destruct (Hex Ht) as [y Hy].
        exists y. rewrite find_sub_app, Hy. reflexivity.
      + split; [lia|]. intros _. exists s. rewrite find_sub_app, find_sub_absent by (rewrite Hss; auto).
        unfold find_sub. cbn. rewrite Hss, Hsid, N.eqb_refl. reflexivity.
  Qed.

  (* ---------------------------------------------------------------- NOTIFY completion, key jump *)
  Lemma R_outs m l sp : R c m sp -> R c (set_outs m l) sp.
  Proof. intros H. exact H. Qed.

  Lemma step_deliver m sp k oc : R c m sp -> step_ok m sp (ODeliver k oc).
  Proof.
    intros HR. unfold step_ok. cbn [step adv_of]. rewrite Z.add_0_r.
    destruct (nth_error (outs m) k) as [x|]; cbn [fst snd]; unfold spec_step; cbn [fst snd chk].
    - destruct (finish_norun (set_outs m (remove_nth k (outs m))) sp (R_outs m _ sp HR)) as [Hf HR'].
      eexists. split; [exact Hf|]. split; [exact HR'|reflexivity].
    - destruct (finish_norun m sp HR) as [Hf HR']. eexists. split; [exact Hf|]. split; [exact HR'|reflexivity].
  Qed.

  Lemma step_jump m sp sid k : R c m sp -> (k <= seq_max)%N -> step_ok m sp (OJump sid k).
  Proof.
    intros HR Hk. unfold step_ok. cbn [step adv_of]. rewrite Z.add_0_r.
    destruct (find_sub sid (subs m)) as [s|] eqn:Hfs; cbn [fst snd]; unfold spec_step; cbn [fst snd].
    - assert (HR1 : R c (set_subs m (map_sub sid (fun s => set_key s k) (subs m)))
                      (sp_set_subs sp (map_ssub sid (fun s => ss_set_key s k) (sp_subs sp)))).
      { destruct HR as [H1 [H2 [H3 [H4 [H5 H6]]]]]. unfold R. repeat (split; [assumption|]).
        cbn [subs set_subs sp_subs sp_set_subs vars nsid now].
        apply subs_ok_map; auto; [|eauto].
        intros s0 ss0 _ [Ha [Hb [Hc [Hd He]]]]. split; [exact Hk|]. unfold sub_match. cbn. auto. }
      destruct (finish_norun _ _ HR1) as [Hf HR']. eexists. split; [exact Hf|]. split; [exact HR'|reflexivity].
    - destruct (finish_norun m sp HR) as [Hf HR']. eexists. split; [exact Hf|]. split; [exact HR'|reflexivity].
  Qed.

  (* ---------------------------------------------------------------- UNSUBSCRIBE *)
  Lemma find_sub_nsid m sp : R c m sp -> find_sub (nsid m) (subs m) = None.
  Proof.
    intros [_ [_ [_ [_ [_ [_ [_ [Hms _]]]]]]]]. apply find_sub_absent. intros s Hin.
    destruct (Hms s Hin) as [Hlt _]. lia.
  Qed.

  Lemma lapsed m sp n ss :
    R c m sp -> find_sub n (subs m) = None -> find_ssub n (sp_subs sp) = Some ss ->
    (sp_now sp <? ss_exp ss) = false.
  Proof.
    intros [Hnow [_ [_ [_ [_ [_ [_ [_ Hsp]]]]]]]] Hf Hfs.
    apply find_ssub_some in Hfs. destruct Hfs as [Hin Hsid].
    destruct (Hsp ss Hin) as [_ Hex]. apply Z.ltb_ge. rewrite Hnow.
    destruct (Z.lt_ge_cases (now m) (ss_exp ss)) as [Hlt|Hge]; [|lia].
    destruct (Hex Hlt) as [s Hs]. rewrite Hsid in Hs. congruence.
  Qed.

  Lemma known m sp n s :
    R c m sp -> find_sub n (subs m) = Some s ->
    exists ss, find_ssub n (sp_subs sp) = Some ss /\ sub_match c (vars m) s ss.
  Proof.
    intros [_ [_ [_ [_ [_ [_ [_ [Hms _]]]]]]]] Hf. apply find_sub_some in Hf. destruct Hf as [Hin Hsid].
    destruct (Hms s Hin) as [_ [_ [ss [Hfs Hm]]]]. rewrite Hsid in Hfs. eauto.
  Qed.

  (* a request the model refuses without touching anything *)
  Lemma refused_unknown m sp st cl :
    R c m sp -> (400 <=? st)%N && (st <? 500)%N = true ->
    finish_step c [] sp None (sp_now sp) (chk cl (is_4xx (SResp st None None true))) =
      (sp_set_now sp (sp_now sp), []) /\ R c m (sp_set_now sp (sp_now sp)).
  Proof.
    intros HR Hst. cbn [is_4xx]. rewrite Hst. cbn [chk]. now apply finish_norun.
  Qed.

  Lemma step_unsub m sp sid : R c m sp -> step_ok m sp (OUnsub sid).
  Proof.
    intros HR. unfold step_ok. cbn [step adv_of]. rewrite Z.add_0_r.
    pose proof HR as [Hnow [Hns _]].
    assert (Hrefuse : forall cl, exists sp',
               finish_step c [] sp None (sp_now sp) (chk cl (is_4xx (SResp 412 None None true))) = (sp', []) /\
               R c m sp' /\ now m = now m).
    { intros cl. destruct (refused_unknown m sp 412%N cl HR eq_refl) as [Hf HR']. eauto. }
    unfold do_unsubscribe, spec_step.
    destruct sid as [| |n|]; cbn [sid_truthy named_sid fst snd refused]; try apply Hrefuse.
    - rewrite Hns. destruct (n <? nsid m)%N eqn:Hn.
      + destruct (find_sub n (subs m)) as [s|] eqn:Hfs; cbn [fst snd].
        * destruct (known m sp n s HR Hfs) as [ss [Hfss Hm]]. rewrite Hfss.
          assert (HR1 : R c (set_subs m (remove_first n (subs m)))
                          (sp_set_subs sp (filter (fun s => negb (ss_sid s =? n)%N) (sp_subs sp)))).
          { destruct HR as [H1 [H2 [H3 [H4 [H5 H6]]]]]. unfold R. repeat (split; [assumption|]).
            cbn [subs set_subs sp_subs sp_set_subs vars nsid now].
            rewrite remove_first_filter by apply H6. now apply subs_ok_remove. }
          destruct (finish_norun _ _ HR1) as [Hf HR']. eexists. split; [exact Hf|]. split; [exact HR'|reflexivity].
        * destruct (find_ssub n (sp_subs sp)) as [ss|] eqn:Hfss; [|apply Hrefuse].
          rewrite (lapsed m sp n ss HR Hfs Hfss). apply Hrefuse.
      + rewrite (find_sub_nsid m sp HR). apply Hrefuse.
    - rewrite (find_sub_nsid m sp HR). apply Hrefuse.
  Qed.

  (* ---------------------------------------------------------------- SUBSCRIBE: the TIMEOUT header *)
  Definition do_sub_g (st : state) (cb : option N) (granted : Z) (sid : sidref) : state * step_obs :=
    let e := now st + 1000 * granted in
    match sid_truthy st sid with
    | Some n =>
        match find_sub n (subs st) with
        | Some _ =>
            if wall_ok e then
              (set_subs st (map_sub n (fun s => set_exp s e) (subs st)), (SResp 200 (Some n) (Some granted) true, []))
            else (st, (SRaised, []))
        | None => (st, refused 404)
        end
    | None =>
        match cb with
        | None => (st, refused 404)
        | Some cbv =>
            if negb (wall_ok e) then (st, (SRaised, [])) else
            let s := {| s_sid := nsid st; s_cb := cbv; s_key := seq_init; s_exp := e |} in
            let st1 := set_nsid st (N.succ (nsid st)) in
            match sid with
            | SAbsent =>
                let body := snapshot c (map v_val (vars st)) in
                let st2 := set_outs (set_subs st1 (subs st ++ [bump s])) (add_outs (outs st) [(s_sid s, s_key s)]) in
                (st2, (SResp 200 (Some (s_sid s)) (Some granted) true, mk_runs (now st) [] [note_for body s]))
            | _ => (st1, (SResp 200 (Some (s_sid s)) (Some granted) true, []))
            end
        end
    end.

  Lemma granted_bounds t g : tmo_ok t = true -> tmo_granted t = Some g -> 1 <= g <= 1000000000.
  Proof.
    destruct t as [|n style|s]; cbn; intros Hok Hg; inversion Hg; subst.
    - unfold default_timeout. lia.
    - lia.
  Qed.

  Lemma do_subscribe_granted m cb t sid g :
    tmo_ok t = true -> tmo_granted t = Some g -> do_subscribe c m cb t sid = do_sub_g m cb g sid.
  Proof.
    intros Hok Hg. pose proof (granted_bounds t g Hok Hg) as Hb.
    destruct t as [|n style|s]; cbn in Hg; inversion Hg; subst; unfold do_subscribe; cbn [render_tmo].
    - reflexivity.
    - rewrite parse_timeout_sec by lia. reflexivity.
  Qed.

  Lemma do_subscribe_malformed m cb t sid :
    tmo_ok t = true -> tmo_granted t = None -> do_subscribe c m cb t sid = (m, refused 400).
  Proof.
    destruct t as [|n style|s]; cbn; intros Hok Hg; try discriminate.
    unfold do_subscribe. cbn [render_tmo]. destruct (parse_timeout s); [discriminate|reflexivity].
  Qed.

  Lemma wall_ok_granted m sp g :
    R c m sp -> now m <= horizon -> 1 <= g <= 1000000000 -> wall_ok (now m + 1000 * g) = true.
  Proof.
    intros [_ [_ [H0 _]]] Hh Hg. unfold wall_ok, wall_min, wall_max, horizon in *. lia.
  Qed.

  (* ---------------------------------------------------------------- renewal *)
  Lemma step_renew m sp cb t sid :
    R c m sp -> now m <= horizon -> tmo_ok t = true ->
    match sid with SIdx _ | SBogus => True | _ => False end ->
    step_ok m sp (OSub cb t sid).
  Proof.
    intros HR Hh Hok Hsid. unfold step_ok. cbn [step adv_of]. rewrite Z.add_0_r.
    pose proof HR as [Hnow [Hns _]].
    assert (Hrefuse : forall st cl, (400 <=? st)%N && (st <? 500)%N = true -> exists sp',
               finish_step c [] sp None (sp_now sp) (chk cl (is_4xx (SResp st None None true))) = (sp', []) /\
               R c m sp' /\ now m = now m).
    { intros st cl Hst. destruct (refused_unknown m sp st cl HR Hst) as [Hf HR']. eauto. }
    destruct (tmo_granted t) as [g|] eqn:Hg.
    - (* well-formed TIMEOUT *)
      rewrite (do_subscribe_granted m cb t sid g Hok Hg).
      pose proof (granted_bounds t g Hok Hg) as Hb.
      pose proof (wall_ok_granted m sp g HR Hh Hb) as Hw.
      unfold do_sub_g, spec_step.
      destruct sid as [| |n|]; try contradiction; cbn [sid_truthy named_sid fst snd refused]; rewrite ?Hns, ?Hg.
      + destruct (n <? nsid m)%N eqn:Hn.
        * destruct (find_sub n (subs m)) as [s|] eqn:Hfs; cbn [fst snd].
          -- destruct (known m sp n s HR Hfs) as [ss [Hfss Hm]]. rewrite Hfss, Hw. cbn [fst snd].
             rewrite N.eqb_refl, Z.eqb_refl. cbn [andb].
             assert (HR1 : R c (set_subs m (map_sub n (fun s => set_exp s (now m + 1000 * g)) (subs m)))
                             (sp_set_subs sp (map_ssub n (fun s => ss_set_exp s (sp_now sp + 1000 * g)) (sp_subs sp)))).
             { rewrite Hnow. destruct HR as [H1 [H2 [H3 [H4 [H5 H6]]]]]. unfold R. repeat (split; [assumption|]).
               cbn [subs set_subs sp_subs sp_set_subs vars nsid now].
               apply subs_ok_map; auto; [|eauto].
               intros s0 ss0 Hk0 [Ha [Hb0 [Hc [Hd He]]]]. split; [exact Hk0|]. unfold sub_match. cbn. auto. }
             destruct (finish_norun _ _ HR1) as [Hf HR']. eexists. split; [exact Hf|]. split; [exact HR'|reflexivity].
          -- destruct (find_ssub n (sp_subs sp)) as [ss|] eqn:Hfss; [|now apply Hrefuse].
             cbn [fst snd]. rewrite (lapsed m sp n ss HR Hfs Hfss). now apply Hrefuse.
        * rewrite (find_sub_nsid m sp HR). now apply Hrefuse.
      + rewrite (find_sub_nsid m sp HR). now apply Hrefuse.
    - (* malformed TIMEOUT *)
      rewrite (do_subscribe_malformed m cb t sid Hok Hg). unfold spec_step.
      destruct sid as [| |n|]; try contradiction; cbn [named_sid fst snd refused]; rewrite ?Hg.
      + destruct (n <? sp_nsid sp)%N; [|now apply Hrefuse].
        destruct (find_ssub n (sp_subs sp)); now apply Hrefuse.
      + now apply Hrefuse.
  Qed.

  (* ---------------------------------------------------------------- initial subscription *)
  Lemma map_ssub_app_new x g sps a :
    (forall ss, In ss sps -> ss_sid ss <> x) -> ss_sid a = x ->
    map_ssub x g (sps ++ [a]) = sps ++ [g a].
  Proof.
    intros Hne Ha. unfold map_ssub. rewrite map_app. cbn. rewrite Ha, N.eqb_refl. f_equal.
    rewrite <- (map_id sps) at 2. apply map_ext_in. intros ss Hin.
    destruct (N.eqb_spec (ss_sid ss) x) as [He|_]; [exfalso; eapply Hne; eauto|reflexivity].
  Qed.

  Lemma fresh_ok_snapshot vs : fresh_ok c vs (snapshot c (map v_val vs)).
  Proof.
    intros i d vr Hc Hvr Hev. left. eapply lookup_snapshot; eauto. rewrite nth_error_map, Hvr. reflexivity.
  Qed.

  Lemma step_subscribe m sp cb t :
    R c m sp -> now m <= horizon -> tmo_ok t = true -> step_ok m sp (OSub cb t SAbsent).
  Proof.
    intros HR Hh Hok. unfold step_ok. cbn [step adv_of]. rewrite Z.add_0_r.
    pose proof HR as [Hnow [Hns [H0 [Hv [Htm Hsubs]]]]].
    assert (Hrefuse : forall st cl, (400 <=? st)%N && (st <? 500)%N = true -> exists sp',
               finish_step c [] sp None (sp_now sp) (chk cl (is_4xx (SResp st None None true))) = (sp', []) /\
               R c m sp' /\ now m = now m).
    { intros st cl Hst. destruct (refused_unknown m sp st cl HR Hst) as [Hf HR']. eauto. }
    destruct (tmo_granted t) as [g|] eqn:Hg.
    2:{ rewrite (do_subscribe_malformed m cb t SAbsent Hok Hg). unfold spec_step. cbn [fst snd refused].
        rewrite Hg. destruct cb; now apply Hrefuse. }
    rewrite (do_subscribe_granted m cb t SAbsent g Hok Hg).
    pose proof (granted_bounds t g Hok Hg) as Hb.
    pose proof (wall_ok_granted m sp g HR Hh Hb) as Hw.
    unfold do_sub_g. cbn [sid_truthy].
    destruct cb as [cbv|].
    2:{ unfold spec_step. cbn [fst snd refused]. now apply Hrefuse. }
    rewrite Hw. cbn [negb].
    set (s := {| s_sid := nsid m; s_cb := cbv; s_key := seq_init; s_exp := now m + 1000 * g |}).
    set (body := snapshot c (map v_val (vars m))).
    set (new := new_ssub (sp_nsid sp) cbv (sp_now sp + 1000 * g)).
    cbn [fst snd mk_runs]. unfold spec_step. cbn [fst snd]. rewrite Hg.
    replace (s_sid s =? sp_nsid sp)%N with true by (cbn; rewrite Hns; symmetry; apply N.eqb_refl).
    rewrite Z.eqb_refl. cbn [andb].
    assert (Habs : forall ss, In ss (sp_subs sp) -> ss_sid ss <> nsid m).
    { intros ss Hin. destruct Hsubs as [_ [_ [_ Hsp]]]. destruct (Hsp ss Hin). lia. }
    assert (Hkey0 : (seq_init <= seq_max)%N) by (unfold seq_init, seq_max; lia).
    (* clause 1: the initial event *)
    assert (Hfirst : first_note_ok (sp_nsid sp) (snapshot c (map p_val (sp_vars sp)))
                       [{| r_t := now m; r_trig := []; r_notes := [note_for body s] |}] = true).
    { unfold first_note_ok. cbn [flat_map r_notes app filter note_for n_sid s s_sid]. rewrite Hns, N.eqb_refl.
      cbn [n_seq n_vals s_key]. rewrite <- (vrel_vals c _ _ _ Hv). fold body. rewrite vals_eqb_refl.
      reflexivity. }
    rewrite Hfirst. cbn [chk].
    (* the run *)
    assert (Hrun : check_runs c (Some (sp_nsid sp)) (sp_now sp)
                     (sp_set_nsid (sp_set_subs sp (sp_subs sp ++ [new])) (N.succ (sp_nsid sp)))
                     [{| r_t := now m; r_trig := []; r_notes := [note_for body s] |}]
                   = ({| sp_now := now m; sp_nsid := N.succ (sp_nsid sp); sp_vars := sp_vars sp;
                         sp_subs := sp_subs sp ++ [ss_sent new (next_key seq_init) body] |}, [])).
    { unfold new, new_ssub. unfold check_runs. cbn [fold_left]. unfold check_run.
      cbn [fst snd r_t r_trig r_notes fold_left sp_vars sp_subs sp_nsid sp_now sp_set_nsid sp_set_subs].
      unfold apply_note. cbn [fst snd note_for n_sid n_cb n_seq n_vals s s_sid s_cb s_key].
      rewrite find_ssub_app, find_ssub_absent by exact Habs.
      unfold find_ssub at 1. cbn [find ss_sid]. rewrite Hns, N.eqb_refl.
      cbn [ss_exp ss_cb ss_key].
      rewrite map_ssub_app_new by (auto; cbn; congruence).
      rewrite (next_key_spec _ Hkey0).
      rewrite Hnow. replace (now m <? now m + 1000 * g) with true by (symmetry; apply Z.ltb_lt; lia).
      rewrite N.eqb_refl, seq_init_zero. cbn [N.eqb andb chk app].
      replace ((now m <=? now m) && (now m <=? now m)) with true by (symmetry; rewrite Z.leb_refl; reflexivity).
      unfold counts_ok, count_sid. cbn [forallb filter n_sid length is_new]. rewrite !N.eqb_refl.
      reflexivity. }
    assert (HR1 : R c (set_outs (set_subs (set_nsid m (N.succ (nsid m))) (subs m ++ [bump s]))
                                (add_outs (outs m) [(nsid m, seq_init)]))
                    (sp_set_now {| sp_now := now m; sp_nsid := N.succ (sp_nsid sp); sp_vars := sp_vars sp;
                                   sp_subs := sp_subs sp ++ [ss_sent new (next_key seq_init) body] |} (sp_now sp))).
    { unfold R. cbn [now nsid vars timers subs set_outs set_subs set_nsid sp_set_now sp_now sp_nsid sp_vars sp_subs].
      split; [exact Hnow|]. split; [now rewrite Hns|]. split; [exact H0|]. split; [exact Hv|]. split; [exact Htm|].
      apply subs_ok_add; [reflexivity | exact (next_key_bound seq_init Hkey0) | | exact Hsubs].
      unfold sub_match, new, new_ssub. cbn [ss_sent ss_sid ss_cb ss_exp ss_key ss_last bump s s_sid s_cb s_exp s_key].
      rewrite Hns, Hnow. repeat (split; [reflexivity|]). apply fresh_ok_snapshot. }
    eexists. split; [eapply finish_ok; [exact Hrun|exact HR1]|]. split; [exact HR1|reflexivity].
  Qed.
End Steps.
