(* C15 — the property, restated as executable clauses over (history, observation).

   The specification keeps the simplest state that can express the statement: the clock, the number of
   SIDs issued, per variable (current value, time of its last event trigger, whether it changed since,
   time of its last change) and per subscription known from the RESPONSES the server gave (SID, callback,
   expiry in force, next expected event key, the values carried by the last event it was sent).  It is
   driven by the history and by what was observed (responses, triggers, NOTIFY requests) - never by the
   server's internal state.

   Clause ids (harness CLAUSES):
     1 initial_event      a SUBSCRIBE (callback, no SID, well-formed or absent TIMEOUT) is answered 200 with a
                          fresh SID and the granted timeout, the answer is written first, and the same step
                          issues a NOTIFY to that SID with key 0 carrying every evented variable's current
                          value; a malformed TIMEOUT or a missing callback is refused (4xx) and nothing is sent
     2 keys_consecutive   each NOTIFY to a SID carries the key after the previous one's (0 first; +1; 2^32-1 -> 1)
     3 fresh              at every step boundary, every unexpired subscriber's last event carries the current
                          value of every evented variable, unless that variable changed after its last trigger
                          and its moderation interval since that trigger has not yet passed
                          (=> completeness for unmoderated variables, and eventual consistency)
     4 moderation         two triggers of a variable are at least its interval apart, and a subscriber is sent
                          no more events in a run than triggers happened in it (plus its initial event)
     5 renew_extends      renewing an unexpired subscription is answered 200 with the same SID and the granted
                          timeout (the expiry used by clauses 3 and 6 from then on is now + granted);
                          unsubscribing an unexpired subscription is answered 200; a malformed TIMEOUT is refused
     6 dead_silent        a NOTIFY goes only to a SID that was issued, not unsubscribed, whose expiry in force
                          is later than the event's time, at the callback it registered
     7 unknown_refused    renewing or unsubscribing a SID that was never issued or was unsubscribed is refused (4xx)
     9 eventual           at the end of the history every unexpired subscriber's last event carries the current
                          value of every evented variable that last changed at least one interval ago
     8 shape              the observation fits the history (event times within the step, result kind fits the
                          operation, a value assignment succeeds iff the value is in range)

   A late assignment [OLate dt v x] (the clock moved on by dt while the loop did not run, the assignment is
   processed before the timers that became due) is read as an assignment at time now+dt with nothing observable
   in between: [spec_assign] at the moved clock; every clause applies to its single run as to any other.

   Readings (each a named definition below):
     [tmo_granted]  the granted timeout is the requested one, or DEFAULT_TIMEOUT when none is requested;
     [tmo_ok]       TIMEOUT values in the domain: absent, Second-n with 1 <= n <= 10^9 in any letter case, or
                    text that int() rejects after the server's normalisation ("malformed"); zero, negative and
                    out-of-range numbers, and texts the server's lenient parser accepts, are outside it;
     lapsed SIDs    for a SID whose expiry has passed but which was not unsubscribed the statement is silent
                    on renewal/unsubscription: 200 (revival, new expiry) and 4xx are both accepted. *)
From Coq Require Import List Bool NArith ZArith.
From AUC Require Import Prelude.PyStr Gen.Eventing C15.Model.
Import ListNotations.
Local Open Scope Z_scope.

Record pvar := { p_val : option N; p_trig : Z; p_dirty : bool; p_chg : Z }.
Record ssub := { ss_sid : N; ss_cb : N; ss_exp : Z; ss_key : N; ss_last : list (nat * option N) }.
Record sstate := { sp_now : Z; sp_nsid : N; sp_vars : list pvar; sp_subs : list ssub }.

Definition sp_set_now (sp : sstate) (t : Z) : sstate :=
  {| sp_now := t; sp_nsid := sp_nsid sp; sp_vars := sp_vars sp; sp_subs := sp_subs sp |}.
Definition sp_set_nsid (sp : sstate) (n : N) : sstate :=
  {| sp_now := sp_now sp; sp_nsid := n; sp_vars := sp_vars sp; sp_subs := sp_subs sp |}.
Definition sp_set_vars (sp : sstate) (l : list pvar) : sstate :=
  {| sp_now := sp_now sp; sp_nsid := sp_nsid sp; sp_vars := l; sp_subs := sp_subs sp |}.
Definition sp_set_subs (sp : sstate) (l : list ssub) : sstate :=
  {| sp_now := sp_now sp; sp_nsid := sp_nsid sp; sp_vars := sp_vars sp; sp_subs := l |}.

(* the statement's key succession, written out: +1, and 2^32-1 is followed by 1 *)
Definition spec_next_key (k : N) : N := if (k =? 4294967295)%N then 1%N else (k + 1)%N.

Definition chk (clause : N) (b : bool) : list N := if b then [] else [clause].

Fixpoint lookup (i : nat) (l : list (nat * option N)) : option (option N) :=
  match l with
  | [] => None
  | (j, x) :: r => if Nat.eqb i j then Some x else lookup i r
  end.
Fixpoint vals_eqb (a b : list (nat * option N)) : bool :=
  match a, b with
  | [], [] => true
  | (i, x) :: a', (j, y) :: b' => Nat.eqb i j && opt_eqb x y && vals_eqb a' b'
  | _, _ => false
  end.

Definition find_ssub (sid : N) (l : list ssub) : option ssub := find (fun s => (ss_sid s =? sid)%N) l.
Definition map_ssub (sid : N) (f : ssub -> ssub) (l : list ssub) : list ssub :=
  map (fun s => if (ss_sid s =? sid)%N then f s else s) l.
Definition ss_set_exp (s : ssub) (e : Z) : ssub :=
  {| ss_sid := ss_sid s; ss_cb := ss_cb s; ss_exp := e; ss_key := ss_key s; ss_last := ss_last s |}.
Definition ss_set_key (s : ssub) (k : N) : ssub :=
  {| ss_sid := ss_sid s; ss_cb := ss_cb s; ss_exp := ss_exp s; ss_key := k; ss_last := ss_last s |}.
Definition ss_sent (s : ssub) (k : N) (vals : list (nat * option N)) : ssub :=
  {| ss_sid := ss_sid s; ss_cb := ss_cb s; ss_exp := ss_exp s; ss_key := k; ss_last := vals |}.

(* ------------------------------------------------------------------ clause 3 *)
Fixpoint fresh_from (i : nat) (c : cfg) (pvs : list pvar) (t : Z) (last : list (nat * option N)) : bool :=
  match c, pvs with
  | d :: c', pv :: pvs' =>
      (negb (d_ev d)
       || match lookup i last with Some x => opt_eqb x (p_val pv) | None => false end
       || (p_dirty pv && (t <? p_trig pv + d_rate d)))
      && fresh_from (S i) c' pvs' t last
  | _, _ => true
  end.
Definition fresh_all (c : cfg) (sp : sstate) : bool :=
  forallb (fun s => negb (sp_now sp <? ss_exp s) || fresh_from O c (sp_vars sp) (sp_now sp) (ss_last s))
          (sp_subs sp).

(* ------------------------------------------------------------------ one run *)
Definition p_triggered (pv : pvar) (t : Z) : pvar :=
  {| p_val := p_val pv; p_trig := t; p_dirty := false; p_chg := p_chg pv |}.
(* clause 4, first half: trigger of variable i at time t *)
Definition apply_trig (c : cfg) (t : Z) (acc : list pvar * list N) (i : nat) : list pvar * list N :=
  match nth_error (fst acc) i, nth_error c i with
  | Some pv, Some d =>
      (upd (fst acc) i (p_triggered pv t), snd acc ++ chk 4 (d_ev d && (p_trig pv + d_rate d <=? t)))
  | _, _ => (fst acc, snd acc ++ [8%N])
  end.

(* clauses 6 and 2: one NOTIFY at time t *)
Definition apply_note (t : Z) (acc : list ssub * list N) (n : note) : list ssub * list N :=
  match find_ssub (n_sid n) (fst acc) with
  | None => (fst acc, snd acc ++ [6%N])
  | Some s =>
      (map_ssub (n_sid n) (fun s => ss_sent s (spec_next_key (n_seq n)) (n_vals n)) (fst acc),
       snd acc ++ chk 6 ((t <? ss_exp s) && (n_cb n =? ss_cb s)%N) ++ chk 2 (n_seq n =? ss_key s)%N)
  end.

Definition count_sid (sid : N) (notes : list note) : nat :=
  length (filter (fun n => (n_sid n =? sid)%N) notes).
Definition is_new (newsid : option N) (sid : N) : nat :=
  match newsid with Some m => if (m =? sid)%N then 1%nat else 0%nat | None => 0%nat end.
(* clause 4, second half *)
Definition counts_ok (newsid : option N) (ntrig : nat) (notes : list note) : bool :=
  forallb (fun n => Nat.leb (count_sid (n_sid n) notes) (ntrig + is_new newsid (n_sid n))) notes.

(* a run at a time within [sp_now, hi] *)
Definition check_run (c : cfg) (newsid : option N) (hi : Z) (acc : sstate * list N) (r : run) : sstate * list N :=
  let sp := fst acc in
  let t := r_t r in
  let '(pvs, f1) := fold_left (apply_trig c t) (r_trig r) (sp_vars sp, []) in
  let '(ss, f2) := fold_left (apply_note t) (r_notes r) (sp_subs sp, []) in
  ({| sp_now := t; sp_nsid := sp_nsid sp; sp_vars := pvs; sp_subs := ss |},
   snd acc ++ chk 8 ((sp_now sp <=? t) && (t <=? hi)) ++ f1 ++ f2
           ++ chk 4 (counts_ok newsid (length (r_trig r)) (r_notes r))).

Definition check_runs (c : cfg) (newsid : option N) (hi : Z) (sp : sstate) (rs : list run) : sstate * list N :=
  fold_left (check_run c newsid hi) rs (sp, []).

(* ------------------------------------------------------------------ readings *)
Definition tmo_ok (t : tmo) : bool :=
  match t with
  | TAbsent => true
  | TSec n _ => (1 <=? n) && (n <=? 1000000000)
  | TRaw s => match parse_timeout s with None => true | Some _ => false end
  end.
Definition tmo_granted (t : tmo) : option Z :=
  match t with
  | TAbsent => Some default_timeout
  | TSec n _ => Some n
  | TRaw _ => None           (* malformed: to be refused *)
  end.

Definition is_4xx (r : sres) : bool :=
  match r with SResp st _ _ _ => (400 <=? st)%N && (st <? 500)%N | _ => false end.

(* the SID a request names, if the server ever issued it *)
Definition named_sid (sp : sstate) (r : sidref) : option N :=
  match r with SIdx n => if (n <? sp_nsid sp)%N then Some n else None | _ => None end.

Definition sub_op_ok (sid : sidref) (t : tmo) : bool :=
  match sid with SEmpty => false | _ => tmo_ok t end.

(* ------------------------------------------------------------------ one step *)
Definition new_ssub (sid cb : N) (e : Z) : ssub :=
  {| ss_sid := sid; ss_cb := cb; ss_exp := e; ss_key := 0%N; ss_last := [] |}.

Definition first_note_ok (sid : N) (expected : list (nat * option N)) (rs : list run) : bool :=
  match filter (fun n => (n_sid n =? sid)%N) (flat_map r_notes rs) with
  | n :: _ => (n_seq n =? 0)%N && vals_eqb (n_vals n) expected
  | [] => false
  end.

Definition p_changed (pv : pvar) (x : N) (ev : bool) (t : Z) : pvar :=
  {| p_val := Some x; p_trig := p_trig pv;
     p_dirty := if ev then true else p_dirty pv; p_chg := if ev then t else p_chg pv |}.

(* the runs of the step are checked from the state sp1 the response led to; the step ends at time hi, where
   clause 3 is evaluated; pre = failures found in the response *)
Definition finish_step (c : cfg) (rs : list run) (sp1 : sstate) (newsid : option N) (hi : Z) (pre : list N)
  : sstate * list N :=
  let '(sp2, f) := check_runs c newsid hi sp1 rs in
  let sp3 := sp_set_now sp2 hi in
  (sp3, pre ++ f ++ chk 3 (fresh_all c sp3)).

(* an assignment of x to variable i made when the specification's clock reads [sp_now sp]: the assignment
   succeeds iff the value is in range; a new value is a change of the variable at that time; every run of the
   step happens at that time, and clause 3 is evaluated there.  [OSet] is an assignment at the current time.
   [OLate dt] is an assignment after the clock moved on by dt with no event in between (the loop did not run):
   whatever was held back and is due by then is sent in the same step, and the clauses say about it what they
   say about any run - in particular a variable's triggers are an interval apart (so the overdue held-back
   event and the new change make ONE event), no subscriber is sent more events than triggers happened, and at
   the end of the step every unexpired subscriber has the current values unless an interval is still running *)
Definition spec_assign (c : cfg) (finish : sstate -> option N -> Z -> list N -> sstate * list N)
    (sp : sstate) (i : nat) (x : N) (res : sres) : sstate * list N :=
  let t := sp_now sp in
  match nth_error (sp_vars sp) i, nth_error c i with
  | Some pv, Some d =>
      if valid d x then
        let pvs := if opt_eqb (p_val pv) (Some x) then sp_vars sp
                   else upd (sp_vars sp) i (p_changed pv x (d_ev d) t) in
        finish (sp_set_vars sp pvs) None t (chk 8 match res with SSet 1 => true | _ => false end)
      else finish sp None t (chk 8 match res with SSet 2 => true | _ => false end)
  | _, _ => finish sp None t (chk 8 match res with SNone => true | _ => false end)
  end.

(* -> (state after the step, failing clauses) *)
Definition spec_step (c : cfg) (sp : sstate) (o : op) (ob : step_obs) : sstate * list N :=
  let res := fst ob in
  let rs := snd ob in
  let t := sp_now sp in
  let finish := finish_step c rs in
  match o with
  | OSub cb tm SAbsent =>
      match cb, tmo_granted tm with
      | Some cbv, Some g =>
          match res with
          | SResp 200 (Some sid) (Some g') first =>
              let ok := (sid =? sp_nsid sp)%N && (g' =? g) && first in
              let sp1 := sp_set_nsid (sp_set_subs sp (sp_subs sp ++ [new_ssub (sp_nsid sp) cbv (t + 1000 * g)]))
                                     (N.succ (sp_nsid sp)) in
              if ok then
                finish sp1 (Some (sp_nsid sp)) t
                       (chk 1 (first_note_ok (sp_nsid sp) (snapshot c (map p_val (sp_vars sp))) rs))
              else finish sp None t [1%N]
          | _ => finish sp None t [1%N]
          end
      | _, _ => finish sp None t (chk 1 (is_4xx res))
      end
  | OSub _ tm sid =>
      match named_sid sp sid with
      | Some n =>
          match find_ssub n (sp_subs sp) with
          | Some s =>
              match tmo_granted tm with
              | Some g =>
                  let accept :=
                    match res with
                    | SResp 200 (Some sid') (Some g') _ => (sid' =? n)%N && (g' =? g)
                    | _ => false
                    end in
                  if accept then
                    finish (sp_set_subs sp (map_ssub n (fun s => ss_set_exp s (t + 1000 * g)) (sp_subs sp))) None t []
                  else if t <? ss_exp s then finish sp None t [5%N]          (* unexpired: must be accepted *)
                  else finish sp None t (chk 5 (is_4xx res))                 (* lapsed: refusal is fine too *)
              | None => finish sp None t (chk 5 (is_4xx res))
              end
          | None => finish sp None t (chk 7 (is_4xx res))                    (* unsubscribed earlier *)
          end
      | None => finish sp None t (chk 7 (is_4xx res))                        (* never issued *)
      end
  | OUnsub sid =>
      match named_sid sp sid with
      | Some n =>
          match find_ssub n (sp_subs sp) with
          | Some s =>
              match res with
              | SResp 200 _ _ _ =>
                  finish (sp_set_subs sp (filter (fun s => negb (ss_sid s =? n)%N) (sp_subs sp))) None t []
              | _ => if t <? ss_exp s then finish sp None t [5%N] else finish sp None t (chk 5 (is_4xx res))
              end
          | None => finish sp None t (chk 7 (is_4xx res))
          end
      | None => finish sp None t (chk 7 (is_4xx res))
      end
  | OSet i x => spec_assign c finish sp i x res
  | OLate dt i x => spec_assign c finish (sp_set_now sp (t + Z.of_N dt)) i x res
  | OAdv dt => finish sp None (t + Z.of_N dt) (chk 8 match res with SNone => true | _ => false end)
  | ODeliver _ _ => finish sp None t (chk 8 match res with SDeliv _ _ | SNone => true | _ => false end)
  | OJump sid k =>
      match res with
      | SJump => finish (sp_set_subs sp (map_ssub sid (fun s => ss_set_key s k) (sp_subs sp))) None t []
      | SNone => finish sp None t []
      | _ => finish sp None t [8%N]
      end
  end.

Fixpoint spec_steps (c : cfg) (sp : sstate) (idx : N) (ops : list op) (obs : list step_obs) : list (N * N) :=
  match ops, obs with
  | [], [] => []
  | o :: ops', ob :: obs' =>
      let '(sp1, f) := spec_step c sp o ob in
      map (fun cl => (cl, idx)) f ++ spec_steps c sp1 (N.succ idx) ops' obs'
  | _, _ => [(8%N, idx)]
  end.

Definition init_pvar (d : decl) : pvar := {| p_val := d_def d; p_trig := epoch; p_dirty := false; p_chg := epoch |}.
Definition init_sstate (c : cfg) : sstate :=
  {| sp_now := 0; sp_nsid := 0%N; sp_vars := map init_pvar c; sp_subs := [] |}.

(* the specification state at the end of the history *)
Fixpoint spec_fold (c : cfg) (sp : sstate) (ops : list op) (obs : list step_obs) : sstate :=
  match ops, obs with
  | o :: ops', ob :: obs' => spec_fold c (fst (spec_step c sp o ob)) ops' obs'
  | _, _ => sp
  end.
Definition spec_final (i : input) (o : observation) : sstate :=
  spec_fold (fst i) (fst (check_runs (fst i) None 0 (init_sstate (fst i)) (fst o))) (snd i) (snd o).

(* clause 9, eventual consistency, stated on its own: at the end of the history every unexpired subscriber's
   last event carries the current value of every evented variable whose last change is at least one
   moderation interval old ("changes stopped, timers fired") *)
Fixpoint settled_from (i : nat) (c : cfg) (pvs : list pvar) (t : Z) (last : list (nat * option N)) : bool :=
  match c, pvs with
  | d :: c', pv :: pvs' =>
      (negb (d_ev d) || negb (p_chg pv + d_rate d <=? t)
       || match lookup i last with Some x => opt_eqb x (p_val pv) | None => false end)
      && settled_from (S i) c' pvs' t last
  | _, _ => true
  end.
Definition ec_ok (c : cfg) (sp : sstate) : bool :=
  forallb (fun s => negb (sp_now sp <? ss_exp s) || settled_from O c (sp_vars sp) (sp_now sp) (ss_last s))
          (sp_subs sp).

(* failing (clause, step) pairs; step 0 = building the service, step k+1 = the k-th operation *)
Definition spec_ok (i : input) (o : observation) : list (N * N) :=
  let '(sp0, f0) := check_runs (fst i) None 0 (init_sstate (fst i)) (fst o) in
  map (fun cl => (cl, 0%N)) f0 ++ spec_steps (fst i) sp0 1%N (snd i) (snd o)
  ++ map (fun cl => (cl, N.of_nat (length (snd i)))) (chk 9 (ec_ok (fst i) (spec_final i o))).

(* ------------------------------------------------------------------ domain of the theorems *)
Definition decl_ok (d : decl) : bool :=
  (0 <=? d_rate d) && (d_rate d <=? 1000000000)
  && match d_def d, d_max d with Some x, Some m => (x <=? m)%N | _, _ => true end.
Definition op_ok (o : op) : bool :=
  match o with
  | OSub _ t sid => sub_op_ok sid t
  | OJump _ k => (k <=? 4294967295)%N
  | _ => true
  end.
Fixpoint total_adv (ops : list op) : Z :=
  match ops with
  | [] => 0
  | OAdv dt :: r => Z.of_N dt + total_adv r
  | OLate dt _ _ :: r => Z.of_N dt + total_adv r
  | _ :: r => total_adv r
  end.
Definition horizon : Z := 100000000000000.      (* 10^14 ms: about 3170 years of virtual time *)
Definition in_domain (i : input) : bool :=
  forallb decl_ok (fst i) && forallb op_ok (snd i) && (total_adv (snd i) <=? horizon).
