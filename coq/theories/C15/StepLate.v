(* C15 — a late assignment: the clock moved on while the loop did not run, the assignment is processed before the
   timers that became due, which fire behind it in the same quiescence run.  The relation is kept. *)
From Coq Require Import List Bool NArith ZArith Lia ZifyBool ZifyN Arith.
From AUC Require Import Prelude.PyStr Gen.Eventing C15.Model C15.Spec C15.Lemmas C15.Inv C15.Batch C15.Steps C15.StepSet
  C15.StepAdv.
Import ListNotations.
Local Open Scope Z_scope.

(* a checking fold only ever appends to the failures it was given *)
Lemma fold_acc {A B} (g : A * list N -> B -> A * list N) :
  (forall a f b, g (a, f) b = (fst (g (a, []) b), f ++ snd (g (a, []) b))) ->
  forall l a f, fold_left g l (a, f) = (fst (fold_left g l (a, [])), f ++ snd (fold_left g l (a, []))).
Proof.
  intros Hg. induction l as [|b l IH]; intros a f; cbn [fold_left].
  - cbn. now rewrite app_nil_r.
  - rewrite (Hg a f b). destruct (g (a, []) b) as [a1 f1] eqn:E. cbn [fst snd].
    rewrite (IH a1 (f ++ f1)), (IH a1 f1). cbn [fst snd]. now rewrite app_assoc.
Qed.

Lemma fold_acc_nil {A B} (g : A * list N -> B -> A * list N) l a f a2 :
  (forall a f b, g (a, f) b = (fst (g (a, []) b), f ++ snd (g (a, []) b))) ->
  fold_left g l (a, f) = (a2, []) -> f = [] /\ fold_left g l (a, []) = (a2, []).
Proof.
  intros Hg H. rewrite (fold_acc g Hg) in H. injection H as H1 H2.
  apply app_eq_nil in H2. destruct H2 as [Hf Hs]. split; [exact Hf|].
  rewrite (surjective_pairing (fold_left g l (a, []))). now rewrite H1, Hs.
Qed.

Lemma sp_set_now_id sp t : sp_now sp = t -> sp_set_now sp t = sp.
Proof. destruct sp. cbn. intros <-. reflexivity. Qed.

Section StepLate.
  Variable c : cfg.

  Lemma apply_trig_acc t pvs f i :
    apply_trig c t (pvs, f) i = (fst (apply_trig c t (pvs, []) i), f ++ snd (apply_trig c t (pvs, []) i)).
  Proof. unfold apply_trig. cbn [fst snd]. destruct (nth_error pvs i); [destruct (nth_error c i)|]; reflexivity. Qed.

  Lemma apply_note_acc t ss f n :
    apply_note t (ss, f) n = (fst (apply_note t (ss, []) n), f ++ snd (apply_note t (ss, []) n)).
  Proof. unfold apply_note. cbn [fst snd]. destruct (find_ssub (n_sid n) ss); reflexivity. Qed.

  Lemma check_run_acc ns hi sp f r :
    check_run c ns hi (sp, f) r = (fst (check_run c ns hi (sp, []) r), f ++ snd (check_run c ns hi (sp, []) r)).
  Proof.
    unfold check_run. cbn [fst snd].
    destruct (fold_left (apply_trig c (r_t r)) (r_trig r) (sp_vars sp, [])) as [pvs f1].
    destruct (fold_left (apply_note (r_t r)) (r_notes r) (sp_subs sp, [])) as [ss f2]. reflexivity.
  Qed.

  (* what a run that passes the specification's check says *)
  Lemma check_run_inv ns hi sp r sp1 :
    check_run c ns hi (sp, []) r = (sp1, []) ->
    fold_left (apply_trig c (r_t r)) (r_trig r) (sp_vars sp, []) = (sp_vars sp1, []) /\
    fold_left (apply_note (r_t r)) (r_notes r) (sp_subs sp, []) = (sp_subs sp1, []) /\
    sp_now sp1 = r_t r /\ sp_nsid sp1 = sp_nsid sp /\
    sp_now sp <= r_t r <= hi /\ counts_ok ns (length (r_trig r)) (r_notes r) = true.
  Proof.
    unfold check_run. cbn [fst snd].
    destruct (fold_left (apply_trig c (r_t r)) (r_trig r) (sp_vars sp, [])) as [pvs f1].
    destruct (fold_left (apply_note (r_t r)) (r_notes r) (sp_subs sp, [])) as [ss f2].
    intros H. inversion H as [[H1 H2]]. cbn [sp_now sp_nsid sp_vars sp_subs].
    apply app_eq_nil in H2. destruct H2 as [H8 H2]. apply app_eq_nil in H2. destruct H2 as [Hf1 H2].
    apply app_eq_nil in H2. destruct H2 as [Hf2 H4]. subst f1 f2.
    destruct ((sp_now sp <=? r_t r) && (r_t r <=? hi)) eqn:E8; [|discriminate].
    destruct (counts_ok ns (length (r_trig r)) (r_notes r)) eqn:E4; [|discriminate].
    apply andb_true_iff in E8. destruct E8 as [Ea Eb]. apply Z.leb_le in Ea, Eb.
    repeat split; auto.
  Qed.

  Lemma counts_ok_bound k notes :
    counts_ok None k notes = true -> forall sid, (count_sid sid notes <= k)%nat.
  Proof.
    intros H sid. unfold count_sid.
    destruct (filter (fun n => (n_sid n =? sid)%N) notes) as [|n l] eqn:E; [cbn; lia|].
    assert (Hin : In n (filter (fun n => (n_sid n =? sid)%N) notes)) by (rewrite E; now left).
    apply filter_In in Hin. destruct Hin as [Hin Hs]. apply N.eqb_eq in Hs.
    unfold counts_ok in H. eapply forallb_forall in H; [|exact Hin]. apply Nat.leb_le in H.
    cbn [is_new] in H. rewrite Hs in H. unfold count_sid in H. rewrite E in H. lia.
  Qed.

  (* runs that all happen at the clock value t and pass the check one after the other: their triggers and their
     NOTIFY requests pass as the triggers and requests of ONE run *)
  Lemma merge_ok t : forall rs sp sp2,
    sp_now sp = t -> fold_left (check_run c None t) rs (sp, []) = (sp2, []) ->
    fold_left (apply_trig c t) (flat_map r_trig rs) (sp_vars sp, []) = (sp_vars sp2, []) /\
    fold_left (apply_note t) (flat_map r_notes rs) (sp_subs sp, []) = (sp_subs sp2, []) /\
    sp_now sp2 = t /\ sp_nsid sp2 = sp_nsid sp /\
    (forall sid, (count_sid sid (flat_map r_notes rs) <= length (flat_map r_trig rs))%nat).
  Proof.
    induction rs as [|r rs IH]; intros sp sp2 Hnow H; cbn [fold_left flat_map] in *.
    - inversion H; subst sp2. repeat split; auto.
    - destruct (check_run c None t (sp, []) r) as [spm fm] eqn:Er.
      destruct (fold_acc_nil _ _ _ _ _ (check_run_acc None t) H) as [Hfm H']. subst fm.
      destruct (check_run_inv _ _ _ _ _ Er) as [Ht [Hn [Hnow1 [Hns1 [Htime Hcnt]]]]].
      assert (Hrt : r_t r = t) by lia. rewrite Hrt in *.
      destruct (IH spm sp2 Hnow1 H') as [Ht2 [Hn2 [Hnow2 [Hns2 Hc2]]]].
      rewrite !fold_left_app, Ht, Hn. split; [exact Ht2|]. split; [exact Hn2|]. split; [exact Hnow2|].
      split; [congruence|].
      intros sid. rewrite count_sid_app, app_length.
      pose proof (counts_ok_bound _ _ Hcnt sid). specialize (Hc2 sid). lia.
  Qed.

  Lemma merge_check t rs sp sp2 :
    sp_now sp = t -> check_runs c None t sp rs = (sp2, []) ->
    exists sp3, check_runs c None t sp (merge_runs t rs) = (sp3, []) /\
                sp_nsid sp3 = sp_nsid sp2 /\ sp_vars sp3 = sp_vars sp2 /\ sp_subs sp3 = sp_subs sp2.
  Proof.
    intros Hnow H. destruct (merge_ok t rs sp sp2 Hnow H) as [Ht [Hn [Hnow2 [Hns2 Hc]]]].
    unfold merge_runs.
    set (T := flat_map r_trig rs) in *. set (Nn := flat_map r_notes rs) in *.
    assert (Hrun : check_run c None t (sp, []) {| r_t := t; r_trig := T; r_notes := Nn |} =
                   ({| sp_now := t; sp_nsid := sp_nsid sp; sp_vars := sp_vars sp2; sp_subs := sp_subs sp2 |}, [])).
    { apply check_run_eq; cbn [r_t r_trig r_notes]; auto.
      - rewrite Hnow, Z.leb_refl. reflexivity.
      - now apply counts_from_bound. }
    assert (Hone : exists sp3,
               check_runs c None t sp [{| r_t := t; r_trig := T; r_notes := Nn |}] = (sp3, []) /\
               sp_nsid sp3 = sp_nsid sp2 /\ sp_vars sp3 = sp_vars sp2 /\ sp_subs sp3 = sp_subs sp2).
    { unfold check_runs. cbn [fold_left]. rewrite Hrun. eexists. split; [reflexivity|]. cbn. auto. }
    destruct T as [|i T]; destruct Nn as [|n Nn]; cbn [mk_runs]; try exact Hone.
    exists sp. split; [reflexivity|]. cbn [fold_left] in Ht, Hn. inversion Ht. inversion Hn. auto.
  Qed.

  (* the relation looks at the specification state through its fields only *)
  Lemma R_fields m sp sp' :
    R c m sp -> sp_now sp' = sp_now sp -> sp_nsid sp' = sp_nsid sp -> sp_vars sp' = sp_vars sp ->
    sp_subs sp' = sp_subs sp -> R c m sp'.
  Proof. unfold R. intros H E1 E2 E3 E4. rewrite E1, E2, E3, E4. exact H. Qed.

  Lemma do_late_eq m dt i x :
    do_late c m dt i x =
    let ds := do_set c (set_now m (now m + Z.of_N dt)) i x in
    let adv := advance (S (length (timers (fst ds)))) c (fst ds) (now (fst ds)) in
    (fst adv, (fst (snd ds), merge_runs (now (fst ds)) (snd (snd ds) ++ snd adv))).
  Proof.
    unfold do_late. destruct (do_set c (set_now m (now m + Z.of_N dt)) i x) as [st1 ob]. cbn [fst snd].
    destruct (advance (S (length (timers st1))) c st1 (now st1)) as [st2 rs2]. reflexivity.
  Qed.

  (* the clock moves on and the loop does not run: the pending timers are those that were not due before *)
  Lemma R_late m sp t' :
    R c m sp -> now m <= t' -> Rt c (now m) (set_now m t') (sp_set_now sp t').
  Proof.
    intros [Hnow [Hns [H0 [Hv [Htm Hsubs]]]]] Hle. unfold Rt.
    cbn [now nsid vars timers subs set_now sp_set_now sp_now sp_nsid sp_vars sp_subs].
    split; [reflexivity|]. split; [exact Hns|]. split; [lia|]. split; [|split].
    - eapply vrel_mono; eauto.
    - exact Htm.
    - eapply subs_ok_mono; eauto.
  Qed.

  Lemma step_late m sp dt i x : R c m sp -> step_ok c m sp (OLate dt i x).
  Proof.
    intros HR. unfold step_ok. cbn [step adv_of]. rewrite do_late_eq. cbv zeta.
    pose proof HR as [Hnow _].
    change (spec_step c sp (OLate dt i x) ?ob)
      with (spec_assign c (finish_step c (snd ob)) (sp_set_now sp (sp_now sp + Z.of_N dt)) i x (fst ob)).
    rewrite Hnow.
    set (t' := now m + Z.of_N dt). set (m0 := set_now m t').
    assert (Hle : now m <= t') by (unfold t'; lia).
    pose proof (R_late m sp t' HR Hle) as HR0. fold m0 in HR0.
    destruct (set_R c (now m) m0 (sp_set_now sp t') i x HR0 Hle) as [spA [sp1 [Hspec [HnA [Hruns [HR1 [Hn1 _]]]]]]].
    change (now m0) with t' in *. cbn [sp_now sp_set_now] in Hspec.
    set (ds := do_set c m0 i x) in *. rewrite Hn1.
    destruct (merge_ok t' _ _ _ HnA Hruns) as [_ [_ [Hnow1 _]]].
    rewrite (sp_set_now_id sp1 t' Hnow1) in HR1.
    destruct (advance_R c (S (length (timers (fst ds)))) (now m) (fst ds) sp1 t' HR1) as [sp2 [Hf2 [HR2 Hn2]]]; [lia|lia|].
    set (adv := advance (S (length (timers (fst ds)))) c (fst ds) t') in *.
    assert (Hall : check_runs c None t' spA (snd (snd ds) ++ snd adv) = (sp2, [])).
    { unfold check_runs in *. rewrite fold_left_app, Hruns. exact Hf2. }
    destruct (merge_check t' _ _ _ HnA Hall) as [sp3 [Hm [E2 [E3 E4]]]].
    assert (HR3 : R c (fst adv) (sp_set_now sp3 t')) by (eapply R_fields; [exact HR2| | | |]; cbn; auto).
    cbn [fst snd]. rewrite Hspec.
    eexists. split; [eapply finish_ok; [exact Hm|exact HR3]|]. split; [exact HR3|exact Hn2].
  Qed.
End StepLate.
