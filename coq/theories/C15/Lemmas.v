(* C15 — list and arithmetic lemmas used by the invariant proofs. *)
From Coq Require Import List Bool NArith ZArith Lia ZifyBool ZifyN Arith.
From AUC Require Import Prelude.PyStr Gen.Eventing C15.Model C15.Spec.
Import ListNotations.
Local Open Scope Z_scope.

(* ------------------------------------------------------------------ upd / nth_error *)
Lemma nth_error_upd_eq {A} (l : list A) i x y :
  nth_error l i = Some y -> nth_error (upd l i x) i = Some x.
Proof.
  revert i. induction l as [|a l IH]; intros [|i] H; cbn in *; try discriminate; auto.
Qed.

Lemma nth_error_upd_ne {A} (l : list A) i j x :
  i <> j -> nth_error (upd l i x) j = nth_error l j.
Proof.
  revert i j. induction l as [|a l IH]; intros [|i] [|j] H; cbn; auto; try congruence.
Qed.

Lemma length_upd {A} (l : list A) i x : length (upd l i x) = length l.
Proof. revert i. induction l as [|a l IH]; intros [|i]; cbn; auto. Qed.

Lemma map_upd {A B} (f : A -> B) (l : list A) i x : map f (upd l i x) = upd (map f l) i (f x).
Proof. revert i. induction l as [|a l IH]; intros [|i]; cbn; auto. now rewrite IH. Qed.

Lemma upd_same {A} (l : list A) i x : nth_error l i = Some x -> upd l i x = l.
Proof.
  revert i. induction l as [|a l IH]; intros [|i] H; cbn in *; try discriminate; auto.
  - congruence.
  - now rewrite IH.
Qed.

Lemma nth_error_upd {A} (l : list A) i j x :
  nth_error (upd l i x) j = if Nat.eqb i j then (match nth_error l i with Some _ => Some x | None => None end)
                            else nth_error l j.
Proof.
  destruct (Nat.eqb_spec i j) as [->|Hne].
  - destruct (nth_error l j) eqn:E.
    + eapply nth_error_upd_eq; eauto.
    + apply nth_error_None. rewrite length_upd. now apply nth_error_None.
  - now apply nth_error_upd_ne.
Qed.

Lemma nth_error_map_some {A B} (f : A -> B) l i y :
  nth_error (map f l) i = Some y -> exists x, nth_error l i = Some x /\ y = f x.
Proof.
  rewrite nth_error_map. destruct (nth_error l i); cbn; intros H; inversion H; eauto.
Qed.

Lemma opt_eqb_refl x : opt_eqb x x = true.
Proof. destruct x; cbn; auto. apply N.eqb_refl. Qed.

Lemma opt_eqb_eq x y : opt_eqb x y = true -> x = y.
Proof. destruct x, y; cbn; try discriminate; auto. intros H. apply N.eqb_eq in H. congruence. Qed.

Lemma vals_eqb_refl l : vals_eqb l l = true.
Proof. induction l as [|[i x] l IH]; cbn; auto. now rewrite Nat.eqb_refl, opt_eqb_refl, IH. Qed.

(* ------------------------------------------------------------------ snapshot / lookup *)
Lemma lookup_snap_from c : forall vals k i d x,
  nth_error c i = Some d -> nth_error vals i = Some x -> d_ev d = true ->
  lookup (k + i) (snap_from k c vals) = Some x.
Proof.
  induction c as [|d0 c IH]; intros vals k i d x Hc Hv Hev.
  - destruct i; discriminate.
  - destruct vals as [|x0 vals]; [destruct i; discriminate|].
    destruct i as [|i]; cbn in Hc, Hv.
    + inversion Hc; inversion Hv; subst. cbn. rewrite Hev. cbn. now rewrite Nat.add_0_r, Nat.eqb_refl.
    + cbn [snap_from]. replace (k + S i)%nat with (S k + i)%nat by lia.
      destruct (d_ev d0); cbn [app lookup].
      * destruct (Nat.eqb_spec (S k + i) k); [lia|]. eapply IH; eauto.
      * eapply IH; eauto.
Qed.

Lemma lookup_snapshot c vals i d x :
  nth_error c i = Some d -> nth_error vals i = Some x -> d_ev d = true ->
  lookup i (snapshot c vals) = Some x.
Proof. intros. unfold snapshot. change i with (0 + i)%nat. eapply lookup_snap_from; eauto. Qed.

Lemma fresh_from_true c : forall pvs t last k,
  (forall i d pv, nth_error c i = Some d -> nth_error pvs i = Some pv -> d_ev d = true ->
     (exists x, lookup (k + i) last = Some x /\ opt_eqb x (p_val pv) = true) \/
     (p_dirty pv = true /\ t < p_trig pv + d_rate d)) ->
  fresh_from k c pvs t last = true.
Proof.
  induction c as [|d c IH]; intros pvs t last k H; cbn; auto.
  destruct pvs as [|pv pvs]; auto.
  apply andb_true_iff. split.
  - destruct (d_ev d) eqn:Hev; cbn; auto.
    destruct (H 0%nat d pv eq_refl eq_refl Hev) as [[x [Hl He]]|[Hd Ht]].
    + rewrite Nat.add_0_r in Hl. rewrite Hl, He. reflexivity.
    + rewrite Hd. apply orb_true_iff. right. rewrite andb_true_l. apply Z.ltb_lt. lia.
  - apply IH. intros i d' pv' Hc Hp Hev'.
    replace (S k + i)%nat with (k + S i)%nat by lia. now apply (H (S i) d' pv').
Qed.

(* ------------------------------------------------------------------ keys *)
Lemma next_key_spec k : (k <= seq_max)%N -> spec_next_key k = next_key k.
Proof.
  unfold spec_next_key, next_key, seq_max, seq_restart. intros H.
  destruct (k =? 4294967295)%N eqn:E1; destruct (4294967295 <? k + 1)%N eqn:E2; lia.
Qed.

Lemma next_key_bound k : (k <= seq_max)%N -> (next_key k <= seq_max)%N.
Proof. unfold next_key, seq_max, seq_restart. intros H. destruct (4294967295 <? k + 1)%N eqn:E; lia. Qed.

Lemma seq_init_zero : seq_init = 0%N.
Proof. reflexivity. Qed.

(* ------------------------------------------------------------------ find / map on subscriber lists *)
Lemma find_sub_some sid l s : find_sub sid l = Some s -> In s l /\ s_sid s = sid.
Proof.
  unfold find_sub. intros H. apply find_some in H. destruct H as [Hin He]. split; auto. now apply N.eqb_eq.
Qed.

Lemma find_sub_none sid l : find_sub sid l = None -> forall s, In s l -> s_sid s <> sid.
Proof.
  unfold find_sub. intros H s Hin He. eapply find_none in H; eauto. cbn in H. apply N.eqb_neq in H. auto.
Qed.

Lemma find_sub_in l : NoDup (map s_sid l) -> forall s, In s l -> find_sub (s_sid s) l = Some s.
Proof.
  induction l as [|a l IH]; intros Hnd s Hin; [contradiction|].
  inversion Hnd as [|? ? Hnotin Hnd']; subst. unfold find_sub. cbn.
  destruct Hin as [->|Hin].
  - now rewrite N.eqb_refl.
  - destruct (N.eqb_spec (s_sid a) (s_sid s)) as [He|Hne].
    + exfalso. apply Hnotin. rewrite He. now apply in_map.
    + now apply IH.
Qed.

Lemma find_ssub_some sid l s : find_ssub sid l = Some s -> In s l /\ ss_sid s = sid.
Proof.
  unfold find_ssub. intros H. apply find_some in H. destruct H as [Hin He]. split; auto. now apply N.eqb_eq.
Qed.

Lemma find_ssub_none sid l : find_ssub sid l = None -> forall s, In s l -> ss_sid s <> sid.
Proof.
  unfold find_ssub. intros H s Hin He. eapply find_none in H; eauto. cbn in H. apply N.eqb_neq in H. auto.
Qed.

Lemma find_ssub_in l : NoDup (map ss_sid l) -> forall s, In s l -> find_ssub (ss_sid s) l = Some s.
Proof.
  induction l as [|a l IH]; intros Hnd s Hin; [contradiction|].
  inversion Hnd as [|? ? Hnotin Hnd']; subst. unfold find_ssub. cbn.
  destruct Hin as [->|Hin].
  - now rewrite N.eqb_refl.
  - destruct (N.eqb_spec (ss_sid a) (ss_sid s)) as [He|Hne].
    + exfalso. apply Hnotin. rewrite He. now apply in_map.
    + now apply IH.
Qed.

Lemma map_sub_sids sid f l : (forall s, s_sid (f s) = s_sid s) -> map s_sid (map_sub sid f l) = map s_sid l.
Proof.
  intros Hf. unfold map_sub. rewrite map_map. apply map_ext. intros s.
  destruct (s_sid s =? sid)%N; auto.
Qed.

Lemma map_ssub_sids sid f l : (forall s, ss_sid (f s) = ss_sid s) -> map ss_sid (map_ssub sid f l) = map ss_sid l.
Proof.
  intros Hf. unfold map_ssub. rewrite map_map. apply map_ext. intros s.
  destruct (ss_sid s =? sid)%N; auto.
Qed.

Lemma find_sub_map_sub sid f l x :
  (forall s, s_sid (f s) = s_sid s) ->
  find_sub x (map_sub sid f l) =
  match find_sub x l with Some s => Some (if (s_sid s =? sid)%N then f s else s) | None => None end.
Proof.
  intros Hf. unfold find_sub, map_sub. induction l as [|a l IH]; cbn; auto.
  destruct (s_sid a =? sid)%N eqn:E; cbn.
  - rewrite Hf. destruct (s_sid a =? x)%N; auto. now rewrite E.
  - destruct (s_sid a =? x)%N; auto. now rewrite E.
Qed.

Lemma find_ssub_map_ssub sid f l x :
  (forall s, ss_sid (f s) = ss_sid s) ->
  find_ssub x (map_ssub sid f l) =
  match find_ssub x l with Some s => Some (if (ss_sid s =? sid)%N then f s else s) | None => None end.
Proof.
  intros Hf. unfold find_ssub, map_ssub. induction l as [|a l IH]; cbn; auto.
  destruct (ss_sid a =? sid)%N eqn:E; cbn.
  - rewrite Hf. destruct (ss_sid a =? x)%N; auto. now rewrite E.
  - destruct (ss_sid a =? x)%N; auto. now rewrite E.
Qed.

Lemma find_sub_app x l1 l2 :
  find_sub x (l1 ++ l2) = match find_sub x l1 with Some s => Some s | None => find_sub x l2 end.
Proof. unfold find_sub. induction l1 as [|a l IH]; cbn; auto. destruct (s_sid a =? x)%N; auto. Qed.

Lemma find_ssub_app x l1 l2 :
  find_ssub x (l1 ++ l2) = match find_ssub x l1 with Some s => Some s | None => find_ssub x l2 end.
Proof. unfold find_ssub. induction l1 as [|a l IH]; cbn; auto. destruct (ss_sid a =? x)%N; auto. Qed.

Lemma find_sub_absent x l : (forall s, In s l -> s_sid s <> x) -> find_sub x l = None.
Proof.
  intros H. unfold find_sub. induction l as [|a l IH]; cbn; auto.
  destruct (N.eqb_spec (s_sid a) x) as [He|Hne].
  - exfalso. apply (H a); cbn; auto.
  - apply IH. intros s Hin. apply H. now right.
Qed.

Lemma find_ssub_absent x l : (forall s, In s l -> ss_sid s <> x) -> find_ssub x l = None.
Proof.
  intros H. unfold find_ssub. induction l as [|a l IH]; cbn; auto.
  destruct (N.eqb_spec (ss_sid a) x) as [He|Hne].
  - exfalso. apply (H a); cbn; auto.
  - apply IH. intros s Hin. apply H. now right.
Qed.

Lemma filter_other_sid sid l :
  (forall s, In s l -> s_sid s <> sid) -> filter (fun s => negb (s_sid s =? sid)%N) l = l.
Proof.
  induction l as [|a l IH]; intros H; cbn; auto.
  destruct (N.eqb_spec (s_sid a) sid) as [He|Hne]; cbn.
  - exfalso. apply (H a); cbn; auto.
  - f_equal. apply IH. intros s Hin. apply H. now right.
Qed.

Lemma remove_first_filter sid l :
  NoDup (map s_sid l) -> remove_first sid l = filter (fun s => negb (s_sid s =? sid)%N) l.
Proof.
  induction l as [|a l IH]; intros Hnd; cbn; auto.
  inversion Hnd as [|? ? Hnotin Hnd']; subst.
  destruct (N.eqb_spec (s_sid a) sid) as [He|Hne]; cbn.
  - symmetry. apply filter_other_sid. intros s Hin Hs. apply Hnotin. rewrite He, <- Hs. now apply in_map.
  - f_equal. now apply IH.
Qed.

Lemma NoDup_map_filter {A B} (f : A -> B) (p : A -> bool) l : NoDup (map f l) -> NoDup (map f (filter p l)).
Proof.
  induction l as [|a l IH]; intros H; cbn; auto.
  inversion H as [|? ? Hnotin Hnd]; subst.
  destruct (p a); cbn; auto. constructor; auto.
  intros Hin. apply Hnotin. apply in_map_iff in Hin. destruct Hin as [x [Hx Hin]].
  apply filter_In in Hin. apply in_map_iff. exists x. tauto.
Qed.

Lemma find_sub_filter_nodup x p l :
  NoDup (map s_sid l) ->
  find_sub x (filter p l) = match find_sub x l with Some s => if p s then Some s else None | None => None end.
Proof.
  induction l as [|a l IH]; intros Hnd; cbn; auto.
  inversion Hnd as [|? ? Hnotin Hnd']; subst. unfold find_sub in *. cbn.
  destruct (N.eqb_spec (s_sid a) x) as [He|Hne].
  - destruct (p a) eqn:Hp; cbn.
    + destruct (N.eqb_spec (s_sid a) x); [auto|contradiction].
    + apply find_sub_absent. intros s Hin. apply filter_In in Hin. intros Hs. apply Hnotin.
      rewrite He, <- Hs. apply in_map. tauto.
  - destruct (p a); cbn.
    + destruct (N.eqb_spec (s_sid a) x); [contradiction|]. now apply IH.
    + now apply IH.
Qed.

Lemma find_ssub_filter_nodup x p l :
  NoDup (map ss_sid l) ->
  find_ssub x (filter p l) = match find_ssub x l with Some s => if p s then Some s else None | None => None end.
Proof.
  induction l as [|a l IH]; intros Hnd; cbn; auto.
  inversion Hnd as [|? ? Hnotin Hnd']; subst. unfold find_ssub in *. cbn.
  destruct (N.eqb_spec (ss_sid a) x) as [He|Hne].
  - destruct (p a) eqn:Hp; cbn.
    + destruct (N.eqb_spec (ss_sid a) x); [auto|contradiction].
    + apply find_ssub_absent. intros s Hin. apply filter_In in Hin. intros Hs. apply Hnotin.
      rewrite He, <- Hs. apply in_map. tauto.
  - destruct (p a); cbn.
    + destruct (N.eqb_spec (ss_sid a) x); [contradiction|]. now apply IH.
    + now apply IH.
Qed.

(* ------------------------------------------------------------------ timers *)
Lemma min_when_none l : min_when l = None -> l = [].
Proof. destruct l as [|[w i] l]; cbn; auto. destruct (min_when l); discriminate. Qed.

Lemma min_when_some l m : min_when l = Some m ->
  (exists i, In (m, i) l) /\ (forall w i, In (w, i) l -> m <= w).
Proof.
  revert m. induction l as [|[w0 i0] l IH]; cbn; intros m H; [discriminate|].
  destruct (min_when l) as [m'|] eqn:E.
  - inversion H; subst. destruct (IH m' eq_refl) as [[i Hi] Hall]. split.
    + destruct (Z.min_spec w0 m') as [[_ ->]|[_ ->]]; eauto.
    + intros w i' [Heq|Hin]; [inversion Heq; lia|]. specialize (Hall _ _ Hin). lia.
  - inversion H; subst. apply min_when_none in E. subst. split; eauto.
    intros w i' [Heq|[]]. inversion Heq. lia.
Qed.


Lemma nth_error_ext' {A} (l l' : list A) : (forall n, nth_error l n = nth_error l' n) -> l = l'.
Proof.
  revert l'. induction l as [|a l IH]; intros [|b l'] H; auto.
  - specialize (H 0%nat). discriminate.
  - specialize (H 0%nat). discriminate.
  - f_equal.
    + specialize (H 0%nat). cbn in H. congruence.
    + apply IH. intros n. apply (H (S n)).
Qed.

Lemma NoDup_app_one {A} (l : list A) x : NoDup l -> ~ In x l -> NoDup (l ++ [x]).
Proof.
  induction l as [|a l IH]; intros Hnd Hnotin; cbn.
  - constructor; [auto|constructor].
  - inversion Hnd; subst. constructor.
    + intros Hin. apply in_app_or in Hin. destruct Hin as [Hin|[->|[]]]; auto. apply Hnotin. now left.
    + apply IH; auto. intros Hin. apply Hnotin. now right.
Qed.
