(* C15 — Server eventing is ordered, complete, and bounded by the subscription's life.  Property theorems only.

   model_run i   = what the (repaired: proposed/C15/D11.diff, D12.diff) publisher code does on the history i
                   (C15/Model.v): responses, triggers, NOTIFY requests with virtual time, SID, SEQ, body;
   spec_ok i o   = the (clause, step) pairs at which the observation o of history i violates the statement
                   (C15/Spec.v; the same function is evaluated on the implementation's observations by the check);
   in_domain i   = declarations well-formed, TIMEOUT values absent / Second-n (1 <= n <= 10^9, any case) / rejected by
                   int(), no empty SID header, key jumps <= 2^32-1, at most 10^14 ms of virtual time.
   Every theorem quantifies over ALL histories (any length, any number of subscribers and variables, any order of
   NOTIFY completions) and is proved by induction with the invariant of C15/Inv.v. *)
From Coq Require Import List Bool NArith ZArith.
From AUC Require Import Prelude.PyStr Gen.Eventing C15.Model C15.Spec C15.Timeout C15.Main.
Import ListNotations.
Local Open Scope Z_scope.

(* No clause of the specification fails on any history of the domain. *)
Theorem C15_all_clauses : forall i, in_domain i = true -> spec_ok i (model_run i) = [].
Proof. exact all_clauses. Qed.
Print Assumptions C15_all_clauses.

(* 1: a new subscriber is answered 200 with a fresh SID and its granted timeout, the answer first, then an
      initial event with key 0 carrying every evented variable; malformed TIMEOUT / no callback is refused. *)
Theorem C15_initial_event : forall i, in_domain i = true -> ~ In 1%N (map fst (spec_ok i (model_run i))).
Proof. exact (clause_holds 1%N). Qed.
Print Assumptions C15_initial_event.

(* 2: per subscriber the event keys are consecutive: 0 first, +1, and 2^32-1 is followed by 1. *)
Theorem C15_keys_consecutive : forall i, in_domain i = true -> ~ In 2%N (map fst (spec_ok i (model_run i))).
Proof. exact (clause_holds 2%N). Qed.
Print Assumptions C15_keys_consecutive.

(* ... where the key after k is computed in N with the constants read from get_next_seq. *)
Theorem C15_key_succession :
  (forall k, (k < 4294967295)%N -> next_key k = (k + 1)%N) /\ next_key 4294967295%N = 1%N /\
  (forall k, (k <= 4294967295)%N -> (1 <= next_key k <= 4294967295)%N).
Proof. exact key_succession. Qed.
Print Assumptions C15_key_succession.

(* 3: at every step boundary every unexpired subscriber's last event carries the current value of every evented
      variable, except a variable that changed after its last trigger while its moderation interval is running:
      every change is delivered to every unexpired subscriber, at the latest when the interval ends. *)
Theorem C15_fresh : forall i, in_domain i = true -> ~ In 3%N (map fst (spec_ok i (model_run i))).
Proof. exact (clause_holds 3%N). Qed.
Print Assumptions C15_fresh.

(* 9: eventual consistency, as a clause and as a proposition about the end of every history. *)
Theorem C15_eventual_consistency_clause :
  forall i, in_domain i = true -> ~ In 9%N (map fst (spec_ok i (model_run i))).
Proof. exact (clause_holds 9%N). Qed.
Print Assumptions C15_eventual_consistency_clause.

Theorem C15_eventual_consistency :
  forall i, in_domain i = true ->
  let c := fst i in
  let sp := spec_final i (model_run i) in
  forall ss, In ss (sp_subs sp) -> sp_now sp < ss_exp ss ->
  forall v d pv, nth_error c v = Some d -> nth_error (sp_vars sp) v = Some pv -> d_ev d = true ->
    p_chg pv + d_rate d <= sp_now sp ->
    lookup v (ss_last ss) = Some (p_val pv).
Proof. exact eventual_consistency. Qed.
Print Assumptions C15_eventual_consistency.

(* 4: two triggers of a variable are at least its moderation interval apart and a subscriber gets no more events
      in a run than triggers happened (plus its initial event): at most one event per variable per interval. *)
Theorem C15_moderation : forall i, in_domain i = true -> ~ In 4%N (map fst (spec_ok i (model_run i))).
Proof. exact (clause_holds 4%N). Qed.
Print Assumptions C15_moderation.

(* 5: renewing an unexpired subscription is accepted with the same SID and the granted timeout, and the expiry
      used from then on is now + granted; unsubscribing an unexpired subscription is accepted. *)
Theorem C15_renew_extends : forall i, in_domain i = true -> ~ In 5%N (map fst (spec_ok i (model_run i))).
Proof. exact (clause_holds 5%N). Qed.
Print Assumptions C15_renew_extends.

(* 6: nothing is sent to a SID that was not issued, was unsubscribed, or whose expiry in force has passed. *)
Theorem C15_dead_subscribers_silent : forall i, in_domain i = true -> ~ In 6%N (map fst (spec_ok i (model_run i))).
Proof. exact (clause_holds 6%N). Qed.
Print Assumptions C15_dead_subscribers_silent.

(* 7: renewing or unsubscribing a SID that was never issued or was unsubscribed is refused. *)
Theorem C15_unknown_sid_refused : forall i, in_domain i = true -> ~ In 7%N (map fst (spec_ok i (model_run i))).
Proof. exact (clause_holds 7%N). Qed.
Print Assumptions C15_unknown_sid_refused.

(* 8: the observation has the shape the history prescribes. *)
Theorem C15_shape : forall i, in_domain i = true -> ~ In 8%N (map fst (spec_ok i (model_run i))).
Proof. exact (clause_holds 8%N). Qed.
Print Assumptions C15_shape.

(* The TIMEOUT header: every spelling of "Second-n" is read as n by the server's parser. *)
Theorem C15_timeout_header : forall n style, 0 <= n ->
  parse_timeout (case_style style s_second ++ str_of_int n) = Some n.
Proof. exact parse_timeout_sec. Qed.
Print Assumptions C15_timeout_header.

(* Non-vacuity: a history inside the domain with a deferred change (default at time 0, change at 0, event at
   2000 ms), the key wrap 2^32-1 -> 1, an expiry, and a refused renewal / unsubscription; the specification's
   final state still knows the (expired) subscriber and what it was last sent. *)
Example C15_domain_inhabited :
  let ex_cfg : cfg :=
    [{| d_ev := true; d_rate := 2000; d_def := Some 0%N; d_max := None |};
     {| d_ev := true; d_rate := 0; d_def := None; d_max := None |}] in
  let ex_ops : list op :=
    [OSub (Some 1%N) (TSec 30 5) SAbsent; OSet 0 1; OAdv 2000; OJump 0 4294967295; OSet 1 5; OSet 1 6;
     OAdv 31000; OSet 1 7; OSub (Some 1%N) TAbsent (SIdx 0); OUnsub SBogus] in
  in_domain (ex_cfg, ex_ops) = true /\
  map (fun ob => (fst ob, map (fun r => (r_t r, r_trig r, map (fun n => (n_sid n, n_seq n, n_vals n)) (r_notes r))) (snd ob)))
      (snd (model_run (ex_cfg, ex_ops))) =
  [(SResp 200 (Some 0%N) (Some 30) true, [(0, [], [(0%N, 0%N, [(0%nat, Some 0%N); (1%nat, None)])])]);
   (SSet 1, []);
   (SNone, [(2000, [0%nat], [(0%N, 1%N, [(0%nat, Some 1%N); (1%nat, None)])])]);
   (SJump, []);
   (SSet 1, [(2000, [1%nat], [(0%N, 4294967295%N, [(0%nat, Some 1%N); (1%nat, Some 5%N)])])]);
   (SSet 1, [(2000, [1%nat], [(0%N, 1%N, [(0%nat, Some 1%N); (1%nat, Some 6%N)])])]);
   (SNone, []);
   (SSet 1, [(33000, [1%nat], [])]);
   (SResp 404 None None true, []);
   (SResp 412 None None true, [])] /\
  map (fun s => (ss_sid s, ss_exp s, ss_key s, ss_last s)) (sp_subs (spec_final (ex_cfg, ex_ops) (model_run (ex_cfg, ex_ops)))) =
  [(0%N, 30000, 2%N, [(0%nat, Some 1%N); (1%nat, Some 6%N)])].
Proof. vm_compute. repeat split; reflexivity. Qed.

(* The clauses are not vacuous: on an observation in which the deferred change is never evented (what the
   unrepaired code does, D11) clause 3 and clause 9 fail. *)
Example C15_clauses_bite :
  let ex_cfg : cfg :=
    [{| d_ev := true; d_rate := 2000; d_def := Some 0%N; d_max := None |};
     {| d_ev := true; d_rate := 0; d_def := None; d_max := None |}] in
  let ex_ops : list op :=
    [OSub (Some 1%N) (TSec 30 5) SAbsent; OSet 0 1; OAdv 2000; OJump 0 4294967295; OSet 1 5; OSet 1 6;
     OAdv 31000; OSet 1 7; OSub (Some 1%N) TAbsent (SIdx 0); OUnsub SBogus] in
  let stale : observation :=
    ([{| r_t := 0; r_trig := [0%nat]; r_notes := [] |}],
     [(SResp 200 (Some 0%N) (Some 30) true,
       [{| r_t := 0; r_trig := []; r_notes := [{| n_cb := 1; n_sid := 0; n_seq := 0; n_vals := [(0%nat, Some 0%N); (1%nat, None)] |}] |}]);
      (SSet 1, []); (SNone, [])]) in
  map fst (spec_ok (ex_cfg, firstn 3 ex_ops) stale) = [3%N; 9%N].
Proof. vm_compute. reflexivity. Qed.

(* Non-vacuity for late assignments (the clock moved on while the loop did not run; the assignment is processed
   before the timers that became due): a change held back until 2000 ms meets a further change at 2500 ms - the
   pending event absorbs it and the overdue timer sends ONE event with the latest value; a late assignment to
   another variable while the timer of variable 0 is overdue gives two triggers and two fan-outs in one run; a
   late assignment inside the running interval is held back. *)
Example C15_late_assignment :
  let ex_cfg : cfg :=
    [{| d_ev := true; d_rate := 2000; d_def := Some 0%N; d_max := None |};
     {| d_ev := true; d_rate := 0; d_def := None; d_max := None |}] in
  let ex_ops : list op :=
    [OSub (Some 1%N) (TSec 30 5) SAbsent; OSet 0 1; OLate 2500 0 2; OSet 0 3; OLate 2000 1 7; OLate 100 0 4] in
  in_domain (ex_cfg, ex_ops) = true /\
  map (fun ob => (fst ob, map (fun r => (r_t r, r_trig r, map (fun n => (n_sid n, n_seq n, n_vals n)) (r_notes r))) (snd ob)))
      (snd (model_run (ex_cfg, ex_ops))) =
  [(SResp 200 (Some 0%N) (Some 30) true, [(0, [], [(0%N, 0%N, [(0%nat, Some 0%N); (1%nat, None)])])]);
   (SSet 1, []);
   (SSet 1, [(2500, [0%nat], [(0%N, 1%N, [(0%nat, Some 2%N); (1%nat, None)])])]);
   (SSet 1, []);
   (SSet 1, [(4500, [1%nat; 0%nat], [(0%N, 2%N, [(0%nat, Some 3%N); (1%nat, Some 7%N)]);
                                     (0%N, 3%N, [(0%nat, Some 3%N); (1%nat, Some 7%N)])])]);
   (SSet 1, [])].
Proof. vm_compute. repeat split; reflexivity. Qed.

(* ... and the clauses bite on it: an observation in which the change past the deadline is evented at once AND again
   by the overdue timer (two NOTIFY requests for one trigger of the moderated variable) fails clause 4. *)
Example C15_late_clauses_bite :
  let ex_cfg : cfg :=
    [{| d_ev := true; d_rate := 2000; d_def := Some 0%N; d_max := None |};
     {| d_ev := true; d_rate := 0; d_def := None; d_max := None |}] in
  let ex_ops : list op := [OSub (Some 1%N) (TSec 30 5) SAbsent; OSet 0 1; OLate 2500 0 2] in
  let twice : observation :=
    ([{| r_t := 0; r_trig := [0%nat]; r_notes := [] |}],
     [(SResp 200 (Some 0%N) (Some 30) true,
       [{| r_t := 0; r_trig := []; r_notes := [{| n_cb := 1; n_sid := 0; n_seq := 0; n_vals := [(0%nat, Some 0%N); (1%nat, None)] |}] |}]);
      (SSet 1, []);
      (SSet 1, [{| r_t := 2500; r_trig := [0%nat];
                   r_notes := [{| n_cb := 1; n_sid := 0; n_seq := 1; n_vals := [(0%nat, Some 2%N); (1%nat, None)] |};
                               {| n_cb := 1; n_sid := 0; n_seq := 2; n_vals := [(0%nat, Some 2%N); (1%nat, None)] |}] |}])]) in
  spec_ok (ex_cfg, ex_ops) twice = [(4%N, 3%N)].
Proof. vm_compute. reflexivity. Qed.
