(* C09 — the property restated from the PUBLISHER's side.  The specification never looks at how the
   library computes: it pairs the requests the publisher saw with the reactions it gave (the log of
   exchanges), derives from that log alone which subscriptions are live (granted, and neither
   unsubscribed nor lost), and states five executable clauses over (input, observation).

     1 registry_mirror        after each call the routed SIDs (with their service) are exactly the live ones
     2 returns                what each call returns / raises is what its last exchange says
     3 renew_fallback         a refused renewal is followed by a fresh SUBSCRIBE, unless unreachable
     4 unsubscribe_immediate  an UNSUBSCRIBE is issued for the target and its SID is no longer routed
     5 requests_valid         every request is valid GENA                                             *)
From Coq Require Import List Bool NArith ZArith Arith.
From AUC Require Import Prelude.PyDict Prelude.PyStr Gen.Gena C09.Model.
Import ListNotations.

Definition live := dict sid nat.          (* SID -> service, as the publisher and the caller see it *)
Notation exchange := (request * reaction)%type (only parsing).

(* the i-th request of a call is answered by the i-th scripted reaction *)
Fixpoint pair_up (reqs : list request) (rs : list reaction) : list exchange :=
  match reqs with
  | [] => []
  | q :: t => (q, fst (next_reaction rs)) :: pair_up t (snd (next_reaction rs))
  end.

Definition is_initial (q : request) : bool :=
  match rq_method q, rq_sid q with MSubscribe, None => true | _, _ => false end.
Definition renewal_of (q : request) : option sid :=
  match rq_method q, rq_sid q with MSubscribe, Some x => Some x | _, _ => None end.
Definition unsub_of (q : request) : option sid :=
  match rq_method q, rq_sid q with MUnsubscribe, Some x => Some x | _, _ => None end.

(* Reading: a renewal answered 200 keeps its SID unless the response names another (non-empty) one *)
Definition renewed_sid (x : sid) (rsid : option sid) : sid :=
  match rsid with Some s => if truthy s then s else x | None => x end.

(* ---- which subscriptions are live after one exchange ---- *)
Definition pub_step (l : live) (e : exchange) : live :=
  let (q, r) := e in
  match rq_method q, rq_sid q with
  | MSubscribe, None =>                       (* initial SUBSCRIBE: granted iff 200 with a SID *)
      match r with
      | RResp st (Some s) _ => if (st =? 200)%N then dset str_eqb l s (rq_svc q) else l
      | _ => l
      end
  | MSubscribe, Some x =>                     (* renewal of x: accepted (perhaps under a new SID), else lost *)
      match r with
      | RResp st rsid _ =>
          if (st =? 200)%N then
            let s' := renewed_sid x rsid in
            dset str_eqb (if str_eqb s' x then l else ddel str_eqb l x) s' (rq_svc q)
          else ddel str_eqb l x
      | RRaise _ _ => ddel str_eqb l x
      end
  | MUnsubscribe, Some x => ddel str_eqb l x  (* unsubscribed as soon as issued, confirmed or not *)
  | _, _ => l
  end.

(* ---- the timeout the publisher granted (Reading: "Second-<digits>"; anything else grants nothing
        and the requested timeout stands) ---- *)
Definition digits_val (d : pystr) : N := fold_left (fun a c => (a * 10 + (c - 48))%N) d 0%N.
Definition second_value (h : pystr) : option N :=
  if starts_with s_second h then
    let d := skipn 7 h in
    if truthy d && forallb is_digit d then Some (digits_val d) else None
  else None.
Definition granted_timeout (rtmo : option pystr) (requested : N) : Z :=
  match rtmo with
  | Some h => match second_value h with Some n => Z.of_N n | None => Z.of_N requested end
  | None => Z.of_N requested
  end.

(* ---- what the call that made exchange e must return / raise if e was its last exchange ---- *)
Definition exch_result (tmo : N) (e : exchange) : result :=
  let (q, r) := e in
  match r with
  | RRaise x st => RErr x st
  | RResp st rsid rtmo =>
      if negb (st =? 200)%N then RErr E_UpnpResponseError (Some st)
      else match rq_method q, rq_sid q with
           | MSubscribe, None =>
               match rsid with
               | Some s => ROkSidTmo s (granted_timeout rtmo tmo)
               | None => RErr E_UpnpSIDError None
               end
           | MSubscribe, Some x => ROkSidTmo (renewed_sid x rsid) (granted_timeout rtmo tmo)
           | MUnsubscribe, Some x => ROkSid x
           | _, _ => ROkNone
           end
  end.

Inductive rkind := KSuccess | KUnreachable | KRefused | KOther.
(* Reading: "unreachable" = the requester raised UpnpConnectionError (or a subclass: timeout);
   "refused" = any HTTP status other than 200, or any other UpnpError of the requester *)
Definition classify (r : reaction) : rkind :=
  match r with
  | RResp st _ _ => if (st =? 200)%N then KSuccess else KRefused
  | RRaise e _ => if subclassb e E_UpnpConnectionError then KUnreachable
                  else if subclassb e E_UpnpError then KRefused else KOther
  end.

(* ---- permutation test ---- *)
Fixpoint remove1 (x : pystr) (l : list pystr) : option (list pystr) :=
  match l with
  | [] => None
  | y :: r => if str_eqb x y then Some r
              else match remove1 x r with Some r' => Some (y :: r') | None => None end
  end.
Fixpoint perm_eqb (l1 l2 : list pystr) : bool :=
  match l1 with
  | [] => match l2 with [] => true | _ => false end
  | x :: r => match remove1 x l2 with Some l2' => perm_eqb r l2' | None => false end
  end.
Fixpoint nodupb (l : list pystr) : bool :=
  match l with
  | [] => true
  | x :: r => negb (existsb (str_eqb x) r) && nodupb r
  end.
Definition opt_str_eqb (a b : option pystr) : bool :=
  match a, b with
  | Some x, Some y => str_eqb x y
  | None, None => true
  | _, _ => false
  end.
Definition opt_N_eqb (a b : option N) : bool :=
  match a, b with
  | Some x, Some y => N.eqb x y
  | None, None => true
  | _, _ => false
  end.
Definition result_eqb (a b : result) : bool :=
  match a, b with
  | ROkSidTmo s t, ROkSidTmo s' t' => str_eqb s s' && Z.eqb t t'
  | ROkSid s, ROkSid s' => str_eqb s s'
  | ROkNone, ROkNone => true
  | RErr e st, RErr e' st' => exn_eqb e e' && opt_N_eqb st st'
  | _, _ => false
  end.

Section Clauses.
  Variable cb : pystr.

  (* ---- shape of the exchanges of renewals: each renewal goes to the service the SID belongs to;
          success or unreachable ends it; a refusal is followed by a fresh SUBSCRIBE to the same
          service.  Returns the renewed SIDs in order, None if the shape is violated. ---- *)
  Fixpoint renew_shape (l : live) (lg : list exchange) : option (list sid) :=
    match lg with
    | [] => Some []
    | e1 :: t =>
        match renewal_of (fst e1) with
        | None => None
        | Some x =>
            match dget str_eqb l x with
            | None => None
            | Some v =>
                if negb (Nat.eqb v (rq_svc (fst e1))) then None
                else match classify (snd e1) with
                     | KRefused =>
                         match t with
                         | e2 :: t' =>
                             if is_initial (fst e2) && Nat.eqb (rq_svc (fst e2)) v then
                               option_map (cons x) (renew_shape (pub_step (pub_step l e1) e2) t')
                             else None
                         | [] => None
                         end
                     | _ => option_map (cons x) (renew_shape (pub_step l e1) t)
                     end
            end
        end
    end.

  (* what renew-all reports: the first error among the final exchanges of its renewals *)
  Fixpoint renew_all_result (lg : list exchange) : result :=
    match lg with
    | [] => ROkNone
    | e1 :: t =>
        match classify (snd e1), renewal_of (fst e1), t with
        | KRefused, Some _, e2 :: t' =>
            match exch_result default_timeout_resubscribe e2 with
            | RErr x st => RErr x st
            | _ => renew_all_result t'
            end
        | _, _, _ =>
            match exch_result default_timeout_resubscribe e1 with
            | RErr x st => RErr x st
            | _ => renew_all_result t
            end
        end
    end.

  Fixpoint last_exchange (lg : list exchange) : option exchange :=
    match lg with
    | [] => None
    | [e] => Some e
    | _ :: t => last_exchange t
    end.

  (* Is the target of a call known to publisher and caller? *)
  Definition resolved (l : live) (t : target) : bool :=
    match t with
    | TSid s => dhas str_eqb l s
    | TSvc v => existsb (fun p => Nat.eqb (snd p) v) l
    end.
  Definition target_matches (l : live) (t : target) (x : sid) (v : nat) : bool :=
    match t with
    | TSid s => str_eqb s x
    | TSvc w => Nat.eqb w v
    end &&
    match dget str_eqb l x with Some v' => Nat.eqb v' v | None => false end.

  Definition call_timeout (c : call) : N :=
    match c with
    | CSubscribe _ t => tmo_or default_timeout_subscribe t
    | CRenew _ t => tmo_or default_timeout_resubscribe t
    | _ => default_timeout_resubscribe
    end.

  (* ---- clause 1: registry_mirror ---- *)
  Definition sfs_ok (l : live) (sfs : list (option sid)) : bool :=
    forallb (fun p => match snd p with
                      | Some s => match dget str_eqb l s with Some v => Nat.eqb v (fst p) | None => false end
                      | None => negb (existsb (fun q => Nat.eqb (snd q) (fst p)) l)
                      end)
            (combine services sfs)
    && Nat.eqb (length sfs) (length services).
  Definition mirror_ok (l' : live) (o : step_obs) : bool :=
    nodupb (map fst (o_routed o)) && deqb str_eqb Nat.eqb (o_routed o) l' && sfs_ok l' (o_sfs o).

  (* ---- clause 2: returns ---- *)
  Definition returns_ok (l : live) (c : call) (lg : list exchange) (o : step_obs) : bool :=
    match c with
    | CSubscribe v _ =>
        match lg with
        | [e] => is_initial (fst e) && Nat.eqb (rq_svc (fst e)) v
                 && result_eqb (o_res o) (exch_result (call_timeout c) e)
        | _ => false
        end
    | CRenew t _ | CUnsub t =>
        if resolved l t then
          match last_exchange lg with
          | Some e => result_eqb (o_res o) (exch_result (call_timeout c) e)
          | None => false
          end
        else match lg with
             | [] => result_eqb (o_res o) (RErr E_KeyError None)
             | _ => false
             end
    | CRenewAll => result_eqb (o_res o) (renew_all_result lg)
    | CUnsubAll => result_eqb (o_res o) ROkNone
    end.

  (* ---- clause 3: renew_fallback ---- *)
  Definition renew_ok (l : live) (c : call) (lg : list exchange) : bool :=
    match c with
    | CRenew t _ =>
        if resolved l t then
          match lg with
          | e1 :: _ =>
              match renew_shape l lg with
              | Some [x] => target_matches l t x (rq_svc (fst e1))
              | _ => false
              end
          | [] => false
          end
        else true
    | CRenewAll =>
        match renew_shape l lg with
        | Some xs => perm_eqb xs (dkeys l)
        | None => false
        end
    | _ => true
    end.

  (* ---- clause 4: unsubscribe_immediate ---- *)
  Definition unsub_exchange_ok (l : live) (e : exchange) : bool :=
    match unsub_of (fst e) with
    | Some x => match dget str_eqb l x with Some v => Nat.eqb v (rq_svc (fst e)) | None => false end
    | None => false
    end.
  Definition unsub_sids (qs : list request) : list sid :=
    flat_map (fun q => match unsub_of q with Some x => [x] | None => [] end) qs.
  Definition unsub_ok (l : live) (c : call) (lg : list exchange) (o : step_obs) : bool :=
    match c with
    | CUnsub t =>
        (* the SID for which the UNSUBSCRIBE went out is not routed afterwards, confirmed or not *)
        forallb (fun x => negb (dhas str_eqb (o_routed o) x)) (unsub_sids (o_reqs o))
        && if resolved l t then
             match lg with
             | [e] => unsub_exchange_ok l e
                      && match unsub_of (fst e) with
                         | Some x => target_matches l t x (rq_svc (fst e))
                         | None => false
                         end
             | _ => false
             end
           else true
    | CUnsubAll =>
        forallb (unsub_exchange_ok l) lg
        && perm_eqb (unsub_sids (o_reqs o)) (dkeys l)
        && match o_routed o with [] => true | _ => false end
    | _ => true
    end.

  (* ---- clause 5: requests_valid ---- *)
  Definition is_second_int (h : pystr) : bool :=
    match second_value h with Some _ => true | None => false end.
  Definition opt_is_second_int (h : option pystr) : bool :=
    match h with Some x => is_second_int x | None => false end.
  Definition is_none (h : option pystr) : bool := match h with None => true | Some _ => false end.
  Definition valid_request (q : request) : bool :=
    match rq_method q with
    | MSubscribe =>
        match rq_sid q with
        | None => opt_str_eqb (rq_nt q) (Some s_upnp_event)
                  && opt_str_eqb (rq_cb q) (Some ([60%N] ++ cb ++ [62%N]))
                  && opt_is_second_int (rq_tmo q)
        | Some s => truthy s && is_none (rq_nt q) && is_none (rq_cb q) && opt_is_second_int (rq_tmo q)
        end
    | MUnsubscribe =>
        match rq_sid q with
        | Some s => truthy s && is_none (rq_nt q) && is_none (rq_cb q)
        | None => false
        end
    | MOther => false
    end.
  Definition requests_ok (o : step_obs) : bool := forallb valid_request (o_reqs o).

  (* ---- the clauses over whole histories ---- *)
  Definition step_ok (k : N) (l : live) (c : call) (lg : list exchange) (l' : live) (o : step_obs) : bool :=
    if (k =? 1)%N then mirror_ok l' o
    else if (k =? 2)%N then returns_ok l c lg o
    else if (k =? 3)%N then renew_ok l c lg
    else if (k =? 4)%N then unsub_ok l c lg o
    else if (k =? 5)%N then requests_ok o
    else true.

  (* first step at which clause k fails *)
  Fixpoint check_from (k : N) (n : N) (l : live) (i : list step_in) (o : list step_obs) : option N :=
    match i, o with
    | [], [] => None
    | (c, rs) :: i', so :: o' =>
        let lg := pair_up (o_reqs so) rs in
        let l' := fold_left pub_step lg l in
        if step_ok k l c lg l' so then check_from k (N.succ n) l' i' o' else Some n
    | _, _ => Some n
    end.
  Definition clause (k : N) (i : list step_in) (o : list step_obs) : bool :=
    match check_from k 0%N [] i o with None => true | Some _ => false end.
End Clauses.

(* the publisher-side table after call number n (from 0) of a history, given the requests observed *)
Fixpoint live_from (l : live) (i : list step_in) (o : list step_obs) (n : nat) : live :=
  match i, o with
  | (c, rs) :: i', so :: o' =>
      let l' := fold_left pub_step (pair_up (o_reqs so) rs) l in
      match n with O => l' | S m => live_from l' i' o' m end
  | _, _ => l
  end.
Definition live_after (i : list step_in) (o : list step_obs) (n : nat) : live := live_from [] i o n.

(* the five clauses by name: each takes the callback URL, the history (with the publisher's reactions) and
   the observations after every call *)
Definition registry_mirror (cb : pystr) := clause cb 1%N.
Definition returns (cb : pystr) := clause cb 2%N.
Definition renew_fallback (cb : pystr) := clause cb 3%N.
Definition unsubscribe_immediate (cb : pystr) := clause cb 4%N.
Definition requests_valid (cb : pystr) := clause cb 5%N.

(* ------------------------------------------------------------------------------------------ *)
(* Domain of the theorems = the quantifier of the property: the publisher answers 200 (with a non-empty
   SID or none, with no TIMEOUT, "Second-infinite", "Second-<digits>" in timedelta range, or a text
   that does not mention "Second-") or 4xx/5xx, or the requester raises one of the library's own
   errors (connection error, timeout, ...). *)
Definition tmo_ok (rtmo : option pystr) : bool :=
  match rtmo with
  | None => true
  | Some h => str_eqb h s_second_infinite
              || match second_value h with
                 | Some n => (n <=? 86399999999999)%N
                 | None => negb (str_contains s_second h)
                 end
  end.
Definition dom_reaction (r : reaction) : bool :=
  match r with
  | RResp st rsid rtmo =>
      ((st =? 200) || ((400 <=? st) && (st <=? 599)))%N
      && match rsid with Some s => truthy s | None => true end
      && tmo_ok rtmo
  | RRaise e _ => subclassb e E_UpnpError
  end.
Definition dom_step (s : step_in) : bool := forallb dom_reaction (snd s).
Definition in_domain (i : list step_in) : bool := forallb dom_step i.
