(* C09 — auxiliary lemmas: decimal rendering, int() on digit strings, the TIMEOUT header inside the domain,
   permutation / dict-equality tests, facts about the generated exception table. *)
From Coq Require Import List Bool NArith ZArith Arith Lia Permutation.
From AUC Require Import Prelude.PyDict Prelude.PyStr Gen.Gena C09.Model C09.Spec.
Import ListNotations.

Lemma exn_eqb_spec a b : reflect (a = b) (exn_eqb a b).
Proof. destruct a, b; vm_compute; constructor; congruence. Qed.

Lemma str_eqb_refl s : str_eqb s s = true.
Proof. destruct (str_eqb_spec s s); congruence. Qed.

Lemma str_eqb_true a b : str_eqb a b = true -> a = b.
Proof. destruct (str_eqb_spec a b); congruence. Qed.

(* ---- str(n) consists of digits and is not empty ---- *)
Lemma is_digit_mod10 n : is_digit (48 + n mod 10) = true.
Proof.
  unfold is_digit. assert (H : (n mod 10 < 10)%N) by (apply N.mod_lt; discriminate).
  generalize dependent (n mod 10)%N. intros m H.
  apply andb_true_intro; split; apply N.leb_le; lia.
Qed.

Lemma dec_aux_digits fuel : forall n acc,
  forallb is_digit acc = true -> forallb is_digit (dec_aux fuel n acc) = true.
Proof.
  induction fuel as [|f IH]; intros n acc H; cbn [dec_aux]; [exact H|].
  assert (H' : forallb is_digit ((48 + n mod 10)%N :: acc) = true).
  { cbn [forallb]. now rewrite is_digit_mod10, H. }
  destruct (n <? 10)%N; [exact H' | now apply IH].
Qed.

Lemma dec_aux_truthy fuel : forall n acc, truthy acc = true -> truthy (dec_aux fuel n acc) = true.
Proof.
  induction fuel as [|f IH]; intros n acc H; cbn [dec_aux]; [exact H|].
  destruct (n <? 10)%N; [reflexivity | now apply IH].
Qed.

Lemma dec_digits n : forallb is_digit (dec n) = true.
Proof. unfold dec. now apply dec_aux_digits. Qed.

Lemma dec_truthy n : truthy (dec n) = true.
Proof.
  unfold dec. cbn [dec_aux]. destruct (n <? 10)%N; [reflexivity|]. now apply dec_aux_truthy.
Qed.

Lemma starts_with_app p s : starts_with p (p ++ s) = true.
Proof. induction p as [|x p IH]; cbn; [reflexivity|]. now rewrite N.eqb_refl, IH. Qed.

Lemma skipn7_second d : skipn 7 (s_second ++ d) = d.
Proof. reflexivity. Qed.

Lemma second_value_header n : second_value (s_second ++ dec n) = Some (digits_val (dec n)).
Proof.
  unfold second_value. rewrite starts_with_app, skipn7_second, dec_truthy, dec_digits. reflexivity.
Qed.

Lemma timeout_header_valid t : is_second_int (timeout_header t) = true.
Proof. unfold is_second_int, timeout_header. now rewrite second_value_header. Qed.

(* ---- int() on a non-empty digit string ---- *)
Lemma digit_not_space c : is_digit c = true -> is_space c = false.
Proof.
  unfold is_digit, is_space. rewrite andb_true_iff, !N.leb_le. intros [H1 H2].
  apply orb_false_intro; apply andb_false_iff.
  - right. apply N.leb_gt. lia.
  - right. apply N.leb_gt. lia.
Qed.

Lemma lstrip_digits d : forallb is_digit d = true -> lstrip d = d.
Proof.
  destruct d as [|c t]; cbn; [reflexivity|]. rewrite andb_true_iff. intros [H _].
  now rewrite (digit_not_space _ H).
Qed.

Lemma forallb_rev (A : Type) (f : A -> bool) l : forallb f l = true -> forallb f (rev l) = true.
Proof. rewrite !forallb_forall. intros H x Hx. apply H. now apply in_rev. Qed.

Lemma strip_digits d : forallb is_digit d = true -> strip d = d.
Proof.
  intros H. unfold strip. rewrite (lstrip_digits _ H).
  rewrite (lstrip_digits _ (forallb_rev _ _ _ H)). apply rev_involutive.
Qed.

Lemma digits_us_all d : forall acc p,
  forallb is_digit d = true -> (d <> [] \/ p = true) ->
  digits_us d acc p = Some (fold_left (fun a c => (a * 10 + (c - 48))%N) d acc).
Proof.
  induction d as [|c t IH]; intros acc p H Hp; cbn.
  - destruct Hp as [Hp | ->]; [congruence | reflexivity].
  - cbn in H. apply andb_true_iff in H as [Hc Ht]. rewrite Hc. apply IH; [exact Ht | now right].
Qed.

Lemma py_int_digits d :
  truthy d = true -> forallb is_digit d = true -> py_int d = Some (Z.of_N (digits_val d)).
Proof.
  intros Ht Hd. unfold py_int. rewrite (strip_digits _ Hd).
  destruct d as [|c t]; [discriminate|].
  assert (Hc : is_digit c = true) by (cbn in Hd; now apply andb_true_iff in Hd as [? _]).
  unfold is_digit in Hc. apply andb_true_iff in Hc as [H1 H2]. apply N.leb_le in H1, H2.
  destruct (N.eqb_spec c 43) as [->|_]; [lia|].
  destruct (N.eqb_spec c 45) as [->|_]; [lia|].
  rewrite (digits_us_all (c :: t) 0%N false Hd); [reflexivity | left; discriminate].
Qed.

Lemma starts_with_contains p s : starts_with p s = true -> str_contains p s = true.
Proof. intros H. destruct s; cbn [str_contains]; now rewrite H. Qed.

(* ---- inside the domain the TIMEOUT header parses to what the publisher granted ---- *)
Lemma parse_dom rtmo t :
  tmo_ok rtmo = true -> parse_timeout rtmo (Z.of_N t) = Ok (granted_timeout rtmo t).
Proof.
  destruct rtmo as [h|]; [|reflexivity]. unfold tmo_ok, parse_timeout, granted_timeout.
  destruct (str_eqb h s_second_infinite) eqn:E.
  - intros _. apply str_eqb_true in E. subst h. reflexivity.
  - cbn [orb negb andb]. destruct (second_value h) as [n|] eqn:SV.
    + intros Hn. unfold second_value in SV.
      destruct (starts_with s_second h) eqn:SW; [|discriminate].
      destruct (truthy (skipn 7 h) && forallb is_digit (skipn 7 h)) eqn:D; [|discriminate].
      apply andb_true_iff in D as [D1 D2].
      assert (En : n = digits_val (skipn 7 h)) by congruence. subst n. clear SV.
      rewrite (starts_with_contains _ _ SW), (py_int_digits _ D1 D2).
      apply N.leb_le in Hn.
      assert (R : td_in_range (Z.of_N (digits_val (skipn 7 h))) = true).
      { unfold td_in_range, td_min, td_max. apply andb_true_intro; split; apply Z.leb_le; lia. }
      now rewrite R.
    + intros Hc. apply negb_true_iff in Hc. now rewrite Hc.
Qed.


(* ---- permutation / set tests ---- *)
Lemma perm_eqb_refl l : perm_eqb l l = true.
Proof. induction l as [|x l IH]; cbn; [reflexivity|]. now rewrite str_eqb_refl. Qed.

Lemma nodupb_NoDup l : NoDup l -> nodupb l = true.
Proof.
  induction 1 as [|x l Hn _ IH]; cbn; [reflexivity|]. rewrite IH, andb_true_r.
  apply negb_true_iff. destruct (existsb (str_eqb x) l) eqn:E; [|reflexivity].
  apply existsb_exists in E as [y [Hy Exy]]. apply str_eqb_true in Exy. subst y. contradiction.
Qed.

Lemma deqb_refl (d : dict sid nat) : NoDup (dkeys d) -> deqb str_eqb Nat.eqb d d = true.
Proof.
  intros H. apply (deqb_true_iff str_eqb str_eqb_spec Nat.eqb Nat.eqb_spec d d H H). reflexivity.
Qed.

(* ---- facts about the generated exception table used by the specification ---- *)
Lemma default_reaction_dom : dom_reaction default_reaction = true.
Proof. reflexivity. Qed.
