(* C09 — each primitive of the model performs exactly the exchanges the specification expects, and its
   effect on the routing table is the publisher-side effect of those exchanges. *)
From Coq Require Import List Bool NArith ZArith Arith Lia Permutation.
From AUC Require Import Prelude.PyDict Prelude.PyStr Gen.Gena C09.Model C09.Spec C09.Lemmas.
Import ListNotations.

Arguments timeout_header : simpl never.
Ltac splits := repeat match goal with |- _ /\ _ => split end.

(* ------------------------------------------------------------------------------------------ *)
(* the reaction stream *)
Lemma next_eq rs : next_reaction rs = (hd default_reaction rs, tl rs).
Proof. destruct rs; reflexivity. Qed.

Definition domrs (rs : list reaction) : Prop := forallb dom_reaction rs = true.

Lemma domrs_hd rs : domrs rs -> dom_reaction (hd default_reaction rs) = true.
Proof.
  destruct rs as [|r t]; cbn [hd]; [intros _; reflexivity|].
  unfold domrs. cbn [forallb]. rewrite andb_true_iff. tauto.
Qed.

Lemma domrs_tl rs : domrs rs -> domrs (tl rs).
Proof.
  destruct rs as [|r t]; cbn [tl]; [auto|]. unfold domrs. cbn [forallb]. rewrite andb_true_iff. tauto.
Qed.

Lemma pair_up_cons q t rs :
  pair_up (q :: t) rs = (q, hd default_reaction rs) :: pair_up t (tl rs).
Proof. cbn [pair_up]. now rewrite next_eq. Qed.

(* ------------------------------------------------------------------------------------------ *)
(* the specification's view of one exchange, by kind of request *)
Lemma pub_step_initial l q r :
  is_initial q = true ->
  pub_step l (q, r) = match r with
                      | RResp st (Some s) _ => if (st =? 200)%N then dset str_eqb l s (rq_svc q) else l
                      | _ => l
                      end.
Proof. unfold pub_step, is_initial. destruct (rq_method q), (rq_sid q); try discriminate; reflexivity. Qed.

Lemma pub_step_renewal l q r x :
  renewal_of q = Some x ->
  pub_step l (q, r) = match r with
                      | RResp st rsid _ =>
                          if (st =? 200)%N then
                            dset str_eqb (if str_eqb (renewed_sid x rsid) x then l else ddel str_eqb l x)
                                 (renewed_sid x rsid) (rq_svc q)
                          else ddel str_eqb l x
                      | RRaise _ _ => ddel str_eqb l x
                      end.
Proof.
  unfold pub_step, renewal_of. destruct (rq_method q), (rq_sid q); try discriminate; intros [= ->]; reflexivity.
Qed.

Lemma pub_step_unsub l q r x : unsub_of q = Some x -> pub_step l (q, r) = ddel str_eqb l x.
Proof.
  unfold pub_step, unsub_of. destruct (rq_method q), (rq_sid q); try discriminate; intros [= ->]; reflexivity.
Qed.

Lemma exch_initial t q r :
  is_initial q = true ->
  exch_result t (q, r) = match r with
                         | RRaise x st => RErr x st
                         | RResp st rsid rtmo =>
                             if negb (st =? 200)%N then RErr E_UpnpResponseError (Some st)
                             else match rsid with
                                  | Some s => ROkSidTmo s (granted_timeout rtmo t)
                                  | None => RErr E_UpnpSIDError None
                                  end
                         end.
Proof. unfold exch_result, is_initial. destruct (rq_method q), (rq_sid q); try discriminate; reflexivity. Qed.

Lemma exch_renewal t q r x :
  renewal_of q = Some x ->
  exch_result t (q, r) = match r with
                         | RRaise e st => RErr e st
                         | RResp st rsid rtmo =>
                             if negb (st =? 200)%N then RErr E_UpnpResponseError (Some st)
                             else ROkSidTmo (renewed_sid x rsid) (granted_timeout rtmo t)
                         end.
Proof.
  unfold exch_result, renewal_of. destruct (rq_method q), (rq_sid q); try discriminate; intros [= ->]; reflexivity.
Qed.

Lemma exch_unsub t q r x :
  unsub_of q = Some x ->
  exch_result t (q, r) = match r with
                         | RRaise e st => RErr e st
                         | RResp st _ _ => if negb (st =? 200)%N then RErr E_UpnpResponseError (Some st) else ROkSid x
                         end.
Proof.
  unfold exch_result, unsub_of. destruct (rq_method q), (rq_sid q); try discriminate; intros [= ->]; reflexivity.
Qed.

(* ------------------------------------------------------------------------------------------ *)
(* invariant of the routing table: a dict whose keys are non-empty SIDs *)
Definition Inv (l : live) : Prop := NoDup (dkeys l) /\ Forall (fun k => truthy k = true) (dkeys l).

Lemma Inv_nil : Inv [].
Proof. split; constructor. Qed.

Lemma Inv_dset l s v : Inv l -> truthy s = true -> Inv (dset str_eqb l s v).
Proof.
  intros [Hn Ht] Hs. split; [now apply (NoDup_dset str_eqb str_eqb_spec)|].
  apply Forall_forall. intros k Hk. apply (In_dkeys_dset str_eqb str_eqb_spec) in Hk as [->|Hk]; [exact Hs|].
  rewrite Forall_forall in Ht. now apply Ht.
Qed.

Lemma Inv_ddel l x : Inv l -> Inv (ddel str_eqb l x).
Proof.
  intros [Hn Ht]. split; [now apply (NoDup_ddel str_eqb)|].
  apply Forall_forall. intros k Hk. apply (dkeys_ddel_incl str_eqb) in Hk. rewrite Forall_forall in Ht. now apply Ht.
Qed.

Lemma Inv_truthy l k v : Inv l -> dget str_eqb l k = Some v -> truthy k = true.
Proof.
  intros [_ Ht] Hg. rewrite Forall_forall in Ht. apply Ht. eapply (dget_Some_in str_eqb str_eqb_spec); eauto.
Qed.

Lemma keys_dset (l : live) s v k : In k (dkeys l) -> In k (dkeys (dset str_eqb l s v)).
Proof. intros H. apply (In_dkeys_dset str_eqb str_eqb_spec). now right. Qed.

Lemma keys_ddel (l : live) x k : NoDup (dkeys l) -> k <> x -> In k (dkeys l) -> In k (dkeys (ddel str_eqb l x)).
Proof. intros Hn Hne H. apply (In_dkeys_ddel str_eqb str_eqb_spec); auto. Qed.

Lemma dhas_of_dget (l : live) k v : dget str_eqb l k = Some v -> dhas str_eqb l k = true.
Proof. unfold dhas. now intros ->. Qed.

Lemma py_del_present (l : live) k v : dget str_eqb l k = Some v -> py_del l k = Some (ddel str_eqb l k).
Proof. intros H. unfold py_del. now rewrite (dhas_of_dget _ _ _ H). Qed.

Lemma dhas_ddel_same (l : live) x : NoDup (dkeys l) -> dhas str_eqb (ddel str_eqb l x) x = false.
Proof. intros Hn. unfold dhas. rewrite (dget_ddel str_eqb str_eqb_spec) by exact Hn. now rewrite str_eqb_refl. Qed.

Lemma result_eqb_refl r : result_eqb r r = true.
Proof.
  destruct r as [s t|s| |e st]; cbn; rewrite ?str_eqb_refl, ?Z.eqb_refl; try reflexivity.
  unfold exn_eqb. rewrite N.eqb_refl. destruct st; cbn; [apply N.eqb_refl | reflexivity].
Qed.

(* ------------------------------------------------------------------------------------------ *)
Section Sound.
  Variable cb : pystr.

  Lemma valid_initial v t : valid_request cb (initial_request cb v t) = true.
  Proof.
    unfold valid_request, initial_request.
    cbn [rq_method rq_sid rq_nt rq_cb rq_tmo opt_str_eqb opt_is_second_int].
    now rewrite !str_eqb_refl, timeout_header_valid.
  Qed.

  Lemma valid_renewal v x t : truthy x = true -> valid_request cb (renewal_request v x t) = true.
  Proof.
    intros H. unfold valid_request, renewal_request.
    cbn [rq_method rq_sid rq_nt rq_cb rq_tmo is_none opt_is_second_int].
    now rewrite H, timeout_header_valid.
  Qed.

  Lemma valid_unsub v x : truthy x = true -> valid_request cb (unsub_request v x) = true.
  Proof.
    intros H. unfold valid_request, unsub_request. cbn [rq_method rq_sid rq_nt rq_cb is_none]. now rewrite H.
  Qed.

  (* ---- async_subscribe ---- *)
  Lemma sub_spec reg rs v t :
    Inv reg -> domrs rs ->
    let q := initial_request cb v t in
    let r := hd default_reaction rs in
    let o := m_subscribe cb reg rs v t in
    oc_reqs o = [q] /\ oc_rs o = tl rs /\ oc_reg o = pub_step reg (q, r) /\ oc_res o = exch_result t (q, r)
    /\ Inv (oc_reg o) /\ (forall k, In k (dkeys reg) -> In k (dkeys (oc_reg o))).
  Proof.
    intros HI HD q r o. subst o. unfold m_subscribe. rewrite next_eq. fold q. fold r.
    assert (Dr : dom_reaction r = true) by (apply domrs_hd; exact HD).
    rewrite (pub_step_initial reg q r eq_refl), (exch_initial t q r eq_refl).
    destruct r as [st rsid rtmo|e st].
    - cbn [dom_reaction] in Dr. apply andb_true_iff in Dr as [Dr Dt]. apply andb_true_iff in Dr as [_ Ds].
      destruct (st =? 200)%N eqn:E; cbn [negb oc_reqs oc_rs oc_reg oc_res].
      + destruct rsid as [s|]; cbn [oc_reqs oc_rs oc_reg oc_res]; [|splits; auto].
        rewrite (parse_dom rtmo t Dt). cbn [oc_reqs oc_rs oc_reg oc_res].
        splits; auto using Inv_dset, keys_dset.
      + destruct rsid; splits; auto.
    - cbn [oc_reqs oc_rs oc_reg oc_res]. splits; auto.
  Qed.

  (* ---- _async_do_resubscribe ---- *)
  Lemma do_resub_spec reg rs x v t :
    Inv reg -> domrs rs -> dget str_eqb reg x = Some v ->
    m_do_resubscribe reg rs v x t =
      match hd default_reaction rs with
      | RRaise e st => mkOut (RErr e st) [renewal_request v x t] reg (tl rs)
      | RResp st rsid rtmo =>
          if negb (st =? 200)%N then mkOut (RErr E_UpnpResponseError (Some st)) [renewal_request v x t] reg (tl rs)
          else mkOut (ROkSidTmo (renewed_sid x rsid) (granted_timeout rtmo t)) [renewal_request v x t]
                     (pub_step reg (renewal_request v x t, hd default_reaction rs)) (tl rs)
      end.
  Proof.
    intros HI HD Hx. unfold m_do_resubscribe. rewrite next_eq.
    assert (Dr := domrs_hd rs HD).
    rewrite (pub_step_renewal reg (renewal_request v x t) (hd default_reaction rs) x eq_refl).
    destruct (hd default_reaction rs) as [st rsid rtmo|e st]; [|reflexivity].
    cbn [dom_reaction] in Dr. apply andb_true_iff in Dr as [Dr Dt]. apply andb_true_iff in Dr as [_ Ds].
    destruct (st =? 200)%N eqn:E; cbn [negb]; [|reflexivity].
    rewrite (parse_dom rtmo t Dt). cbn [rq_svc renewal_request].
    destruct rsid as [s'|].
    - destruct (truthy s' && negb (str_eqb s' x)) eqn:Ch.
      + apply andb_true_iff in Ch as [C1 C2]. apply negb_true_iff in C2.
        rewrite (py_del_present _ _ _ Hx). unfold renewed_sid. now rewrite C1, C2.
      + assert (Rs : renewed_sid x (Some s') = x).
        { unfold renewed_sid. destruct (truthy s') eqn:T; [|reflexivity].
          cbn [andb] in Ch. apply negb_false_iff in Ch. now apply str_eqb_true in Ch. }
        now rewrite Rs, str_eqb_refl.
    - cbn [renewed_sid]. now rewrite str_eqb_refl.
  Qed.

  (* the routing table after an accepted renewal *)
  Lemma renewal_accept_inv reg q x rsid rtmo st :
    Inv reg -> renewal_of q = Some x -> truthy x = true ->
    match rsid with Some s => truthy s = true | None => True end ->
    (st =? 200)%N = true ->
    Inv (pub_step reg (q, RResp st rsid rtmo))
    /\ (forall k, k <> x -> In k (dkeys reg) -> In k (dkeys (pub_step reg (q, RResp st rsid rtmo)))).
  Proof.
    intros HI Hq Tx Ts E. rewrite (pub_step_renewal reg q _ x Hq), E.
    assert (Tr : truthy (renewed_sid x rsid) = true).
    { unfold renewed_sid. destruct rsid as [s|]; [|exact Tx]. now rewrite Ts. }
    destruct (str_eqb (renewed_sid x rsid) x).
    - split; [now apply Inv_dset|]. intros k _ Hin. now apply keys_dset.
    - split; [apply Inv_dset; [now apply Inv_ddel | exact Tr]|].
      intros k Hk Hin. apply keys_dset. apply keys_ddel; [apply HI | exact Hk | exact Hin].
  Qed.

  (* ---- async_resubscribe once the target is resolved to (x, v) ---- *)
  Lemma resub_spec reg rs x v t :
    Inv reg -> domrs rs -> dget str_eqb reg x = Some v ->
    let q1 := renewal_request v x t in
    let r1 := hd default_reaction rs in
    let q2 := initial_request cb v t in
    let r2 := hd default_reaction (tl rs) in
    let o := m_resubscribe_resolved cb reg rs x v t in
    match classify r1 with
    | KRefused => oc_reqs o = [q1; q2] /\ oc_rs o = tl (tl rs)
                  /\ oc_reg o = pub_step (pub_step reg (q1, r1)) (q2, r2) /\ oc_res o = exch_result t (q2, r2)
    | KOther => False
    | _ => oc_reqs o = [q1] /\ oc_rs o = tl rs /\ oc_reg o = pub_step reg (q1, r1)
           /\ oc_res o = exch_result t (q1, r1)
    end
    /\ Inv (oc_reg o) /\ (forall k, k <> x -> In k (dkeys reg) -> In k (dkeys (oc_reg o))).
  Proof.
    intros HI HD Hx q1 r1 q2 r2 o. subst o.
    assert (Dr : dom_reaction r1 = true) by (apply domrs_hd; exact HD).
    assert (HDt : domrs (tl rs)) by (apply domrs_tl; exact HD).
    assert (Hnd : NoDup (dkeys reg)) by apply HI.
    assert (Tx : truthy x = true) by (eapply Inv_truthy; eauto).
    assert (Hdel : Inv (ddel str_eqb reg x)) by (apply Inv_ddel; exact HI).
    unfold m_resubscribe_resolved. rewrite (do_resub_spec reg rs x v t HI HD Hx). fold q1. fold r1.
    assert (Pr := pub_step_renewal reg q1 r1 x eq_refl).
    assert (Er := exch_renewal t q1 r1 x eq_refl).
    (* the fall-back path: drop x, subscribe afresh *)
    assert (Fallback : forall e st,
      pub_step reg (q1, r1) = ddel str_eqb reg x ->
      find_handler e resub_ladder = Some (false, false) ->
      let o := match find_handler e resub_ladder with
               | Some (drop, reraise) =>
                   match (if drop then py_del reg x else Some reg) with
                   | Some reg1 =>
                       if reraise then mkOut (RErr e st) [q1] reg1 (tl rs)
                       else match (if resub_after_drop then py_del reg1 x else Some reg1) with
                            | Some reg2 =>
                                let o2 := m_subscribe cb reg2 (tl rs) v t in
                                mkOut (oc_res o2) ([q1] ++ oc_reqs o2) (oc_reg o2) (oc_rs o2)
                            | None => mkOut (RErr E_KeyError None) [q1] reg1 (tl rs)
                            end
                   | None => mkOut (RErr E_KeyError None) [q1] reg (tl rs)
                   end
               | None => mkOut (RErr e st) [q1] reg (tl rs)
               end in
      (oc_reqs o = [q1; q2] /\ oc_rs o = tl (tl rs)
       /\ oc_reg o = pub_step (pub_step reg (q1, r1)) (q2, r2) /\ oc_res o = exch_result t (q2, r2))
      /\ Inv (oc_reg o) /\ (forall k, k <> x -> In k (dkeys reg) -> In k (dkeys (oc_reg o)))).
    { intros e st Hp Hh. rewrite Hh. change resub_after_drop with true. cbn iota.
      rewrite (py_del_present _ _ _ Hx).
      destruct (sub_spec (ddel str_eqb reg x) (tl rs) v t Hdel HDt) as (S1 & S2 & S3 & S4 & S5 & S6).
      cbn zeta. cbn [oc_res oc_reg oc_reqs oc_rs]. rewrite S3 in S5, S6. rewrite S1, S2, S3, S4, Hp.
      split; [splits; reflexivity|]. split.
      - exact S5.
      - intros k Hk Hin. apply S6. now apply keys_ddel. }
    destruct r1 as [st rsid rtmo|e st].
    - cbn [dom_reaction] in Dr. apply andb_true_iff in Dr as [Dr Dt]. apply andb_true_iff in Dr as [_ Ds].
      cbn [classify]. destruct (st =? 200)%N eqn:E; cbn [negb].
      + (* accepted *)
        cbn [oc_res oc_reg oc_reqs oc_rs]. rewrite Er. rewrite ?E. cbn [negb].
        split; [splits; reflexivity|].
        apply (renewal_accept_inv reg q1 x rsid rtmo st HI eq_refl Tx); [|exact E].
        destruct rsid; [exact Ds | exact I].
      + (* HTTP error: refused *)
        cbn [oc_res oc_reg oc_reqs oc_rs].
        apply (Fallback E_UpnpResponseError (Some st)); [rewrite Pr; rewrite ?E; reflexivity | reflexivity].
    - cbn [dom_reaction] in Dr. cbn [classify]. cbn [oc_res oc_reg oc_reqs oc_rs].
      destruct (subclassb e E_UpnpConnectionError) eqn:SC.
      + (* unreachable: drop and re-raise *)
        unfold resub_ladder. cbn [find_handler]. rewrite SC. cbn iota.
        rewrite (py_del_present _ _ _ Hx). cbn [oc_res oc_reg oc_reqs oc_rs]. rewrite Pr, Er.
        splits; auto. intros k Hk Hin. now apply keys_ddel.
      + rewrite Dr. apply (Fallback e st); [exact Pr|].
        unfold resub_ladder. cbn [find_handler]. now rewrite SC, Dr.
  Qed.

  (* ---- async_unsubscribe once the target is resolved ---- *)
  Lemma unsub_spec reg rs x v t :
    Inv reg -> dget str_eqb reg x = Some v ->
    let q := unsub_request v x in
    let r := hd default_reaction rs in
    let o := m_unsubscribe_resolved reg rs x v in
    oc_reqs o = [q] /\ oc_rs o = tl rs /\ oc_reg o = ddel str_eqb reg x /\ oc_reg o = pub_step reg (q, r)
    /\ oc_res o = exch_result t (q, r).
  Proof.
    intros HI Hx q r o. subst o. unfold m_unsubscribe_resolved. rewrite next_eq. fold q. fold r.
    rewrite (pub_step_unsub reg q r x eq_refl), (exch_unsub t q r x eq_refl).
    destruct r as [st rsid rtmo|e st]; [destruct (negb (st =? 200)%N)|]; splits; reflexivity.
  Qed.

  (* ---- resolving the target of a call ---- *)
  Lemma resolve_sid reg s :
    sid_and_service reg (TSid s) = match dget str_eqb reg s with Some v => Some (s, v) | None => None end.
  Proof. reflexivity. Qed.

  Lemma resolve_target reg t :
    Inv reg ->
    match sid_and_service reg t with
    | Some (x, v) => dget str_eqb reg x = Some v /\ resolved reg t = true /\ target_matches reg t x v = true
    | None => resolved reg t = false
    end.
  Proof.
    intros [Hn Ht]. destruct t as [v|s].
    - unfold sid_and_service, sid_for_service, resolved.
      destruct (find (fun p => Nat.eqb (snd p) v) reg) as [[s0 v0]|] eqn:F.
      + apply find_some in F as [Hin Hv]. cbn [snd fst] in *. apply Nat.eqb_eq in Hv. subst v0.
        assert (Hk : In s0 (dkeys reg)) by (apply in_map_iff; exists (s0, v); auto).
        rewrite Forall_forall in Ht. rewrite (Ht _ Hk).
        assert (Hg : dget str_eqb reg s0 = Some v) by (apply (In_dget str_eqb str_eqb_spec); auto).
        split; [exact Hg|]. split.
        * apply existsb_exists. exists (s0, v). split; [exact Hin | apply Nat.eqb_refl].
        * unfold target_matches. now rewrite Hg, !Nat.eqb_refl.
      + destruct (existsb (fun p => Nat.eqb (snd p) v) reg) eqn:E; [|reflexivity].
        apply existsb_exists in E as [p [Hin Hp]]. now rewrite (find_none _ _ F _ Hin) in Hp.
    - rewrite resolve_sid. unfold resolved, dhas, target_matches. destruct (dget str_eqb reg s) as [v|] eqn:G.
      + now rewrite G, str_eqb_refl, Nat.eqb_refl.
      + reflexivity.
  Qed.
End Sound.
