(* C09 — every call of the model satisfies the five step clauses and keeps the invariant; the history
   theorems follow by induction over the list of calls. *)
From Coq Require Import List Bool NArith ZArith Arith Lia Permutation.
From AUC Require Import Prelude.PyDict Prelude.PyStr Gen.Gena C09.Model C09.Spec C09.Lemmas C09.Sound.
Import ListNotations.

Arguments timeout_header : simpl never.

(* ---- the shape checks on the exchanges of one renewal ---- *)
Lemma renew_shape_one reg x v t r1 rest :
  dget str_eqb reg x = Some v -> classify r1 <> KRefused ->
  renew_shape reg ((renewal_request v x t, r1) :: rest)
  = option_map (cons x) (renew_shape (pub_step reg (renewal_request v x t, r1)) rest).
Proof.
  intros Hx Hc. cbn [renew_shape fst snd].
  change (renewal_of (renewal_request v x t)) with (Some x). cbv iota beta. rewrite Hx.
  change (rq_svc (renewal_request v x t)) with v. rewrite Nat.eqb_refl. cbn [negb].
  destruct (classify r1); try reflexivity. congruence.
Qed.

Lemma renew_shape_two cb reg x v t r1 r2 rest :
  dget str_eqb reg x = Some v -> classify r1 = KRefused ->
  renew_shape reg ((renewal_request v x t, r1) :: (initial_request cb v t, r2) :: rest)
  = option_map (cons x)
      (renew_shape (pub_step (pub_step reg (renewal_request v x t, r1)) (initial_request cb v t, r2)) rest).
Proof.
  intros Hx Hc. cbn [renew_shape fst snd].
  change (renewal_of (renewal_request v x t)) with (Some x). cbv iota beta. rewrite Hx.
  change (rq_svc (renewal_request v x t)) with v. rewrite Nat.eqb_refl. cbn [negb]. rewrite Hc.
  change (is_initial (initial_request cb v t)) with true.
  change (rq_svc (initial_request cb v t)) with v. rewrite Nat.eqb_refl. reflexivity.
Qed.

Lemma renew_all_result_one x v t r1 rest :
  classify r1 <> KRefused ->
  renew_all_result ((renewal_request v x t, r1) :: rest)
  = match exch_result default_timeout_resubscribe (renewal_request v x t, r1) with
    | RErr e st => RErr e st
    | _ => renew_all_result rest
    end.
Proof.
  intros Hc. cbn [renew_all_result fst snd]. destruct (classify r1); try reflexivity. congruence.
Qed.

Lemma renew_all_result_two x v t r1 e2 rest :
  classify r1 = KRefused ->
  renew_all_result ((renewal_request v x t, r1) :: e2 :: rest)
  = match exch_result default_timeout_resubscribe e2 with
    | RErr e st => RErr e st
    | _ => renew_all_result rest
    end.
Proof.
  intros Hc. cbn [renew_all_result fst snd]. rewrite Hc.
  change (renewal_of (renewal_request v x t)) with (Some x). reflexivity.
Qed.

Lemma sfs_one (reg : registry) v :
  NoDup (dkeys reg) ->
  match sid_for_service reg v with
  | Some s => match dget str_eqb reg s with Some v' => Nat.eqb v' v | None => false end
  | None => negb (existsb (fun q => Nat.eqb (snd q) v) reg)
  end = true.
Proof.
  intros Hn. unfold sid_for_service. destruct (find (fun p => Nat.eqb (snd p) v) reg) as [[s0 v0]|] eqn:F.
  - apply find_some in F as [Hin Hv]. cbn [fst snd] in *.
    rewrite (In_dget str_eqb str_eqb_spec reg s0 v0 Hn Hin). exact Hv.
  - destruct (existsb (fun p => Nat.eqb (snd p) v) reg) eqn:E; [|reflexivity].
    apply existsb_exists in E as [p [Hin Hp]]. now rewrite (find_none _ _ F _ Hin) in Hp.
Qed.

Lemma mirror_sound res reqs (reg : registry) :
  Inv reg -> mirror_ok reg (mkObs res reqs reg (map (sid_for_service reg) services)) = true.
Proof.
  intros [Hn _]. unfold mirror_ok. cbn [o_routed o_sfs].
  change (map fst reg) with (dkeys reg). rewrite (nodupb_NoDup _ Hn), (deqb_refl _ Hn).
  unfold sfs_ok, services. cbn [map combine forallb fst snd length Nat.eqb].
  now rewrite !(sfs_one reg _ Hn).
Qed.

Lemma fold_ddel_keys (reg : registry) : fold_left (fun l x => ddel str_eqb l x) (dkeys reg) reg = [].
Proof.
  induction reg as [|[k v] r IH]; [reflexivity|]. cbn [dkeys map fst fold_left ddel].
  rewrite str_eqb_refl. exact IH.
Qed.

Section Calls.
  Variable cb : pystr.

  Record sound (reg : registry) (c : call) (rs : list reaction) : Prop := {
    s_reg : oc_reg (run_call cb reg c rs) = fold_left pub_step (pair_up (oc_reqs (run_call cb reg c rs)) rs) reg;
    s_inv : Inv (oc_reg (run_call cb reg c rs));
    s_ret : returns_ok reg c (pair_up (oc_reqs (run_call cb reg c rs)) rs) (observe (run_call cb reg c rs)) = true;
    s_renew : renew_ok reg c (pair_up (oc_reqs (run_call cb reg c rs)) rs) = true;
    s_unsub : unsub_ok reg c (pair_up (oc_reqs (run_call cb reg c rs)) rs) (observe (run_call cb reg c rs)) = true;
    s_valid : requests_ok cb (observe (run_call cb reg c rs)) = true
  }.

  (* ---- subscribe ---- *)
  Lemma sound_subscribe reg v tm rs : Inv reg -> domrs rs -> sound reg (CSubscribe v tm) rs.
  Proof.
    intros HI HD. cbn [run_call].
    destruct (sub_spec cb reg rs v (tmo_or default_timeout_subscribe tm) HI HD) as (S1 & S2 & S3 & S4 & S5 & S6).
    constructor; cbn [run_call]; rewrite ?S1, ?pair_up_cons; cbn [pair_up fold_left]; try assumption.
    - unfold returns_ok, observe. cbn [o_res fst call_timeout]. rewrite S4.
      change (is_initial (initial_request cb v (tmo_or default_timeout_subscribe tm))) with true.
      change (rq_svc (initial_request cb v (tmo_or default_timeout_subscribe tm))) with v.
      now rewrite Nat.eqb_refl, result_eqb_refl.
    - reflexivity.
    - reflexivity.
    - unfold requests_ok, observe. cbn [o_reqs]. rewrite S1. cbn [forallb]. now rewrite valid_initial.
  Qed.

  (* ---- renew one ---- *)
  Lemma sound_renew reg t tm rs : Inv reg -> domrs rs -> sound reg (CRenew t tm) rs.
  Proof.
    intros HI HD. set (tmo := tmo_or default_timeout_resubscribe tm).
    assert (RT := resolve_target reg t HI).
    assert (Hrun : run_call cb reg (CRenew t tm) rs = m_resubscribe cb reg rs t tmo) by reflexivity.
    unfold m_resubscribe in Hrun.
    destruct (sid_and_service reg t) as [[x v]|].
    - destruct RT as (Hx & Hres & Hm).
      destruct (resub_spec cb reg rs x v tmo HI HD Hx) as (Hc & HI' & _).
      assert (Tx : truthy x = true) by exact (Inv_truthy _ _ _ HI Hx).
      set (q1 := renewal_request v x tmo) in *. set (r1 := hd default_reaction rs) in *.
      set (q2 := initial_request cb v tmo) in *. set (r2 := hd default_reaction (tl rs)) in *.
      destruct (classify r1) eqn:C; try contradiction.
      + destruct Hc as (S1 & S2 & S3 & S4).
        constructor; rewrite Hrun; rewrite ?S1, ?pair_up_cons; cbn [pair_up fold_left]; fold r1; try assumption.
        * unfold returns_ok. rewrite Hres. cbn [last_exchange]. unfold observe. cbn [o_res call_timeout].
          fold tmo. now rewrite S4, result_eqb_refl.
        * unfold renew_ok. rewrite Hres. unfold q1.
          rewrite (renew_shape_one reg x v tmo r1 [] Hx) by congruence. cbn [renew_shape option_map fst].
          exact Hm.
        * reflexivity.
        * unfold requests_ok, observe. cbn [o_reqs]. rewrite S1. cbn [forallb]. unfold q1. now rewrite valid_renewal.
      + destruct Hc as (S1 & S2 & S3 & S4).
        constructor; rewrite Hrun; rewrite ?S1, ?pair_up_cons; cbn [pair_up fold_left]; fold r1; try assumption.
        * unfold returns_ok. rewrite Hres. cbn [last_exchange]. unfold observe. cbn [o_res call_timeout].
          fold tmo. now rewrite S4, result_eqb_refl.
        * unfold renew_ok. rewrite Hres. unfold q1.
          rewrite (renew_shape_one reg x v tmo r1 [] Hx) by congruence. cbn [renew_shape option_map fst].
          exact Hm.
        * reflexivity.
        * unfold requests_ok, observe. cbn [o_reqs]. rewrite S1. cbn [forallb]. unfold q1. now rewrite valid_renewal.
      + destruct Hc as (S1 & S2 & S3 & S4).
        constructor; rewrite Hrun; rewrite ?S1, ?pair_up_cons; cbn [pair_up fold_left]; fold r1; fold r2; try assumption.
        * unfold returns_ok. rewrite Hres. cbn [last_exchange]. unfold observe. cbn [o_res call_timeout].
          fold tmo. now rewrite S4, result_eqb_refl.
        * unfold renew_ok. rewrite Hres. unfold q1, q2.
          rewrite (renew_shape_two cb reg x v tmo r1 r2 [] Hx C). cbn [renew_shape option_map fst].
          exact Hm.
        * reflexivity.
        * unfold requests_ok, observe. cbn [o_reqs]. rewrite S1. cbn [forallb]. unfold q1, q2.
          now rewrite valid_renewal, valid_initial.
    - constructor; rewrite Hrun; cbn [oc_reg oc_reqs pair_up fold_left]; try assumption; try reflexivity.
      + unfold returns_ok. rewrite RT. reflexivity.
      + unfold renew_ok. now rewrite RT.
  Qed.

  (* ---- unsubscribe one ---- *)
  Lemma sound_unsub reg t rs : Inv reg -> domrs rs -> sound reg (CUnsub t) rs.
  Proof.
    intros HI HD.
    assert (RT := resolve_target reg t HI).
    assert (Hrun : run_call cb reg (CUnsub t) rs = m_unsubscribe reg rs t) by reflexivity.
    unfold m_unsubscribe in Hrun.
    destruct (sid_and_service reg t) as [[x v]|].
    - destruct RT as (Hx & Hres & Hm).
      destruct (unsub_spec reg rs x v default_timeout_resubscribe HI Hx) as (S1 & S2 & S3 & S3' & S4).
      assert (Tx : truthy x = true) by exact (Inv_truthy _ _ _ HI Hx).
      constructor; rewrite Hrun; rewrite ?S1, ?pair_up_cons; cbn [pair_up fold_left]; try assumption.
      + rewrite S3. now apply Inv_ddel.
      + unfold returns_ok. rewrite Hres. cbn [last_exchange]. unfold observe. cbn [o_res call_timeout].
        now rewrite S4, result_eqb_refl.
      + reflexivity.
      + unfold unsub_ok. rewrite Hres. unfold observe. cbn [o_reqs o_routed]. rewrite S1, S3.
        unfold unsub_sids. cbn [flat_map app forallb fst].
        change (unsub_of (unsub_request v x)) with (Some x). cbn [app forallb].
        rewrite (dhas_ddel_same reg x (proj1 HI)). cbn [negb andb].
        unfold unsub_exchange_ok. cbn [fst]. change (unsub_of (unsub_request v x)) with (Some x).
        cbv iota beta. rewrite Hx. change (rq_svc (unsub_request v x)) with v. rewrite Nat.eqb_refl. exact Hm.
      + unfold requests_ok, observe. cbn [o_reqs]. rewrite S1. cbn [forallb]. now rewrite valid_unsub.
    - constructor; rewrite Hrun; cbn [oc_reg oc_reqs pair_up fold_left]; try assumption; try reflexivity.
      + unfold returns_ok. rewrite RT. reflexivity.
      + unfold unsub_ok. rewrite RT. reflexivity.
  Qed.

  (* ---- renew all: induction over the snapshot ---- *)
  Lemma renew_list_spec : forall sids reg rs,
    Inv reg -> domrs rs -> NoDup sids -> (forall k, In k sids -> In k (dkeys reg)) ->
    let o := m_renew_list cb sids reg rs in
    let lg := pair_up (oc_reqs o) rs in
    oc_reg o = fold_left pub_step lg reg /\ Inv (oc_reg o) /\ renew_shape reg lg = Some sids
    /\ oc_res o = renew_all_result lg /\ forallb (valid_request cb) (oc_reqs o) = true.
  Proof.
    induction sids as [|x sids IH]; intros reg rs HI HD Hnd Hin; cbn zeta.
    - cbn [m_renew_list oc_reqs oc_reg oc_res pair_up fold_left renew_shape renew_all_result forallb]. auto.
    - cbn [m_renew_list].
      assert (Hk : In x (dkeys reg)) by (apply Hin; now left).
      apply (In_dkeys_dget str_eqb str_eqb_spec) in Hk.
      destruct (dget str_eqb reg x) as [v|] eqn:Hx; [clear Hk | congruence].
      assert (Hm : m_resubscribe cb reg rs (TSid x) default_timeout_resubscribe = m_resubscribe_resolved cb reg rs x v default_timeout_resubscribe).
      { unfold m_resubscribe. rewrite resolve_sid. now rewrite Hx. }
      rewrite Hm.
      destruct (resub_spec cb reg rs x v default_timeout_resubscribe HI HD Hx) as (Hc & HI' & Hkeys).
      assert (Tx : truthy x = true) by exact (Inv_truthy _ _ _ HI Hx).
      inversion Hnd as [|? ? Hnotin Hnd']; subst.
      assert (Hin' : forall k, In k sids -> In k (dkeys (oc_reg (m_resubscribe_resolved cb reg rs x v default_timeout_resubscribe)))).
      { intros k Hk. apply Hkeys; [intros ->; contradiction | apply Hin; now right]. }
      set (o1 := m_resubscribe_resolved cb reg rs x v default_timeout_resubscribe) in *.
      set (q1 := renewal_request v x default_timeout_resubscribe) in *. set (r1 := hd default_reaction rs) in *.
      set (q2 := initial_request cb v default_timeout_resubscribe) in *. set (r2 := hd default_reaction (tl rs)) in *.
      destruct (classify r1) eqn:C; try contradiction.
      + destruct Hc as (S1 & S2 & S3 & S4).
        assert (HD' : domrs (oc_rs o1)) by (rewrite S2; now apply domrs_tl).
        destruct (IH (oc_reg o1) (oc_rs o1) HI' HD' Hnd' Hin') as (I1 & I2 & I3 & I4 & I5).
        cbn [oc_reqs oc_reg oc_res]. rewrite S1. cbn [app]. rewrite pair_up_cons. fold r1. cbn [fold_left].
        rewrite S2 in *. rewrite <- S3.
        unfold q1. rewrite (renew_shape_one reg x v default_timeout_resubscribe r1 _ Hx) by congruence.
        rewrite (renew_all_result_one x v default_timeout_resubscribe r1) by congruence. fold q1. rewrite <- S3, I3, <- S4.
        splits; auto.
        * rewrite I4. reflexivity.
        * cbn [forallb]. unfold q1. now rewrite valid_renewal, I5.
      + destruct Hc as (S1 & S2 & S3 & S4).
        assert (HD' : domrs (oc_rs o1)) by (rewrite S2; now apply domrs_tl).
        destruct (IH (oc_reg o1) (oc_rs o1) HI' HD' Hnd' Hin') as (I1 & I2 & I3 & I4 & I5).
        cbn [oc_reqs oc_reg oc_res]. rewrite S1. cbn [app]. rewrite pair_up_cons. fold r1. cbn [fold_left].
        rewrite S2 in *. rewrite <- S3.
        unfold q1. rewrite (renew_shape_one reg x v default_timeout_resubscribe r1 _ Hx) by congruence.
        rewrite (renew_all_result_one x v default_timeout_resubscribe r1) by congruence. fold q1. rewrite <- S3, I3, <- S4.
        splits; auto.
        * rewrite I4. reflexivity.
        * cbn [forallb]. unfold q1. now rewrite valid_renewal, I5.
      + destruct Hc as (S1 & S2 & S3 & S4).
        assert (HD' : domrs (oc_rs o1)) by (rewrite S2; now apply domrs_tl, domrs_tl).
        destruct (IH (oc_reg o1) (oc_rs o1) HI' HD' Hnd' Hin') as (I1 & I2 & I3 & I4 & I5).
        cbn [oc_reqs oc_reg oc_res]. rewrite S1. cbn [app]. rewrite !pair_up_cons. fold r1. fold r2. cbn [fold_left].
        rewrite S2 in *. rewrite <- S3.
        unfold q1, q2. rewrite (renew_shape_two cb reg x v default_timeout_resubscribe r1 r2 _ Hx C).
        rewrite (renew_all_result_two x v default_timeout_resubscribe r1 _ _ C). fold q1. fold q2. rewrite <- S3, I3, <- S4.
        splits; auto.
        * rewrite I4. reflexivity.
        * cbn [forallb]. unfold q1, q2. now rewrite valid_renewal, valid_initial, I5.
  Qed.

  Lemma sound_renew_all reg rs : Inv reg -> domrs rs -> sound reg CRenewAll rs.
  Proof.
    intros HI HD.
    destruct (renew_list_spec (dkeys reg) reg rs HI HD (proj1 HI) (fun k H => H)) as (I1 & I2 & I3 & I4 & I5).
    constructor; cbn [run_call]; try assumption.
    - unfold returns_ok, observe. cbn [o_res]. now rewrite I4, result_eqb_refl.
    - unfold renew_ok. rewrite I3. apply perm_eqb_refl.
    - reflexivity.
  Qed.

  (* ---- unsubscribe all ---- *)
  Lemma unsub_list_spec (l0 : live) : forall sids reg rs,
    Inv reg -> NoDup sids ->
    (forall k, In k sids -> dget str_eqb reg k = dget str_eqb l0 k /\ dget str_eqb reg k <> None) ->
    let o := m_unsub_list sids reg rs in
    let lg := pair_up (oc_reqs o) rs in
    oc_reg o = fold_left pub_step lg reg /\ oc_reg o = fold_left (fun l x => ddel str_eqb l x) sids reg
    /\ Inv (oc_reg o) /\ forallb (unsub_exchange_ok l0) lg = true /\ unsub_sids (oc_reqs o) = sids
    /\ oc_res o = ROkNone /\ forallb (valid_request cb) (oc_reqs o) = true.
  Proof.
    induction sids as [|x sids IH]; intros reg rs HI Hnd Hin; cbn zeta.
    - cbn [m_unsub_list oc_reqs oc_reg oc_res pair_up fold_left forallb unsub_sids flat_map]. splits; auto.
    - cbn [m_unsub_list].
      destruct (Hin x (or_introl eq_refl)) as (Hx0 & Hxn).
      destruct (dget str_eqb reg x) as [v|] eqn:Hx; [clear Hxn | congruence].
      assert (Hm : m_unsubscribe reg rs (TSid x) = m_unsubscribe_resolved reg rs x v).
      { unfold m_unsubscribe. rewrite resolve_sid. now rewrite Hx. }
      rewrite Hm.
      destruct (unsub_spec reg rs x v default_timeout_resubscribe HI Hx) as (S1 & S2 & S3 & S3' & S4).
      assert (Tx : truthy x = true) by exact (Inv_truthy _ _ _ HI Hx).
      inversion Hnd as [|? ? Hnotin Hnd']; subst.
      set (o1 := m_unsubscribe_resolved reg rs x v) in *.
      assert (HI' : Inv (oc_reg o1)) by (rewrite S3; now apply Inv_ddel).
      assert (Hin' : forall k, In k sids ->
                dget str_eqb (oc_reg o1) k = dget str_eqb l0 k /\ dget str_eqb (oc_reg o1) k <> None).
      { intros k Hk. rewrite S3, (dget_ddel str_eqb str_eqb_spec) by apply HI.
        destruct (str_eqb_spec x k) as [->|Hne]; [contradiction|]. apply Hin. now right. }
      destruct (IH (oc_reg o1) (oc_rs o1) HI' Hnd' Hin') as (I1 & I1' & I2 & I3 & I4 & I5 & I6).
      cbn [oc_reqs oc_reg oc_res]. rewrite S1. cbn [app]. rewrite pair_up_cons. cbn [fold_left].
      rewrite S2 in *. rewrite <- S3', <- S3.
      splits; auto.
      + cbn [forallb]. rewrite I3, andb_true_r. unfold unsub_exchange_ok. cbn [fst].
        change (unsub_of (unsub_request v x)) with (Some x). cbv iota beta. rewrite <- Hx0.
        change (rq_svc (unsub_request v x)) with v. apply Nat.eqb_refl.
      + unfold unsub_sids in *. cbn [flat_map]. change (unsub_of (unsub_request v x)) with (Some x).
        cbn [app]. now rewrite I4.
      + cbn [forallb]. now rewrite valid_unsub, I6.
  Qed.

  Lemma sound_unsub_all reg rs : Inv reg -> domrs rs -> sound reg CUnsubAll rs.
  Proof.
    intros HI HD.
    assert (Hin : forall k, In k (dkeys reg) -> dget str_eqb reg k = dget str_eqb reg k /\ dget str_eqb reg k <> None).
    { intros k Hk. split; [reflexivity|]. now apply (In_dkeys_dget str_eqb str_eqb_spec). }
    destruct (unsub_list_spec reg (dkeys reg) reg rs HI (proj1 HI) Hin) as (I1 & I1' & I2 & I3 & I4 & I5 & I6).
    rewrite fold_ddel_keys in I1'.
    constructor; cbn [run_call]; try assumption.
    - unfold returns_ok, observe. cbn [o_res]. now rewrite I5.
    - reflexivity.
    - unfold unsub_ok, observe. cbn [o_reqs o_routed]. rewrite I3, I4, I1', perm_eqb_refl. reflexivity.
  Qed.

  Lemma call_sound reg c rs : Inv reg -> domrs rs -> sound reg c rs.
  Proof.
    destruct c; auto using sound_subscribe, sound_renew, sound_renew_all, sound_unsub, sound_unsub_all.
  Qed.

  (* ---- histories ---- *)
  Lemma run_sound k : forall steps reg n,
    Inv reg -> in_domain steps = true ->
    check_from cb k n reg steps (run_from cb reg steps) = None.
  Proof.
    induction steps as [|[c rs] steps IH]; intros reg n HI HD; [reflexivity|].
    cbn [in_domain forallb] in HD. apply andb_true_iff in HD as [Hd HD].
    assert (S := call_sound reg c rs HI Hd).
    cbn [run_from check_from].
    change (o_reqs (observe (run_call cb reg c rs))) with (oc_reqs (run_call cb reg c rs)).
    rewrite <- (s_reg _ _ _ S).
    assert (Hk : step_ok cb k reg c (pair_up (oc_reqs (run_call cb reg c rs)) rs) (oc_reg (run_call cb reg c rs))
                         (observe (run_call cb reg c rs)) = true).
    { unfold step_ok.
      destruct (k =? 1)%N; [apply mirror_sound; apply (s_inv _ _ _ S)|].
      destruct (k =? 2)%N; [apply (s_ret _ _ _ S)|].
      destruct (k =? 3)%N; [apply (s_renew _ _ _ S)|].
      destruct (k =? 4)%N; [apply (s_unsub _ _ _ S)|].
      destruct (k =? 5)%N; [apply (s_valid _ _ _ S) | reflexivity]. }
    rewrite Hk. apply IH; [apply (s_inv _ _ _ S) | exact HD].
  Qed.

  Theorem clause_holds k i : in_domain i = true -> clause cb k i (model_run cb i) = true.
  Proof.
    intros HD. unfold clause, model_run. now rewrite (run_sound k i [] 0%N Inv_nil HD).
  Qed.
End Calls.
