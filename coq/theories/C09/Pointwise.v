(* C09 — the boolean mirror test means pointwise agreement of the routed table with the publisher-side table. *)
From Coq Require Import List Bool NArith ZArith Arith Lia.
From AUC Require Import Prelude.PyDict Prelude.PyStr Gen.Gena C09.Model C09.Spec C09.Lemmas.
Import ListNotations.

Lemma nodupb_true_NoDup l : nodupb l = true -> NoDup l.
Proof.
  induction l as [|x l IH]; cbn; [constructor|]. rewrite andb_true_iff, negb_true_iff. intros [Hx Hl].
  constructor; [|auto]. intros Hin.
  assert (E : existsb (str_eqb x) l = true) by (apply existsb_exists; exists x; split; [exact Hin | apply str_eqb_refl]).
  congruence.
Qed.

Lemma pub_step_NoDup (l : live) e : NoDup (dkeys l) -> NoDup (dkeys (pub_step l e)).
Proof.
  intros Hn. destruct e as [q r]. unfold pub_step.
  destruct (rq_method q), (rq_sid q) as [x|]; try exact Hn.
  - destruct r as [st rsid rtmo|e st]; [|now apply (NoDup_ddel str_eqb)].
    destruct (st =? 200)%N; [|now apply (NoDup_ddel str_eqb)].
    apply (NoDup_dset str_eqb str_eqb_spec).
    destruct (str_eqb (renewed_sid x rsid) x); [exact Hn | now apply (NoDup_ddel str_eqb)].
  - destruct r as [st [s|] rtmo|e st]; try exact Hn.
    destruct (st =? 200)%N; [now apply (NoDup_dset str_eqb str_eqb_spec) | exact Hn].
  - now apply (NoDup_ddel str_eqb).
Qed.

Lemma fold_pub_step_NoDup lg : forall (l : live), NoDup (dkeys l) -> NoDup (dkeys (fold_left pub_step lg l)).
Proof. induction lg as [|e lg IH]; intros l Hn; cbn [fold_left]; [exact Hn|]. apply IH. now apply pub_step_NoDup. Qed.

Lemma mirror_from cb : forall i o k (l : live) n so,
  NoDup (dkeys l) -> check_from cb 1%N k l i o = None -> nth_error o n = Some so ->
  forall s, dget str_eqb (o_routed so) s = dget str_eqb (live_from l i o n) s.
Proof.
  induction i as [|[c rs] i IH]; intros o k l n so Hn Hc Hnth s.
  - destruct o; [destruct n; discriminate | discriminate].
  - destruct o as [|so0 o]; [discriminate|]. cbn [check_from] in Hc.
    set (l' := fold_left pub_step (pair_up (o_reqs so0) rs) l) in *.
    assert (Hn' : NoDup (dkeys l')) by (apply fold_pub_step_NoDup; exact Hn).
    destruct (step_ok cb 1 l c (pair_up (o_reqs so0) rs) l' so0) eqn:E; [|discriminate].
    destruct n as [|n]; cbn [nth_error live_from] in *.
    + inversion Hnth; subst so0. fold l'. unfold step_ok in E. cbn in E. unfold mirror_ok in E.
      apply andb_true_iff in E as [E _]. apply andb_true_iff in E as [E1 E2].
      apply nodupb_true_NoDup in E1.
      exact (proj1 (deqb_true_iff str_eqb str_eqb_spec Nat.eqb Nat.eqb_spec (o_routed so) l' E1 Hn') E2 s).
    + fold l'. eapply IH; eauto.
Qed.

Lemma mirror_pointwise cb i o :
  registry_mirror cb i o = true ->
  forall n so, nth_error o n = Some so ->
  forall s, dget str_eqb (o_routed so) s = dget str_eqb (live_after i o n) s.
Proof.
  unfold registry_mirror, clause, live_after. destruct (check_from cb 1 0 [] i o) eqn:E; [discriminate|].
  intros _ n so Hnth s. eapply mirror_from; eauto. constructor.
Qed.
