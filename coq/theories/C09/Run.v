(* C09 — instantiation used by the correspondence check (never by a theorem). *)
From Coq Require Import List Bool NArith ZArith Arith.
From AUC Require Export Prelude.PyDict Prelude.PyStr Gen.Gena C09.Model C09.Spec.
Import ListNotations.

(* callback_url of the harness's notify server: "http://192.168.1.2:8090/notify" *)
Definition cb : pystr :=
  [104; 116; 116; 112; 58; 47; 47; 49; 57; 50; 46; 49; 54; 56; 46; 49; 46; 50; 58; 56; 48; 57; 48; 47;
   110; 111; 116; 105; 102; 121]%N.

Definition input := list step_in.
Definition observation := list step_obs.

(* shorthands the harness uses to print requests whose NT / CALLBACK are exactly the canonical ones
   (decided by string comparison in Python) *)
Definition q_initial (v : nat) (tmo : option pystr) : request :=
  mkReq MSubscribe v (Some s_upnp_event) (Some ([60%N] ++ cb ++ [62%N])) None tmo [].
Definition q_renewal (v : nat) (s : sid) (tmo : option pystr) : request :=
  mkReq MSubscribe v None None (Some s) tmo [].
Definition q_unsub (v : nat) (s : sid) : request := mkReq MUnsubscribe v None None (Some s) None [].
Definition sec (d : pystr) : pystr := s_second ++ d.

Definition method_eqb (a b : method) : bool :=
  match a, b with
  | MSubscribe, MSubscribe | MUnsubscribe, MUnsubscribe | MOther, MOther => true
  | _, _ => false
  end.
Fixpoint list_eqb {A} (f : A -> A -> bool) (a b : list A) : bool :=
  match a, b with
  | [], [] => true
  | x :: a', y :: b' => f x y && list_eqb f a' b'
  | _, _ => false
  end.
Definition request_eqb (a b : request) : bool :=
  method_eqb (rq_method a) (rq_method b) && Nat.eqb (rq_svc a) (rq_svc b)
  && opt_str_eqb (rq_nt a) (rq_nt b) && opt_str_eqb (rq_cb a) (rq_cb b)
  && opt_str_eqb (rq_sid a) (rq_sid b) && opt_str_eqb (rq_tmo a) (rq_tmo b)
  && list_eqb str_eqb (rq_other a) (rq_other b).
(* routed sets are compared as sets of pairs; everything else exactly *)
Definition routed_eqb (a b : list (sid * nat)) : bool :=
  Nat.eqb (length a) (length b)
  && forallb (fun p => existsb (fun q => str_eqb (fst p) (fst q) && Nat.eqb (snd p) (snd q)) b) a
  && forallb (fun p => existsb (fun q => str_eqb (fst p) (fst q) && Nat.eqb (snd p) (snd q)) a) b.
Definition step_obs_eqb (a b : step_obs) : bool :=
  result_eqb (o_res a) (o_res b) && list_eqb request_eqb (o_reqs a) (o_reqs b)
  && routed_eqb (o_routed a) (o_routed b) && list_eqb opt_str_eqb (o_sfs a) (o_sfs b).

Fixpoint first_diff (n : N) (a b : observation) : option N :=
  match a, b with
  | [], [] => None
  | x :: a', y :: b' => if step_obs_eqb x y then first_diff (N.succ n) a' b' else Some n
  | _, _ => Some n
  end.

Definition clause_ids : list N := [1; 2; 3; 4; 5]%N.

(* (case index, kind, step): kind 0 = the model's observation differs from the implementation's at that
   step; kind k in 1..5 = clause k fails on the IMPLEMENTATION's observation at that step *)
Fixpoint report (base : N) (cases : list (input * observation)) : list (N * N * N) :=
  match cases with
  | [] => []
  | (i, o) :: r =>
      (match first_diff 0 (model_run cb i) o with Some p => [(base, 0%N, p)] | None => [] end) ++
      (if in_domain i then
         flat_map (fun k => match check_from cb k 0%N [] i o with Some p => [(base, k, p)] | None => [] end)
                  clause_ids
       else []) ++
      report (N.succ base) r
  end.

Definition replay (c : input * observation) :=
  (model_run cb (fst c),
   map (fun k => (k, check_from cb k 0%N [] (fst c) (snd c))) clause_ids,
   in_domain (fst c)).
