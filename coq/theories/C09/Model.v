(* C09 — executable model of the GENA client of async_upnp_client.event_handler.UpnpEventHandler:
   async_subscribe, _async_do_resubscribe, async_resubscribe, async_resubscribe_all, async_unsubscribe,
   async_unsubscribe_all, sid_for_service, service_for_sid, _sid_and_service.  Definitions only.

   State: the routing table `_subscriptions` as an insertion-ordered dict SID -> service (PyDict; the
   services are kept alive by the caller, so the weak references never die: not modelled).  Each call
   consumes scripted publisher reactions, one per request, in the order the requests are made.  The
   requester completes without suspending, so the calls gathered by *_all run one after the other in
   registry order (asyncio.gather semantics for tasks that never suspend).

   The `except` ladder of async_resubscribe, the exception class hierarchy and the default timeouts are
   read from the generated file Gen/Gena.v.  The TIMEOUT header of a renewal is modelled as REPAIRED
   (proposed/C09/D17.diff): "Second-" + str(timeout.seconds), like the initial SUBSCRIBE. *)
From Coq Require Import List Bool NArith ZArith Arith.
From AUC Require Import Prelude.PyDict Prelude.PyStr Gen.Gena.
Import ListNotations.

Definition sid := pystr.
Definition registry := dict sid nat.

(* bool(str) *)
Definition truthy (s : pystr) : bool := match s with [] => false | _ => true end.

(* ------------------------------------------------------------------------------------------ *)
(* strings *)
Definition s_second : pystr := [83; 101; 99; 111; 110; 100; 45]%N.                    (* "Second-" *)
Definition s_infinite : pystr := [105; 110; 102; 105; 110; 105; 116; 101]%N.          (* "infinite" *)
Definition s_second_infinite : pystr := s_second ++ s_infinite.
Definition s_upnp_event : pystr := [117; 112; 110; 112; 58; 101; 118; 101; 110; 116]%N. (* "upnp:event" *)

Definition is_digit (c : N) : bool := ((48 <=? c) && (c <=? 57))%N.

(* str(n), n >= 0 *)
Fixpoint dec_aux (fuel : nat) (n : N) (acc : pystr) : pystr :=
  match fuel with
  | O => acc
  | S f => let acc' := (48 + n mod 10)%N :: acc in
           if (n <? 10)%N then acc' else dec_aux f (n / 10)%N acc'
  end.
Definition dec (n : N) : pystr := dec_aux (S (N.size_nat n)) n [].

(* needle in s *)
Fixpoint str_contains (needle s : pystr) : bool :=
  starts_with needle s || match s with [] => false | _ :: t => str_contains needle t end.

(* int(s) for ASCII text: surrounding white space, optional sign, decimal digits with single
   underscores between digits.  (Non-ASCII digits/spaces are not modelled: None = ValueError.) *)
Definition is_space (c : N) : bool := (((9 <=? c) && (c <=? 13)) || ((28 <=? c) && (c <=? 32)))%N.
Fixpoint lstrip (s : pystr) : pystr :=
  match s with
  | c :: t => if is_space c then lstrip t else s
  | [] => []
  end.
Definition strip (s : pystr) : pystr := rev (lstrip (rev (lstrip s))).
Fixpoint digits_us (s : pystr) (acc : N) (prev_digit : bool) : option N :=
  match s with
  | [] => if prev_digit then Some acc else None
  | c :: t => if is_digit c then digits_us t (acc * 10 + (c - 48))%N true
              else if (c =? 95)%N && prev_digit then digits_us t acc false
              else None
  end.
Definition py_int (s : pystr) : option Z :=
  match strip s with
  | [] => None
  | c :: t =>
      if (c =? 43)%N then option_map Z.of_N (digits_us t 0%N false)
      else if (c =? 45)%N then option_map (fun n => (- Z.of_N n)%Z) (digits_us t 0%N false)
      else option_map Z.of_N (digits_us (c :: t) 0%N false)
  end.

(* timedelta(seconds=v) exists iff |days| <= 999999999 *)
Definition td_min : Z := (-86399999913600)%Z.
Definition td_max : Z := 86399999999999%Z.
Definition td_in_range (v : Z) : bool := ((td_min <=? v) && (v <=? td_max))%Z.

(* ------------------------------------------------------------------------------------------ *)
(* alphabet *)
Inductive res (A : Type) := Ok (a : A) | Raise (e : exn).
Arguments Ok {A} a.
Arguments Raise {A} e.

Inductive target := TSvc (v : nat) | TSid (s : sid).

(* tmo: the `timeout` argument in whole seconds; None = the parameter's default *)
Inductive call :=
| CSubscribe (v : nat) (tmo : option N)
| CRenew (t : target) (tmo : option N)
| CRenewAll
| CUnsub (t : target)
| CUnsubAll.

(* what the publisher (or the transport) does with one request *)
Inductive reaction :=
| RResp (status : N) (rsid : option sid) (rtmo : option pystr)  (* HTTP response; SID / TIMEOUT headers *)
| RRaise (e : exn) (status : option N).                          (* the requester raises e *)

Inductive method := MSubscribe | MUnsubscribe | MOther.
Record request := mkReq {
  rq_method : method;
  rq_svc : nat;                   (* the service whose event_sub_url the request went to *)
  rq_nt : option pystr;
  rq_cb : option pystr;
  rq_sid : option pystr;
  rq_tmo : option pystr;
  rq_other : list pystr           (* any other header names except HOST (upper case, sorted) *)
}.

Inductive result :=
| ROkSidTmo (s : sid) (t : Z)     (* (sid, timedelta(seconds=t)) *)
| ROkSid (s : sid)
| ROkNone
| RErr (e : exn) (status : option N).

Record step_obs := mkObs {
  o_res : result;
  o_reqs : list request;          (* requests seen by the publisher during the call, in order *)
  o_routed : list (sid * nat);    (* service_for_sid over every SID: compared as a set *)
  o_sfs : list (option sid)       (* sid_for_service for services 0, 1, 2 *)
}.

Definition step_in := (call * list reaction)%type.

(* a request beyond the script: the device is unreachable *)
Definition default_reaction : reaction := RRaise E_UpnpConnectionError None.
Definition next_reaction (rs : list reaction) : reaction * list reaction :=
  match rs with
  | [] => (default_reaction, [])
  | r :: t => (r, t)
  end.

(* ------------------------------------------------------------------------------------------ *)
Section Model.
  Variable cb : pystr.      (* callback_url of the notify server *)

  Record outcome := mkOut {
    oc_res : result;
    oc_reqs : list request;
    oc_reg : registry;
    oc_rs : list reaction
  }.

  Definition timeout_header (tmo : N) : pystr := s_second ++ dec (tmo mod 86400)%N.  (* timedelta.seconds *)

  Definition initial_request (v : nat) (tmo : N) : request :=
    mkReq MSubscribe v (Some s_upnp_event) (Some ([60%N] ++ cb ++ [62%N])) None (Some (timeout_header tmo)) [].
  Definition renewal_request (v : nat) (s : sid) (tmo : N) : request :=
    mkReq MSubscribe v None None (Some s) (Some (timeout_header tmo)) [].
  Definition unsub_request (v : nat) (s : sid) : request :=
    mkReq MUnsubscribe v None None (Some s) None [].

  (* "Device can give a different TIMEOUT header than what we have provided." *)
  Definition parse_timeout (hdr : option pystr) (requested : Z) : res Z :=
    match hdr with
    | None => Ok requested
    | Some h =>
        if negb (str_eqb h s_second_infinite) && str_contains s_second h then
          match py_int (skipn 7 h) with
          | None => Raise E_ValueError
          | Some v => if td_in_range v then Ok v else Raise E_OverflowError
          end
        else Ok requested
    end.

  Definition sid_for_service (reg : registry) (v : nat) : option sid :=
    match find (fun p => Nat.eqb (snd p) v) reg with
    | Some p => Some (fst p)
    | None => None
    end.
  Definition service_for_sid (reg : registry) (s : sid) : option nat := dget str_eqb reg s.

  (* _sid_and_service: None = KeyError *)
  Definition sid_and_service (reg : registry) (t : target) : option (sid * nat) :=
    match t with
    | TSvc v => match sid_for_service reg v with
                | Some s => if truthy s then Some (s, v) else None
                | None => None
                end
    | TSid s => match service_for_sid reg s with
                | Some v => Some (s, v)
                | None => None
                end
    end.

  (* del d[k] *)
  Definition py_del (reg : registry) (k : sid) : option registry :=
    if dhas str_eqb reg k then Some (ddel str_eqb reg k) else None.

  Definition m_subscribe (reg : registry) (rs : list reaction) (v : nat) (tmo : N) : outcome :=
    let rq := initial_request v tmo in
    let (r, rs') := next_reaction rs in
    match r with
    | RRaise e st => mkOut (RErr e st) [rq] reg rs'
    | RResp status rsid rtmo =>
        if negb (status =? 200)%N then mkOut (RErr E_UpnpResponseError (Some status)) [rq] reg rs'
        else match rsid with
             | None => mkOut (RErr E_UpnpSIDError None) [rq] reg rs'
             | Some s =>
                 match parse_timeout rtmo (Z.of_N tmo) with
                 | Raise e => mkOut (RErr e None) [rq] reg rs'
                 | Ok t => mkOut (ROkSidTmo s t) [rq] (dset str_eqb reg s v) rs'
                 end
             end
    end.

  Definition m_do_resubscribe (reg : registry) (rs : list reaction) (v : nat) (s : sid) (tmo : N) : outcome :=
    let rq := renewal_request v s tmo in
    let (r, rs') := next_reaction rs in
    match r with
    | RRaise e st => mkOut (RErr e st) [rq] reg rs'
    | RResp status rsid rtmo =>
        if negb (status =? 200)%N then mkOut (RErr E_UpnpResponseError (Some status)) [rq] reg rs'
        else
          let new_sid := match rsid with
                         | Some s' => if truthy s' && negb (str_eqb s' s) then Some s' else None
                         | None => None
                         end in
          match (match new_sid with Some _ => py_del reg s | None => Some reg end) with
          | None => mkOut (RErr E_KeyError None) [rq] reg rs'
          | Some reg1 =>
              let s1 := match new_sid with Some s' => s' | None => s end in
              match parse_timeout rtmo (Z.of_N tmo) with
              | Raise e => mkOut (RErr e None) [rq] reg1 rs'
              | Ok t => mkOut (ROkSidTmo s1 t) [rq] (dset str_eqb reg1 s1 v) rs'
              end
          end
    end.

  (* first `except` row that catches e *)
  Fixpoint find_handler (e : exn) (ladder : list (exn * (bool * bool))) : option (bool * bool) :=
    match ladder with
    | [] => None
    | (c, a) :: r => if subclassb e c then Some a else find_handler e r
    end.

  Definition m_resubscribe_resolved (reg : registry) (rs : list reaction) (s : sid) (v : nat) (tmo : N) : outcome :=
    let o := m_do_resubscribe reg rs v s tmo in
    match oc_res o with
    | RErr e st =>
        match find_handler e resub_ladder with
        | None => o
        | Some (drop, reraise) =>
            match (if drop then py_del (oc_reg o) s else Some (oc_reg o)) with
            | None => mkOut (RErr E_KeyError None) (oc_reqs o) (oc_reg o) (oc_rs o)
            | Some reg1 =>
                if reraise then mkOut (RErr e st) (oc_reqs o) reg1 (oc_rs o)
                else match (if resub_after_drop then py_del reg1 s else Some reg1) with
                     | None => mkOut (RErr E_KeyError None) (oc_reqs o) reg1 (oc_rs o)
                     | Some reg2 =>
                         let o2 := m_subscribe reg2 (oc_rs o) v tmo in
                         mkOut (oc_res o2) (oc_reqs o ++ oc_reqs o2) (oc_reg o2) (oc_rs o2)
                     end
            end
        end
    | _ => o
    end.

  Definition m_resubscribe (reg : registry) (rs : list reaction) (t : target) (tmo : N) : outcome :=
    match sid_and_service reg t with
    | None => mkOut (RErr E_KeyError None) [] reg rs
    | Some (s, v) => m_resubscribe_resolved reg rs s v tmo
    end.

  Definition m_unsubscribe_resolved (reg : registry) (rs : list reaction) (s : sid) (v : nat) : outcome :=
    let reg1 := ddel str_eqb reg s in            (* "Remove registration before potential device errors" *)
    let rq := unsub_request v s in
    let (r, rs') := next_reaction rs in
    match r with
    | RRaise e st => mkOut (RErr e st) [rq] reg1 rs'
    | RResp status _ _ =>
        if negb (status =? 200)%N then mkOut (RErr E_UpnpResponseError (Some status)) [rq] reg1 rs'
        else mkOut (ROkSid s) [rq] reg1 rs'
    end.

  Definition m_unsubscribe (reg : registry) (rs : list reaction) (t : target) : outcome :=
    match sid_and_service reg t with
    | None => mkOut (RErr E_KeyError None) [] reg rs
    | Some (s, v) => m_unsubscribe_resolved reg rs s v
    end.

  (* asyncio.gather over self.async_resubscribe(sid) for every sid of the snapshot: every task runs; the first
     exception (in completion order = snapshot order) is what the caller sees *)
  Fixpoint m_renew_list (sids : list sid) (reg : registry) (rs : list reaction) : outcome :=
    match sids with
    | [] => mkOut ROkNone [] reg rs
    | s :: t =>
        let o1 := m_resubscribe reg rs (TSid s) default_timeout_resubscribe in
        let o2 := m_renew_list t (oc_reg o1) (oc_rs o1) in
        mkOut (match oc_res o1 with RErr e st => RErr e st | _ => oc_res o2 end)
              (oc_reqs o1 ++ oc_reqs o2) (oc_reg o2) (oc_rs o2)
    end.

  (* gather(..., return_exceptions=True) *)
  Fixpoint m_unsub_list (sids : list sid) (reg : registry) (rs : list reaction) : outcome :=
    match sids with
    | [] => mkOut ROkNone [] reg rs
    | s :: t =>
        let o1 := m_unsubscribe reg rs (TSid s) in
        let o2 := m_unsub_list t (oc_reg o1) (oc_rs o1) in
        mkOut ROkNone (oc_reqs o1 ++ oc_reqs o2) (oc_reg o2) (oc_rs o2)
    end.

  Definition tmo_or (d : N) (t : option N) : N := match t with Some n => n | None => d end.

  Definition run_call (reg : registry) (c : call) (rs : list reaction) : outcome :=
    match c with
    | CSubscribe v t => m_subscribe reg rs v (tmo_or default_timeout_subscribe t)
    | CRenew t tm => m_resubscribe reg rs t (tmo_or default_timeout_resubscribe tm)
    | CRenewAll => m_renew_list (dkeys reg) reg rs
    | CUnsub t => m_unsubscribe reg rs t
    | CUnsubAll => m_unsub_list (dkeys reg) reg rs
    end.

  Definition services : list nat := [0; 1; 2].
  Definition observe (o : outcome) : step_obs :=
    mkObs (oc_res o) (oc_reqs o) (oc_reg o) (map (sid_for_service (oc_reg o)) services).

  Fixpoint run_from (reg : registry) (steps : list step_in) : list step_obs :=
    match steps with
    | [] => []
    | (c, rs) :: r => let o := run_call reg c rs in observe o :: run_from (oc_reg o) r
    end.
  Definition model_run (steps : list step_in) : list step_obs := run_from [] steps.
End Model.
