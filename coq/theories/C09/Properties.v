(* C09 — The subscription registry mirrors the publisher, with valid GENA requests.  Property theorems only.

   model_run cb i  = the observations (result, requests seen by the publisher, routed SIDs, sid_for_service)
                     the model of UpnpEventHandler produces after every call of the history i, each call
                     consuming the publisher reactions scripted with it;
   in_domain i     = the publisher reactions of the property's quantifier (Spec.v, end);
   the five clauses are the executable predicates over (history, observations) of Spec.v, the very ones the
   correspondence check evaluates on the IMPLEMENTATION's observations.  cb is the callback URL. *)
From Coq Require Import List Bool NArith ZArith.
From AUC Require Import Prelude.PyDict Prelude.PyStr Gen.Gena C09.Model C09.Spec C09.Lemmas C09.Sound C09.Calls C09.Pointwise.
Import ListNotations.

(* After every call of every history the routed SIDs (with their service), as service_for_sid and
   sid_for_service report them, are exactly the subscriptions the publisher granted and the caller has
   neither unsubscribed nor lost — the latter computed from the publisher's log of exchanges alone. *)
Theorem C09_registry_mirror :
  forall (cb : pystr) (i : list step_in),
    in_domain i = true -> registry_mirror cb i (model_run cb i) = true.
Proof. exact (fun cb i => clause_holds cb 1%N i). Qed.
Print Assumptions C09_registry_mirror.

(* Every call returns / raises what its last exchange with the publisher says: (SID, granted timeout) after a
   200 (the granted timeout being Second-N of the response, else the requested one), UpnpResponseError with the
   status after a refusal, UpnpSIDError after a 200 without SID, the requester's error otherwise; a subscribe
   makes exactly one initial SUBSCRIBE to its service; a call on an unknown service/SID raises KeyError and
   sends nothing; renew-all reports the first failing renewal, unsubscribe-all nothing. *)
Theorem C09_returns :
  forall (cb : pystr) (i : list step_in),
    in_domain i = true -> returns cb i (model_run cb i) = true.
Proof. exact (fun cb i => clause_holds cb 2%N i). Qed.
Print Assumptions C09_returns.

(* A renewal goes to the service its SID belongs to; accepted or unreachable (UpnpConnectionError and
   subclasses) it is the only request, refused (any other status / UpnpError) it is followed by a fresh initial
   SUBSCRIBE to the same service; renew-all renews every routed SID once.  Depends on the except ladder
   regenerated from the source (Gen/Gena.v). *)
Theorem C09_renew_fallback :
  forall (cb : pystr) (i : list step_in),
    in_domain i = true -> renew_fallback cb i (model_run cb i) = true.
Proof. exact (fun cb i => clause_holds cb 3%N i). Qed.
Print Assumptions C09_renew_fallback.

(* An unsubscribe of a known target sends exactly one UNSUBSCRIBE with its SID to its service, and whatever
   the device answers that SID is not routed afterwards; unsubscribe-all does so for every routed SID and
   leaves nothing routed. *)
Theorem C09_unsubscribe_immediate :
  forall (cb : pystr) (i : list step_in),
    in_domain i = true -> unsubscribe_immediate cb i (model_run cb i) = true.
Proof. exact (fun cb i => clause_holds cb 4%N i). Qed.
Print Assumptions C09_unsubscribe_immediate.

(* Every request is valid GENA: an initial SUBSCRIBE carries NT: upnp:event, CALLBACK: <cb>, TIMEOUT:
   Second-<digits> and no SID; a renewal carries a non-empty SID and TIMEOUT: Second-<digits> and neither NT
   nor CALLBACK; an UNSUBSCRIBE carries a non-empty SID and neither NT nor CALLBACK. *)
Theorem C09_requests_valid :
  forall (cb : pystr) (i : list step_in),
    in_domain i = true -> requests_valid cb i (model_run cb i) = true.
Proof. exact (fun cb i => clause_holds cb 5%N i). Qed.
Print Assumptions C09_requests_valid.

(* What clause 1 means, without the boolean checker: at every step the routed table answers every SID
   exactly as the publisher-side table does. *)
Theorem C09_registry_mirror_pointwise :
  forall (cb : pystr) (i : list step_in) (o : list step_obs),
    registry_mirror cb i o = true ->
    forall n so, nth_error o n = Some so ->
    forall s, dget str_eqb (o_routed so) s = dget str_eqb (live_after i o n) s.
Proof. exact mirror_pointwise. Qed.
Print Assumptions C09_registry_mirror_pointwise.

(* Non-vacuity: a history inside the domain exercising grant, refused renewal with fall-back, renewal under a
   new SID, unreachable renewal and unconfirmed unsubscribe. *)
Example C09_domain_inhabited :
  let cb := [99; 98]%N in
  let a := [97]%N in let b := [98]%N in let c := [99]%N in
  let t300 := (s_second ++ [51; 48; 48])%N in
  let i := [ (CSubscribe 0 None, [RResp 200 (Some a) (Some t300)]);
             (CSubscribe 1 (Some 90061%N), [RResp 200 (Some b) None]);
             (CRenew (TSvc 0) None, [RResp 412 None None; RResp 200 (Some c) None]);
             (CRenewAll, [RResp 200 (Some a) None; RRaise E_UpnpConnectionTimeoutError None]);
             (CUnsub (TSid a), [RResp 500 None None]) ] in
  in_domain i = true /\
  map o_res (model_run cb i) =
    [ROkSidTmo a 300; ROkSidTmo b 90061; ROkSidTmo c 1800; RErr E_UpnpConnectionTimeoutError None;
     RErr E_UpnpResponseError (Some 500%N)] /\
  map o_routed (model_run cb i) = [[(a, 0)]; [(a, 0); (b, 1)]; [(b, 1); (c, 0)]; [(a, 1)]; []] /\
  map (fun so => map rq_tmo (o_reqs so)) (model_run cb i) =
    [[Some (s_second ++ [49; 56; 48; 48])]; [Some (s_second ++ [51; 54; 54; 49])];
     [Some (s_second ++ [49; 56; 48; 48]); Some (s_second ++ [49; 56; 48; 48])];
     [Some (s_second ++ [49; 56; 48; 48]); Some (s_second ++ [49; 56; 48; 48])]; [None]]%N.
Proof. vm_compute. repeat split; reflexivity. Qed.

(* The specification discriminates (D17): the TIMEOUT value the unrepaired code sends with a renewal,
   "Second-1800.0", is not valid GENA; the repaired one is. *)
Example C09_float_timeout_rejected :
  let renewal t := mkReq MSubscribe 0 None None (Some [97]%N) (Some (s_second ++ t)) [] in
  valid_request [99]%N (renewal [49; 56; 48; 48; 46; 48]%N) = false /\
  valid_request [99]%N (renewal [49; 56; 48; 48]%N) = true.
Proof. split; reflexivity. Qed.
