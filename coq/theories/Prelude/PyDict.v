(* Insertion-ordered association-list model of a Python dict.
   Definitions and their characterising lemmas; later files never unfold them. *)
From Coq Require Import List Bool Arith Lia Permutation.
Import ListNotations.
Set Implicit Arguments.

Section Dict.
  Variable K : Type.
  Variable keqb : K -> K -> bool.
  Hypothesis keqb_spec : forall a b, reflect (a = b) (keqb a b).
  Variable V : Type.

  Definition dict := list (K * V).

  Fixpoint dget (d : dict) (k : K) : option V :=
    match d with
    | [] => None
    | (k', v) :: r => if keqb k' k then Some v else dget r k
    end.

  (* d[k] = v : update in place (the original key object stays), else append *)
  Fixpoint dset (d : dict) (k : K) (v : V) : dict :=
    match d with
    | [] => [(k, v)]
    | (k', v') :: r => if keqb k' k then (k', v) :: r else (k', v') :: dset r k v
    end.

  Fixpoint ddel (d : dict) (k : K) : dict :=
    match d with
    | [] => []
    | (k', v') :: r => if keqb k' k then r else (k', v') :: ddel r k
    end.

  Definition dkeys (d : dict) : list K := map fst d.
  Definition dhas (d : dict) (k : K) : bool :=
    match dget d k with Some _ => true | None => false end.
  (* {**a, **b} *)
  Definition dmerge (a b : dict) : dict :=
    fold_left (fun acc kv => dset acc (fst kv) (snd kv)) b a.

  Lemma keqb_refl k : keqb k k = true.
  Proof. destruct (keqb_spec k k); congruence. Qed.

  Lemma keqb_eq a b : keqb a b = true -> a = b.
  Proof. destruct (keqb_spec a b); congruence. Qed.

  Lemma keqb_neq a b : keqb a b = false -> a <> b.
  Proof. destruct (keqb_spec a b); congruence. Qed.

  Lemma keqb_sym a b : keqb a b = keqb b a.
  Proof. destruct (keqb_spec a b), (keqb_spec b a); congruence. Qed.

  Lemma dget_dset d k v k' :
    dget (dset d k v) k' = if keqb k k' then Some v else dget d k'.
  Proof.
    induction d as [|[a w] r IH]; cbn.
    - destruct (keqb k k'); reflexivity.
    - destruct (keqb_spec a k) as [->|Hak]; cbn.
      + destruct (keqb k k'); reflexivity.
      + rewrite IH. destruct (keqb_spec a k') as [->|Hak'].
        * destruct (keqb_spec k k'); congruence.
        * reflexivity.
  Qed.

  Lemma In_dkeys_dget d k : In k (dkeys d) <-> dget d k <> None.
  Proof.
    induction d as [|[a w] r IH]; cbn.
    - split; [tauto | congruence].
    - destruct (keqb_spec a k) as [->|Hak].
      + split; [congruence | auto].
      + rewrite <- IH. split; [intros [?|?]; congruence || assumption | auto].
  Qed.

  Lemma dget_None_notin d k : dget d k = None <-> ~ In k (dkeys d).
  Proof.
    rewrite In_dkeys_dget. destruct (dget d k); split; try congruence.
    intros H; exfalso; apply H; congruence.
  Qed.

  Lemma dget_Some_in d k v : dget d k = Some v -> In k (dkeys d).
  Proof. intros H. apply In_dkeys_dget. congruence. Qed.

  Lemma dget_In d k v : dget d k = Some v -> In (k, v) d.
  Proof.
    induction d as [|[a w] r IH]; cbn; [congruence|].
    destruct (keqb_spec a k) as [->|Hak]; intros H.
    - left. congruence.
    - right. auto.
  Qed.

  Lemma In_dget d k v : NoDup (dkeys d) -> In (k, v) d -> dget d k = Some v.
  Proof.
    induction d as [|[a w] r IH]; cbn; [tauto|].
    intros Hnd [Heq|Hin].
    - inversion Heq; subst. now rewrite keqb_refl.
    - inversion Hnd as [|? ? Hnotin Hnd']; subst.
      destruct (keqb_spec a k) as [->|Hak].
      + exfalso. apply Hnotin. change (In k (dkeys r)). apply in_map_iff. now exists (k, v).
      + auto.
  Qed.

  Lemma dkeys_dset d k v :
    dkeys (dset d k v) = if dhas d k then dkeys d else dkeys d ++ [k].
  Proof.
    unfold dhas, dkeys. induction d as [|[a w] r IH]; cbn; [reflexivity|].
    destruct (keqb_spec a k) as [->|Hak]; cbn; [reflexivity|].
    rewrite IH. destruct (dget r k); reflexivity.
  Qed.

  Lemma In_dkeys_dset d k v k' :
    In k' (dkeys (dset d k v)) <-> k' = k \/ In k' (dkeys d).
  Proof.
    rewrite dkeys_dset. unfold dhas. destruct (dget d k) eqn:E.
    - split; [auto|]. intros [->|H]; [|exact H]. eapply dget_Some_in; eauto.
    - rewrite in_app_iff; cbn. intuition.
  Qed.

  Lemma NoDup_dset d k v : NoDup (dkeys d) -> NoDup (dkeys (dset d k v)).
  Proof.
    intros Hnd. rewrite dkeys_dset. unfold dhas. destruct (dget d k) eqn:E; [exact Hnd|].
    apply dget_None_notin in E.
    clear -Hnd E. induction (dkeys d) as [|a l IH]; cbn.
    - constructor; [tauto | constructor].
    - inversion Hnd as [|? ? Hn Hnd']; subst. constructor.
      + rewrite in_app_iff; cbn. intros [H|[H|[]]]; [tauto|]. apply E. now left.
      + apply IH; [assumption|]. intros H; apply E; now right.
  Qed.

  Lemma dkeys_ddel_incl d k k' : In k' (dkeys (ddel d k)) -> In k' (dkeys d).
  Proof.
    induction d as [|[a w] r IH]; cbn; [tauto|].
    destruct (keqb a k); cbn; intuition.
  Qed.

  Lemma NoDup_ddel d k : NoDup (dkeys d) -> NoDup (dkeys (ddel d k)).
  Proof.
    induction d as [|[a w] r IH]; cbn; [auto|].
    intros Hnd. inversion Hnd as [|? ? Hn Hnd']; subst.
    destruct (keqb a k); cbn; [assumption|].
    constructor; [|auto]. intros H. apply Hn. eapply dkeys_ddel_incl; eauto.
  Qed.

  Lemma dget_ddel d k k' :
    NoDup (dkeys d) ->
    dget (ddel d k) k' = if keqb k k' then None else dget d k'.
  Proof.
    induction d as [|[a w] r IH]; cbn; intros Hnd.
    - destruct (keqb k k'); reflexivity.
    - inversion Hnd as [|? ? Hn Hnd']; subst.
      destruct (keqb_spec a k) as [->|Hak]; cbn.
      + destruct (keqb_spec k k') as [->|Hkk']; [|reflexivity].
        now apply dget_None_notin.
      + rewrite IH by assumption.
        destruct (keqb_spec a k') as [->|Hak']; [|reflexivity].
        destruct (keqb_spec k k'); congruence.
  Qed.

  Lemma In_dkeys_ddel d k k' :
    NoDup (dkeys d) -> (In k' (dkeys (ddel d k)) <-> k' <> k /\ In k' (dkeys d)).
  Proof.
    intros Hnd. rewrite !In_dkeys_dget, dget_ddel by assumption.
    destruct (keqb_spec k k') as [->|Hkk'].
    - split; [congruence | tauto].
    - split; [intros H; split; congruence | tauto].
  Qed.

  Lemma length_dset d k v :
    length (dset d k v) = if dhas d k then length d else S (length d).
  Proof.
    unfold dhas. induction d as [|[a w] r IH]; cbn; [reflexivity|].
    destruct (keqb a k); cbn; [reflexivity|]. rewrite IH. destruct (dget r k); reflexivity.
  Qed.

  Lemma length_ddel d k :
    length (ddel d k) = if dhas d k then pred (length d) else length d.
  Proof.
    unfold dhas. induction d as [|[a w] r IH]; cbn; [reflexivity|].
    destruct (keqb a k); cbn; [reflexivity|]. rewrite IH.
    destruct (dget r k) eqn:E; [|reflexivity].
    destruct r; [discriminate|reflexivity].
  Qed.

  (* later-wins lookup in a list of pairs, the meaning of {**[], **b} *)
  Fixpoint dlast (b : list (K * V)) (k : K) : option V :=
    match b with
    | [] => None
    | (k', v) :: r =>
        match dlast r k with
        | Some w => Some w
        | None => if keqb k' k then Some v else None
        end
    end.

  Lemma dget_dmerge a b k :
    dget (dmerge a b) k = match dlast b k with Some v => Some v | None => dget a k end.
  Proof.
    unfold dmerge. revert a. induction b as [|[bk bv] r IH]; cbn; intros a; [reflexivity|].
    rewrite IH, dget_dset. destruct (dlast r k); [reflexivity|].
    destruct (keqb bk k); reflexivity.
  Qed.

  Lemma NoDup_dmerge a b : NoDup (dkeys a) -> NoDup (dkeys (dmerge a b)).
  Proof.
    unfold dmerge. revert a. induction b as [|[bk bv] r IH]; cbn; intros a H; [exact H|].
    apply IH. now apply NoDup_dset.
  Qed.

  Lemma In_dkeys_dmerge a b k :
    In k (dkeys (dmerge a b)) <-> In k (dkeys a) \/ In k (map fst b).
  Proof.
    unfold dmerge. revert a. induction b as [|[bk bv] r IH]; cbn; intros a; [tauto|].
    rewrite IH, In_dkeys_dset. intuition.
  Qed.

  Lemma dlast_None b k : dlast b k = None <-> ~ In k (map fst b).
  Proof.
    induction b as [|[bk bv] r IH]; cbn; [tauto|].
    destruct (dlast r k) eqn:E.
    - split; [discriminate|]. intros H. exfalso.
      assert (Hn : ~ In k (map fst r)) by tauto. apply IH in Hn. discriminate.
    - destruct (keqb_spec bk k) as [->|Hne].
      + split; [discriminate|tauto].
      + split; [|reflexivity]. intros _ [H|H]; [congruence|]. now apply IH.
  Qed.

  Lemma dset_absent d k v : dget d k = None -> dset d k v = d ++ [(k, v)].
  Proof.
    induction d as [|[a w] r IH]; cbn; [reflexivity|].
    destruct (keqb a k); [discriminate|]. intros H. now rewrite IH.
  Qed.

  (* a Python dict literal with distinct keys is itself *)
  Lemma dmerge_dict a b : NoDup (dkeys a ++ map fst b) -> dmerge a b = a ++ b.
  Proof.
    unfold dmerge. revert a. induction b as [|[bk bv] r IH]; cbn; intros a Hnd.
    - now rewrite app_nil_r.
    - assert (Hn : dget a bk = None).
      { apply dget_None_notin. intros Hin. apply NoDup_remove_2 in Hnd. apply Hnd.
        apply in_app_iff. now left. }
      rewrite dset_absent by exact Hn. rewrite IH.
      + now rewrite <- app_assoc.
      + unfold dkeys. rewrite map_app, <- app_assoc. exact Hnd.
  Qed.

  Lemma dlast_dget b k : NoDup (map fst b) -> dlast b k = dget b k.
  Proof.
    induction b as [|[bk bv] r IH]; cbn; [reflexivity|]. intros Hnd.
    inversion Hnd as [|? ? Hn Hnd']; subst. rewrite IH by assumption.
    destruct (keqb_spec bk k) as [->|Hne].
    - assert (E : dget r k = None) by now apply dget_None_notin. now rewrite E.
    - destruct (dget r k); reflexivity.
  Qed.

  Lemma dget_app a b k :
    dget (a ++ b) k = match dget a k with Some v => Some v | None => dget b k end.
  Proof.
    induction a as [|[ak av] r IH]; cbn; [reflexivity|].
    destruct (keqb ak k); [reflexivity | exact IH].
  Qed.

  Lemma dlast_In b k v : dlast b k = Some v -> In (k, v) b.
  Proof.
    induction b as [|[bk bv] r IH]; cbn; [discriminate|].
    destruct (dlast r k) eqn:E.
    - intros H; inversion H; subst. right. now apply IH.
    - destruct (keqb_spec bk k) as [->|Hne]; [|discriminate].
      intros H; inversion H; subst. now left.
  Qed.

  Lemma fold_dset_dmerge (A : Type) (f : A -> K) (g : A -> V) (l : list A) (acc : dict) :
    fold_left (fun d x => dset d (f x) (g x)) l acc = dmerge acc (map (fun x => (f x, g x)) l).
  Proof.
    unfold dmerge. revert acc. induction l as [|x l IH]; cbn; intros acc; [reflexivity|].
    apply IH.
  Qed.

  Lemma NoDup_pairs (l : dict) : NoDup (dkeys l) -> NoDup l.
  Proof. apply NoDup_map_inv. Qed.

End Dict.

Section DictEq.
  Variable K : Type.
  Variable keqb : K -> K -> bool.
  Hypothesis keqb_spec : forall a b, reflect (a = b) (keqb a b).
  Variable V : Type.
  Variable veqb : V -> V -> bool.
  Hypothesis veqb_spec : forall a b, reflect (a = b) (veqb a b).

  (* Python: dict == dict *)
  Definition deqb (x y : dict K V) : bool :=
    Nat.eqb (length x) (length y) &&
    forallb (fun kv => match dget keqb y (fst kv) with
                       | Some w => veqb (snd kv) w
                       | None => false
                       end) x.

  Lemma deqb_true_iff x y :
    NoDup (dkeys x) -> NoDup (dkeys y) ->
    (deqb x y = true <-> forall k, dget keqb x k = dget keqb y k).
  Proof.
    intros Hx Hy. unfold deqb. rewrite andb_true_iff, Nat.eqb_eq, forallb_forall. split.
    - intros [Hlen Hall] k.
      assert (Hsub : forall k v, dget keqb x k = Some v -> dget keqb y k = Some v).
      { intros k0 v Hg. apply (dget_In keqb keqb_spec) in Hg. specialize (Hall _ Hg). cbn in Hall.
        destruct (dget keqb y k0) as [w|]; [|discriminate].
        destruct (veqb_spec v w); congruence. }
      destruct (dget keqb x k) as [v|] eqn:E; [symmetry; now apply Hsub|].
      symmetry. apply (dget_None_notin keqb keqb_spec). intros Hin.
      apply (dget_None_notin keqb keqb_spec) in E. apply E.
      assert (Hincl : incl (dkeys x) (dkeys y)).
      { intros k0 Hk0. apply (In_dkeys_dget keqb keqb_spec) in Hk0.
        destruct (dget keqb x k0) as [v|] eqn:E0; [|congruence].
        apply (In_dkeys_dget keqb keqb_spec). rewrite (Hsub _ _ E0). congruence. }
      assert (Hrev : incl (dkeys y) (dkeys x)).
      { apply NoDup_length_incl; [exact Hx| |exact Hincl].
        unfold dkeys. rewrite !map_length. lia. }
      now apply Hrev.
    - intros Hext. split.
      + assert (P : Permutation (dkeys x) (dkeys y)).
        { apply NoDup_Permutation; try assumption. intros k.
          rewrite !(In_dkeys_dget keqb keqb_spec), Hext. tauto. }
        apply Permutation_length in P. unfold dkeys in P. now rewrite !map_length in P.
      + intros [k v] Hin. cbn. apply (In_dget keqb keqb_spec) in Hin; [|exact Hx].
        rewrite <- Hext, Hin. destruct (veqb_spec v v); congruence.
  Qed.
End DictEq.

Lemma NoDup_map_inj_on (A B : Type) (f : A -> B) (l : list A) :
  (forall x y, In x l -> In y l -> f x = f y -> x = y) -> NoDup l -> NoDup (map f l).
Proof.
  induction l as [|a l IH]; cbn; intros Hinj Hnd; [constructor|].
  inversion Hnd as [|? ? Hn Hnd']; subst. constructor.
  - intros Hin. apply in_map_iff in Hin as [y [Hfy Hy]].
    assert (y = a) by (apply Hinj; auto). subst. contradiction.
  - apply IH; auto.
Qed.


(* later-wins lookup commutes with mapping the values *)
Lemma dlast_map_val (K : Type) (keqb : K -> K -> bool) (A V : Type) (f : A -> K) (g : A -> V)
      (l : list A) (k : K) :
  dlast keqb (map (fun x => (f x, g x)) l) k =
  match dlast keqb (map (fun x => (f x, x)) l) k with Some x => Some (g x) | None => None end.
Proof.
  induction l as [|x l IH]; cbn; [reflexivity|].
  rewrite IH. destruct (dlast keqb (map (fun x0 => (f x0, x0)) l) k); [reflexivity|].
  destruct (keqb (f x) k); reflexivity.
Qed.

Lemma dget_map_self (K : Type) (keqb : K -> K -> bool)
      (keqb_spec : forall a b, reflect (a = b) (keqb a b)) (V : Type) (items : dict K V) k :
  dget keqb (map (fun kv => (fst kv, kv)) items) k =
  match dget keqb items k with Some v => Some (k, v) | None => None end.
Proof.
  induction items as [|[a w] r IH]; cbn; [reflexivity|].
  destruct (keqb_spec a k) as [->|Hne]; [reflexivity | exact IH].
Qed.
