(* UTF-8 as CPython does it: str.encode() on scalar values, bytes.decode() strict, and
   bytes.decode("utf-8", "surrogateescape") (every byte that is not part of a valid sequence
   becomes U+DC00+byte).  Definitions and the round-trip lemma. *)
From Coq Require Import List Bool NArith ZArith Lia ZifyBool ZifyN.
From AUC Require Import Prelude.PyStr.
Import ListNotations.
Local Open Scope N_scope.
Ltac Zify.zify_post_hook ::= Z.to_euclidean_division_equations.

Definition is_scalar (c : N) : bool := (c <? 55296) || ((57344 <=? c) && (c <=? 1114111)).

Definition enc1 (c : N) : list N :=
  if c <? 128 then [c]
  else if c <? 2048 then [192 + c / 64; 128 + c mod 64]
  else if c <? 65536 then [224 + c / 4096; 128 + (c / 64) mod 64; 128 + c mod 64]
  else [240 + c / 262144; 128 + (c / 4096) mod 64; 128 + (c / 64) mod 64; 128 + c mod 64].
Definition utf8_encode (s : pystr) : list N := flat_map enc1 s.

Definition is_cont (b : N) : bool := (128 <=? b) && (b <=? 191).

Definition valid2 (b0 b1 : N) : bool := (194 <=? b0) && (b0 <=? 223) && is_cont b1.
Definition cp2 (b0 b1 : N) : N := (b0 - 192) * 64 + (b1 - 128).
Definition valid3 (b0 b1 b2 : N) : bool :=
  (224 <=? b0) && (b0 <=? 239) && is_cont b1 && is_cont b2 &&
  (if b0 =? 224 then 160 <=? b1 else true) && (if b0 =? 237 then b1 <=? 159 else true).
Definition cp3 (b0 b1 b2 : N) : N := (b0 - 224) * 4096 + (b1 - 128) * 64 + (b2 - 128).
Definition valid4 (b0 b1 b2 b3 : N) : bool :=
  (240 <=? b0) && (b0 <=? 244) && is_cont b1 && is_cont b2 && is_cont b3 &&
  (if b0 =? 240 then 144 <=? b1 else true) && (if b0 =? 244 then b1 <=? 143 else true).
Definition cp4 (b0 b1 b2 b3 : N) : N :=
  (b0 - 240) * 262144 + (b1 - 128) * 4096 + (b2 - 128) * 64 + (b3 - 128).
Definition esc (b : N) : N := 56320 + b.            (* surrogateescape *)

(* bytes.decode("utf-8", "surrogateescape"): a byte that does not start a valid sequence is escaped
   and decoding resumes at the next byte *)
Fixpoint dec_lenient (bs : list N) : pystr :=
  match bs with
  | [] => []
  | b0 :: r0 =>
      if b0 <? 128 then b0 :: dec_lenient r0 else
      match r0 with
      | b1 :: r1 =>
          if valid2 b0 b1 then cp2 b0 b1 :: dec_lenient r1 else
          match r1 with
          | b2 :: r2 =>
              if valid3 b0 b1 b2 then cp3 b0 b1 b2 :: dec_lenient r2 else
              match r2 with
              | b3 :: r3 =>
                  if valid4 b0 b1 b2 b3 then cp4 b0 b1 b2 b3 :: dec_lenient r3
                  else esc b0 :: dec_lenient r0
              | [] => esc b0 :: dec_lenient r0
              end
          | [] => esc b0 :: dec_lenient r0
          end
      | [] => esc b0 :: dec_lenient r0
      end
  end.

(* bytes.decode(): None = UnicodeDecodeError *)
Fixpoint dec_strict (bs : list N) : option pystr :=
  let cons c o := match o with Some s => Some (c :: s) | None => None end in
  match bs with
  | [] => Some []
  | b0 :: r0 =>
      if b0 <? 128 then cons b0 (dec_strict r0) else
      match r0 with
      | b1 :: r1 =>
          if valid2 b0 b1 then cons (cp2 b0 b1) (dec_strict r1) else
          match r1 with
          | b2 :: r2 =>
              if valid3 b0 b1 b2 then cons (cp3 b0 b1 b2) (dec_strict r2) else
              match r2 with
              | b3 :: r3 => if valid4 b0 b1 b2 b3 then cons (cp4 b0 b1 b2 b3) (dec_strict r3) else None
              | [] => None
              end
          | [] => None
          end
      | [] => None
      end
  end.

(* ------------------------------------------------------------------ round trip *)
Lemma dec_lenient_enc1 c rest : is_scalar c = true -> dec_lenient (enc1 c ++ rest) = c :: dec_lenient rest.
Proof.
  unfold is_scalar, enc1. intros H.
  destruct (c <? 128) eqn:E1; [cbn [app dec_lenient]; now rewrite E1|].
  destruct (c <? 2048) eqn:E2.
  - cbn [app dec_lenient]. unfold valid2, cp2, is_cont.
    replace (192 + c / 64 <? 128) with false by lia.
    replace ((194 <=? 192 + c / 64) && (192 + c / 64 <=? 223) &&
             ((128 <=? 128 + c mod 64) && (128 + c mod 64 <=? 191))) with true by lia.
    f_equal. lia.
  - destruct (c <? 65536) eqn:E3.
    + cbn [app dec_lenient]. unfold valid2, valid3, cp3, is_cont.
      replace (224 + c / 4096 <? 128) with false by lia.
      replace ((194 <=? 224 + c / 4096) && (224 + c / 4096 <=? 223) &&
               ((128 <=? 128 + (c / 64) mod 64) && (128 + (c / 64) mod 64 <=? 191))) with false by lia.
      assert (G : ((224 <=? 224 + c / 4096) && (224 + c / 4096 <=? 239) &&
                   ((128 <=? 128 + (c / 64) mod 64) && (128 + (c / 64) mod 64 <=? 191)) &&
                   ((128 <=? 128 + c mod 64) && (128 + c mod 64 <=? 191)) &&
                   (if 224 + c / 4096 =? 224 then 160 <=? 128 + (c / 64) mod 64 else true) &&
                   (if 224 + c / 4096 =? 237 then 128 + (c / 64) mod 64 <=? 159 else true)) = true).
      { destruct (224 + c / 4096 =? 224) eqn:G1; destruct (224 + c / 4096 =? 237) eqn:G2; lia. }
      rewrite G. f_equal. lia.
    + cbn [app dec_lenient]. unfold valid2, valid3, valid4, cp4, is_cont.
      replace (240 + c / 262144 <? 128) with false by lia.
      replace ((194 <=? 240 + c / 262144) && (240 + c / 262144 <=? 223) &&
               ((128 <=? 128 + (c / 4096) mod 64) && (128 + (c / 4096) mod 64 <=? 191))) with false by lia.
      assert (G3 : ((224 <=? 240 + c / 262144) && (240 + c / 262144 <=? 239) &&
                    ((128 <=? 128 + (c / 4096) mod 64) && (128 + (c / 4096) mod 64 <=? 191)) &&
                    ((128 <=? 128 + (c / 64) mod 64) && (128 + (c / 64) mod 64 <=? 191)) &&
                    (if 240 + c / 262144 =? 224 then 160 <=? 128 + (c / 4096) mod 64 else true) &&
                    (if 240 + c / 262144 =? 237 then 128 + (c / 4096) mod 64 <=? 159 else true)) = false).
      { destruct (240 + c / 262144 =? 224) eqn:G1; destruct (240 + c / 262144 =? 237) eqn:G2; lia. }
      rewrite G3.
      assert (G : ((240 <=? 240 + c / 262144) && (240 + c / 262144 <=? 244) &&
                   ((128 <=? 128 + (c / 4096) mod 64) && (128 + (c / 4096) mod 64 <=? 191)) &&
                   ((128 <=? 128 + (c / 64) mod 64) && (128 + (c / 64) mod 64 <=? 191)) &&
                   ((128 <=? 128 + c mod 64) && (128 + c mod 64 <=? 191)) &&
                   (if 240 + c / 262144 =? 240 then 144 <=? 128 + (c / 4096) mod 64 else true) &&
                   (if 240 + c / 262144 =? 244 then 128 + (c / 4096) mod 64 <=? 143 else true)) = true).
      { destruct (240 + c / 262144 =? 240) eqn:G1; destruct (240 + c / 262144 =? 244) eqn:G2; lia. }
      rewrite G. f_equal. lia.
Qed.

Theorem dec_lenient_encode s : forallb is_scalar s = true -> dec_lenient (utf8_encode s) = s.
Proof.
  induction s as [|c s IH]; cbn [utf8_encode flat_map forallb]; [reflexivity|].
  intros H. apply andb_true_iff in H as [Hc Hs]. fold (utf8_encode s).
  rewrite dec_lenient_enc1 by exact Hc. now rewrite IH.
Qed.
