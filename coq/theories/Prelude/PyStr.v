(* Python str as a list of Unicode scalar values (N); bytes as a list of N < 256. *)
From Coq Require Import List Bool NArith Lia.
Import ListNotations.
Local Open Scope N_scope.

Definition pystr := list N.

Fixpoint str_eqb (a b : pystr) : bool :=
  match a, b with
  | [], [] => true
  | x :: a', y :: b' => N.eqb x y && str_eqb a' b'
  | _, _ => false
  end.

Lemma str_eqb_spec a b : reflect (a = b) (str_eqb a b).
Proof.
  revert b. induction a as [|x a IH]; intros [|y b]; cbn; try (constructor; congruence).
  destruct (N.eqb_spec x y) as [->|Hne]; cbn.
  - destruct (IH b) as [->|Hne]; constructor; congruence.
  - constructor; congruence.
Qed.

Lemma N_eqb_spec' a b : reflect (a = b) (N.eqb a b).
Proof. apply N.eqb_spec. Qed.

(* str.lower(): exact on ASCII; other code points through [ext] (a parameter: no law assumed) *)
Definition lower_char (ext : N -> N) (c : N) : N :=
  if (65 <=? c) && (c <=? 90) then c + 32 else if c <? 128 then c else ext c.
Definition lower_with (ext : N -> N) (s : pystr) : pystr := map (lower_char ext) s.
Definition upper_char (c : N) : N := if (97 <=? c) && (c <=? 122) then c - 32 else c.

Fixpoint starts_with (p s : pystr) : bool :=
  match p, s with
  | [], _ => true
  | x :: p', y :: s' => N.eqb x y && starts_with p' s'
  | _ :: _, [] => false
  end.
