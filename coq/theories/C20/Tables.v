(* C20 — what the proofs need from the tables REGENERATED from profiles/igd.py (Gen/Igd.v), established by
   computation on the current tables.  These lemmas are where a changed alias, default alias list, action name,
   offset constant, KiB divisor or gather call breaks the build. *)
From Coq Require Import List Bool NArith ZArith QArith Arith Lia.
From AUC Require Import Prelude.PyStr Prelude.PyDict Gen.Igd C20.Vocab C20.Model C20.Spec C20.Route.
Import ListNotations.
Local Open Scope Z_scope.

(* the generated alias table says what the standard says *)
Lemma gen_table_ok : tbl_ok service_types = true.
Proof. vm_compute. reflexivity. Qed.

(* every operation has a generated row; its action is the standard one; it takes a `services` override iff it
   is a connection-level operation; its default aliases stand for exactly the action's interface family *)
Definition row_ok (o : opid) : bool :=
  match gen_row (op_method o) with
  | Some (_, any, defs, act) =>
      Bool.eqb any (op_overridable o) && str_eqb act (op_action o) &&
      same_set (flat_map (alias_types std_alias) defs) (op_family o)
  | None => false
  end.
Lemma rows_ok : forallb row_ok all_ops = true.
Proof. vm_compute. reflexivity. Qed.

Lemma all_ops_complete o : In o all_ops.
Proof. destruct o; simpl; tauto. Qed.
Lemma row_ok_all o : row_ok o = true.
Proof. pose proof rows_ok as H. rewrite forallb_forall in H. apply H, all_ops_complete. Qed.

Lemma opid_of_method_op o : opid_of_method (op_method o) = Some o.
Proof. destruct o; vm_compute; reflexivity. Qed.

(* the traffic aggregate gathers exactly the six readings, keeping exceptions *)
Lemma gather_ops_ok : gather_ops = map op_method sample_ops.
Proof. vm_compute. reflexivity. Qed.
Lemma gather_keeps_exceptions : gather_return_exceptions = true.
Proof. reflexivity. Qed.

(* the offset applied after a negative reading covers the negative half of a 32-bit counter *)
Lemma const_ok c : two31 <= counter_const c.
Proof. destruct c; apply Z.leb_le; vm_compute; reflexivity. Qed.

(* KiB scaling: divisor 1024, applied to the two byte counters only *)
Lemma kib_div : kib_divisor = 1024.
Proof. reflexivity. Qed.
Lemma kib_fact c : mem (counter_name c) kib_names = is_bytes (counter_idx c).
Proof. destruct c; vm_compute; reflexivity. Qed.

(* ------------------------------------------------------------------------------------------------ *)
(* routing of one operation against the specification's family *)
Lemma route_spec tbl sub o ov :
  tbl_ok tbl = true -> unique_types sub = true ->
  exists r, route tbl sub o ov = Some (r, op_action o) /\
            match r with
            | Some s => In s (candidates sub (spec_family o ov) (op_action o))
            | None => candidates sub (spec_family o ov) (op_action o) = []
            end.
Proof.
  intros T U. unfold route. pose proof (row_ok_all o) as R. unfold row_ok in R.
  destruct (gen_row (op_method o)) as [[[[m any] defs] act]|]; [|discriminate].
  rewrite !andb_true_iff in R. destruct R as [[R1 R2] R3].
  apply eqb_prop in R1. apply str_eqb_true in R2. subst any act.
  eexists. split; [reflexivity|].
  apply any_action_family; try assumption.
  intros t. unfold spec_family. destruct (op_overridable o).
  - destruct ov as [[|x l]|]; try reflexivity; now apply same_set_mem.
  - now apply same_set_mem.
Qed.

(* gather over the generated method list = the six readings in order *)
Fixpoint gather' (tbl : alias_table) (sub : config) (st : tstate) (rs : list resp) (os : list opid)
  : tstate * (list (N * pystr) * list (res tval)) :=
  match os with
  | [] => (st, ([], []))
  | o :: more =>
      let '(st1, (q1, v)) := run_op tbl sub st o None no_args (resp_for rs (op_action o)) in
      let '(st2, (q2, vs)) := gather' tbl sub st1 rs more in
      (st2, (q1 ++ q2, v :: vs))
  end.
Lemma gather_eq tbl sub rs os : forall st,
  gather tbl sub st rs (map op_method os) = gather' tbl sub st rs os.
Proof.
  induction os as [|o more IH]; intros st; simpl; [reflexivity|].
  rewrite opid_of_method_op.
  pose proof (row_ok_all o) as R. unfold row_ok in R.
  destruct (gen_row (op_method o)) as [[[[m any] defs] act]|]; [|discriminate].
  rewrite !andb_true_iff in R. destruct R as [[_ R2] _]. apply str_eqb_true in R2. subst act.
  destruct (run_op tbl sub st o None no_args (resp_for rs (op_action o))) as [st1 [q1 v]].
  now rewrite IH.
Qed.
