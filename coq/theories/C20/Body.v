(* C20 — what one routed operation returns: typed results, non-negative totals, state bookkeeping. *)
From Coq Require Import List Bool NArith ZArith QArith Arith Lia.
From AUC Require Import Prelude.PyStr Prelude.PyDict Gen.Igd C20.Vocab C20.Model C20.Spec C20.Route C20.Tables.
Import ListNotations.
Local Open Scope Z_scope.

Definition offs_nonneg (st : tstate) : Prop := forall c, 0 <= off st c.

Lemma typed_get d k v :
  resp_typed (ROk d) = true -> rget d k = Some v -> has_type (arg_type k) v = true.
Proof.
  unfold resp_typed, rget. rewrite andb_true_iff, forallb_forall. intros [_ H] E.
  apply (dget_In str_eqb str_eqb_spec) in E. now apply (H (k, v)).
Qed.

Ltac typed_key T E v :=
  let X := fresh "X" in
  pose proof (typed_get _ _ _ T E) as X; vm_compute in X; destruct v; try discriminate X; clear X.

(* destruct every result[...] / result.get(...) lookup of the goal, learning the value's type *)
Ltac lookups T :=
  repeat match goal with
         | |- context [rget ?d ?k] =>
             let v := fresh "v" in let E := fresh "E" in
             destruct (rget d k) as [v|] eqn:E; [typed_key T E v|]; cbn [bind fv truthy py_int negb]
         end.

Ltac finish :=
  repeat match goal with
         | |- context [if ?b then _ else _] => destruct b; cbn [bind]
         end;
  let w := fresh "w" in intros w H; first [discriminate H | (injection H as H; subst w; reflexivity)].

Lemma pure_body_typed o a d v :
  resp_typed (ROk d) = true -> op_counter o = None ->
  pure_body o a d = Ok v -> shape_ok o v = true.
Proof.
  intros T C. revert v.
  destruct o; try discriminate C; clear C;
    unfold pure_body, port_mapping_tail, ritem, if_truthy, py_ipv4, py_timedelta;
    cbn [bind]; lookups T; try finish.
  all: destruct (ca_host a); finish.
Qed.

Lemma body_typed o st a r v :
  resp_typed r = true -> snd (body o st a r) = Ok v -> shape_ok o v = true.
Proof.
  intros T. unfold body. destruct (op_counter o) as [c|] eqn:C.
  - assert (S : forall v, flat_ok is_int v = true -> shape_ok o v = true)
      by (destruct o; try discriminate C; auto).
    unfold counter_body. destruct r as [d|e]; [|discriminate].
    destruct (rget d (counter_key c)) as [[z|s|b]|]; simpl; try discriminate; intros H; injection H as H; subst v; now apply S.
  - destruct r as [d|e].
    + simpl. now apply pure_body_typed.
    + destruct o; try (simpl; discriminate).
      destruct (mem e value_error_classes); simpl; [intros H; injection H as H; subst v; reflexivity | discriminate].
Qed.

Lemma body_last o st a r :
  last (fst (body o st a r)) = last st /\ last_ts (fst (body o st a r)) = last_ts st.
Proof.
  unfold body. destruct (op_counter o) as [c|].
  - unfold counter_body. destruct r as [d|e]; [|auto].
    destruct (rget d (counter_key c)) as [[z|s|b]|]; auto.
  - destruct r as [d|e]; [auto|]. destruct o; auto. destruct (mem e value_error_classes); auto.
Qed.

Lemma body_off o st a r : offs_nonneg st -> offs_nonneg (fst (body o st a r)).
Proof.
  intros H. unfold body. destruct (op_counter o) as [c|].
  - unfold counter_body. destruct r as [d|e]; [|auto].
    destruct (rget d (counter_key c)) as [[z|s|b]|]; auto.
    simpl. intros c'. simpl. destruct (counter_eqb c' c); [|apply H].
    destruct (z <? 0); [|apply H]. pose proof (const_ok c). unfold two31 in *. lia.
  - destruct r as [d|e]; [auto|]. destruct o; auto. destruct (mem e value_error_classes); auto.
Qed.

(* reported totals are >= 0 as soon as the reading is >= -2^31 *)
Lemma body_nonneg o st a r v :
  offs_nonneg st -> call_reading_ok o r = true -> snd (body o st a r) = Ok v ->
  match op_counter o with Some _ => total_nonneg v = true | None => True end.
Proof.
  intros H R. unfold body, call_reading_ok in *. destruct (op_counter o) as [c|]; [|auto].
  unfold counter_body, reading_ok in *. destruct r as [d|e]; [|discriminate].
  destruct (rget d (counter_key c)) as [[z|s|b]|]; simpl; try discriminate; intros H'; injection H' as H'; subst v; [|reflexivity].
  simpl. apply Z.leb_le. apply Z.leb_le in R.
  destruct (z <? 0) eqn:Z0.
  - pose proof (const_ok c). unfold two31 in *. lia.
  - apply Z.ltb_ge in Z0. specialize (H c). lia.
Qed.
