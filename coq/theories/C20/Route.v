(* C20 — the alias -> service type -> service -> action lookup is sound and complete, for every alias table,
   every device tree and every alias list (induction over the lists). *)
From Coq Require Import List Bool NArith ZArith Arith Lia.
From AUC Require Import Prelude.PyStr Prelude.PyDict C20.Vocab C20.Model C20.Spec.
Import ListNotations.

Lemma str_eqb_true a b : str_eqb a b = true <-> a = b.
Proof. destruct (str_eqb_spec a b); split; intros; congruence. Qed.
Lemma str_eqb_refl a : str_eqb a a = true.
Proof. now apply str_eqb_true. Qed.

Lemma mem_In x l : mem x l = true <-> In x l.
Proof.
  unfold mem. rewrite existsb_exists. split.
  - intros (y & Hy & E). apply str_eqb_true in E. now subst.
  - intros H. exists x. split; [assumption | apply str_eqb_refl].
Qed.
Lemma mem_false x l : mem x l = false <-> ~ In x l.
Proof. rewrite <- mem_In. destruct (mem x l); split; intros; congruence. Qed.

Lemma same_set_mem a b : same_set a b = true -> forall x, mem x a = mem x b.
Proof.
  unfold same_set. rewrite andb_true_iff, !forallb_forall. intros [H1 H2] x.
  destruct (mem x a) eqn:Ea.
  - apply mem_In in Ea. symmetry. now apply H1.
  - destruct (mem x b) eqn:Eb; [|reflexivity].
    apply mem_In in Eb. apply H2 in Eb. congruence.
Qed.

Lemma mem_flat_map (f : pystr -> list pystr) x l :
  mem x (flat_map f l) = true <-> exists a, In a l /\ mem x (f a) = true.
Proof.
  rewrite mem_In, in_flat_map. split; intros (a & Ha & H); exists a; (split; [assumption|]); now apply mem_In.
Qed.

(* ------------------------------------------------------------------------------------------------ *)
(* find_service *)
Lemma find_service_sound sub t s :
  find_service sub t = Some s -> In s (offered sub) /\ s_type s = t.
Proof.
  unfold find_service. intros H. apply find_some in H. destruct H as [H1 H2].
  split; [assumption | now apply str_eqb_true].
Qed.

Lemma nodup_find (l : list service) s :
  nodup_str (map s_type l) = true -> In s l ->
  find (fun x => str_eqb (s_type x) (s_type s)) l = Some s.
Proof.
  induction l as [|y l IH]; simpl; [intros _ []|].
  rewrite andb_true_iff, negb_true_iff. intros [Hn Hd] [->|Hin].
  - now rewrite str_eqb_refl.
  - destruct (str_eqb (s_type y) (s_type s)) eqn:E.
    + apply str_eqb_true in E. apply mem_false in Hn. exfalso. apply Hn. rewrite E. now apply in_map.
    + now apply IH.
Qed.

Lemma find_service_unique sub s :
  unique_types sub = true -> In s (offered sub) -> find_service sub (s_type s) = Some s.
Proof. unfold unique_types, find_service. apply nodup_find. Qed.

(* ------------------------------------------------------------------------------------------------ *)
(* _action / _any_action *)
Lemma first_with_sound sub tys act s :
  first_with sub tys act = Some s ->
  In s (offered sub) /\ In (s_type s) tys /\ has_action s act = true.
Proof.
  induction tys as [|t r IH]; simpl; [discriminate|].
  destruct (find_service sub t) as [s'|] eqn:F.
  - destruct (has_action s' act) eqn:H.
    + intros [= <-]. apply find_service_sound in F. destruct F as [F1 F2]. auto.
    + intros E. apply IH in E. tauto.
  - intros E. apply IH in E. tauto.
Qed.

Lemma first_with_complete sub tys act s :
  unique_types sub = true -> In s (offered sub) -> In (s_type s) tys -> has_action s act = true ->
  first_with sub tys act <> None.
Proof.
  intros U Hs Ht Ha. induction tys as [|t r IH]; simpl; [destruct Ht|].
  destruct (find_service sub t) as [s'|] eqn:F.
  - destruct (has_action s' act) eqn:H; [discriminate|].
    destruct Ht as [->|Ht]; [|now apply IH].
    rewrite (find_service_unique _ _ U Hs) in F. injection F as <-. congruence.
  - destruct Ht as [->|Ht]; [|now apply IH].
    rewrite (find_service_unique _ _ U Hs) in F. discriminate.
Qed.

Lemma action_of_sound tbl sub a act s :
  action_of tbl sub a act = Some s ->
  In s (offered sub) /\ mem (s_type s) (alias_types tbl a) = true /\ has_action s act = true.
Proof.
  unfold action_of, alias_types. destruct (dget str_eqb tbl a) as [tys|]; [|discriminate].
  intros H. apply first_with_sound in H. destruct H as (H1 & H2 & H3).
  repeat split; try assumption. now apply mem_In.
Qed.

Lemma action_of_complete tbl sub a act s :
  unique_types sub = true -> In s (offered sub) -> mem (s_type s) (alias_types tbl a) = true ->
  has_action s act = true -> action_of tbl sub a act <> None.
Proof.
  unfold action_of, alias_types. intros U Hs Ht Ha.
  destruct (dget str_eqb tbl a) as [tys|]; [|simpl in Ht; discriminate Ht].
  apply mem_In in Ht. now apply first_with_complete with (s := s).
Qed.

Lemma any_action_sound tbl sub aliases act s :
  any_action tbl sub aliases act = Some s ->
  In s (offered sub) /\ has_action s act = true /\
  exists a, In a aliases /\ mem (s_type s) (alias_types tbl a) = true.
Proof.
  induction aliases as [|a r IH]; simpl; [discriminate|].
  destruct (action_of tbl sub a act) as [s'|] eqn:E.
  - intros [= <-]. apply action_of_sound in E. destruct E as (H1 & H2 & H3).
    repeat split; try assumption. exists a. auto.
  - intros H. apply IH in H. destruct H as (H1 & H2 & a' & H3 & H4).
    repeat split; try assumption. exists a'. auto.
Qed.

Lemma any_action_complete tbl sub aliases act s a :
  unique_types sub = true -> In s (offered sub) -> has_action s act = true ->
  In a aliases -> mem (s_type s) (alias_types tbl a) = true ->
  any_action tbl sub aliases act <> None.
Proof.
  intros U Hs Ha Hin Ht. induction aliases as [|a' r IH]; simpl; [destruct Hin|].
  destruct (action_of tbl sub a' act) eqn:E; [discriminate|].
  destruct Hin as [->|Hin]; [|now apply IH].
  exfalso. revert E. now apply action_of_complete with (s := s).
Qed.

(* ------------------------------------------------------------------------------------------------ *)
(* a run-time table that says what the standard says, in any set order *)
Lemma tbl_ok_types tbl :
  tbl_ok tbl = true -> forall a t, mem t (alias_types tbl a) = mem t (alias_types std_alias a).
Proof.
  unfold tbl_ok. rewrite andb_true_iff, !forallb_forall. intros [H1 H2] a t.
  unfold alias_types at 1. destruct (dget str_eqb tbl a) as [tys|] eqn:E.
  - pose proof (dget_In str_eqb str_eqb_spec _ _ E) as Hin.
    specialize (H1 _ Hin). cbn [fst snd] in H1. unfold alias_types.
    destruct (dget str_eqb std_alias a) as [stys|]; [|discriminate].
    now apply same_set_mem.
  - unfold alias_types. destruct (dget str_eqb std_alias a) as [stys|] eqn:Es; [|reflexivity].
    pose proof (dget_In str_eqb str_eqb_spec _ _ Es) as Hin.
    specialize (H2 _ Hin). cbn [fst snd] in H2. now rewrite E in H2.
Qed.

Lemma candidates_In sub fam act s :
  In s (candidates sub fam act) <->
  In s (offered sub) /\ mem (s_type s) fam = true /\ has_action s act = true.
Proof. unfold candidates. rewrite filter_In, andb_true_iff. tauto. Qed.

Lemma sent_to_In cands s : In s cands -> sent_to cands (s_url s) = true.
Proof. intros H. unfold sent_to. apply existsb_exists. exists s. split; [assumption | apply N.eqb_refl]. Qed.

(* the lookup over an alias list, against the family those aliases stand for in the standard *)
Lemma any_action_family tbl sub aliases act fam :
  tbl_ok tbl = true -> unique_types sub = true ->
  (forall t, mem t (flat_map (alias_types std_alias) aliases) = mem t fam) ->
  match any_action tbl sub aliases act with
  | Some s => In s (candidates sub fam act)
  | None => candidates sub fam act = []
  end.
Proof.
  intros T U F. destruct (any_action tbl sub aliases act) as [s|] eqn:E.
  - apply any_action_sound in E. destruct E as (H1 & H2 & a & H3 & H4).
    apply candidates_In. repeat split; try assumption.
    rewrite <- F. apply mem_flat_map. exists a. split; [assumption|].
    now rewrite <- (tbl_ok_types _ T).
  - destruct (candidates sub fam act) as [|s l] eqn:C; [reflexivity|]. exfalso.
    assert (Hs : In s (candidates sub fam act)) by (rewrite C; now left).
    apply candidates_In in Hs. destruct Hs as (H1 & H2 & H3).
    rewrite <- F in H2. apply mem_flat_map in H2. destruct H2 as (a & Ha & Hm).
    rewrite <- (tbl_ok_types _ T) in Hm.
    revert E. now apply any_action_complete with (s := s) (a := a).
Qed.
