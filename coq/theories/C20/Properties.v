(* C20 — The IGD facade reaches whichever WAN service exists; totals and rates are sane.
   Property theorems only.  `model_run` is the executable model of IgdDevice over the tables regenerated from
   profiles/igd.py; `clause_holds c` are the six executable clauses of Spec.v, the same definitions that
   Run.report evaluates on the implementation's observations; `in_domain` = the run-time alias table is the
   standard one in any set order (tbl_ok) /\ the readings of Spec.v (unique_types, clock_ok, reading_ok,
   resp_typed).  All statements quantify over every gateway configuration (any device tree, any services, any
   action subsets, any control URLs), every iteration order of the alias sets and every history of operations
   and traffic samples of any length. *)
From Coq Require Import List Bool NArith ZArith QArith.
From AUC Require Import Prelude.PyStr Prelude.PyDict Gen.Igd C20.Vocab C20.Model C20.Spec C20.Route C20.Tables
  C20.Body C20.Steps C20.Indep.
Import ListNotations.
Local Open Scope Z_scope.

(* Every request of every operation (and each of the six requests of a traffic sample) is sent to the control
   URL of a service that the gateway offers below its InternetGatewayDevice, whose type belongs to the
   action's interface family (or to the aliases the caller passed) and which defines the action; at most one
   request per operation. *)
Theorem C20_routing :
  forall i : input, in_domain i = true -> clause_holds CRouting i (model_run i) = true.
Proof. exact (clauses_hold CRouting). Qed.
Print Assumptions C20_routing.

(* 'Not available' (no request, None) is answered only when no offered service of the family defines the
   action: whenever one does, the request is made. *)
Theorem C20_not_available_only_if_none :
  forall i : input, in_domain i = true -> clause_holds CAvail i (model_run i) = true.
Proof. exact (clauses_hold CAvail). Qed.
Print Assumptions C20_not_available_only_if_none.

(* Results have the declared Python types (None, int, bool, str, the NamedTuples with IPv4Address / timedelta
   fields); the slots of an IgdState hold such a value or the exception of their own reading. *)
Theorem C20_typed_results :
  forall i : input, in_domain i = true -> clause_holds CTyped i (model_run i) = true.
Proof. exact (clauses_hold CTyped). Qed.
Print Assumptions C20_typed_results.

(* Every reported total (single counter operations and IgdState) is >= 0, for readings >= -2^31. *)
Theorem C20_totals_nonneg :
  forall i : input, in_domain i = true -> clause_holds CNonneg i (model_run i) = true.
Proof. exact (clauses_hold CNonneg). Qed.
Print Assumptions C20_totals_nonneg.

(* Each derived rate is absent exactly on the first sample, on a wrap (previous total > current) and when
   this or the previous reading is not a number, and otherwise EQUALS, as a rational number,
   (current - previous) / elapsed seconds, bytes additionally / 1024; the IgdState carries the sample's clock
   reading. *)
Theorem C20_rate_exact :
  forall i : input, in_domain i = true -> clause_holds CRateExact i (model_run i) = true.
Proof. exact (clauses_hold CRateExact). Qed.
Print Assumptions C20_rate_exact.

(* The same clause as Run.report evaluates it on the implementation's doubles: equality up to the rounding of
   three IEEE operations (relative 2^-50). *)
Theorem C20_rate_within_rounding :
  forall i : input, in_domain i = true -> clause_holds CRate i (model_run i) = true.
Proof. exact (clauses_hold CRate). Qed.
Print Assumptions C20_rate_within_rounding.

(* Each of the six slots of a sample is what ITS reading gave (value, None, or its own exception), and the
   sample as a whole raises only if all six readings failed. *)
Theorem C20_failures_isolated :
  forall i : input, in_domain i = true -> clause_holds CIsolated i (model_run i) = true.
Proof. exact (clauses_hold CIsolated). Qed.
Print Assumptions C20_failures_isolated.

(* ... stated as non-interference: two samples taken in the same facade state whose scripted answers agree
   on reading k report the same slot k, whatever the other five readings do. *)
Theorem C20_slot_noninterference :
  forall (tbl : alias_table) (sub : config) (st : tstate) (t : Z) (rs rs' : list resp) (k : nat),
    length rs = 6%nat -> length rs' = 6%nat -> (k < 6)%nat ->
    nth k rs (RRaise []) = nth k rs' (RRaise []) ->
    sample_slot tbl sub st t rs k = sample_slot tbl sub st t rs' k.
Proof. exact slot_noninterference. Qed.
Print Assumptions C20_slot_noninterference.

(* (sample_slot k is the k-th field of the IgdState whenever the sample returns one) *)
Theorem C20_slot_is_state_field :
  forall (tbl : alias_table) (sub : config) (st : tstate) (t : Z) (rs : list resp)
         (ts : Z) (slots : list tval) (rates : list orate),
    snd (snd (sample tbl sub st t rs)) = State ts slots rates -> slots = sample_values tbl sub st rs.
Proof. exact sample_state_values. Qed.
Print Assumptions C20_slot_is_state_field.

(* The lookup itself, for EVERY alias table (not only the generated one): what _any_action returns is an
   offered service of one of the aliases' types that defines the action ... *)
Theorem C20_lookup_sound :
  forall (tbl : alias_table) (sub : config) (aliases : list pystr) (act : pystr) (s : service),
    any_action tbl sub aliases act = Some s ->
    In s (offered sub) /\ has_action s act = true /\
    exists a, In a aliases /\ mem (s_type s) (alias_types tbl a) = true.
Proof. exact any_action_sound. Qed.
Print Assumptions C20_lookup_sound.

(* ... and it finds one whenever one exists (each type offered at most once). *)
Theorem C20_lookup_complete :
  forall (tbl : alias_table) (sub : config) (aliases : list pystr) (act : pystr) (s : service) (a : pystr),
    unique_types sub = true -> In s (offered sub) -> has_action s act = true ->
    In a aliases -> mem (s_type s) (alias_types tbl a) = true ->
    any_action tbl sub aliases act <> None.
Proof. exact any_action_complete. Qed.
Print Assumptions C20_lookup_complete.

(* The tables regenerated from the current source say what the standard says: the alias table; for each of
   the 22 operations the action name, whether it takes `services`, and default aliases that stand for exactly
   the action's interface family; the gather list and return_exceptions=True; offset >= 2^31; KiB = 1024. *)
Theorem C20_generated_tables :
  tbl_ok service_types = true /\ forallb row_ok all_ops = true /\
  gather_ops = map op_method sample_ops /\ gather_return_exceptions = true /\
  (forall c, two31 <= counter_const c) /\ kib_divisor = 1024.
Proof. exact (conj gen_table_ok (conj rows_ok (conj gather_ops_ok (conj gather_keeps_exceptions
                                                                      (conj const_ok kib_div))))). Qed.
Print Assumptions C20_generated_tables.

(* ------------------------------------------------------------------------------------------------ *)
(* Non-vacuity.  A PPP-only gateway (the configuration of defect D23) with the common-interface service: the
   connection-level operation is routed to the WANPPPConnection service; an action the service lacks is
   'not available'. *)
Definition ex_ppp : input :=
  mkInput std_alias
    [mkDevice 0 d_IGD1 [mkService t_L3F1 10 [a_GetDefaultConnectionService]];
     mkDevice 1 d_WAND [mkService t_CIC1 11 [a_GetTotalBytesReceived; a_GetTotalBytesSent;
                                             a_GetTotalPacketsReceived; a_GetTotalPacketsSent]];
     mkDevice 2 d_WANC [mkService t_PPP1 12 [a_GetExternalIPAddress; a_GetStatusInfo]]]
    0
    [Call OExternalIp None (mkArgs None 0 []) (ROk [(k_NewExternalIPAddress, AStr [49; 46; 50; 46; 51; 46; 52]%N)]);
     Call OForceTermination None (mkArgs None 0 []) (ROk []);
     Call OTotalBytesReceived None (mkArgs None 0 []) (ROk [(k_NewTotalBytesReceived, AInt (-531985522))])].
Example C20_ex_ppp_only :
  in_domain ex_ppp = true /\
  model_run ex_ppp =
    (None, [([(12%N, a_GetExternalIPAddress)], Ret (TF (FStr [49; 46; 50; 46; 51; 46; 52]%N)));
            ([], Ret (TF FNone));
            ([(11%N, a_GetTotalBytesReceived)], Ret (TF (FInt 1615498126)))]).
Proof. vm_compute. split; reflexivity. Qed.

(* Both WANIPConnection versions offered, only the second defines the action, set order v1 first (the
   configuration of defect D24): routed to the one that defines it. *)
Definition ex_v1v2 : input :=
  mkInput std_alias
    [mkDevice 0 d_IGD2 [];
     mkDevice 1 d_WAND [mkService t_IP1 20 [a_GetStatusInfo]; mkService t_IP2 21 [a_GetExternalIPAddress]]]
    0 [Call OExternalIp None (mkArgs None 0 []) (RRaise e_UpnpConnectionError)].
Example C20_ex_both_versions :
  in_domain ex_v1v2 = true /\
  model_run ex_v1v2 = (None, [([(21%N, a_GetExternalIPAddress)], Raised e_UpnpConnectionError)]).
Proof. vm_compute. split; reflexivity. Qed.

(* A reading series: first sample (no rates); +2048 bytes in 2 s = 1 KiB/s while another reading fails at
   the transport; then a negative 32-bit reading (offset applied, rate over the corrected totals), an unchanged
   one (rate 0), a wrapped one (absent) and the reading after a failure (absent). *)
Definition ex_ok (k : pystr) (z : Z) : resp := ROk [(k, AInt z)].
Definition ex_status : resp :=
  ROk [(k_NewConnectionStatus, AStr [85; 112]%N); (k_NewLastConnectionError, AStr []); (k_NewUptime, AInt 7)].
Definition ex_series : input :=
  mkInput std_alias
    [mkDevice 0 d_IGD1 [];
     mkDevice 1 d_WAND [mkService t_CIC1 11 [a_GetTotalBytesReceived; a_GetTotalBytesSent;
                                             a_GetTotalPacketsReceived; a_GetTotalPacketsSent]];
     mkDevice 2 d_WANC [mkService t_IP2 12 [a_GetStatusInfo]]]
    0
    [Sample 1000000 [ex_ok k_NewTotalBytesReceived 1000; ex_ok k_NewTotalBytesSent 2147483000;
                     ex_ok k_NewTotalPacketsReceived 5; ex_ok k_NewTotalPacketsSent 9; ex_status; ROk []];
     Sample 3000000 [ex_ok k_NewTotalBytesReceived 3048; ex_ok k_NewTotalBytesSent (-2147483000);
                     ex_ok k_NewTotalPacketsReceived 5; RRaise e_UpnpConnectionError;
                     RRaise e_ValueError; ROk []];
     Sample 4000000 [ex_ok k_NewTotalBytesReceived 3048; ex_ok k_NewTotalBytesSent (-2147481976);
                     ex_ok k_NewTotalPacketsReceived 1; ex_ok k_NewTotalPacketsSent 10; ex_status; ROk []]].
Example C20_ex_series :
  in_domain ex_series = true /\
  map snd (snd (model_run ex_series)) =
    [State 1000000 [TF (FInt 1000); TF (FInt 2147483000); TF (FInt 5); TF (FInt 9);
                    TTuple n_StatusInfo [FStr [85; 112]%N; FStr []; FInt 7]; TF FNone]
           [RNone; RNone; RNone; RNone];
     State 3000000 [TF (FInt 3048); TF (FInt 648); TF (FInt 5); TExc e_UpnpConnectionError;
                    TF FNone; TF FNone]
           [RSome 1 1; RNone; RSome 0 1; RNone];
     State 4000000 [TF (FInt 3048); TF (FInt 1672); TF (FInt 1); TF (FInt 10);
                    TTuple n_StatusInfo [FStr [85; 112]%N; FStr []; FInt 7]; TF FNone]
           [RSome 0 1; RSome 1 1; RNone; RNone]].
Proof. vm_compute. split; reflexivity. Qed.

(* The two defects of the unrepaired tree, as facts about its lookup (kept for the record; the model above is
   the repaired behaviour, proposed/C20/D23.diff and D24.diff).  D23: upstream's default alias list names
   "WANPPP", which the alias table does not define, so a PPP-only gateway is never reached ... *)
Example C20_d23_head_defaults_miss_ppp :
  let sub := [mkDevice 0 d_IGD1 [mkService t_PPP1 12 [a_GetExternalIPAddress]]] in
  any_action std_alias sub [al_WANIPC; [87; 65; 78; 80; 80; 80]%N] a_GetExternalIPAddress = None /\
  any_action std_alias sub [al_WANIPC; al_WANPPPC] a_GetExternalIPAddress <> None.
Proof. vm_compute. split; [reflexivity | discriminate]. Qed.
(* ... D24: upstream's _action asks only the first service version found. *)
Example C20_d24_head_action_no_fallthrough :
  let sub := [mkDevice 0 d_IGD2 [mkService t_IP1 20 [a_GetStatusInfo];
                                 mkService t_IP2 21 [a_GetExternalIPAddress]]] in
  action_of_head std_alias sub al_WANIPC a_GetExternalIPAddress = None /\
  action_of std_alias sub al_WANIPC a_GetExternalIPAddress <> None.
Proof. vm_compute. split; [reflexivity | discriminate]. Qed.
