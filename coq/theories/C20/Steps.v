(* C20 — every step of every history satisfies every clause: per-step lemmas under an invariant linking the
   facade state (offsets, _last_traffic_state) with the specification's state (previous observed sample), then
   induction over the history. *)
From Coq Require Import List Bool NArith ZArith QArith Qabs Arith Lia.
From AUC Require Import Prelude.PyStr Prelude.PyDict Gen.Igd C20.Vocab C20.Model C20.Spec C20.Route C20.Tables
  C20.Body.
Import ListNotations.
Local Open Scope Z_scope.

(* ------------------------------------------------------------------------------------------------ *)
(* one operation *)
Lemma run_op_spec tbl sub st o ov a r :
  tbl_ok tbl = true -> unique_types sub = true ->
  (candidates sub (spec_family o ov) (op_action o) = [] /\
   run_op tbl sub st o ov a r = (st, ([], Ok (TF FNone))))
  \/ (exists s, In s (candidates sub (spec_family o ov) (op_action o)) /\
                run_op tbl sub st o ov a r =
                (fst (body o st a r), ([(s_url s, op_action o)], snd (body o st a r)))).
Proof.
  intros T U. destruct (route_spec tbl sub o ov T U) as (rr & E & H). unfold run_op. rewrite E.
  destruct rr as [s|].
  - right. exists s. split; [assumption|]. destruct (body o st a r); reflexivity.
  - left. auto.
Qed.

Lemma shape_none o : shape_ok o (TF FNone) = true.
Proof. destruct o; reflexivity. Qed.

Lemma is_nil_In {A} (l : list A) x : In x l -> is_nil l = false.
Proof. destruct l; [intros []|reflexivity]. Qed.

Record Inv (st : tstate) (x : sst) : Prop := mkInv {
  inv_ts : last_ts st = p_ts x;
  inv_off : offs_nonneg st;
  inv_last : match p_tot x with
             | None => forall c, last st c = TF FNone
             | Some prev => forall c, total_of (last st c) = total_of (nth (counter_idx c) prev TOther)
             end }.

Lemma call_step_ok tbl sub st x o ov a r :
  tbl_ok tbl = true -> unique_types sub = true -> Inv st x ->
  call_reading_ok o r = true -> resp_typed r = true ->
  (forall c, step_clause c sub x (Call o ov a r) (snd (model_step tbl sub st (Call o ov a r))) = true) /\
  Inv (fst (model_step tbl sub st (Call o ov a r))) x.
Proof.
  intros T U [I1 I2 I3] R Ty. unfold model_step.
  destruct (run_op_spec tbl sub st o ov a r T U) as [[C E]|(s & Hs & E)]; rewrite E; cbn [fst snd].
  - split; [|now constructor].
    intros []; cbn [step_clause step_routing step_avail step_typed step_nonneg step_rate step_isolated
                    fst snd res_outcome length forallb]; try reflexivity.
    + now rewrite C.
    + apply shape_none.
    + now destruct (op_counter o).
  - destruct (body_last o st a r) as [L1 L2]. pose proof (body_off o st a r I2) as O.
    split.
    + intros []; cbn [step_clause step_routing step_avail step_typed step_nonneg step_rate step_isolated
                      fst snd length forallb]; try reflexivity.
      * rewrite str_eqb_refl, (sent_to_In _ _ Hs). reflexivity.
      * apply orb_true_r.
      * destruct (snd (body o st a r)) as [v|e] eqn:B; cbn [res_outcome]; [|reflexivity].
        now apply (body_typed o st a r).
      * destruct (snd (body o st a r)) as [v|e] eqn:B; cbn [res_outcome]; [|reflexivity].
        pose proof (body_nonneg o st a r v I2 R B) as N. now destruct (op_counter o).
    + constructor; [congruence | assumption | now rewrite L1].
Qed.

(* ------------------------------------------------------------------------------------------------ *)
(* one reading of a traffic sample *)
Lemma sample_family o : spec_family o None = op_family o.
Proof. unfold spec_family. now destruct (op_overridable o). Qed.

Lemma counter_key_type c : arg_type (counter_key c) = Some TyInt.
Proof. destruct c; vm_compute; reflexivity. Qed.

Lemma reading_fact tbl sub st o r :
  tbl_ok tbl = true -> unique_types sub = true -> In o sample_ops ->
  call_reading_ok o r = true -> resp_typed r = true ->
  exists st' q v,
    run_op tbl sub st o None no_args r = (st', (q, v)) /\
    last st' = last st /\ last_ts st' = last_ts st /\ (offs_nonneg st -> offs_nonneg st') /\
    ((sample_cands sub o = [] /\ q = []) \/
     (exists s, In s (sample_cands sub o) /\ q = [(s_url s, op_action o)])) /\
    slot_shape_ok o (slot_of v) = true /\
    (offs_nonneg st -> match op_counter o with
                       | Some _ => total_nonneg (slot_of v) = true
                       | None => True
                       end) /\
    slot_isolated sub o r (slot_of v) = true /\
    (is_exc (slot_of v) = true -> may_fail sub o r = true).
Proof.
  intros T U Hin R Ty.
  destruct (run_op_spec tbl sub st o None no_args r T U) as [[C E]|(s & Hs & E)];
    rewrite sample_family in *; fold (sample_cands sub o) in *; rewrite E.
  - exists st, [], (Ok (TF FNone)). repeat split; auto.
    + unfold slot_shape_ok. cbn [slot_of is_exc orb]. apply shape_none.
    + intros _. now destruct (op_counter o).
    + unfold slot_isolated. now rewrite C.
    + discriminate.
  - destruct (body_last o st no_args r) as [L1 L2].
    eexists _, _, _. split; [reflexivity|]. split; [assumption|]. split; [assumption|].
    split; [apply body_off|]. split; [right; eauto|].
    pose proof (is_nil_In _ _ Hs) as Nn.
    split; [|split; [|split]].
    + unfold slot_shape_ok. destruct (snd (body o st no_args r)) as [v|e] eqn:B; cbn [slot_of is_exc orb];
        [|reflexivity]. rewrite (body_typed o st no_args r v Ty B). apply orb_true_r.
    + intros O. destruct (snd (body o st no_args r)) as [v|e] eqn:B; cbn [slot_of].
      * pose proof (body_nonneg o st no_args r v O R B) as N. now destruct (op_counter o).
      * now destruct (op_counter o).
    + unfold slot_isolated. rewrite Nn. unfold body.
      destruct (op_counter o) as [c|] eqn:C.
      * unfold counter_body. destruct r as [d|e]; cbn [snd slot_of]; [|apply str_eqb_refl].
        destruct (rget d (counter_key c)) as [[z|s'|b]|] eqn:G; reflexivity.
      * destruct r as [d|e].
        -- cbn [snd]. destruct Hin as [<-|[<-|[<-|[<-|[<-|[<-|[]]]]]]]; try discriminate C.
           ++ unfold pure_body, ritem, status_complete.
              destruct (rget d k_NewConnectionStatus), (rget d k_NewLastConnectionError), (rget d k_NewUptime);
                reflexivity.
           ++ unfold pure_body. destruct (rget d k_NewExternalIPAddress); reflexivity.
        -- destruct Hin as [<-|[<-|[<-|[<-|[<-|[<-|[]]]]]]]; try discriminate C.
           ++ destruct (mem e value_error_classes); cbn [snd slot_of]; [reflexivity | apply str_eqb_refl].
           ++ cbn [snd slot_of]. apply str_eqb_refl.
    + unfold may_fail. rewrite Nn. cbn [negb andb]. unfold body.
      destruct (op_counter o) as [c|] eqn:C.
      * unfold counter_body. destruct r as [d|e]; cbn [snd slot_of]; [|reflexivity].
        destruct (rget d (counter_key c)) as [v|] eqn:G; [|discriminate].
        pose proof (typed_get _ _ _ Ty G) as X. rewrite counter_key_type in X.
        destruct v; try discriminate X. discriminate.
      * destruct r as [d|e]; [|reflexivity].
        cbn [snd]. destruct Hin as [<-|[<-|[<-|[<-|[<-|[<-|[]]]]]]]; try discriminate C.
        -- unfold pure_body, ritem, status_complete.
           destruct (rget d k_NewConnectionStatus), (rget d k_NewLastConnectionError), (rget d k_NewUptime);
             cbn [bind slot_of is_exc negb]; try reflexivity; discriminate.
        -- unfold pure_body. destruct (rget d k_NewExternalIPAddress); discriminate.
Qed.

(* ------------------------------------------------------------------------------------------------ *)
(* rates *)
Lemma derive_total name t cur lt lastv :
  derive name t cur lt lastv =
  match total_of cur, total_of lastv with
  | Some c, Some l =>
      if l >? c then Ok RNone
      else if t - lt =? 0 then Raise e_ZeroDivisionError
           else Ok (q_orate (Qred (Qdiv (if mem name kib_names then Qdiv ((c - l) # 1) (kib_divisor # 1)
                                         else ((c - l) # 1)) ((t - lt) # 1000000))))
  | _, _ => Ok RNone
  end.
Proof. destruct cur as [[]| | |]; destruct lastv as [[]| | |]; reflexivity. Qed.

Lemma rate_matches_refl q q' : (q == q')%Q -> rate_matches (q_orate (Qred q)) (Some q') = true.
Proof.
  intros H. unfold rate_matches, q_orate. apply Qle_bool_iff.
  assert (E : (Qnum (Qred q) # Qden (Qred q)) = Qred q) by (destruct (Qred q); reflexivity).
  rewrite E. rewrite (Qred_correct q), H.
  setoid_replace (q' - q')%Q with 0%Q by ring.
  change (Qabs 0 * (1125899906842624 # 1))%Q with (0 # 1)%Q. apply Qabs_nonneg.
Qed.

Lemma rate_equal_refl q q' : (q == q')%Q -> rate_equal (q_orate (Qred q)) (Some q') = true.
Proof.
  intros H. unfold rate_equal, q_orate. apply Qeq_bool_iff.
  assert (E : (Qnum (Qred q) # Qden (Qred q)) = Qred q) by (destruct (Qred q); reflexivity).
  rewrite E. now rewrite (Qred_correct q).
Qed.

Lemma derive_spec c t cur lt lastv x :
  lt = p_ts x -> p_ts x < t ->
  match p_tot x with
  | None => lastv = TF FNone
  | Some prev => total_of lastv = total_of (nth (counter_idx c) prev TOther)
  end ->
  exists r, derive (counter_name c) t cur lt lastv = Ok r /\
            rate_matches r (expected_rate x t (counter_idx c) cur) = true /\ rate_shape_ok r = true /\
            rate_equal r (expected_rate x t (counter_idx c) cur) = true.
Proof.
  intros -> Lt P. rewrite derive_total. unfold expected_rate.
  destruct (p_tot x) as [prev|].
  - rewrite <- P. destruct (total_of cur) as [cv|]; [|exists RNone; auto].
    destruct (total_of lastv) as [lv|]; [|exists RNone; auto].
    destruct (lv >? cv) eqn:G.
    + exists RNone. assert (lv <=? cv = false) by (apply Z.leb_gt; apply Z.gtb_lt in G; lia).
      rewrite H. auto.
    + assert (lv <=? cv = true) by (apply Z.leb_le; rewrite Z.gtb_ltb in G; apply Z.ltb_ge in G; lia).
      rewrite H. assert (t - p_ts x =? 0 = false) by (apply Z.eqb_neq; lia). rewrite H0.
      eexists. split; [reflexivity|].
      assert (QE : (Qdiv (if mem (counter_name c) kib_names then Qdiv ((cv - lv) # 1) (kib_divisor # 1)
                          else ((cv - lv) # 1)) ((t - p_ts x) # 1000000)
                    == spec_rate (cv - lv) (is_bytes (counter_idx c)) (t - p_ts x))%Q)
        by (unfold spec_rate; rewrite kib_fact, kib_div; reflexivity).
      split; [now apply rate_matches_refl|]. split; [reflexivity|]. now apply rate_equal_refl.
  - subst lastv. exists RNone. destruct (total_of cur); auto.
Qed.

Lemma is_exc_total v : is_exc v = true -> total_of v = None.
Proof. destruct v as [[]| | |]; try discriminate; reflexivity. Qed.

(* ------------------------------------------------------------------------------------------------ *)
(* requests of a sample *)
Lemma reqs_nodup (b0 b1 b2 b3 b4 b5 : bool) (u0 u1 u2 u3 u4 u5 : N) :
  nodup_str (map snd ((if b0 then [(u0, op_action OTotalBytesReceived)] else []) ++
                      (if b1 then [(u1, op_action OTotalBytesSent)] else []) ++
                      (if b2 then [(u2, op_action OTotalPacketsReceived)] else []) ++
                      (if b3 then [(u3, op_action OTotalPacketsSent)] else []) ++
                      (if b4 then [(u4, op_action OStatusInfo)] else []) ++
                      (if b5 then [(u5, op_action OExternalIp)] else []) ++ [])) = true.
Proof. destruct b0, b1, b2, b3, b4, b5; vm_compute; reflexivity. Qed.

Lemma req_ok_In sub o s :
  In o sample_ops -> In s (sample_cands sub o) -> req_ok_sample sub (s_url s, op_action o) = true.
Proof.
  intros Ho Hs. unfold req_ok_sample. apply existsb_exists. exists o. split; [assumption|].
  cbn [fst snd]. now rewrite str_eqb_refl, (sent_to_In _ _ Hs).
Qed.

Definition req_fact (sub : config) (o : opid) (q : list (N * pystr)) : Prop :=
  (sample_cands sub o = [] /\ q = []) \/ (exists s, In s (sample_cands sub o) /\ q = [(s_url s, op_action o)]).

Lemma req_fact_shape sub o q :
  req_fact sub o q -> exists b u, q = if b : bool then [(u, op_action o)] else [].
Proof. intros [[_ ->]|(s & _ & ->)]; [exists false, 0%N | exists true, (s_url s)]; reflexivity. Qed.
Lemma req_fact_ok sub o q : In o sample_ops -> req_fact sub o q -> forallb (req_ok_sample sub) q = true.
Proof.
  intros Ho [[_ ->]|(s & Hs & ->)]; [reflexivity|]. cbn [forallb]. now rewrite (req_ok_In _ _ _ Ho Hs).
Qed.
Lemma req_fact_avail sub o q reqs :
  req_fact sub o q -> incl q reqs ->
  is_nil (sample_cands sub o) || mem (op_action o) (map snd reqs) = true.
Proof.
  intros [[-> _]|(s & _ & ->)] I; [reflexivity|]. apply orb_true_iff. right. apply mem_In.
  change (op_action o) with (snd (s_url s, op_action o)). apply in_map. apply I. now left.
Qed.

Lemma incl_app6 {A : Type} (a b c d e f g : list A) :
  incl a (a ++ b ++ c ++ d ++ e ++ f ++ g) /\ incl b (a ++ b ++ c ++ d ++ e ++ f ++ g) /\
  incl c (a ++ b ++ c ++ d ++ e ++ f ++ g) /\ incl d (a ++ b ++ c ++ d ++ e ++ f ++ g) /\
  incl e (a ++ b ++ c ++ d ++ e ++ f ++ g) /\ incl f (a ++ b ++ c ++ d ++ e ++ f ++ g).
Proof. repeat split; intros z Hz; rewrite !in_app_iff; tauto. Qed.

(* ------------------------------------------------------------------------------------------------ *)
(* one traffic sample *)
Lemma resp_for_0 r0 r1 r2 r3 r4 r5 : resp_for [r0; r1; r2; r3; r4; r5] (op_action OTotalBytesReceived) = r0.
Proof. reflexivity. Qed.
Lemma resp_for_1 r0 r1 r2 r3 r4 r5 : resp_for [r0; r1; r2; r3; r4; r5] (op_action OTotalBytesSent) = r1.
Proof. reflexivity. Qed.
Lemma resp_for_2 r0 r1 r2 r3 r4 r5 : resp_for [r0; r1; r2; r3; r4; r5] (op_action OTotalPacketsReceived) = r2.
Proof. reflexivity. Qed.
Lemma resp_for_3 r0 r1 r2 r3 r4 r5 : resp_for [r0; r1; r2; r3; r4; r5] (op_action OTotalPacketsSent) = r3.
Proof. reflexivity. Qed.
Lemma resp_for_4 r0 r1 r2 r3 r4 r5 : resp_for [r0; r1; r2; r3; r4; r5] (op_action OStatusInfo) = r4.
Proof. reflexivity. Qed.
Lemma resp_for_5 r0 r1 r2 r3 r4 r5 : resp_for [r0; r1; r2; r3; r4; r5] (op_action OExternalIp) = r5.
Proof. reflexivity. Qed.

Lemma sample_step_ok tbl sub st x t rs :
  tbl_ok tbl = true -> unique_types sub = true -> Inv st x ->
  p_ts x < t -> readings_ok sample_ops rs = true ->
  (forall c, step_clause c sub x (Sample t rs) (snd (model_step tbl sub st (Sample t rs))) = true) /\
  Inv (fst (model_step tbl sub st (Sample t rs)))
      (next_sst x (Sample t rs) (snd (model_step tbl sub st (Sample t rs)))).
Proof.
  intros T U [I1 I2 I3] Lt R.
  destruct rs as [|r0 [|r1 [|r2 [|r3 [|r4 [|r5 [|]]]]]]]; cbn [readings_ok sample_ops] in R;
    rewrite ?andb_false_r in R; try discriminate R.
  rewrite !andb_true_iff in R.
  destruct R as [[R0 T0] [[R1 T1] [[R2 T2] [[R3 T3] [[R4 T4] [[R5 T5] _]]]]]].
  unfold model_step, sample. rewrite gather_ops_ok, gather_eq. unfold sample_ops. cbn [gather'].
  rewrite resp_for_0, resp_for_1, resp_for_2, resp_for_3, resp_for_4, resp_for_5.
  assert (H0 : In OTotalBytesReceived sample_ops) by (simpl; tauto).
  assert (H1 : In OTotalBytesSent sample_ops) by (simpl; tauto).
  assert (H2 : In OTotalPacketsReceived sample_ops) by (simpl; tauto).
  assert (H3 : In OTotalPacketsSent sample_ops) by (simpl; tauto).
  assert (H4 : In OStatusInfo sample_ops) by (simpl; tauto).
  assert (H5 : In OExternalIp sample_ops) by (simpl; tauto).
  destruct (reading_fact tbl sub st _ r0 T U H0 R0 T0)
    as (st1 & q0 & v0 & E0 & La0 & Lt0 & O0 & Q0 & S0 & N0 & Is0 & F0). rewrite E0.
  destruct (reading_fact tbl sub st1 _ r1 T U H1 R1 T1)
    as (st2 & q1 & v1 & E1 & La1 & Lt1 & O1 & Q1 & S1 & N1 & Is1 & F1). rewrite E1.
  destruct (reading_fact tbl sub st2 _ r2 T U H2 R2 T2)
    as (st3 & q2 & v2 & E2 & La2 & Lt2 & O2 & Q2 & S2 & N2 & Is2 & F2). rewrite E2.
  destruct (reading_fact tbl sub st3 _ r3 T U H3 R3 T3)
    as (st4 & q3 & v3 & E3 & La3 & Lt3 & O3 & Q3 & S3 & N3 & Is3 & F3). rewrite E3.
  destruct (reading_fact tbl sub st4 _ r4 T U H4 R4 T4)
    as (st5 & q4 & v4 & E4 & La4 & Lt4 & O4 & Q4 & S4 & N4 & Is4 & F4). rewrite E4.
  destruct (reading_fact tbl sub st5 _ r5 T U H5 R5 T5)
    as (st6 & q5 & v5 & E5 & La5 & Lt5 & O5 & Q5 & S5 & N5 & Is5 & F5). rewrite E5.
  clear E0 E1 E2 E3 E4 E5.
  rewrite gather_keeps_exceptions.
  assert (L6 : last st6 = last st) by congruence.
  assert (T6 : last_ts st6 = p_ts x) by congruence.
  pose proof (O0 I2) as P1. pose proof (O1 P1) as P2. pose proof (O2 P2) as P3. pose proof (O3 P3) as P4.
  pose proof (O4 P4) as P5. pose proof (O5 P5) as P6.
  specialize (N0 I2). specialize (N1 P1). specialize (N2 P2). specialize (N3 P3).
  cbn [op_counter] in N0, N1, N2, N3.
  cbn [map nth]. rewrite L6.
  assert (PL : forall c, match p_tot x with
                         | None => last st c = TF FNone
                         | Some prev => total_of (last st c) = total_of (nth (counter_idx c) prev TOther)
                         end) by (intros c; destruct (p_tot x); apply I3).
  destruct (derive_spec CBr t (slot_of v0) _ (last st CBr) x T6 Lt (PL CBr)) as (ra & Da & Ma & Sa & Xa).
  destruct (derive_spec CBs t (slot_of v1) _ (last st CBs) x T6 Lt (PL CBs)) as (rb & Db & Mb & Sb & Xb).
  destruct (derive_spec CPr t (slot_of v2) _ (last st CPr) x T6 Lt (PL CPr)) as (rc & Dc & Mc & Sc & Xc).
  destruct (derive_spec CPs t (slot_of v3) _ (last st CPs) x T6 Lt (PL CPs)) as (rd & Dd & Md & Sd & Xd).
  rewrite Da, Db, Dc, Dd. cbn [bind].
  (* the request clauses do not depend on how the sample ends *)
  set (reqs := q0 ++ q1 ++ q2 ++ q3 ++ q4 ++ q5 ++ []).
  assert (RO : nodup_str (map snd reqs) && forallb (req_ok_sample sub) reqs = true).
  { apply andb_true_iff. split.
    - destruct (req_fact_shape _ _ _ Q0) as (b0 & u0 & ->). destruct (req_fact_shape _ _ _ Q1) as (b1 & u1 & ->).
      destruct (req_fact_shape _ _ _ Q2) as (b2 & u2 & ->). destruct (req_fact_shape _ _ _ Q3) as (b3 & u3 & ->).
      destruct (req_fact_shape _ _ _ Q4) as (b4 & u4 & ->). destruct (req_fact_shape _ _ _ Q5) as (b5 & u5 & ->).
      apply reqs_nodup.
    - unfold reqs. rewrite !forallb_app.
      rewrite (req_fact_ok _ _ _ H0 Q0), (req_fact_ok _ _ _ H1 Q1), (req_fact_ok _ _ _ H2 Q2),
        (req_fact_ok _ _ _ H3 Q3), (req_fact_ok _ _ _ H4 Q4), (req_fact_ok _ _ _ H5 Q5). reflexivity. }
  assert (AV : forallb (fun op => is_nil (sample_cands sub op) || mem (op_action op) (map snd reqs))
                       sample_ops = true).
  { destruct (incl_app6 q0 q1 q2 q3 q4 q5 []) as (J0 & J1 & J2 & J3 & J4 & J5).
    unfold sample_ops. cbn [forallb]. repeat (apply andb_true_iff; split); try reflexivity.
    - exact (req_fact_avail sub _ q0 reqs Q0 J0).
    - exact (req_fact_avail sub _ q1 reqs Q1 J1).
    - exact (req_fact_avail sub _ q2 reqs Q2 J2).
    - exact (req_fact_avail sub _ q3 reqs Q3 J3).
    - exact (req_fact_avail sub _ q4 reqs Q4 J4).
    - exact (req_fact_avail sub _ q5 reqs Q5 J5). }
  destruct (forallb is_exc [slot_of v0; slot_of v1; slot_of v2; slot_of v3; slot_of v4; slot_of v5]) eqn:AE.
  - (* all six readings failed: the sample raises *)
    cbn [forallb] in AE. rewrite !andb_true_iff in AE.
    destruct AE as (A0 & A1 & A2 & A3 & A4 & A5 & _).
    set (out := match [slot_of v0; slot_of v1; slot_of v2; slot_of v3; slot_of v4; slot_of v5] with
                | TExc e :: _ => Raised e | _ => Raised e_TypeError end).
    assert (OUT : exists e, out = Raised e)
      by (unfold out; destruct (slot_of v0); eexists; reflexivity).
    destruct OUT as (e & ->). cbn [fst snd]. split.
    + intros []; cbn [step_clause step_routing step_avail step_typed step_nonneg step_rate step_isolated
                      fst snd]; try reflexivity; try assumption.
      unfold sample_ops. cbn [all_failed]. rewrite (F0 A0), (F1 A1), (F2 A2), (F3 A3), (F4 A4), (F5 A5).
      reflexivity.
    + cbn [next_sst snd]. constructor; cbn [last_ts off last p_ts p_tot]; [reflexivity | assumption |].
      intros c. destruct c; cbn [counter_idx nth failed4 total_of]; now apply is_exc_total.
  - cbn [fst snd]. split.
    + intros []; cbn [step_clause step_routing step_avail step_typed step_nonneg step_rate step_isolated
                      fst snd]; try assumption.
      * unfold sample_ops. cbn [slots_ok length forallb Nat.eqb]. rewrite S0, S1, S2, S3, S4, S5, Sa, Sb, Sc, Sd.
        reflexivity.
      * cbn [firstn forallb]. rewrite N0, N1, N2, N3. reflexivity.
      * unfold step_rate, step_rate_with. cbn [snd]. rewrite Z.eqb_refl. cbn [length Nat.eqb forallb nth andb].
        cbn [counter_idx] in Ma, Mb, Mc, Md. rewrite Ma, Mb, Mc, Md. reflexivity.
      * unfold sample_ops. cbn [slots_isolated]. rewrite Is0, Is1, Is2, Is3, Is4, Is5. reflexivity.
      * unfold step_rate_exact, step_rate_with. cbn [snd]. rewrite Z.eqb_refl.
        cbn [length Nat.eqb forallb nth andb].
        cbn [counter_idx] in Xa, Xb, Xc, Xd. rewrite Xa, Xb, Xc, Xd. reflexivity.
    + cbn [next_sst snd]. constructor; cbn [last_ts off last p_ts p_tot]; [reflexivity | assumption |].
      intros c. destruct c; reflexivity.
Qed.

(* ------------------------------------------------------------------------------------------------ *)
(* histories *)
Lemma steps_ok tbl sub c :
  tbl_ok tbl = true -> unique_types sub = true ->
  forall steps st x, Inv st x -> dom_steps (p_ts x) steps = true ->
  check_steps c sub x steps (run_steps tbl sub st steps) = true.
Proof.
  intros T U. induction steps as [|s more IH]; intros st x I D; [reflexivity|].
  cbn [run_steps]. destruct (model_step tbl sub st s) as [st' ob] eqn:M. cbn [check_steps].
  destruct s as [o ov a r|t rs]; cbn [dom_steps] in D; rewrite !andb_true_iff in D.
  - destruct D as [[D1 D2] D3].
    destruct (call_step_ok tbl sub st x o ov a r T U I D1 D2) as [C I']. rewrite M in C, I'. cbn [fst snd] in *.
    rewrite C. cbn [andb next_sst]. now apply IH.
  - destruct D as [[D1 D2] D3]. apply Z.ltb_lt in D1.
    destruct (sample_step_ok tbl sub st x t rs T U I D1 D2) as [C I']. rewrite M in C, I'. cbn [fst snd] in *.
    rewrite C. cbn [andb]. apply IH; [assumption|]. now cbn [next_sst p_ts].
Qed.

Lemma init_inv t0 : Inv (init_state t0) (mkS t0 None).
Proof. constructor; cbn; [reflexivity | intros c; reflexivity | reflexivity]. Qed.

Theorem clauses_hold c i : in_domain i = true -> clause_holds c i (model_run i) = true.
Proof.
  unfold in_domain, dom_case, clause_holds, model_run. rewrite andb_true_iff. intros [T D].
  destruct (profile_subtree device_types (i_devices i)) as [sub|]; cbn [fst snd]; [|reflexivity].
  rewrite andb_true_iff in D. destruct D as [U D].
  apply steps_ok; try assumption. apply init_inv.
Qed.
