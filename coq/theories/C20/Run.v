(* C20 — instantiation used by the correspondence check (never by a theorem). *)
From Coq Require Import List Bool NArith ZArith QArith Qabs Arith String.
From AUC Require Export Prelude.PyDict Prelude.PyStr C20.Vocab C20.Model C20.Spec.
Import ListNotations.
Local Open Scope Z_scope.

(* comparison of an implementation observation with the model's: exceptions by class name, requests of one
   step as a multiset, rates up to the rounding of the double arithmetic (relative 2^-50) *)
Definition fval_eqb (a b : fval) : bool :=
  match a, b with
  | FNone, FNone => true
  | FInt x, FInt y | FDelta x, FDelta y => Z.eqb x y
  | FBool x, FBool y => Bool.eqb x y
  | FStr x, FStr y | FIp x, FIp y => str_eqb x y
  | _, _ => false
  end.
Fixpoint list_eqb {A : Type} (f : A -> A -> bool) (a b : list A) : bool :=
  match a, b with
  | [], [] => true
  | x :: a', y :: b' => f x y && list_eqb f a' b'
  | _, _ => false
  end.
Definition tval_eqb (a b : tval) : bool :=
  match a, b with
  | TF x, TF y => fval_eqb x y
  | TTuple n x, TTuple m y => str_eqb n m && list_eqb fval_eqb x y
  | TExc x, TExc y => str_eqb x y
  | _, _ => false          (* TOther never matches *)
  end.
Definition rate_close (m i : orate) : bool :=
  match m, i with
  | RNone, RNone => true
  | RSome n d, RSome n' d' => rate_matches (RSome n' d') (Some (n # d))
  | _, _ => false
  end.
Definition outcome_eqb (m i : outcome) : bool :=
  match m, i with
  | Ret x, Ret y => tval_eqb x y
  | Raised x, Raised y => str_eqb x y
  | State t s r, State t' s' r' => Z.eqb t t' && list_eqb tval_eqb s s' && list_eqb rate_close r r'
  | _, _ => false
  end.
Definition req_eqb (a b : N * pystr) : bool := N.eqb (fst a) (fst b) && str_eqb (snd a) (snd b).
Fixpoint remove1 (x : N * pystr) (l : list (N * pystr)) : option (list (N * pystr)) :=
  match l with
  | [] => None
  | y :: r => if req_eqb x y then Some r
              else match remove1 x r with Some r' => Some (y :: r') | None => None end
  end.
Fixpoint perm_eqb (a b : list (N * pystr)) : bool :=
  match a with
  | [] => is_nil b
  | x :: r => match remove1 x b with Some b' => perm_eqb r b' | None => false end
  end.
Definition sobs_eqb (m i : sobs) : bool := perm_eqb (fst m) (fst i) && outcome_eqb (snd m) (snd i).

Fixpoint first_diff (n : N) (a b : list sobs) : option N :=
  match a, b with
  | [], [] => None
  | x :: a', y :: b' => if sobs_eqb x y then first_diff (N.succ n) a' b' else Some n
  | _, _ => Some n
  end.
Definition obs_diff (m i : observation) : option N :=
  match fst m, fst i with
  | None, None => first_diff 0 (snd m) (snd i)
  | Some x, Some y => if str_eqb x y && is_nil (snd i) then None else Some 901%N
  | _, _ => Some 901%N
  end.

(* position of the first step at which clause c fails (the number of steps if only the lengths differ) *)
Fixpoint first_fail (c : clause) (sub : config) (x : sst) (steps : list step) (obs : list sobs) (n : N) : N :=
  match steps, obs with
  | s :: r, o :: ro => if step_clause c sub x s o then first_fail c sub (next_sst x s o) r ro (N.succ n) else n
  | _, _ => n
  end.
Definition fail_pos (c : clause) (i : input) (obs : observation) : N :=
  match profile_subtree Gen.Igd.device_types (i_devices i) with
  | Some sub => first_fail c sub (mkS (i_t0 i) None) (i_steps i) (snd obs) 0
  | None => 0%N
  end.

(* (case index, kind, detail).  kind 0: the model's observation differs from the implementation's (detail =
   first differing step; 900 = the run-time alias table is not the standard one, so no theorem covers the
   case; 901 = the constructor outcome differs).  kind c in 1..6: clause c of Spec fails on the
   IMPLEMENTATION's observation, evaluated whenever the case satisfies dom_case (detail = first failing step). *)
Fixpoint report (base : N) (cases : list (input * observation)) : list (N * N * N) :=
  match cases with
  | [] => []
  | (i, o) :: r =>
      (if tbl_ok (i_tbl i) then [] else [(base, 0%N, 900%N)]) ++
      (match obs_diff (model_run i) o with Some p => [(base, 0%N, p)] | None => [] end) ++
      (if dom_case i
       then map (fun c => (base, clause_id c, fail_pos c i o))
                (filter (fun c => negb (clause_holds c i o)) all_clauses)
       else []) ++
      report (N.succ base) r
  end.

Definition replay (c : input * observation) :=
  (model_run (fst c),
   ("model differs from implementation at"%string, obs_diff (model_run (fst c)) (snd c)),
   ("clauses failing on the implementation"%string, spec_fails (fst c) (snd c)),
   ("clauses failing on the model"%string, spec_fails (fst c) (model_run (fst c))),
   ("dom_case, tbl_ok"%string, dom_case (fst c), tbl_ok (i_tbl (fst c)))).
