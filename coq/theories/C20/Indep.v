(* C20 — failures are isolated, as non-interference: the value the traffic aggregate collects for reading k
   depends only on the facade state and on the answer to reading k, not on the other five answers. *)
From Coq Require Import List Bool NArith ZArith QArith Arith Lia.
From AUC Require Import Prelude.PyStr Prelude.PyDict Gen.Igd C20.Vocab C20.Model C20.Spec C20.Route C20.Tables.
Import ListNotations.
Local Open Scope Z_scope.

(* the six values gathered by async_get_traffic_and_status_data (exceptions kept as values); they are the
   first six fields of the IgdState whenever the sample returns one (sample_state_values) *)
Definition sample_values (tbl : alias_table) (sub : config) (st : tstate) (rs : list resp) : list tval :=
  map slot_of (snd (snd (gather tbl sub st rs gather_ops))).
Definition sample_slot (tbl : alias_table) (sub : config) (st : tstate) (t : Z) (rs : list resp) (k : nat)
  : tval := nth k (sample_values tbl sub st rs) TOther.

Lemma sample_state_values tbl sub st t rs ts slots rates :
  snd (snd (sample tbl sub st t rs)) = State ts slots rates -> slots = sample_values tbl sub st rs.
Proof.
  unfold sample, sample_values.
  destruct (gather tbl sub st rs gather_ops) as [st1 [reqs vs]]. cbn [snd].
  destruct (if gather_return_exceptions then None else first_raise vs); [discriminate|].
  match goal with |- context [match ?r with Ok _ => _ | Raise _ => _ end] => destruct r end;
    [|discriminate].
  destruct (forallb is_exc (map slot_of vs)).
  - cbn [snd]. destruct (map slot_of vs) as [|[]]; discriminate.
  - cbn [snd]. intros [= _ <- _]. reflexivity.
Qed.

(* an operation reads and writes only its own counter's offset *)
Lemma body_off_other o st a r c :
  op_counter o <> Some c -> off (fst (body o st a r)) c = off st c.
Proof.
  intros H. unfold body. destruct (op_counter o) as [c'|].
  - unfold counter_body. destruct r as [d|e]; [|reflexivity].
    destruct (rget d (counter_key c')) as [[z|s|b]|]; try reflexivity.
    cbn [fst set_off off]. destruct (counter_eqb c c') eqn:E; [|reflexivity].
    exfalso. apply H. f_equal. destruct c, c'; try discriminate E; reflexivity.
  - destruct r as [d|e]; [reflexivity|]. destruct o; try reflexivity.
    destruct (mem e value_error_classes); reflexivity.
Qed.

Lemma body_value_dep o st st' a r :
  (forall c, op_counter o = Some c -> off st c = off st' c) ->
  snd (body o st a r) = snd (body o st' a r).
Proof.
  intros H. unfold body. destruct (op_counter o) as [c|].
  - unfold counter_body. destruct r as [d|e]; [|reflexivity].
    destruct (rget d (counter_key c)) as [[z|s|b]|]; try reflexivity.
    cbn [snd]. now rewrite (H c eq_refl).
  - destruct r as [d|e]; [reflexivity|]. destruct o; try reflexivity.
    destruct (mem e value_error_classes); reflexivity.
Qed.

Lemma run_op_off_other tbl sub st o ov a r c :
  op_counter o <> Some c -> off (fst (run_op tbl sub st o ov a r)) c = off st c.
Proof.
  intros H. unfold run_op. destruct (route tbl sub o ov) as [[[s|] act]|]; try reflexivity.
  pose proof (body_off_other o st a r c H) as B. destruct (body o st a r). exact B.
Qed.

Lemma run_op_value_dep tbl sub st st' o ov a r :
  (forall c, op_counter o = Some c -> off st c = off st' c) ->
  snd (snd (run_op tbl sub st o ov a r)) = snd (snd (run_op tbl sub st' o ov a r)).
Proof.
  intros H. unfold run_op. destruct (route tbl sub o ov) as [[[s|] act]|]; try reflexivity.
  pose proof (body_value_dep o st st' a r H) as B.
  destruct (body o st a r), (body o st' a r). exact B.
Qed.

(* gather over any list of operations in which the k-th one shares its counter with no other *)
Lemma gather'_nth tbl sub rs rs' : forall os k st st',
  (k < length os)%nat ->
  resp_for rs (op_action (nth k os OExternalIp)) = resp_for rs' (op_action (nth k os OExternalIp)) ->
  (forall c, op_counter (nth k os OExternalIp) = Some c -> off st c = off st' c) ->
  (forall j c, j <> k -> op_counter (nth k os OExternalIp) = Some c ->
               op_counter (nth j os OExternalIp) <> Some c) ->
  nth k (snd (snd (gather' tbl sub st rs os))) (Raise []) =
  nth k (snd (snd (gather' tbl sub st' rs' os))) (Raise []).
Proof.
  induction os as [|o more IH]; intros k st st' Hk R O D; [simpl in Hk; lia|].
  cbn [gather'].
  destruct (run_op tbl sub st o None no_args (resp_for rs (op_action o))) as [st1 [q1 v1]] eqn:E1.
  destruct (run_op tbl sub st' o None no_args (resp_for rs' (op_action o))) as [st1' [q1' v1']] eqn:E1'.
  destruct (gather' tbl sub st1 rs more) as [st2 [q2 vs]] eqn:G.
  destruct (gather' tbl sub st1' rs' more) as [st2' [q2' vs']] eqn:G'.
  cbn [snd]. destruct k as [|k].
  - cbn [nth] in *. rewrite <- R in E1'.
    pose proof (run_op_value_dep tbl sub st st' o None no_args (resp_for rs (op_action o)) O) as V.
    rewrite E1, E1' in V. exact V.
  - cbn [nth] in *. specialize (IH k st1 st1').
    rewrite G, G' in IH. cbn [snd] in IH. apply IH.
    + simpl in Hk. lia.
    + exact R.
    + intros c Hc.
      assert (N : op_counter o <> Some c) by (apply (D 0%nat c); [lia | exact Hc]).
      pose proof (run_op_off_other tbl sub st o None no_args (resp_for rs (op_action o)) c N) as A.
      pose proof (run_op_off_other tbl sub st' o None no_args (resp_for rs' (op_action o)) c N) as B.
      rewrite E1 in A. rewrite E1' in B. cbn [fst] in A, B. rewrite A, B. now apply O.
    + intros j c Hj Hc. apply (D (S j) c); [lia | exact Hc].
Qed.

Lemma sample_ops_distinct k j c :
  j <> k -> op_counter (nth k sample_ops OExternalIp) = Some c ->
  op_counter (nth j sample_ops OExternalIp) <> Some c.
Proof.
  intros Hj.
  do 7 (destruct k as [|k]; [do 7 (destruct j as [|j]; [first [congruence | cbn; congruence]|]);
                              cbn; destruct j; congruence|]).
  cbn. destruct k; discriminate.
Qed.

Theorem slot_noninterference (tbl : alias_table) (sub : config) (st : tstate) (t : Z) (rs rs' : list resp)
        (k : nat) :
  length rs = 6%nat -> length rs' = 6%nat -> (k < 6)%nat ->
  nth k rs (RRaise []) = nth k rs' (RRaise []) ->
  sample_slot tbl sub st t rs k = sample_slot tbl sub st t rs' k.
Proof.
  intros L L' Hk E. unfold sample_slot, sample_values. rewrite gather_ops_ok, !gather_eq.
  assert (M : forall (l : list (res tval)), nth k (map slot_of l) TOther = slot_of (nth k l (Raise [])) \/
                                             (length l <= k)%nat).
  { intros l. destruct (Nat.lt_ge_cases k (length l)) as [H|H]; [left|right; exact H].
    rewrite (nth_indep _ TOther (slot_of (Raise [])) ) by (now rewrite map_length). apply map_nth. }
  assert (G : nth k (snd (snd (gather' tbl sub st rs sample_ops))) (Raise []) =
              nth k (snd (snd (gather' tbl sub st rs' sample_ops))) (Raise [])).
  { apply gather'_nth.
    - exact Hk.
    - destruct rs as [|r0 [|r1 [|r2 [|r3 [|r4 [|r5 [|]]]]]]]; try discriminate L.
      destruct rs' as [|s0 [|s1 [|s2 [|s3 [|s4 [|s5 [|]]]]]]]; try discriminate L'.
      do 6 (destruct k as [|k]; [exact E|]). lia.
    - reflexivity.
    - intros j c. apply sample_ops_distinct. }
  assert (Len : forall rs0, length (snd (snd (gather' tbl sub st rs0 sample_ops))) = 6%nat).
  { intros rs0. unfold sample_ops. cbn [gather'].
    repeat match goal with |- context [run_op ?a ?b ?c ?d ?e ?f ?g] => destruct (run_op a b c d e f g) as [? [? ?]] end.
    reflexivity. }
  destruct (M (snd (snd (gather' tbl sub st rs sample_ops)))) as [A|A]; [|rewrite Len in A; lia].
  destruct (M (snd (snd (gather' tbl sub st rs' sample_ops)))) as [B|B]; [|rewrite Len in B; lia].
  rewrite A, B, G. reflexivity.
Qed.
