(* C20 — executable model of async_upnp_client/profiles/igd.py (IgdDevice) and of the alias -> service
   -> action lookup of profiles/profile.py (UpnpProfileDevice.__init__/_service/_action).  Definitions only.

   Boundary.  Below the facade sits UpnpAction.async_call (C06/C07): here it is the function that, for one
   routed request, either returns the mapping of typed out-arguments (`ROk`) or raises an exception of a given
   class (`RRaise`); which of the two happens is an input (the device's answer).  The device tree is the
   UpnpDevice tree in preorder with depths (all_devices order); UpnpDevice keys services by type per device and
   embedded devices by type per parent, so the trees the harness renders have those keys distinct.

   The tables (alias table in source order, per-operation default aliases and action, the counter offset
   constant, the KiB divisor, the gather list, which classes `except ValueError` catches) come from Gen/Igd.v,
   regenerated from the source on every check.  The run-time iteration order of the alias sets is an input. *)
From Coq Require Import List Bool NArith ZArith QArith Arith.
From AUC Require Import Prelude.PyStr Prelude.PyDict Gen.Igd C20.Vocab.
Import ListNotations.
Local Open Scope Z_scope.

(* ------------------------------------------------------------------------------------------------ *)
(* exceptions as class names *)
Definition exn := pystr.
Inductive res (A : Type) : Type := Ok (a : A) | Raise (e : exn).
Arguments Ok {A} a.
Arguments Raise {A} e.
Definition bind {A B : Type} (r : res A) (f : A -> res B) : res B :=
  match r with Ok a => f a | Raise e => Raise e end.
Notation "'do' x <- r ; k" := (bind r (fun x => k)) (at level 200, x name, r at level 100, k at level 200).

Definition mem (x : pystr) (l : list pystr) : bool := existsb (str_eqb x) l.
Definition is_nil {A : Type} (l : list A) : bool := match l with [] => true | _ => false end.

(* ------------------------------------------------------------------------------------------------ *)
(* the gateway *)
Record service := mkService { s_type : pystr; s_url : N; s_actions : list pystr }.
Record device := mkDevice { d_depth : nat; d_type : pystr; d_services : list service }.
Definition config := list device.     (* preorder, root first *)

(* find_device_of_type(device, DEVICE_TYPES): first device of all_devices with a listed type; its subtree is
   the contiguous preorder block of deeper devices that follows it *)
Fixpoint take_subtree (d : nat) (rest : config) : config :=
  match rest with
  | x :: r => if Nat.ltb d (d_depth x) then x :: take_subtree d r else []
  | [] => []
  end.
Fixpoint profile_subtree (dts : list pystr) (c : config) : option config :=
  match c with
  | [] => None
  | x :: r => if mem (d_type x) dts then Some (x :: take_subtree (d_depth x) r) else profile_subtree dts r
  end.
Definition offered (sub : config) : list service := flat_map d_services sub.

(* UpnpDevice.find_service: own services, then the embedded devices depth first = first hit in preorder *)
Definition find_service (sub : config) (ty : pystr) : option service :=
  find (fun s => str_eqb (s_type s) ty) (offered sub).
Definition has_action (s : service) (a : pystr) : bool := mem a (s_actions s).

(* UpnpProfileDevice._action (as repaired by proposed/C20/D24.diff): the first service type of the alias, in
   the set's iteration order, whose service exists AND defines the action *)
Definition alias_table := list (pystr * list pystr).
Fixpoint first_with (sub : config) (tys : list pystr) (act : pystr) : option service :=
  match tys with
  | [] => None
  | t :: r => match find_service sub t with
              | Some s => if has_action s act then Some s else first_with sub r act
              | None => first_with sub r act
              end
  end.
Definition action_of (tbl : alias_table) (sub : config) (alias act : pystr) : option service :=
  match dget str_eqb tbl alias with
  | None => None
  | Some tys => first_with sub tys act
  end.
(* IgdDevice._any_action *)
Fixpoint any_action (tbl : alias_table) (sub : config) (aliases : list pystr) (act : pystr) : option service :=
  match aliases with
  | [] => None
  | a :: r => match action_of tbl sub a act with Some s => Some s | None => any_action tbl sub r act end
  end.

(* the unrepaired lookup (upstream HEAD): _service picks the first type whose service exists, _action gives up
   if that one service lacks the action.  Kept only to state the D24 refutation. *)
Fixpoint first_found (sub : config) (tys : list pystr) : option service :=
  match tys with
  | [] => None
  | t :: r => match find_service sub t with Some s => Some s | None => first_found sub r end
  end.
Definition action_of_head (tbl : alias_table) (sub : config) (alias act : pystr) : option service :=
  match dget str_eqb tbl alias with
  | None => None
  | Some tys => match first_found sub tys with
                | Some s => if has_action s act then Some s else None
                | None => None
                end
  end.

(* ------------------------------------------------------------------------------------------------ *)
(* operations *)
Inductive opid :=
| OTotalBytesReceived | OTotalBytesSent | OTotalPacketsReceived | OTotalPacketsSent
| OGetEnabledForInternet | OSetEnabledForInternet | OCommonLinkProperties
| OExternalIp | OGenericPortMapping | OSpecificPortMapping | OAddPortMapping | ODeletePortMapping
| OConnectionTypeInfo | OSetConnectionType | ORequestConnection | ORequestTermination | OForceTermination
| OStatusInfo | OPortMappingNumberOfEntries | ONatRsipStatus
| OGetDefaultConnectionService | OSetDefaultConnectionService.

Definition op_method (o : opid) : pystr :=
  match o with
  | OTotalBytesReceived => m_async_get_total_bytes_received
  | OTotalBytesSent => m_async_get_total_bytes_sent
  | OTotalPacketsReceived => m_async_get_total_packets_received
  | OTotalPacketsSent => m_async_get_total_packets_sent
  | OGetEnabledForInternet => m_async_get_enabled_for_internet
  | OSetEnabledForInternet => m_async_set_enabled_for_internet
  | OCommonLinkProperties => m_async_get_common_link_properties
  | OExternalIp => m_async_get_external_ip_address
  | OGenericPortMapping => m_async_get_generic_port_mapping_entry
  | OSpecificPortMapping => m_async_get_specific_port_mapping_entry
  | OAddPortMapping => m_async_add_port_mapping
  | ODeletePortMapping => m_async_delete_port_mapping
  | OConnectionTypeInfo => m_async_get_connection_type_info
  | OSetConnectionType => m_async_set_connection_type
  | ORequestConnection => m_async_request_connection
  | ORequestTermination => m_async_request_termination
  | OForceTermination => m_async_force_termination
  | OStatusInfo => m_async_get_status_info
  | OPortMappingNumberOfEntries => m_async_get_port_mapping_number_of_entries
  | ONatRsipStatus => m_async_get_nat_rsip_status
  | OGetDefaultConnectionService => m_async_get_default_connection_service
  | OSetDefaultConnectionService => m_async_set_default_connection_service
  end.
Definition all_ops : list opid :=
  [OTotalBytesReceived; OTotalBytesSent; OTotalPacketsReceived; OTotalPacketsSent; OGetEnabledForInternet;
   OSetEnabledForInternet; OCommonLinkProperties; OExternalIp; OGenericPortMapping; OSpecificPortMapping;
   OAddPortMapping; ODeletePortMapping; OConnectionTypeInfo; OSetConnectionType; ORequestConnection;
   ORequestTermination; OForceTermination; OStatusInfo; OPortMappingNumberOfEntries; ONatRsipStatus;
   OGetDefaultConnectionService; OSetDefaultConnectionService].

(* the generated row of a method: (method, _any_action over `services`?, default aliases, action) *)
Definition row := (pystr * bool * list pystr * pystr)%type.
Definition gen_row (m : pystr) : option row := find (fun r : row => str_eqb (fst (fst (fst r))) m) ops.
Definition opid_of_method (m : pystr) : option opid := find (fun o => str_eqb (op_method o) m) all_ops.

(* `services = services or [...]`: an empty override is falsy *)
Definition route (tbl : alias_table) (sub : config) (o : opid) (ov : option (list pystr))
  : option (option service * pystr) :=
  match gen_row (op_method o) with
  | None => None
  | Some (_, is_any, defaults, act) =>
      let aliases := if is_any then match ov with Some (x :: l) => x :: l | _ => defaults end else defaults in
      Some (any_action tbl sub aliases act, act)
  end.

(* ------------------------------------------------------------------------------------------------ *)
(* values *)
Inductive aval := AInt (z : Z) | AStr (s : pystr) | ABool (b : bool).      (* a decoded out-argument *)
Inductive resp := ROk (args : list (pystr * aval)) | RRaise (e : exn).    (* what async_call does *)

Inductive fval := FNone | FInt (z : Z) | FBool (b : bool) | FStr (s : pystr) | FIp (s : pystr) | FDelta (z : Z).
Inductive tval := TF (v : fval) | TTuple (n : pystr) (f : list fval) | TExc (e : exn) | TOther.
Inductive orate := RNone | RSome (n : Z) (d : positive) | ROther.
Inductive outcome :=
| Ret (v : tval)
| Raised (e : exn)
| State (ts : Z) (slots : list tval) (rates : list orate).

Definition rget (d : list (pystr * aval)) (k : pystr) : option aval := dget str_eqb d k.      (* result.get(k) *)
Definition ritem (d : list (pystr * aval)) (k : pystr) : res aval :=                            (* result[k] *)
  match rget d k with Some v => Ok v | None => Raise e_KeyError end.
Definition fv (v : aval) : fval := match v with AInt z => FInt z | AStr s => FStr s | ABool b => FBool b end.
Definition truthy (v : aval) : bool :=
  match v with AInt z => negb (z =? 0) | AStr s => negb (is_nil s) | ABool b => b end.
Definition b2z (b : bool) : Z := if b then 1 else 0.
(* int(x): exact on int/bool; a str operand does not occur for the standard SCPD types (approximated) *)
Definition py_int (v : aval) : res Z :=
  match v with AInt z => Ok z | ABool b => Ok (b2z b) | AStr _ => Raise e_ValueError end.

(* ipaddress.IPv4Address(str): dotted quad, 1-3 ASCII digits per octet, no leading zero, <= 255 *)
Definition is_digit (c : N) : bool := ((48 <=? c) && (c <=? 57))%N.
Fixpoint split_dot (s cur : pystr) : list pystr :=
  match s with
  | [] => [rev cur]
  | c :: r => if (c =? 46)%N then rev cur :: split_dot r [] else split_dot r (c :: cur)
  end.
Definition dec_value (p : pystr) : N := fold_left (fun acc c => (acc * 10 + (c - 48))%N) p 0%N.
Definition octet_ok (p : pystr) : bool :=
  negb (is_nil p) && forallb is_digit p && Nat.leb (length p) 3 &&
  match p with 48%N :: _ :: _ => false | _ => true end && (dec_value p <=? 255)%N.
Definition ipv4_ok (s : pystr) : bool :=
  let ps := split_dot s [] in Nat.eqb (length ps) 4 && forallb octet_ok ps.
Definition py_ipv4 (v : aval) : res fval :=
  match v with
  | AStr s => if ipv4_ok s then Ok (FIp s) else Raise e_AddressValueError
  | _ => Raise e_AddressValueError
  end.
(* timedelta(seconds=n): |days| <= 999999999 *)
Definition py_timedelta (v : aval) : res fval :=
  match v with
  | AInt z => if (z >? 86399999999999) || (z <? -86399999913600) then Raise e_OverflowError else Ok (FDelta z)
  | ABool b => Ok (FDelta (b2z b))
  | AStr _ => Raise e_TypeError
  end.
(* `f(result[k]) if result.get(k) else None` *)
Definition if_truthy (d : list (pystr * aval)) (k : pystr) (f : aval -> res fval) : res fval :=
  match rget d k with
  | Some v => if truthy v then f v else Ok FNone
  | None => Ok FNone
  end.

(* ------------------------------------------------------------------------------------------------ *)
(* facade state: the four offsets and _last_traffic_state *)
Inductive counter := CBr | CBs | CPr | CPs.
Definition counter_eqb (a b : counter) : bool :=
  match a, b with CBr, CBr | CBs, CBs | CPr, CPr | CPs, CPs => true | _, _ => false end.
Definition all_counters := [CBr; CBs; CPr; CPs].
Definition counter_op (c : counter) : opid :=
  match c with CBr => OTotalBytesReceived | CBs => OTotalBytesSent
          | CPr => OTotalPacketsReceived | CPs => OTotalPacketsSent end.
Definition counter_key (c : counter) : pystr :=
  match c with CBr => k_NewTotalBytesReceived | CBs => k_NewTotalBytesSent
          | CPr => k_NewTotalPacketsReceived | CPs => k_NewTotalPacketsSent end.
Definition counter_name (c : counter) : pystr :=      (* value_name handed to _derive_value_per_second *)
  match c with CBr => v_bytes_received | CBs => v_bytes_sent
          | CPr => v_packets_received | CPs => v_packets_sent end.
Definition counter_idx (c : counter) : nat := match c with CBr => 0 | CBs => 1 | CPr => 2 | CPs => 3 end%nat.
(* `self._offset_x = <const>` of the counter's method *)
Definition counter_const (c : counter) : Z :=
  match dget str_eqb counter_offsets (op_method (counter_op c)) with Some z => z | None => 0 end.

Record tstate := mkT { off : counter -> Z; last_ts : Z; last : counter -> tval }.
Definition init_state (t0 : Z) : tstate :=
  {| off := fun _ => 0; last_ts := t0; last := fun _ => TF FNone |}.
Definition set_off (st : tstate) (c : counter) (z : Z) : tstate :=
  {| off := fun c' => if counter_eqb c' c then z else off st c'; last_ts := last_ts st; last := last st |}.

(* async_get_total_*: after the request was routed *)
Definition counter_body (c : counter) (st : tstate) (r : resp) : tstate * res tval :=
  match r with
  | RRaise e => (st, Raise e)
  | ROk d =>
      match rget d (counter_key c) with
      | None => (st, Ok (TF FNone))
      | Some (AInt z) =>
          let o := if z <? 0 then counter_const c else off st c in
          (set_off st c o, Ok (TF (FInt (z + o))))
      | Some _ => (st, Raise e_TypeError)      (* not an int: does not occur for the standard SCPD types *)
      end
  end.

Record cargs := mkArgs { ca_host : option pystr; ca_port : Z; ca_proto : pystr }.

Definition port_mapping_tail (d : list (pystr * aval)) (f0 f1 f2 : fval) : res tval :=
  do ip <- ritem d k_NewInternalPort;
  do ic <- (do v <- ritem d k_NewInternalClient; py_ipv4 v);
  do en <- ritem d k_NewEnabled;
  do ds <- ritem d k_NewPortMappingDescription;
  do ld <- if_truthy d k_NewLeaseDuration py_timedelta;
  Ok (TTuple n_PortMappingEntry [f0; f1; f2; fv ip; ic; fv en; fv ds; ld]).

(* the part of an operation after `action.async_call(...)` was awaited *)
Definition pure_body (o : opid) (a : cargs) (d : list (pystr * aval)) : res tval :=
  match o with
  | OGetEnabledForInternet =>
      Ok (match rget d k_NewEnabledForInternet with Some v => TF (fv v) | None => TF FNone end)
  | OCommonLinkProperties =>
      do w <- ritem d k_NewWANAccessType;
      do u <- (do v <- ritem d k_NewLayer1UpstreamMaxBitRate; py_int v);
      do dn <- (do v <- ritem d k_NewLayer1DownstreamMaxBitRate; py_int v);
      do p <- ritem d k_NewPhysicalLinkStatus;
      Ok (TTuple n_CommonLinkProperties [fv w; FInt u; FInt dn; fv p])
  | OExternalIp =>
      Ok (match rget d k_NewExternalIPAddress with Some v => TF (fv v) | None => TF FNone end)
  | OGenericPortMapping =>
      do rh <- if_truthy d k_NewRemoteHost py_ipv4;
      do ep <- ritem d k_NewExternalPort;
      do pr <- ritem d k_NewProtocol;
      port_mapping_tail d rh (fv ep) (fv pr)
  | OSpecificPortMapping =>
      port_mapping_tail d (match ca_host a with Some h => FIp h | None => FNone end)
                        (FInt (ca_port a)) (FStr (ca_proto a))
  | OConnectionTypeInfo =>
      do c <- ritem d k_NewConnectionType;
      do p <- ritem d k_NewPossibleConnectionTypes;
      Ok (TTuple n_ConnectionTypeInfo [fv c; fv p])
  | OStatusInfo =>
      do c <- ritem d k_NewConnectionStatus;
      do l <- ritem d k_NewLastConnectionError;
      do u <- ritem d k_NewUptime;
      Ok (TTuple n_StatusInfo [fv c; fv l; fv u])
  | OPortMappingNumberOfEntries =>
      match rget d k_NewPortMappingNumberOfEntries with
      | None => Ok (TF FNone)
      | Some v => do z <- py_int v; Ok (TF (FInt z))
      end
  | ONatRsipStatus =>
      do n <- ritem d k_NewNATEnabled;
      do r <- ritem d k_NewRSIPAvailable;
      Ok (TTuple n_NatRsipStatusInfo [fv n; fv r])
  | OGetDefaultConnectionService =>
      Ok (match rget d k_NewDefaultConnectionService with Some v => TF (fv v) | None => TF FNone end)
  | _ => Ok (TF FNone)      (* the setters / requests return None *)
  end.

Definition op_counter (o : opid) : option counter :=
  match o with
  | OTotalBytesReceived => Some CBr | OTotalBytesSent => Some CBs
  | OTotalPacketsReceived => Some CPr | OTotalPacketsSent => Some CPs
  | _ => None
  end.

Definition body (o : opid) (st : tstate) (a : cargs) (r : resp) : tstate * res tval :=
  match op_counter o with
  | Some c => counter_body c st r
  | None =>
      match r with
      | RRaise e =>
          (* async_get_status_info: `except ValueError: return None` *)
          match o with
          | OStatusInfo => if mem e value_error_classes then (st, Ok (TF FNone)) else (st, Raise e)
          | _ => (st, Raise e)
          end
      | ROk d => (st, pure_body o a d)
      end
  end.

Definition res_outcome (r : res tval) : outcome := match r with Ok v => Ret v | Raise e => Raised e end.

(* one operation: route, send one request, build the result *)
Definition run_op (tbl : alias_table) (sub : config) (st : tstate) (o : opid) (ov : option (list pystr))
           (a : cargs) (r : resp) : tstate * (list (N * pystr) * res tval) :=
  match route tbl sub o ov with
  | None => (st, ([], Raise e_ModelError))            (* no generated row for the method *)
  | Some (None, _) => (st, ([], Ok (TF FNone)))       (* 'not available' *)
  | Some (Some s, act) => let '(st', out) := body o st a r in (st', ([(s_url s, act)], out))
  end.

(* ------------------------------------------------------------------------------------------------ *)
(* async_get_traffic_and_status_data *)
Definition sample_actions : list pystr :=
  [a_GetTotalBytesReceived; a_GetTotalBytesSent; a_GetTotalPacketsReceived; a_GetTotalPacketsSent;
   a_GetStatusInfo; a_GetExternalIPAddress].
Fixpoint index_of (x : pystr) (l : list pystr) : nat :=
  match l with [] => 0%nat | y :: r => if str_eqb x y then 0%nat else S (index_of x r) end.
(* the scripted answer to the request for action `act` (an unscripted request fails at the transport) *)
Definition resp_for (rs : list resp) (act : pystr) : resp :=
  nth (index_of act sample_actions) rs (RRaise e_UpnpConnectionError).
Definition no_args : cargs := mkArgs None 0 [].

(* asyncio.gather over the listed coroutine methods, in order; every one runs to completion *)
Fixpoint gather (tbl : alias_table) (sub : config) (st : tstate) (rs : list resp) (ms : list pystr)
  : tstate * (list (N * pystr) * list (res tval)) :=
  match ms with
  | [] => (st, ([], []))
  | m :: more =>
      match opid_of_method m with
      | None => let '(st', (q, vs)) := gather tbl sub st rs more in (st', (q, Raise e_ModelError :: vs))
      | Some o =>
          let act := match gen_row m with Some (_, _, _, a) => a | None => [] end in
          let '(st1, (q1, v)) := run_op tbl sub st o None no_args (resp_for rs act) in
          let '(st2, (q2, vs)) := gather tbl sub st1 rs more in
          (st2, (q1 ++ q2, v :: vs))
      end
  end.

Definition slot_of (r : res tval) : tval := match r with Ok v => v | Raise e => TExc e end.
Definition is_exc (v : tval) : bool := match v with TExc _ => true | _ => false end.
Fixpoint first_raise (vs : list (res tval)) : option exn :=
  match vs with [] => None | Raise e :: _ => Some e | Ok _ :: r => first_raise r end.

Definition q_orate (q : Q) : orate := RSome (Qnum q) (Qden q).
(* _derive_value_per_second *)
Definition derive (name : pystr) (t : Z) (cur : tval) (lt : Z) (lastv : tval) : res orate :=
  match cur, lastv with
  | TF (FInt c), TF (FInt l) =>
      if l >? c then Ok RNone
      else let dt := t - lt in
           if dt =? 0 then Raise e_ZeroDivisionError
           else let dv := if mem name kib_names then Qdiv ((c - l) # 1) (kib_divisor # 1) else ((c - l) # 1) in
                Ok (q_orate (Qred (Qdiv dv (dt # 1000000))))
  | _, _ => Ok RNone
  end.

Definition sample (tbl : alias_table) (sub : config) (st : tstate) (t : Z) (rs : list resp)
  : tstate * (list (N * pystr) * outcome) :=
  let '(st1, (reqs, vs)) := gather tbl sub st rs gather_ops in
  match (if gather_return_exceptions then None else first_raise vs) with
  | Some e => (st1, (reqs, Raised e))                  (* gather without return_exceptions *)
  | None =>
      let values := map slot_of vs in
      let v (n : nat) := nth n values TOther in
      let rates :=
        do r0 <- derive (counter_name CBr) t (v 0%nat) (last_ts st1) (last st1 CBr);
        do r1 <- derive (counter_name CBs) t (v 1%nat) (last_ts st1) (last st1 CBs);
        do r2 <- derive (counter_name CPr) t (v 2%nat) (last_ts st1) (last st1 CPr);
        do r3 <- derive (counter_name CPs) t (v 3%nat) (last_ts st1) (last st1 CPs);
        Ok [r0; r1; r2; r3] in
      match rates with
      | Raise e => (st1, (reqs, Raised e))
      | Ok rl =>
          let st2 := {| off := off st1; last_ts := t; last := fun c => v (counter_idx c) |} in
          if forallb is_exc values
          then (st2, (reqs, match values with TExc e :: _ => Raised e | _ => Raised e_TypeError end))
          else (st2, (reqs, State t values rl))
      end
  end.

(* ------------------------------------------------------------------------------------------------ *)
(* histories *)
Inductive step :=
| Call (o : opid) (ov : option (list pystr)) (a : cargs) (r : resp)
| Sample (t : Z) (rs : list resp).
Record input := mkInput { i_tbl : alias_table; i_devices : config; i_t0 : Z; i_steps : list step }.
Definition sobs := (list (N * pystr) * outcome)%type.
Definition observation := (option exn * list sobs)%type.

Definition model_step (tbl : alias_table) (sub : config) (st : tstate) (s : step) : tstate * sobs :=
  match s with
  | Call o ov a r => let '(st', (q, out)) := run_op tbl sub st o ov a r in (st', (q, res_outcome out))
  | Sample t rs => sample tbl sub st t rs
  end.
Fixpoint run_steps (tbl : alias_table) (sub : config) (st : tstate) (steps : list step) : list sobs :=
  match steps with
  | [] => []
  | s :: r => let '(st', o) := model_step tbl sub st s in o :: run_steps tbl sub st' r
  end.

(* IgdDevice(device, event_handler) then the history *)
Definition model_run (i : input) : observation :=
  match profile_subtree device_types (i_devices i) with
  | None => (Some e_UpnpError, [])
  | Some sub => (None, run_steps (i_tbl i) sub (init_state (i_t0 i)) (i_steps i))
  end.
