(* C20 — the specification.  Six clauses, each an executable boolean over (input, observation); the same
   definitions are evaluated on the IMPLEMENTATION's observations by Run.report and are what the theorems of
   Properties.v state about the model.

   Standard tables (from the UPnP IGD:1/IGD:2 device templates, NOT from the source):
     - which service types form an interface family, which family defines which action;
     - the documented alias names of IgdDevice (what a caller may pass as `services=`).
   Readings (each a named definition below):
     unique_types   a configuration offers each service type at most once in the gateway's device tree
                    ("all subsets of {…} placed on the root or an embedded WAN device")
     clock_ok       the clock readings of successive samples strictly increase (elapsed time > 0)
     reading_ok     counter readings are >= -2^31 ("negative 32-bit")
     resp_typed     a successful response carries out-arguments of the standard SCPD types, each at most once *)
From Coq Require Import List Bool NArith ZArith QArith Qabs Arith.
From AUC Require Import Prelude.PyStr Prelude.PyDict C20.Vocab C20.Model.
Import ListNotations.
Local Open Scope Z_scope.

(* ------------------------------------------------------------------------------------------------ *)
(* standard tables *)
Definition std_alias : alias_table :=
  [(al_WANPPPC, [t_PPP1]); (al_WANIPC, [t_IP1; t_IP2]); (al_WANCIC, [t_CIC1]); (al_L3FWD, [t_L3F1])].
Definition fam_conn : list pystr := [t_IP1; t_IP2; t_PPP1].     (* WAN*Connection *)
Definition fam_cic : list pystr := [t_CIC1].
Definition fam_l3f : list pystr := [t_L3F1].

(* the UPnP action an IgdDevice operation stands for, and the interface family that defines it *)
Definition op_action (o : opid) : pystr :=
  match o with
  | OTotalBytesReceived => a_GetTotalBytesReceived | OTotalBytesSent => a_GetTotalBytesSent
  | OTotalPacketsReceived => a_GetTotalPacketsReceived | OTotalPacketsSent => a_GetTotalPacketsSent
  | OGetEnabledForInternet => a_GetEnabledForInternet | OSetEnabledForInternet => a_SetEnabledForInternet
  | OCommonLinkProperties => a_GetCommonLinkProperties
  | OExternalIp => a_GetExternalIPAddress
  | OGenericPortMapping => a_GetGenericPortMappingEntry | OSpecificPortMapping => a_GetSpecificPortMappingEntry
  | OAddPortMapping => a_AddPortMapping | ODeletePortMapping => a_DeletePortMapping
  | OConnectionTypeInfo => a_GetConnectionTypeInfo | OSetConnectionType => a_SetConnectionType
  | ORequestConnection => a_RequestConnection | ORequestTermination => a_RequestTermination
  | OForceTermination => a_ForceTermination
  | OStatusInfo => a_GetStatusInfo | OPortMappingNumberOfEntries => a_GetPortMappingNumberOfEntries
  | ONatRsipStatus => a_GetNATRSIPStatus
  | OGetDefaultConnectionService => a_GetDefaultConnectionService
  | OSetDefaultConnectionService => a_SetDefaultConnectionService
  end.
Definition op_family (o : opid) : list pystr :=
  match o with
  | OTotalBytesReceived | OTotalBytesSent | OTotalPacketsReceived | OTotalPacketsSent
  | OGetEnabledForInternet | OSetEnabledForInternet | OCommonLinkProperties => fam_cic
  | OGetDefaultConnectionService | OSetDefaultConnectionService => fam_l3f
  | _ => fam_conn
  end.
(* the connection-level operations take a `services` alias list *)
Definition op_overridable (o : opid) : bool :=
  match o with
  | OExternalIp | OGenericPortMapping | OSpecificPortMapping | OAddPortMapping | ODeletePortMapping
  | OConnectionTypeInfo | OSetConnectionType | ORequestConnection | ORequestTermination | OForceTermination
  | OStatusInfo | OPortMappingNumberOfEntries | ONatRsipStatus => true
  | _ => false
  end.

Definition alias_types (tbl : alias_table) (a : pystr) : list pystr :=
  match dget str_eqb tbl a with Some tys => tys | None => [] end.
Definition spec_family (o : opid) (ov : option (list pystr)) : list pystr :=
  if op_overridable o
  then match ov with Some (x :: l) => flat_map (alias_types std_alias) (x :: l) | _ => op_family o end
  else op_family o.

(* the offered services of the family that define the action *)
Definition candidates (sub : config) (fam : list pystr) (act : pystr) : list service :=
  filter (fun s => mem (s_type s) fam && has_action s act) (offered sub).
Definition sent_to (cands : list service) (u : N) : bool := existsb (fun s => N.eqb (s_url s) u) cands.

(* the six readings of a traffic sample *)
Definition sample_ops : list opid :=
  [OTotalBytesReceived; OTotalBytesSent; OTotalPacketsReceived; OTotalPacketsSent; OStatusInfo; OExternalIp].
Definition sample_cands (sub : config) (o : opid) : list service :=
  candidates sub (op_family o) (op_action o).

(* ------------------------------------------------------------------------------------------------ *)
(* clause 1 — routing: every request goes to an offered service of the right family that defines the action,
   at most one request per operation *)
Fixpoint nodup_str (l : list pystr) : bool :=
  match l with [] => true | x :: r => negb (mem x r) && nodup_str r end.
Definition req_ok_sample (sub : config) (q : N * pystr) : bool :=
  existsb (fun o => str_eqb (snd q) (op_action o) && sent_to (sample_cands sub o) (fst q)) sample_ops.
Definition step_routing (sub : config) (s : step) (o : sobs) : bool :=
  match s with
  | Call op ov _ _ =>
      Nat.leb (length (fst o)) 1 &&
      forallb (fun q => str_eqb (snd q) (op_action op) &&
                        sent_to (candidates sub (spec_family op ov) (op_action op)) (fst q)) (fst o)
  | Sample _ _ => nodup_str (map snd (fst o)) && forallb (req_ok_sample sub) (fst o)
  end.

(* clause 2 — 'not available' only if none: when an offered service of the family defines the action, the
   request is made *)
Definition step_avail (sub : config) (s : step) (o : sobs) : bool :=
  match s with
  | Call op ov _ _ =>
      is_nil (candidates sub (spec_family op ov) (op_action op)) || negb (is_nil (fst o))
  | Sample _ _ =>
      forallb (fun op => is_nil (sample_cands sub op) || mem (op_action op) (map snd (fst o))) sample_ops
  end.

(* clause 3 — typed results *)
Definition opt (p : fval -> bool) (v : fval) : bool := match v with FNone => true | _ => p v end.
Definition is_int v := match v with FInt _ => true | _ => false end.
Definition is_str v := match v with FStr _ => true | _ => false end.
Definition is_bool v := match v with FBool _ => true | _ => false end.
Definition is_ip v := match v with FIp _ => true | _ => false end.
Definition is_delta v := match v with FDelta _ => true | _ => false end.
Fixpoint fields_ok (ps : list (fval -> bool)) (fs : list fval) : bool :=
  match ps, fs with
  | [], [] => true
  | p :: pr, f :: fr => p f && fields_ok pr fr
  | _, _ => false
  end.
Definition tuple_ok (name : pystr) (ps : list (fval -> bool)) (v : tval) : bool :=
  match v with
  | TF FNone => true
  | TTuple n fs => str_eqb n name && fields_ok ps fs
  | _ => false
  end.
Definition flat_ok (p : fval -> bool) (v : tval) : bool := match v with TF f => opt p f | _ => false end.
Definition shape_ok (o : opid) (v : tval) : bool :=
  match o with
  | OTotalBytesReceived | OTotalBytesSent | OTotalPacketsReceived | OTotalPacketsSent => flat_ok is_int v
  | OGetEnabledForInternet => flat_ok is_bool v
  | OCommonLinkProperties => tuple_ok n_CommonLinkProperties [is_str; is_int; is_int; is_str] v
  | OExternalIp => flat_ok is_str v
  | OGenericPortMapping | OSpecificPortMapping =>
      tuple_ok n_PortMappingEntry
               [opt is_ip; is_int; is_str; is_int; is_ip; is_bool; is_str; opt is_delta] v
  | OConnectionTypeInfo => tuple_ok n_ConnectionTypeInfo [is_str; is_str] v
  | OStatusInfo => tuple_ok n_StatusInfo [is_str; is_str; is_int] v
  | OPortMappingNumberOfEntries => flat_ok is_int v
  | ONatRsipStatus => tuple_ok n_NatRsipStatusInfo [is_bool; is_bool] v
  | OGetDefaultConnectionService => flat_ok is_str v
  | _ => match v with TF FNone => true | _ => false end
  end.
Definition slot_shape_ok (o : opid) (v : tval) : bool := is_exc v || shape_ok o v.
Fixpoint slots_ok (os : list opid) (vs : list tval) : bool :=
  match os, vs with
  | [], [] => true
  | o :: orr, v :: vr => slot_shape_ok o v && slots_ok orr vr
  | _, _ => false
  end.
Definition rate_shape_ok (r : orate) : bool := match r with ROther => false | _ => true end.
Definition step_typed (s : step) (o : sobs) : bool :=
  match s, snd o with
  | Call op _ _ _, Ret v => shape_ok op v
  | Call _ _ _ _, Raised _ => true
  | Call _ _ _ _, State _ _ _ => false
  | Sample _ _, State _ slots rates =>
      slots_ok sample_ops slots && Nat.eqb (length rates) 4 && forallb rate_shape_ok rates
  | Sample _ _, Raised _ => true
  | Sample _ _, Ret _ => false
  end.

(* clause 4 — reported totals are non-negative *)
Definition total_nonneg (v : tval) : bool := match v with TF (FInt z) => 0 <=? z | _ => true end.
Definition step_nonneg (s : step) (o : sobs) : bool :=
  match s, snd o with
  | Call op _ _ _, Ret v => match op_counter op with Some _ => total_nonneg v | None => true end
  | Sample _ _, State _ slots _ => forallb total_nonneg (firstn 4 slots)
  | _, _ => true
  end.

(* clause 5 — rates: absent on the first sample, on a wrap, when this or the previous reading is not a
   number; otherwise the non-negative difference over the elapsed seconds (bytes in KiB).  The specification
   state is the previous sample as OBSERVED: its clock reading and its four totals. *)
Record sst := mkS { p_ts : Z; p_tot : option (list tval) }.
Definition failed4 : list tval := [TExc []; TExc []; TExc []; TExc []].
Definition next_sst (x : sst) (s : step) (o : sobs) : sst :=
  match s with
  | Call _ _ _ _ => x
  | Sample t _ =>
      mkS t (Some (match snd o with
                   | State _ slots _ => firstn 4 slots
                   | _ => failed4          (* the sample raised: all six readings failed *)
                   end))
  end.
Definition total_of (v : tval) : option Z := match v with TF (FInt z) => Some z | _ => None end.
Definition is_bytes (k : nat) : bool := Nat.ltb k 2.
Definition spec_rate (delta : Z) (bytes : bool) (dt_us : Z) : Q :=
  Qdiv (if bytes then Qdiv (delta # 1) (1024 # 1) else (delta # 1)) (dt_us # 1000000).
Definition expected_rate (x : sst) (t : Z) (k : nat) (cur : tval) : option Q :=
  match p_tot x with
  | None => None
  | Some prev =>
      match total_of cur, total_of (nth k prev TOther) with
      | Some c, Some l => if l <=? c then Some (spec_rate (c - l) (is_bytes k) (t - p_ts x)) else None
      | _, _ => None
      end
  end.
(* equality up to the rounding of three IEEE double operations (exact on the model) *)
Definition rate_matches (r : orate) (e : option Q) : bool :=
  match r, e with
  | RNone, None => true
  | RSome n d, Some q => Qle_bool (Qabs (Qminus (n # d) q) * (1125899906842624 # 1)) (Qabs q)
  | _, _ => false
  end.
(* exact equality of rationals: what the model satisfies (a double cannot) *)
Definition rate_equal (r : orate) (e : option Q) : bool :=
  match r, e with
  | RNone, None => true
  | RSome n d, Some q => Qeq_bool (n # d) q
  | _, _ => false
  end.
Definition step_rate_with (m : orate -> option Q -> bool) (x : sst) (s : step) (o : sobs) : bool :=
  match s, snd o with
  | Sample t _, State ts slots rates =>
      Z.eqb ts t &&
      Nat.eqb (length rates) 4 &&
      forallb (fun k => m (nth k rates ROther) (expected_rate x t k (nth k slots TOther))) [0; 1; 2; 3]%nat
  | _, _ => true
  end.
Definition step_rate := step_rate_with rate_matches.
Definition step_rate_exact := step_rate_with rate_equal.

(* clause 6 — a failing reading does not hide the others: every slot of the sample is what ITS reading gave;
   the sample as a whole fails only if all six readings failed *)
Definition status_complete (d : list (pystr * aval)) : bool :=
  match rget d k_NewConnectionStatus, rget d k_NewLastConnectionError, rget d k_NewUptime with
  | Some _, Some _, Some _ => true
  | _, _, _ => false
  end.
Definition slot_isolated (sub : config) (op : opid) (r : resp) (v : tval) : bool :=
  if is_nil (sample_cands sub op) then match v with TF FNone => true | _ => false end
  else match r with
       | RRaise e =>
           match v with
           | TExc e' => str_eqb e e'
           | TF FNone => match op with OStatusInfo => true | _ => false end   (* unparsable status = absent *)
           | _ => false
           end
       | ROk d =>
           match op_counter op with
           | Some c => match rget d (counter_key c) with
                       | Some (AInt _) => match v with TF (FInt _) => true | _ => false end
                       | Some _ => true
                       | None => match v with TF FNone => true | _ => false end
                       end
           | None =>
               match op with
               | OStatusInfo => negb (is_exc v) || negb (status_complete d)   (* complete answers never fail *)
               | _ => negb (is_exc v)
               end
           end
       end.
Fixpoint slots_isolated (sub : config) (os : list opid) (rs : list resp) (vs : list tval) : bool :=
  match os, rs, vs with
  | [], [], [] => true
  | o :: orr, r :: rr, v :: vr => slot_isolated sub o r v && slots_isolated sub orr rr vr
  | _, _, _ => false
  end.
(* a reading that can fail: the request is made and is answered by an error, or (status) incompletely *)
Definition may_fail (sub : config) (op : opid) (r : resp) : bool :=
  negb (is_nil (sample_cands sub op)) &&
  match r with
  | RRaise _ => true
  | ROk d => match op with OStatusInfo => negb (status_complete d) | _ => false end
  end.
Fixpoint all_failed (sub : config) (os : list opid) (rs : list resp) : bool :=
  match os, rs with
  | [], [] => true
  | o :: orr, r :: rr => may_fail sub o r && all_failed sub orr rr
  | _, _ => false
  end.
Definition step_isolated (sub : config) (s : step) (o : sobs) : bool :=
  match s, snd o with
  | Sample _ rs, State _ slots _ => slots_isolated sub sample_ops rs slots
  | Sample _ rs, Raised _ => all_failed sub sample_ops rs
  | Sample _ _, Ret _ => false
  | _, _ => true
  end.

(* ------------------------------------------------------------------------------------------------ *)
Inductive clause := CRouting | CAvail | CTyped | CNonneg | CRate | CIsolated | CRateExact.
Definition clause_id (c : clause) : N :=
  match c with CRouting => 1 | CAvail => 2 | CTyped => 3 | CNonneg => 4 | CRate => 5 | CIsolated => 6
          | CRateExact => 7 end%N.
(* the clauses evaluated on implementation observations (CRateExact is for the model only) *)
Definition all_clauses := [CRouting; CAvail; CTyped; CNonneg; CRate; CIsolated].

Definition step_clause (c : clause) (sub : config) (x : sst) (s : step) (o : sobs) : bool :=
  match c with
  | CRouting => step_routing sub s o
  | CAvail => step_avail sub s o
  | CTyped => step_typed s o
  | CNonneg => step_nonneg s o
  | CRate => step_rate x s o
  | CIsolated => step_isolated sub s o
  | CRateExact => step_rate_exact x s o
  end.
Fixpoint check_steps (c : clause) (sub : config) (x : sst) (steps : list step) (obs : list sobs) : bool :=
  match steps, obs with
  | [], [] => true
  | s :: r, o :: ro => step_clause c sub x s o && check_steps c sub (next_sst x s o) r ro
  | _, _ => false
  end.
(* the profile exists iff the tree contains an InternetGatewayDevice; then every step is observed *)
Definition clause_holds (c : clause) (i : input) (obs : observation) : bool :=
  match profile_subtree Gen.Igd.device_types (i_devices i) with
  | None => match fst obs with Some _ => is_nil (snd obs) | None => false end
  | Some sub =>
      match fst obs with
      | None => check_steps c sub (mkS (i_t0 i) None) (i_steps i) (snd obs)
      | Some _ => false
      end
  end.

(* ------------------------------------------------------------------------------------------------ *)
(* domain *)
Inductive aty := TyInt | TyStr | TyBool.
Definition arg_type (k : pystr) : option aty :=
  dget str_eqb
    [(k_NewConnectionType, TyStr); (k_NewPossibleConnectionTypes, TyStr); (k_NewConnectionStatus, TyStr);
     (k_NewLastConnectionError, TyStr); (k_NewUptime, TyInt); (k_NewRSIPAvailable, TyBool);
     (k_NewNATEnabled, TyBool); (k_NewRemoteHost, TyStr); (k_NewExternalPort, TyInt); (k_NewProtocol, TyStr);
     (k_NewInternalPort, TyInt); (k_NewInternalClient, TyStr); (k_NewEnabled, TyBool);
     (k_NewPortMappingDescription, TyStr); (k_NewLeaseDuration, TyInt); (k_NewExternalIPAddress, TyStr);
     (k_NewPortMappingNumberOfEntries, TyInt); (k_NewEnabledForInternet, TyBool); (k_NewWANAccessType, TyStr);
     (k_NewLayer1UpstreamMaxBitRate, TyInt); (k_NewLayer1DownstreamMaxBitRate, TyInt);
     (k_NewPhysicalLinkStatus, TyStr); (k_NewTotalBytesSent, TyInt); (k_NewTotalBytesReceived, TyInt);
     (k_NewTotalPacketsSent, TyInt); (k_NewTotalPacketsReceived, TyInt);
     (k_NewDefaultConnectionService, TyStr)] k.
Definition has_type (t : option aty) (v : aval) : bool :=
  match t, v with
  | Some TyInt, AInt _ | Some TyStr, AStr _ | Some TyBool, ABool _ => true
  | _, _ => false
  end.
Definition resp_typed (r : resp) : bool :=
  match r with
  | RRaise _ => true
  | ROk d => nodup_str (map fst d) && forallb (fun kv => has_type (arg_type (fst kv)) (snd kv)) d
  end.
Definition two31 : Z := 2147483648.
Definition reading_ok (c : counter) (r : resp) : bool :=
  match r with
  | ROk d => match rget d (counter_key c) with Some (AInt z) => - two31 <=? z | _ => true end
  | RRaise _ => true
  end.
Definition call_reading_ok (o : opid) (r : resp) : bool :=
  match op_counter o with Some c => reading_ok c r | None => true end.
Fixpoint readings_ok (os : list opid) (rs : list resp) : bool :=
  match os, rs with
  | [], [] => true
  | o :: orr, r :: rr => call_reading_ok o r && resp_typed r && readings_ok orr rr
  | _, _ => false            (* exactly six scripted readings *)
  end.
(* clock_ok: threaded over the input only *)
Fixpoint dom_steps (pt : Z) (steps : list step) : bool :=
  match steps with
  | [] => true
  | Call o _ _ r :: more => call_reading_ok o r && resp_typed r && dom_steps pt more
  | Sample t rs :: more => (pt <? t) && readings_ok sample_ops rs && dom_steps t more
  end.
Definition unique_types (sub : config) : bool := nodup_str (map s_type (offered sub)).

(* the run-time alias table says what the standard says, whatever the iteration order of its sets *)
Definition same_set (a b : list pystr) : bool := forallb (fun x => mem x b) a && forallb (fun x => mem x a) b.
Definition tbl_ok (tbl : alias_table) : bool :=
  forallb (fun kv => match dget str_eqb std_alias (fst kv) with
                     | Some stys => same_set (snd kv) stys
                     | None => false
                     end) tbl &&
  forallb (fun kv => match dget str_eqb tbl (fst kv) with
                     | Some tys => same_set tys (snd kv)
                     | None => false
                     end) std_alias.

(* what the clauses are evaluated under (a property of the input's gateway and history) ... *)
Definition dom_case (i : input) : bool :=
  match profile_subtree Gen.Igd.device_types (i_devices i) with
  | None => true
  | Some sub => unique_types sub && dom_steps (i_t0 i) (i_steps i)
  end.
(* ... and the hypothesis of the theorems *)
Definition in_domain (i : input) : bool := tbl_ok (i_tbl i) && dom_case i.

Definition spec_fails (i : input) (obs : observation) : list N :=
  map clause_id (filter (fun c => negb (clause_holds c i obs)) all_clauses).
