(* C13 — executable model of the SSDP side of async_upnp_client/server.py (with the repairs proposed
   in proposed/C13/D7.diff and D8.diff applied):
     client.py   UpnpDevice.__init__ (dicts keyed by type), all_devices, all_services, get_devices_matching_udn
     server.py   SsdpSearchResponder._on_data, _build_responses, _match_type_versions, _matched_*_by_type,
                 _build_response*, _send_responses; _build_advertisements;
                 SsdpAdvertisementAnnouncer.async_start, _announce_next, async_stop, _send_byebyes
     ssdp.py     build_ssdp_packet is represented by the header-item list it joins (the wire text is C01's)
   and of what the library's own listener does with an emitted message (composition with the C03 model).
   The event loop is reduced to what the two components use: call_at / call_later timers that fire at their
   due time on a clock the history advances.  randrange is modelled by its range law
   (lo + pick mod (hi - lo), ValueError when hi <= lo) with `pick` supplied by the history.
   Header names, constants and value slots come from Gen/Server.v.  Definitions only. *)
From Coq Require Import List Bool NArith ZArith.
From AUC Require Import Prelude.PyStr Prelude.PyDict C16.Model C08.Model C03.Model C03.Spec Gen.Server Gen.Ssdp.
Import ListNotations.
Local Open Scope N_scope.

(* ------------------------------------------------------------------ strings *)
(* str.lower() on the non-ASCII code points the generators use (exact on ASCII) *)
Definition slower_ext (c : N) : N :=
  match c with 201 => 233 | 214 => 246 | 1046 => 1078 | 913 => 945 | _ => c end.
Definition slower : pystr -> pystr := lower_with slower_ext.

(* s.rsplit(":", 1) unpacked into two names: None = ValueError (no colon) *)
Fixpoint rsplit_colon (s : pystr) : option (pystr * pystr) :=
  match s with
  | [] => None
  | c :: r =>
      match rsplit_colon r with
      | Some (a, b) => Some (c :: a, b)
      | None => if c =? 58 then Some ([], r) else None
      end
  end.

(* range(m + 1) *)
Definition range0 (m : Z) : list Z := map Z.of_nat (seq 0 (Z.to_nat (m + 1))).

(* SsdpSearchResponder._match_type_versions(type_ver, search_target) *)
Definition match_type_versions (type_ver target : pystr) : bool :=
  let tl := slower type_ver in
  match rsplit_colon tl with
  | Some (base, max_ver) =>
      match int_of_str max_ver with
      | Ok m => existsb (fun v => str_eqb (base ++ [58] ++ str_of_int v) target) (range0 m)
      | Raise _ => str_eqb tl target
      end
  | None => str_eqb tl target
  end.

(* ------------------------------------------------------------------ the device tree *)
Inductive dev := Dev (udn dtype : pystr) (svcs : list pystr) (emb : list dev).
Definition d_udn (d : dev) : pystr := match d with Dev u _ _ _ => u end.
Definition d_type (d : dev) : pystr := match d with Dev _ t _ _ => t end.
Definition d_svcs (d : dev) : list pystr := match d with Dev _ _ s _ => s end.
Definition d_emb (d : dev) : list dev := match d with Dev _ _ _ e => e end.

(* {key(x): x for x in l}.values() : first position, last value *)
Definition dict_values {A : Type} (key : A -> pystr) (l : list A) : list A :=
  map snd (dmerge str_eqb [] (map (fun x => (key x, x)) l)).

(* UpnpDevice.__init__: services and embedded devices are kept in dicts keyed by their type *)
Fixpoint normalize (d : dev) : dev :=
  match d with
  | Dev u t s e => Dev u t (dict_values (fun x => x) s) (dict_values d_type (map normalize e))
  end.

Fixpoint all_devices (d : dev) : list dev :=
  match d with Dev _ _ _ e => d :: flat_map all_devices e end.
(* (owning device's UDN, service type) *)
Definition all_services (root : dev) : list (pystr * pystr) :=
  flat_map (fun d => map (fun s => (d_udn d, s)) (d_svcs d)) (all_devices root).

Record config := {
  c_root : dev;
  c_base : pystr;            (* base_uri *)
  c_url : pystr;             (* the root device's device_url *)
  c_boot : Z;
  c_cfgid : Z;
  c_always_root : bool;      (* ssdp_search_responder_always_rootdevice *)
  c_target_ip : pystr;
  c_target_port : Z;
  c_target_v6 : bool;
  c_date : pystr             (* format_date_time(time.time()): an oracle, never observed *)
}.
Definition eff_root (cfg : config) : dev := normalize (c_root cfg).

(* ------------------------------------------------------------------ messages *)
Inductive mkind := MResponse | MNotify.
Record msg := { m_kind : mkind; m_type : pystr; m_usn : pystr; m_nts : pystr }.

Definition location_of_cfg (cfg : config) : pystr := c_base cfg ++ c_url cfg.
Definition host_of_cfg (cfg : config) : pystr :=
  if c_target_v6 cfg then [91] ++ c_target_ip cfg ++ [93; 58] ++ str_of_int (c_target_port cfg)
  else c_target_ip cfg ++ [58] ++ str_of_int (c_target_port cfg).

Definition slot_val (cfg : config) (m : msg) (s : slot) : pystr :=
  match s with
  | SCacheControl => header_cache_control
  | SDate => c_date cfg
  | SServer => header_server
  | SType => m_type m
  | SUsn => m_usn m
  | SLocation => location_of_cfg cfg
  | SBootId => str_of_int (c_boot cfg)
  | SConfigId => str_of_int (c_cfgid cfg)
  | SNts => m_nts m
  | SHost => host_of_cfg cfg
  | SLit x => x
  end.
Definition tpl_of (k : mkind) : list (pystr * slot) :=
  match k with MResponse => response_tpl | MNotify => advert_tpl end.
(* the header dict handed to build_ssdp_packet, in order *)
Definition msg_items (cfg : config) (m : msg) : list (pystr * pystr) :=
  map (fun ks => (fst ks, slot_val cfg m (snd ks))) (tpl_of (m_kind m)).
Definition msg_line (m : msg) : pystr :=
  match m_kind m with MResponse => response_line | MNotify => notify_line end.

Definition s_rootdevice : pystr := [117;112;110;112;58;114;111;111;116;100;101;118;105;99;101].
Definition usn2 (u t : pystr) : pystr := u ++ [58; 58] ++ t.
Definition mk_resp (ty usn : pystr) : msg := {| m_kind := MResponse; m_type := ty; m_usn := usn; m_nts := [] |}.

(* _build_response_rootdevice / _build_responses_device_udn / _device_type / _service *)
Definition resp_root (root : dev) : msg := mk_resp s_rootdevice (usn2 (d_udn root) s_rootdevice).
Definition resp_udn (d : dev) : msg := mk_resp (d_udn d) (d_udn d).
(* `device_type or device.device_type` *)
Definition or_default (o : option pystr) (dflt : pystr) : pystr :=
  match o with Some (c :: r) => c :: r | _ => dflt end.
Definition resp_dtype (echo : option pystr) (d : dev) : msg :=
  mk_resp (or_default echo (d_type d)) (usn2 (d_udn d) (d_type d)).
Definition resp_svc (echo : option pystr) (us : pystr * pystr) : msg :=
  mk_resp (or_default echo (snd us)) (usn2 (fst us) (snd us)).

(* SsdpSearchResponder._build_responses *)
Definition build_responses (cfg : config) (st_header : pystr) : list msg :=
  let root := eff_root cfg in
  let target := slower st_header in
  let devs := all_devices root in
  let svcs := all_services root in
  let body :=
    if str_eqb target st_all then
      resp_root root :: map resp_udn devs ++ map (resp_dtype None) devs ++ map (resp_svc None) svcs
    else if str_eqb target st_rootdevice then [resp_root root]
    else
      match filter (fun d => str_eqb (slower (d_udn d)) target) devs with
      | d :: l => map resp_udn (d :: l)
      | [] =>
          match filter (fun d => match_type_versions (d_type d) target) devs with
          | d :: l => map (resp_dtype (Some st_header)) (d :: l)
          | [] => map (resp_svc (Some st_header))
                      (filter (fun us => match_type_versions (snd us) target) svcs)
          end
      end in
  body ++ (if c_always_root cfg then [resp_root root] else []).

(* _build_advertisements(target, root_device, nts) *)
Definition mk_adv (nts ty usn : pystr) : msg := {| m_kind := MNotify; m_type := ty; m_usn := usn; m_nts := nts |}.
Definition build_advertisements (cfg : config) (nts : pystr) : list msg :=
  let root := eff_root cfg in
  mk_adv nts s_rootdevice (usn2 (d_udn root) s_rootdevice) ::
  flat_map (fun d => [mk_adv nts (d_udn d) (d_udn d); mk_adv nts (d_type d) (usn2 (d_udn d) (d_type d))])
           (all_devices root) ++
  map (fun us => mk_adv nts (snd us) (usn2 (fst us) (snd us))) (all_services root).

(* ------------------------------------------------------------------ histories *)
Inductive sop :=
| OSearch (line : pystr) (man st mx : option pystr) (dest : N) (pick : Z)
    (* a datagram handed to _on_data: request line, MAN / ST / MX as decoded, _remote_addr (a token), and
       the choice the random generator makes if it is asked *)
| OAdvance (dt : Z)          (* the loop clock moves on by dt ms; due timers fire at their due times *)
| OStop                      (* announcer.async_stop(); responder.async_stop() *)
| ONoop.                     (* a datagram the receive path dropped before _on_data *)

Record sent := { x_time : Z; x_dest : N; x_msg : msg }.
Record state := {
  s_now : Z;                                   (* loop.time(), ms since start *)
  s_pending : list (Z * N * list msg);         (* call_at(when, _send_responses, remote_addr, responses) *)
  s_ann : option (Z * nat)                     (* call_later handle of _announce_next: due time, cycle position *)
}.
Definition target_tok : N := 0.                (* the multicast group the announcer sends to *)

(* random.randrange(lo, hi) *)
Definition randrange (lo hi pick : Z) : option Z :=
  if (lo <? hi)%Z then Some (lo + pick mod (hi - lo))%Z else None.

Definition mx_delay (mx : option pystr) : Z :=
  match mx with
  | None => 0%Z
  | Some s => match int_of_str s with
              | Ok z => Z.max mx_floor (Z.min mx_cap z)
              | Raise _ => 0%Z
              end
  end.

Definition send_all (t : Z) (dest : N) (ms : list msg) : list sent :=
  map (fun m => {| x_time := t; x_dest := dest; x_msg := m |}) ms.

(* SsdpSearchResponder._on_data; the third component: an exception left the handler *)
Definition on_search (cfg : config) (s : state) (line : pystr) (man st mx : option pystr) (dest : N) (pick : Z)
  : state * list sent * bool :=
  if negb (str_eqb line search_line) ||
     negb (match man with Some m => str_eqb m ssdp_discover | None => false end)
  then (s, [], false)
  else
    let delay := mx_delay mx in
    match build_responses cfg (match st with Some x => x | None => [] end) with
    | [] => (s, [], false)
    | m :: ms =>
        if (delay =? 0)%Z then (s, send_all (s_now s) dest (m :: ms), false)
        else match randrange rnd_lo (delay * rnd_scale + rnd_off) pick with
             | Some r =>
                 ({| s_now := s_now s;
                     s_pending := s_pending s ++ [((s_now s + r * 1000 / rnd_div)%Z, dest, m :: ms)];
                     s_ann := s_ann s |}, [], false)
             | None => (s, [], true)
             end
    end.

(* how many times _announce_next fires in (.., target] when next due at a *)
Definition ann_count (a target : Z) : nat :=
  if (a <=? target)%Z then Z.to_nat ((target - a) / announce_interval_ms + 1) else O.
(* next(cycle(advertisements)) at cycle position i *)
Definition nth_adv (advs : list msg) (i : nat) : list msg :=
  match nth_error advs (Nat.modulo i (length advs)) with Some m => [m] | None => [] end.

Definition advance (cfg : config) (s : state) (dt : Z) : state * list sent * bool :=
  let target := (s_now s + dt)%Z in
  let due := filter (fun p => (fst (fst p) <=? target)%Z) (s_pending s) in
  let later := filter (fun p => negb (fst (fst p) <=? target)%Z) (s_pending s) in
  let rsent := flat_map (fun p => send_all (fst (fst p)) (snd (fst p)) (snd p)) due in
  let advs := build_advertisements cfg nts_alive in
  match s_ann s with
  | Some (a, idx) =>
      let k := ann_count a target in
      ({| s_now := target; s_pending := later;
          s_ann := Some ((a + Z.of_nat k * announce_interval_ms)%Z, Nat.modulo (idx + k) (length advs)) |},
       rsent ++ flat_map (fun j => send_all (a + Z.of_nat j * announce_interval_ms)%Z target_tok
                                            (nth_adv advs (idx + j))) (seq 0 k),
       false)
  | None => ({| s_now := target; s_pending := later; s_ann := None |}, rsent, false)
  end.

Definition stop (cfg : config) (s : state) : state * list sent * bool :=
  ({| s_now := s_now s; s_pending := s_pending s; s_ann := None |},
   send_all (s_now s) target_tok (build_advertisements cfg nts_byebye), false).

Definition sstep (cfg : config) (s : state) (o : sop) : state * list sent * bool :=
  match o with
  | OSearch line man st mx dest pick => on_search cfg s line man st mx dest pick
  | OAdvance dt => advance cfg s dt
  | OStop => stop cfg s
  | ONoop => (s, [], false)
  end.

(* both components started at time 0: the announcer sends its first advertisement at once *)
Definition state0 : state := {| s_now := 0%Z; s_pending := []; s_ann := Some (0%Z, O) |}.

Fixpoint run_from (cfg : config) (s : state) (ops : list sop) : list (list sent * bool) :=
  match ops with
  | [] => []
  | o :: r => let '(s', out, raised) := sstep cfg s o in (out, raised) :: run_from cfg s' r
  end.
(* step 0 is the start (async_start of both components = the announcer's timer is due now) *)
Definition run (cfg : config) (ops : list sop) : list (list sent * bool) :=
  run_from cfg state0 (OAdvance 0 :: ops).

(* ------------------------------------------------------------------ the library's own listener *)
(* What decode_ssdp_packet hands to the listener for a message built from [items], received at [now] from
   an unscoped address: the headers as sent, _udn (the text of USN before "::" when it is a uuid) and
   _timestamp.  (The remaining metadata, _host _port _remote_addr _local_addr _location_original, is never
   read by the tracker.)  That the wire round trip yields a header map reading like this is C01's theorem;
   here it is the premise [decode_premise] of the composition theorem and the definition the executable
   model runs. *)
Definition decoded_view (items : list (pystr * pystr)) (now : Z) : list (pystr * hval) :=
  map (fun kv => (fst kv, HStr (snd kv))) items ++
  match dlast str_eqb (map (fun kv => (lower (fst kv), snd kv)) items) k_usn with
  | Some usn => match udn_from_usn usn with Some u => [(k_udn, HStr u)] | None => [] end
  | None => []
  end ++
  [(k_timestamp, HTime now)].

(* the datagram as the listener reads it (case-insensitive header names) *)
Definition seen_str (cfg : config) (m : msg) (lk : pystr) : pystr :=
  match item_str (decoded_view (msg_items cfg m) 0) lk with Some s => s | None => [] end.

(* the text of a USN before "::" *)
Definition usn_udn_part (usn : pystr) : pystr := before_sep [58; 58] usn.

Definition no_ipver (_ : pystr) : option N := None.
Definition known_at (t : tracker) (u loc : pystr) : bool :=
  match dget str_eqb (devices t) u with
  | Some d => dhas str_eqb (d_locs d) loc
  | None => false
  end.
Definition as_alive (items : list (pystr * pystr)) : list (pystr * pystr) :=
  map (fun kv => if str_eqb (lower (fst kv)) k_nts then (fst kv, nts_alive) else kv) items.

(* A fresh listener is handed the datagram (search responses through the search listener, NOTIFYs through
   the advertisement listener).  alive / response: afterwards the device named by the USN is known at the
   server's description URL.  byebye: a listener that knows the device from the same advertisement sent as
   ssdp:alive no longer knows it afterwards. *)
Definition accepted (cfg : config) (m : msg) : bool :=
  let items := msg_items cfg m in
  let u := usn_udn_part (seen_str cfg m k_usn) in
  let loc := location_of_cfg cfg in
  match m_kind m with
  | MResponse =>
      known_at (fst (fst (C03.Model.step no_ipver [] tracker0 (Srch (decoded_view items 0))))) u loc
  | MNotify =>
      if str_eqb (seen_str cfg m k_nts) nts_byebye then
        let t1 := fst (fst (C03.Model.step no_ipver [] tracker0 (Adv (decoded_view (as_alive items) 0)))) in
        let t2 := fst (fst (C03.Model.step no_ipver [] t1 (Adv (decoded_view items 0)))) in
        known_at t1 u loc && negb (dhas str_eqb (devices t2) u)
      else
        known_at (fst (fst (C03.Model.step no_ipver [] tracker0 (Adv (decoded_view items 0))))) u loc
  end.
