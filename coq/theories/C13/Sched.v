(* C13 — the monitor accepts every history of the model: by induction over the operation list, with an
   invariant tying the model's pending timers to the monitor's obligations. *)
From Coq Require Import List Bool NArith ZArith Lia ZifyBool ZifyN Permutation Arith.
From AUC Require Import Prelude.PyStr Prelude.PyDict C16.Model C16.Spec C16.Proofs C16.Equivb C08.Model
  C03.Model C03.Spec C13.Model C13.Spec C13.Strings C13.Table C13.Accept C13.Run Gen.Server Gen.Ssdp.
Import ListNotations.
Local Open Scope N_scope.

Local Notation KS := str_eqb_spec.

(* ------------------------------------------------------------------ lists and counts *)
Lemma pair_eqb_spec a b : reflect (a = b) (pair_eqb a b).
Proof.
  destruct a as [a1 a2], b as [b1 b2]. unfold pair_eqb. cbn [fst snd].
  destruct (KS a1 b1) as [->|H1]; cbn; [destruct (KS a2 b2) as [->|H2]|]; constructor; congruence.
Qed.
Lemma pair_eqb_refl p : pair_eqb p p = true.
Proof. destruct (pair_eqb_spec p p); congruence. Qed.

Lemma filter_map_comm (A B : Type) (f : B -> bool) (g : A -> B) l :
  filter f (map g l) = map g (filter (fun x => f (g x)) l).
Proof. induction l as [|x r IH]; [reflexivity|]. cbn. destruct (f (g x)); cbn; now rewrite IH. Qed.

Lemma filter_filter (A : Type) (f g : A -> bool) l : filter f (filter g l) = filter (fun x => g x && f x) l.
Proof. induction l as [|x r IH]; [reflexivity|]. cbn. destruct (g x); cbn; [destruct (f x)|]; now rewrite IH. Qed.

Lemma filter_all_true (A : Type) (f : A -> bool) l : (forall x, In x l -> f x = true) -> filter f l = l.
Proof.
  induction l as [|x r IH]; intros H; [reflexivity|]. cbn. rewrite (H x (or_introl eq_refl)). f_equal. apply IH.
  intros y Hy. apply H. now right.
Qed.

Lemma filter_flat_map (A B : Type) (f : B -> bool) (g : A -> list B) l :
  filter f (flat_map g l) = flat_map (fun x => filter f (g x)) l.
Proof. induction l as [|x r IH]; [reflexivity|]. cbn. now rewrite filter_app, IH. Qed.

Lemma countp_app p a b : countp p (a ++ b) = (countp p a + countp p b)%nat.
Proof. unfold countp. now rewrite filter_app, app_length. Qed.
Lemma countp_rev p l : countp p (rev l) = countp p l.
Proof.
  induction l as [|x r IH]; [reflexivity|]. cbn [rev]. rewrite countp_app, IH. unfold countp. cbn.
  destruct (pair_eqb p x); cbn; lia.
Qed.
Lemma countp_firstn p n l : (countp p (firstn n l) <= countp p l)%nat.
Proof. rewrite <- (firstn_skipn n l) at 2. rewrite countp_app. lia. Qed.
Lemma countp_perm p l1 l2 : Permutation l1 l2 -> countp p l1 = countp p l2.
Proof.
  unfold countp. induction 1; cbn; try lia.
  - destruct (pair_eqb p x); cbn; lia.
  - destruct (pair_eqb p x), (pair_eqb p y); cbn; lia.
Qed.
Lemma countp_in p l : In p l -> (1 <= countp p l)%nat.
Proof.
  unfold countp. induction l as [|x r IH]; [contradiction|]. intros [->|H]; cbn.
  - rewrite pair_eqb_refl. cbn. lia.
  - destruct (pair_eqb p x); cbn; [lia | auto].
Qed.

Lemma firstn_succ (A : Type) (l : list A) (d : A) : forall idx, (idx < length l)%nat ->
  firstn (S idx) l = firstn idx l ++ [nth idx l d].
Proof.
  induction l as [|x r IH]; intros idx H; [cbn in H; lia|].
  destruct idx as [|i]; [reflexivity|]. cbn [firstn nth List.app]. f_equal. apply IH. cbn in H. lia.
Qed.

(* ------------------------------------------------------------------ the round robin *)
Section Cycle.
  Variable all L : list pair.
  Hypothesis PERM : Permutation L all.
  Variable dflt : pair.
  Let n := length L.
  Hypothesis NPOS : (0 < n)%nat.

  Lemma see_alives_cycle k : forall idx, (idx < n)%nat ->
    see_alives all (rev (firstn idx L)) (map (fun j => nth (Nat.modulo (idx + j) n) L dflt) (seq 0 k)) =
    (rev (firstn (Nat.modulo (idx + k) n) L), true).
  Proof.
    induction k as [|k IH]; intros idx Hidx.
    - cbn. rewrite Nat.add_0_r, Nat.mod_small by exact Hidx. reflexivity.
    - cbn [seq map]. rewrite <- seq_shift, map_map. cbn [see_alives].
      rewrite Nat.add_0_r, (Nat.mod_small idx n Hidx).
      set (p := nth idx L dflt).
      assert (E1 : p :: rev (firstn idx L) = rev (firstn (S idx) L)).
      { rewrite (firstn_succ _ L dflt idx Hidx), rev_app_distr. reflexivity. }
      rewrite E1.
      assert (C : Nat.leb (countp p (rev (firstn (S idx) L))) (countp p all) = true).
      { apply Nat.leb_le. rewrite countp_rev, <- (countp_perm p _ _ PERM). apply countp_firstn. }
      rewrite C. rewrite rev_length, firstn_length, <- (Permutation_length PERM). fold n.
      replace (Nat.min (S idx) n) with (S idx) by lia.
      destruct (Nat.eqb (S idx) n) eqn:E.
      + apply Nat.eqb_eq in E.
        assert (IH0 := IH 0%nat NPOS). cbn [firstn rev] in IH0.
        rewrite (map_ext (fun j => nth (Nat.modulo (idx + S j) n) L dflt)
                         (fun j => nth (Nat.modulo (0 + j) n) L dflt)).
        2:{ intros j. f_equal. replace (idx + S j)%nat with (j + 1 * n)%nat by lia. now rewrite Nat.mod_add by lia. }
        rewrite IH0. cbn [andb]. f_equal. f_equal. f_equal.
        replace (idx + S k)%nat with (k + 1 * n)%nat by lia. now rewrite Nat.mod_add by lia.
      + apply Nat.eqb_neq in E. assert (Hs : (S idx < n)%nat) by lia.
        rewrite (map_ext (fun j => nth (Nat.modulo (idx + S j) n) L dflt)
                         (fun j => nth (Nat.modulo (S idx + j) n) L dflt))
          by (intros j; f_equal; f_equal; lia).
        rewrite (IH (S idx) Hs). cbn [andb]. f_equal. f_equal. f_equal. f_equal. lia.
  Qed.
End Cycle.

(* ------------------------------------------------------------------ what the harness sees of a model message *)
Section Dgrams.
  Variable cfg : config.
  Hypothesis OK : CfgOk cfg.
  Let root := c_root cfg.
  Let loc := location_of_cfg cfg.

  Definition good_msg (m : msg) : Prop :=
    msg_wf cfg m /\
    ((m_kind m = MResponse /\ m_nts m = []) \/
     (m_kind m = MNotify /\ (m_nts m = nts_alive \/ m_nts m = nts_byebye))).

  Definition dg_simple (x : sent) : dgram :=
    {| g_time := x_time x;
       g_kind := match m_kind (x_msg x) with MResponse => 0 | MNotify => 1 end;
       g_type := m_type (x_msg x); g_nts := m_nts (x_msg x); g_usn := m_usn (x_msg x);
       g_loc := loc; g_dest := x_dest x; g_acc := true |}.

  Lemma dgram_simple x : good_msg (x_msg x) -> dgram_of cfg x = dg_simple x.
  Proof.
    intros [W H]. pose proof (accepted_true cfg OK (x_msg x) W H) as A.
    unfold dgram_of, dg_simple. rewrite A. destruct H as [[K Nn]|[K Nn]]; rewrite K.
    - destruct (seen_resp cfg (x_msg x) K) as [-> [-> [-> ->]]]. now rewrite Nn.
    - destruct (seen_adv cfg (x_msg x) K) as [-> [-> [-> ->]]]. reflexivity.
  Qed.

  Lemma map_dgram_simple xs : Forall (fun x => good_msg (x_msg x)) xs -> map (dgram_of cfg) xs = map dg_simple xs.
  Proof. intros H. apply map_ext_in. intros x Hx. rewrite Forall_forall in H. now apply dgram_simple, H. Qed.

  Lemma simple_usn_owner x : good_msg (x_msg x) -> c_usn_owner root (dg_simple x) = true.
  Proof.
    intros [W _]. destruct (wf_usn_part cfg (x_msg x) W) as [d [Hd [Hdesc [Hpart _]]]].
    unfold c_usn_owner. apply existsb_exists. exists d. split; [exact Hd|]. cbn [dg_simple g_type g_usn].
    unfold root. rewrite Hdesc, Hpart. apply str_eqb_refl.
  Qed.
  Lemma simple_accepted x : good_msg (x_msg x) -> (m_kind (x_msg x) = MNotify -> x_dest x = target_tok) ->
    c_accepted cfg (dg_simple x) = true.
  Proof.
    intros _ Hd. unfold c_accepted. cbn [dg_simple g_acc g_loc g_dest]. fold loc. rewrite str_eqb_refl. cbn [andb].
    unfold is_resp. cbn [g_kind dg_simple]. destruct (m_kind (x_msg x)); [reflexivity|]. rewrite Hd by reflexivity. reflexivity.
  Qed.

  Lemma simple_is_resp x : is_resp (dg_simple x) = match m_kind (x_msg x) with MResponse => true | MNotify => false end.
  Proof. unfold is_resp. cbn. destruct (m_kind (x_msg x)); reflexivity. Qed.
  Lemma simple_is_alive x : is_alive (dg_simple x) =
    match m_kind (x_msg x) with MResponse => false | MNotify => str_eqb (m_nts (x_msg x)) sp_alive end.
  Proof. unfold is_alive. cbn. destruct (m_kind (x_msg x)); reflexivity. Qed.
  Lemma simple_is_byebye x : is_byebye (dg_simple x) =
    match m_kind (x_msg x) with MResponse => false | MNotify => str_eqb (m_nts (x_msg x)) sp_byebye end.
  Proof. unfold is_byebye. cbn. destruct (m_kind (x_msg x)); reflexivity. Qed.
  Lemma simple_gpair x : gpair (dg_simple x) = mpair (x_msg x).
  Proof. reflexivity. Qed.
End Dgrams.

(* ------------------------------------------------------------------ obligations *)
Lemma owed_eta w : {| w_dest := w_dest w; w_t0 := w_t0 w; w_dl := w_dl w; w_orig := w_orig w; w_got := w_got w |} = w.
Proof. destruct w; reflexivity. Qed.

Lemma counts_le_of_perm got orig : Permutation got orig ->
  forallb (fun p => Nat.leb (countp p got) (countp p orig)) got = true.
Proof.
  intros H. apply forallb_forall. intros p _. apply Nat.leb_le. rewrite (countp_perm p _ _ H). lia.
Qed.

(* nothing for this requester in this step *)
Lemma upd_idle now' rs w :
  filter (fun g => g_dest g =? w_dest w) rs = [] ->
  (w_got w = [] /\ ((now' < w_dl w)%Z \/ w_orig w = [])) \/ Permutation (w_got w) (w_orig w) ->
  upd_owed now' rs w = (w, []).
Proof.
  intros Hf H. unfold upd_owed. rewrite Hf. cbn [map forallb]. rewrite app_nil_r, owed_eta. f_equal.
  destruct H as [[Hg H]|H].
  - rewrite Hg. cbn [forallb length]. destruct H as [H|H].
    + assert (E : (w_dl w <=? now')%Z = false) by lia. rewrite E. reflexivity.
    + rewrite H. cbn. now rewrite andb_false_r.
  - rewrite (counts_le_of_perm _ _ H), (Permutation_length H), Nat.eqb_refl. cbn. now rewrite andb_false_r.
Qed.

(* all the answers for this requester arrive in this step, inside the window *)
Lemma upd_answer cfg now' rs w ms tm :
  w_got w = [] ->
  filter (fun g => g_dest g =? w_dest w) rs = map (dg_simple cfg) (send_all tm (w_dest w) ms) ->
  Permutation (pairs_of ms) (w_orig w) -> (w_t0 w <= tm <= w_dl w)%Z ->
  upd_owed now' rs w =
  ({| w_dest := w_dest w; w_t0 := w_t0 w; w_dl := w_dl w; w_orig := w_orig w; w_got := pairs_of ms |}, []).
Proof.
  intros Hg Hf Hp Ht. unfold upd_owed. rewrite Hf, Hg. cbn [List.app].
  assert (E : map gpair (map (dg_simple cfg) (send_all tm (w_dest w) ms)) = pairs_of ms).
  { unfold send_all, pairs_of. rewrite !map_map. reflexivity. }
  rewrite E. f_equal.
  assert (C1 : forallb (fun g => Nat.leb 1 (countp (gpair g) (w_orig w)))
                       (map (dg_simple cfg) (send_all tm (w_dest w) ms)) = true).
  { apply forallb_forall. intros g Hin. apply in_map_iff in Hin as [x [<- Hx]].
    apply in_map_iff in Hx as [m [<- Hm]]. apply Nat.leb_le. apply countp_in.
    apply (Permutation_in _ Hp). unfold pairs_of. apply in_map_iff. exists m. auto. }
  assert (C2 : forallb (fun g => (w_t0 w <=? g_time g)%Z && (g_time g <=? w_dl w)%Z)
                       (map (dg_simple cfg) (send_all tm (w_dest w) ms)) = true).
  { apply forallb_forall. intros g Hin. apply in_map_iff in Hin as [x [<- Hx]].
    apply in_map_iff in Hx as [m [<- Hm]]. cbn. lia. }
  rewrite C1, C2, (counts_le_of_perm _ _ Hp), (Permutation_length Hp), Nat.eqb_refl. cbn. now rewrite andb_false_r.
Qed.

(* ------------------------------------------------------------------ MX arithmetic (constants of the current source) *)
Lemma mx_facts mx :
  (mx_delay mx = 0 /\ 0 <= mx_window mx)%Z \/
  (1 <= mx_delay mx /\ 1000 * mx_delay mx <= mx_window mx)%Z.
Proof.
  unfold mx_delay, mx_window, mx_floor, mx_cap. destruct mx as [s|]; [|left; lia].
  destruct (int_of_str s) as [z|e]; [|left; lia]. lia.
Qed.

(* what the scheduling arithmetic of _on_data must satisfy: the delay is positive and ends before MX *)
Lemma randrange_facts d pick : (1 <= d)%Z ->
  exists r, randrange rnd_lo (d * rnd_scale + rnd_off) pick = Some r /\
            (0 < r * 1000 / rnd_div < d * 1000)%Z.
Proof.
  intros Hd. unfold randrange, rnd_lo, rnd_scale, rnd_off, rnd_div.
  match goal with |- context [(?lo <? ?hi)%Z] => assert (E : (lo <? hi)%Z = true) by lia; rewrite E end.
  eexists. split; [reflexivity|].
  match goal with |- context [(pick mod ?m)%Z] => pose proof (Z.mod_pos_bound pick m) as B end.
  match goal with |- (0 < ?x * 1000 / ?dv < _)%Z =>
    assert (Q : (x * 1000 / dv = x)%Z) by (apply Z.div_mul; lia); rewrite Q end.
  lia.
Qed.

(* ------------------------------------------------------------------ the invariant *)
Section Invariant.
  Variable cfg : config.
  Hypothesis OK : CfgOk cfg.
  Let root := c_root cfg.
  Let advs := build_advertisements cfg nts_alive.
  Let L := pairs_of advs.
  Let NN := length advs.
  Let all := spec_all root.
  Let dg := dg_simple cfg.

  Definition is_good_resp (x : sent) : Prop := good_msg cfg (x_msg x) /\ m_kind (x_msg x) = MResponse.
  Definition is_good_nts (nts : pystr) (x : sent) : Prop :=
    good_msg cfg (x_msg x) /\ m_kind (x_msg x) = MNotify /\ m_nts (x_msg x) = nts /\ x_dest x = target_tok.
  Definition good_sent (x : sent) : Prop :=
    good_msg cfg (x_msg x) /\ (m_kind (x_msg x) = MNotify -> x_dest x = target_tok).

  Lemma good_of_resp x : is_good_resp x -> good_sent x.
  Proof. intros [G K]. split; [exact G|]. rewrite K. discriminate. Qed.
  Lemma good_of_nts nts x : is_good_nts nts x -> good_sent x.
  Proof. intros [G [K [_ D]]]. split; auto. Qed.

  Definition others (g : dgram) : bool := is_resp g || is_alive g || is_byebye g.

  Lemma resp_filters xs : Forall is_good_resp xs ->
    filter is_resp (map dg xs) = map dg xs /\ filter is_alive (map dg xs) = [] /\
    filter is_byebye (map dg xs) = [] /\ forallb others (map dg xs) = true.
  Proof.
    intros H. rewrite Forall_forall in H. repeat split.
    - apply filter_all_true. intros g Hg. apply in_map_iff in Hg as [x [<- Hx]]. unfold dg.
      rewrite simple_is_resp. now rewrite (proj2 (H x Hx)).
    - apply filter_all_false. intros g Hg. apply in_map_iff in Hg as [x [<- Hx]]. unfold dg.
      rewrite simple_is_alive. now rewrite (proj2 (H x Hx)).
    - apply filter_all_false. intros g Hg. apply in_map_iff in Hg as [x [<- Hx]]. unfold dg.
      rewrite simple_is_byebye. now rewrite (proj2 (H x Hx)).
    - apply forallb_forall. intros g Hg. apply in_map_iff in Hg as [x [<- Hx]]. unfold others, dg.
      rewrite simple_is_resp. now rewrite (proj2 (H x Hx)).
  Qed.

  Lemma alive_filters xs : Forall (is_good_nts nts_alive) xs ->
    filter is_resp (map dg xs) = [] /\ filter is_alive (map dg xs) = map dg xs /\
    filter is_byebye (map dg xs) = [] /\ forallb others (map dg xs) = true.
  Proof.
    intros H. rewrite Forall_forall in H. repeat split.
    - apply filter_all_false. intros g Hg. apply in_map_iff in Hg as [x [<- Hx]]. unfold dg.
      rewrite simple_is_resp. destruct (H x Hx) as [_ [K _]]. now rewrite K.
    - apply filter_all_true. intros g Hg. apply in_map_iff in Hg as [x [<- Hx]]. unfold dg.
      rewrite simple_is_alive. destruct (H x Hx) as [_ [K [Nn _]]]. rewrite K, Nn. reflexivity.
    - apply filter_all_false. intros g Hg. apply in_map_iff in Hg as [x [<- Hx]]. unfold dg.
      rewrite simple_is_byebye. destruct (H x Hx) as [_ [K [Nn _]]]. rewrite K, Nn. reflexivity.
    - apply forallb_forall. intros g Hg. apply in_map_iff in Hg as [x [<- Hx]]. unfold others, dg.
      rewrite simple_is_resp, simple_is_alive. destruct (H x Hx) as [_ [K [Nn _]]]. rewrite K, Nn. reflexivity.
  Qed.

  Lemma byebye_filters xs : Forall (is_good_nts nts_byebye) xs ->
    filter is_resp (map dg xs) = [] /\ filter is_alive (map dg xs) = [] /\
    filter is_byebye (map dg xs) = map dg xs /\ forallb others (map dg xs) = true.
  Proof.
    intros H. rewrite Forall_forall in H. repeat split.
    - apply filter_all_false. intros g Hg. apply in_map_iff in Hg as [x [<- Hx]]. unfold dg.
      rewrite simple_is_resp. destruct (H x Hx) as [_ [K _]]. now rewrite K.
    - apply filter_all_false. intros g Hg. apply in_map_iff in Hg as [x [<- Hx]]. unfold dg.
      rewrite simple_is_alive. destruct (H x Hx) as [_ [K [Nn _]]]. rewrite K, Nn. reflexivity.
    - apply filter_all_true. intros g Hg. apply in_map_iff in Hg as [x [<- Hx]]. unfold dg.
      rewrite simple_is_byebye. destruct (H x Hx) as [_ [K [Nn _]]]. rewrite K, Nn. reflexivity.
    - apply forallb_forall. intros g Hg. apply in_map_iff in Hg as [x [<- Hx]]. unfold others, dg.
      rewrite simple_is_resp, simple_is_alive, simple_is_byebye. destruct (H x Hx) as [_ [K [Nn _]]]. rewrite K, Nn. reflexivity.
  Qed.

  Lemma step_failures_ok out : Forall good_sent out ->
    step_failures cfg {| o_sent := map (dgram_of cfg) out; o_raised := false |} = [].
  Proof.
    intros H. unfold step_failures. cbn [o_sent o_raised].
    rewrite (map_dgram_simple cfg OK out) by (eapply Forall_impl; [|exact H]; intros x [G _]; exact G).
    assert (A : forallb (c_usn_owner (c_root cfg)) (map (dg_simple cfg) out) = true).
    { apply forallb_forall. intros g Hg. apply in_map_iff in Hg as [x [<- Hx]]. rewrite Forall_forall in H.
      now apply simple_usn_owner, (H x Hx). }
    assert (B : forallb (c_accepted cfg) (map (dg_simple cfg) out) = true).
    { apply forallb_forall. intros g Hg. apply in_map_iff in Hg as [x [<- Hx]]. rewrite Forall_forall in H.
      destruct (H x Hx) as [G D]. now apply simple_accepted. }
    now rewrite A, B.
  Qed.

  (* the advertisement lists *)
  Lemma advs_good nts : nts = nts_alive \/ nts = nts_byebye ->
    Forall (fun m => good_msg cfg m /\ m_kind m = MNotify /\ m_nts m = nts) (build_advertisements cfg nts).
  Proof.
    intros Hn. eapply Forall_impl; [|apply (adverts_wf cfg OK nts)]. intros m [W [K Nn]].
    split; [|auto]. split; [exact W|]. right. split; [exact K|]. rewrite Nn. exact Hn.
  Qed.
  Lemma NN_pos : (0 < NN)%nat.
  Proof. unfold NN, advs, build_advertisements. cbn [length]. lia. Qed.
  Lemma L_perm : Permutation L all.
  Proof. apply (adverts_table cfg OK). Qed.
  Lemma L_length : length L = NN.
  Proof. unfold L, pairs_of. apply map_length. Qed.

  (* ---------------------------------------------------------------- invariant *)
  Definition pend_for (d : N) (pend : list (Z * N * list msg)) : list (Z * N * list msg) :=
    filter (fun p => snd (fst p) =? d) pend.

  Definition owed_ok (s : state) (w : owed) : Prop :=
    (w_got w = [] /\
     exists when rs, pend_for (w_dest w) (s_pending s) = [(when, w_dest w, rs)] /\
                     Permutation (pairs_of rs) (w_orig w) /\
                     (s_now s < when)%Z /\ (when < w_dl w)%Z /\ (w_t0 w <= when)%Z) \/
    (Permutation (w_got w) (w_orig w) /\ pend_for (w_dest w) (s_pending s) = []).

  Record Inv (s : state) (k : mon) (ops : list sop) : Prop := {
    i_now : k_now k = s_now s;
    i_owed : Forall (owed_ok s) (k_owed k);
    i_pend : forall p, In p (s_pending s) ->
               In (snd (fst p)) (map w_dest (k_owed k)) /\
               Forall (fun m => good_msg cfg m /\ m_kind m = MResponse) (snd p);
    i_dests : NoDup (map w_dest (k_owed k) ++ flat_map op_dests ops);
    i_ann : match s_ann s with
            | Some (a, idx) => k_next k = Some a /\ (idx < NN)%nat /\ k_seen k = rev (firstn idx L)
            | None => k_next k = None
            end
  }.
  Definition strict (s : state) : Prop :=
    match s_ann s with Some (a, _) => (s_now s < a)%Z | None => True end.

  Lemma pend_for_fresh s k ops d : Inv s k ops -> ~ In d (map w_dest (k_owed k)) -> pend_for d (s_pending s) = [].
  Proof.
    intros I Hn. apply filter_all_false. intros p Hp. destruct (i_pend _ _ _ I p Hp) as [Hin _].
    destruct (snd (fst p) =? d) eqn:E; [|reflexivity]. apply N.eqb_eq in E. subst. contradiction.
  Qed.

  (* ---------------------------------------------------------------- the advertisement side of a step *)
  Lemma alive_count_zero a now' : (now' < a)%Z -> alive_count a now' = O.
  Proof. intros H. unfold alive_count. assert (E : (a <=? now')%Z = false) by lia. now rewrite E. Qed.

  Lemma mon_adv_quiet k o now' sent :
    filter is_alive sent = [] -> filter is_byebye sent = [] -> forallb others sent = true ->
    (match o with OStop => False | _ => True end) ->
    match k_next k with Some a => (now' < a)%Z | None => True end ->
    mon_adv root k o now' sent = (k_next k, k_seen k, []).
  Proof.
    intros Ha Hb Ho Hs Hn. unfold mon_adv. rewrite Ha, Hb. cbn [map see_alives].
    fold others. rewrite Ho.
    assert (S : match o with OStop => true | _ => false end = false) by (destruct o; try reflexivity; contradiction).
    rewrite S. destruct (k_next k) as [a|].
    - rewrite (alive_count_zero _ _ Hn). cbn [seq map zlist_eqb andb]. f_equal. f_equal. f_equal. lia.
    - reflexivity.
  Qed.

  Lemma mon_adv_stop k now' sent byes :
    filter is_alive sent = [] -> filter is_byebye sent = byes -> forallb others sent = true ->
    Permutation (map gpair byes) all -> Forall (fun g => g_time g = k_now k) byes ->
    match k_next k with Some a => (now' < a)%Z | None => True end ->
    mon_adv root k OStop now' sent = (None, k_seen k, []).
  Proof.
    intros Ha Hb Ho Hp Ht Hn. unfold mon_adv. rewrite Ha, Hb. cbn [map see_alives].
    fold others. rewrite Ho. fold all.
    rewrite (perm_eqb_complete pair_eqb pair_eqb_spec Hp).
    assert (T : forallb (fun g => (g_time g =? k_now k)%Z) byes = true).
    { apply forallb_forall. intros g Hg. rewrite Forall_forall in Ht. rewrite (Ht g Hg). lia. }
    rewrite T. destruct (k_next k) as [a|].
    - rewrite (alive_count_zero _ _ Hn). reflexivity.
    - reflexivity.
  Qed.

  (* ---------------------------------------------------------------- the obligation side of a step *)
  Lemma upd_all now' rs l l' :
    Forall2 (fun w w' => upd_owed now' rs w = (w', [])) l l' ->
    map fst (map (upd_owed now' rs) l) = l' /\ flat_map snd (map (upd_owed now' rs) l) = [].
  Proof.
    induction 1 as [|w w' l l' Hw Hl [IH1 IH2]]; [split; reflexivity|]. cbn [map flat_map]. rewrite Hw. cbn [fst snd List.app].
    now rewrite IH1, IH2.
  Qed.

  Lemma mon_owed_ok k o now' rs owed' :
    Forall2 (fun w w' => upd_owed now' rs w = (w', [])) (k_owed k ++ new_owed root (k_now k) o) owed' ->
    forallb (fun g => existsb (fun w => w_dest w =? g_dest g) (k_owed k ++ new_owed root (k_now k) o)) rs = true ->
    mon_owed root k o now' rs = (owed', []).
  Proof.
    intros H U. unfold mon_owed. rewrite U, app_nil_r. destruct (upd_all _ _ _ _ H) as [-> ->]. reflexivity.
  Qed.

  Lemma Forall2_app_intro (A B : Type) (P : A -> B -> Prop) l1 l1' l2 l2' :
    Forall2 P l1 l1' -> Forall2 P l2 l2' -> Forall2 P (l1 ++ l2) (l1' ++ l2').
  Proof. induction 1; cbn; auto. Qed.
  Lemma Forall2_map_self (A B : Type) (P : A -> B -> Prop) (f : A -> B) l :
    (forall x, In x l -> P x (f x)) -> Forall2 P l (map f l).
  Proof. induction l as [|x r IH]; intros H; cbn; constructor; [apply H; now left | apply IH; intros; apply H; now right]. Qed.

  Lemma old_idle s owed now' rs :
    Forall (owed_ok s) owed -> now' = s_now s ->
    (forall w, In w owed -> filter (fun g => g_dest g =? w_dest w) rs = []) ->
    Forall2 (fun w w' => upd_owed now' rs w = (w', [])) owed owed.
  Proof.
    intros H -> Hf. rewrite <- (map_id owed) at 2. apply Forall2_map_self. intros w Hw.
    rewrite Forall_forall in H. apply upd_idle; [now apply Hf|].
    destruct (H w Hw) as [[Hg [when [rsw [_ [_ [A [B _]]]]]]]|[Hp _]]; [left; split; [exact Hg | left; lia] | now right].
  Qed.

  Lemma owed_ok_same s s' w : s_now s' = s_now s -> s_pending s' = s_pending s -> owed_ok s w -> owed_ok s' w.
  Proof. intros E1 E2. unfold owed_ok. now rewrite E1, E2. Qed.

  (* ---------------------------------------------------------------- ONoop *)
  Lemma step_noop s k ops : Inv s k (ONoop :: ops) -> strict s ->
    mon_step root k ONoop {| o_sent := map (dgram_of cfg) []; o_raised := false |} =
      ({| k_now := k_now k; k_owed := k_owed k; k_next := k_next k; k_seen := k_seen k |}, []) /\
    Inv s {| k_now := k_now k; k_owed := k_owed k; k_next := k_next k; k_seen := k_seen k |} ops.
  Proof.
    intros I St. split.
    - unfold mon_step. cbn [map o_sent filter].
      rewrite (mon_owed_ok k ONoop (k_now k) [] (k_owed k)).
      + rewrite mon_adv_quiet; try reflexivity; try exact I0.
        unfold strict in St. pose proof (i_ann _ _ _ I) as A. rewrite (i_now _ _ _ I).
        destruct (s_ann s) as [[a idx]|]; [destruct A as [-> _]; exact St | now rewrite A].
      + cbn [new_owed]. rewrite app_nil_r. apply (old_idle s); [apply (i_owed _ _ _ I) | apply (i_now _ _ _ I) | reflexivity].
      + reflexivity.
    - destruct I as [I1 I2 I3 I4 I5]. constructor; cbn [k_now k_owed k_next k_seen]; auto.
  Qed.

  (* ---------------------------------------------------------------- OStop *)
  Lemma step_stop s k ops : Inv s k (OStop :: ops) -> strict s ->
    let out := send_all (s_now s) target_tok (build_advertisements cfg nts_byebye) in
    let s' := {| s_now := s_now s; s_pending := s_pending s; s_ann := None |} in
    let k' := {| k_now := k_now k; k_owed := k_owed k; k_next := None; k_seen := k_seen k |} in
    mon_step root k OStop {| o_sent := map (dgram_of cfg) out; o_raised := false |} = (k', []) /\
    Forall good_sent out /\ Inv s' k' ops /\ strict s'.
  Proof.
    intros I St out s' k'.
    assert (G : Forall (is_good_nts nts_byebye) out).
    { unfold out, send_all. apply Forall_forall. intros x Hx. apply in_map_iff in Hx as [m [<- Hm]].
      pose proof (advs_good nts_byebye (or_intror eq_refl)) as A. rewrite Forall_forall in A.
      destruct (A m Hm) as [A1 [A2 A3]]. unfold is_good_nts. cbn [x_msg x_dest]. auto. }
    assert (Gs : Forall good_sent out) by (eapply Forall_impl; [|exact G]; apply good_of_nts).
    destruct (byebye_filters out G) as [F1 [F2 [F3 F4]]].
    split; [|split; [exact Gs|split]].
    - unfold mon_step. cbn [o_sent].
      rewrite (map_dgram_simple cfg OK out) by (eapply Forall_impl; [|exact Gs]; intros x [Gx _]; exact Gx).
      fold dg. rewrite F1.
      rewrite (mon_owed_ok k OStop (k_now k) [] (k_owed k)).
      + rewrite (mon_adv_stop k (k_now k) (map dg out) (map dg out)); auto.
        * unfold out, dg, send_all. rewrite !map_map. cbn [gpair dg_simple g_type g_usn x_msg].
          apply (adverts_table cfg OK nts_byebye).
        * apply Forall_forall. intros g Hg. apply in_map_iff in Hg as [x [<- Hx]]. unfold out, send_all in Hx.
          apply in_map_iff in Hx as [m [<- _]]. cbn. symmetry. apply (i_now _ _ _ I).
        * unfold strict in St. pose proof (i_ann _ _ _ I) as A. rewrite (i_now _ _ _ I).
          destruct (s_ann s) as [[a idx]|]; [destruct A as [-> _]; exact St | now rewrite A].
      + cbn [new_owed]. rewrite app_nil_r. apply (old_idle s); [apply (i_owed _ _ _ I) | apply (i_now _ _ _ I) | reflexivity].
      + reflexivity.
    - destruct I as [I1 I2 I3 I4 I5]. constructor.
      + exact I1.
      + exact I2.
      + exact I3.
      + exact I4.
      + reflexivity.
    - unfold strict, s'. cbn [s_ann]. constructor.
  Qed.

  (* ---------------------------------------------------------------- OSearch *)
  Definition add_pending (s : state) (p : Z * N * list msg) : state :=
    {| s_now := s_now s; s_pending := s_pending s ++ [p]; s_ann := s_ann s |}.

  Lemma search_outcome s line man st mx dest pick :
    let st0 := match st with Some x => x | None => [] end in
    let orig := if search_valid line man then spec_answers root st0 else [] in
    wire_value_ok st0 = true ->
    (on_search cfg s line man st mx dest pick = (s, [], false) /\ orig = []) \/
    (exists ms, on_search cfg s line man st mx dest pick = (s, send_all (s_now s) dest ms, false) /\
                pairs_of ms = orig /\ Forall (fun m => good_msg cfg m /\ m_kind m = MResponse) ms /\
                (0 <= mx_window mx)%Z) \/
    (exists ms when, on_search cfg s line man st mx dest pick = (add_pending s (when, dest, ms), [], false) /\
                pairs_of ms = orig /\ Forall (fun m => good_msg cfg m /\ m_kind m = MResponse) ms /\
                (s_now s < when < s_now s + mx_window mx)%Z).
  Proof.
    intros st0 orig W. unfold on_search. destruct consts_agree as [_ [_ [_ [E1 [E2 _]]]]].
    assert (V : negb (str_eqb line search_line) ||
                negb (match man with Some m => str_eqb m ssdp_discover | None => false end) =
                negb (search_valid line man)).
    { unfold search_valid. rewrite E1, E2. destruct (str_eqb line sp_search_line); cbn; [|reflexivity].
      destruct man as [m|]; reflexivity. }
    rewrite V. unfold orig. destruct (search_valid line man); cbn [negb]; [|left; auto].
    change (match st with Some x => x | None => [] end) with st0. pose proof (responses_table cfg OK st0 (wire_ascii _ W)) as T. fold root in T.
    pose proof (responses_wf cfg OK st0 W) as G.
    assert (G' : Forall (fun m => good_msg cfg m /\ m_kind m = MResponse) (build_responses cfg st0)).
    { eapply Forall_impl; [|exact G]. intros m [Wm [K Nn]]. split; [|exact K]. split; [exact Wm|]. left. auto. }
    subst st0. destruct (build_responses cfg _) as [|m ms] eqn:B.
    - left. split; [reflexivity|]. now rewrite <- T.
    - destruct (mx_facts mx) as [[D Wd]|[D Wd]].
      + right. left. exists (m :: ms). rewrite D. cbn [Z.eqb]. auto.
      + right. right. destruct (randrange_facts (mx_delay mx) pick D) as [r [R Rb]].
        assert (Dz : (mx_delay mx =? 0)%Z = false) by lia. rewrite Dz, R.
        exists (m :: ms), (s_now s + r * 1000 / rnd_div)%Z. split; [reflexivity|]. split; [exact T|]. split; [exact G'|]. lia.
  Qed.

  Lemma fresh_dest s k ops line man st mx dest pick :
    Inv s k (OSearch line man st mx dest pick :: ops) ->
    ~ In dest (map w_dest (k_owed k)) /\
    NoDup (map w_dest (k_owed k ++ [{| w_dest := dest; w_t0 := 0; w_dl := 0; w_orig := []; w_got := [] |}]) ++
           flat_map op_dests ops).
  Proof.
    intros I. pose proof (i_dests _ _ _ I) as H. cbn [flat_map op_dests List.app] in H. split.
    - apply NoDup_remove_2 in H. intros Hin. apply H. apply in_or_app. now left.
    - rewrite map_app. cbn [map w_dest]. now rewrite <- app_assoc.
  Qed.

  Lemma dest_filter_all d xs : Forall (fun x => x_dest x = d) xs ->
    filter (fun g => g_dest g =? d) (map dg xs) = map dg xs.
  Proof.
    intros H. apply filter_all_true. intros g Hg. apply in_map_iff in Hg as [x [<- Hx]].
    rewrite Forall_forall in H. cbn. rewrite (H x Hx). apply N.eqb_refl.
  Qed.
  Lemma dest_filter_none d d' xs : Forall (fun x => x_dest x = d) xs -> d <> d' ->
    filter (fun g => g_dest g =? d') (map dg xs) = [].
  Proof.
    intros H Hne. apply filter_all_false. intros g Hg. apply in_map_iff in Hg as [x [<- Hx]].
    rewrite Forall_forall in H. cbn. rewrite (H x Hx). apply N.eqb_neq. exact Hne.
  Qed.
  Lemma send_all_dest t d ms : Forall (fun x => x_dest x = d) (send_all t d ms).
  Proof. apply Forall_forall. intros x Hx. apply in_map_iff in Hx as [m [<- _]]. reflexivity. Qed.
  Lemma send_all_resp t d ms : Forall (fun m => good_msg cfg m /\ m_kind m = MResponse) ms ->
    Forall is_good_resp (send_all t d ms).
  Proof.
    intros H. apply Forall_forall. intros x Hx. apply in_map_iff in Hx as [m [<- Hm]].
    rewrite Forall_forall in H. exact (H m Hm).
  Qed.

  Lemma pend_for_app d a b : pend_for d (a ++ b) = pend_for d a ++ pend_for d b.
  Proof. apply filter_app. Qed.

  Lemma step_search s k ops line man st mx dest pick :
    Inv s k (OSearch line man st mx dest pick :: ops) -> strict s ->
    op_ok (OSearch line man st mx dest pick) = true ->
    exists s' out k',
      on_search cfg s line man st mx dest pick = (s', out, false) /\
      mon_step root k (OSearch line man st mx dest pick)
               {| o_sent := map (dgram_of cfg) out; o_raised := false |} = (k', []) /\
      Forall good_sent out /\ Inv s' k' ops /\ strict s'.
  Proof.
    intros I St Hok. cbn [op_ok] in Hok. apply andb_true_iff in Hok as [Hd W].
    set (st0 := match st with Some x => x | None => [] end) in *.
    set (orig := if search_valid line man then spec_answers root st0 else []).
    destruct (fresh_dest _ _ _ _ _ _ _ _ _ I) as [Hfresh Hnd].
    pose proof (pend_for_fresh _ _ _ _ I Hfresh) as Pf.
    set (wnew := {| w_dest := dest; w_t0 := k_now k; w_dl := (k_now k + mx_window mx)%Z; w_orig := orig; w_got := [] |}).
    assert (Enew : new_owed root (k_now k) (OSearch line man st mx dest pick) = [wnew]) by reflexivity.
    assert (Hq : match k_next k with Some a => (k_now k < a)%Z | None => True end).
    { unfold strict in St. pose proof (i_ann _ _ _ I) as A. rewrite (i_now _ _ _ I).
      destruct (s_ann s) as [[a idx]|]; [destruct A as [-> _]; exact St | now rewrite A]. }
    assert (Hold : forall w, In w (k_owed k) -> w_dest w <> dest).
    { intros w Hw E. apply Hfresh. rewrite <- E. now apply in_map. }
    assert (Hnd' : forall w', w_dest w' = dest ->
                   NoDup (map w_dest (k_owed k ++ [w']) ++ flat_map op_dests ops)).
    { intros w' E. rewrite map_app in *. cbn [map w_dest] in *. now rewrite E. }
    destruct (search_outcome s line man st mx dest pick W) as [[E O0]|[[ms [E [P0 [G Wn]]]]|[ms [when [E [P0 [G T]]]]]]].
    - (* nothing to answer *)
      assert (O : orig = []) by exact O0. clear O0.
      exists s, [], {| k_now := k_now k; k_owed := k_owed k ++ [wnew]; k_next := k_next k; k_seen := k_seen k |}.
      split; [exact E|]. split; [|split; [constructor|split; [|exact St]]].
      + unfold mon_step. cbn [map o_sent filter].
        rewrite (mon_owed_ok k _ (k_now k) [] (k_owed k ++ [wnew])).
        * rewrite mon_adv_quiet; try reflexivity; try exact Logic.I. exact Hq.
        * rewrite Enew. apply Forall2_app_intro.
          -- apply (old_idle s); [apply (i_owed _ _ _ I) | apply (i_now _ _ _ I) | reflexivity].
          -- constructor; [|constructor]. apply upd_idle; [reflexivity|]. left. split; [reflexivity|]. right. exact O.
        * reflexivity.
      + destruct I as [I1 I2 I3 I4 I5]. constructor; cbn [k_now k_owed k_next k_seen].
        * exact I1.
        * apply Forall_app. split; [exact I2|]. constructor; [|constructor]. right. cbn [w_got w_orig w_dest wnew].
          rewrite O. split; [constructor | exact Pf].
        * intros p Hp. destruct (I3 p Hp) as [A B]. split; [|exact B]. rewrite map_app. apply in_or_app. now left.
        * now apply Hnd'.
        * exact I5.
    - (* answered at once *)
      assert (P : pairs_of ms = orig) by exact P0. clear P0.
      pose proof (send_all_resp (s_now s) dest ms G) as Gr.
      destruct (resp_filters _ Gr) as [F1 [F2 [F3 F4]]].
      set (w' := {| w_dest := dest; w_t0 := k_now k; w_dl := (k_now k + mx_window mx)%Z; w_orig := orig;
                    w_got := pairs_of ms |}).
      exists s, (send_all (s_now s) dest ms),
             {| k_now := k_now k; k_owed := k_owed k ++ [w']; k_next := k_next k; k_seen := k_seen k |}.
      split; [exact E|]. split; [|split; [|split; [|exact St]]].
      + unfold mon_step. cbn [o_sent].
        rewrite (map_dgram_simple cfg OK) by (eapply Forall_impl; [|exact Gr]; intros x [Gx _]; exact Gx).
        fold dg. rewrite F1.
        rewrite (mon_owed_ok k _ (k_now k) (map dg (send_all (s_now s) dest ms)) (k_owed k ++ [w'])).
        * rewrite mon_adv_quiet; try reflexivity; try exact Logic.I; auto.
        * rewrite Enew. apply Forall2_app_intro.
          -- apply (old_idle s); [apply (i_owed _ _ _ I) | apply (i_now _ _ _ I)|].
             intros w Hw. apply (dest_filter_none dest); [apply send_all_dest|]. intros E'. now apply (Hold w Hw).
          -- constructor; [|constructor].
             apply (upd_answer cfg (k_now k) _ wnew ms (s_now s)); cbn [wnew w_got w_dest w_orig w_t0 w_dl].
             ++ reflexivity.
             ++ apply dest_filter_all, send_all_dest.
             ++ rewrite P. apply Permutation_refl.
             ++ rewrite (i_now _ _ _ I). lia.
        * apply forallb_forall. intros g Hg. apply in_map_iff in Hg as [x [<- Hx]].
          apply existsb_exists. exists wnew. rewrite Enew. split; [apply in_or_app; right; now left|].
          pose proof (send_all_dest (s_now s) dest ms) as Sd. rewrite Forall_forall in Sd. cbn. rewrite (Sd x Hx).
          apply N.eqb_refl.
      + eapply Forall_impl; [|exact Gr]. apply good_of_resp.
      + destruct I as [I1 I2 I3 I4 I5]. constructor; cbn [k_now k_owed k_next k_seen].
        * exact I1.
        * apply Forall_app. split; [exact I2|]. constructor; [|constructor]. right. cbn [w_got w_orig w_dest w'].
          rewrite P. split; [apply Permutation_refl | exact Pf].
        * intros p Hp. destruct (I3 p Hp) as [A B]. split; [|exact B]. rewrite map_app. apply in_or_app. now left.
        * now apply Hnd'.
        * exact I5.
    - (* scheduled *)
      assert (P : pairs_of ms = orig) by exact P0. clear P0.
      exists (add_pending s (when, dest, ms)), [],
             {| k_now := k_now k; k_owed := k_owed k ++ [wnew]; k_next := k_next k; k_seen := k_seen k |}.
      split; [exact E|]. split; [|split; [constructor|split; [|exact St]]].
      + unfold mon_step. cbn [map o_sent filter].
        rewrite (mon_owed_ok k _ (k_now k) [] (k_owed k ++ [wnew])).
        * rewrite mon_adv_quiet; try reflexivity; try exact Logic.I. exact Hq.
        * rewrite Enew. apply Forall2_app_intro.
          -- apply (old_idle s); [apply (i_owed _ _ _ I) | apply (i_now _ _ _ I) | reflexivity].
          -- constructor; [|constructor]. apply upd_idle; [reflexivity|]. left. split; [reflexivity|]. left.
             cbn [wnew w_dl]. rewrite (i_now _ _ _ I). lia.
        * reflexivity.
      + destruct I as [I1 I2 I3 I4 I5]. constructor; cbn [k_now k_owed k_next k_seen add_pending s_now s_pending s_ann].
        * exact I1.
        * apply Forall_app. split.
          -- apply Forall_forall. intros w Hw. rewrite Forall_forall in I2. specialize (I2 w Hw).
             unfold owed_ok in *. cbn [add_pending s_now s_pending].
             rewrite pend_for_app. cbn [pend_for filter fst snd].
             assert (Ne : (dest =? w_dest w) = false) by (apply N.eqb_neq; intros E'; now apply (Hold w Hw)).
             rewrite Ne, app_nil_r. exact I2.
          -- constructor; [|constructor]. left. cbn [wnew w_got w_orig w_dest w_dl w_t0 add_pending s_now s_pending].
             split; [reflexivity|]. exists when, ms. rewrite pend_for_app. fold (pend_for dest (s_pending s)). rewrite Pf.
             cbn [pend_for filter fst snd List.app]. rewrite N.eqb_refl. split; [reflexivity|].
             split; [rewrite P; apply Permutation_refl|]. rewrite I1. lia.
        * intros p Hp. apply in_app_iff in Hp as [Hp|[<-|[]]].
          -- destruct (I3 p Hp) as [A B]. split; [|exact B]. rewrite map_app. apply in_or_app. now left.
          -- cbn [fst snd]. split; [|exact G]. rewrite map_app. apply in_or_app. right. now left.
        * now apply Hnd'.
        * exact I5.
  Qed.

  (* ---------------------------------------------------------------- OAdvance *)
  Definition duep (target : Z) (p : Z * N * list msg) : bool := (fst (fst p) <=? target)%Z.
  Definition resp_block (p : Z * N * list msg) : list sent := send_all (fst (fst p)) (snd (fst p)) (snd p).

  Lemma zlist_eqb_refl l : zlist_eqb l l = true.
  Proof. induction l as [|x r IH]; [reflexivity|]. cbn. rewrite Z.eqb_refl. exact IH. Qed.

  Lemma flat_map_single (A B : Type) (f : A -> B) l : flat_map (fun x => [f x]) l = map f l.
  Proof. induction l as [|x r IH]; [reflexivity|]. cbn. now rewrite IH. Qed.

  Lemma nth_adv_single i dm : nth_adv advs i = [nth (Nat.modulo i NN) advs dm].
  Proof.
    unfold nth_adv. fold NN. pose proof NN_pos as P.
    rewrite (nth_error_nth' advs dm) by (apply Nat.mod_upper_bound; lia). reflexivity.
  Qed.

  Definition asent_of (a : Z) (idx n : nat) (dm : msg) : list sent :=
    map (fun j => {| x_time := (a + Z.of_nat j * announce_interval_ms)%Z; x_dest := target_tok;
                     x_msg := nth (Nat.modulo (idx + j) NN) advs dm |}) (seq 0 n).

  Lemma asent_simpl a idx n dm :
    flat_map (fun j => send_all (a + Z.of_nat j * announce_interval_ms)%Z target_tok (nth_adv advs (idx + j))) (seq 0 n) =
    asent_of a idx n dm.
  Proof.
    unfold asent_of. rewrite <- flat_map_single. apply flat_map_ext. intros j. now rewrite (nth_adv_single _ dm).
  Qed.

  Lemma asent_good a idx n dm : Forall (is_good_nts nts_alive) (asent_of a idx n dm).
  Proof.
    apply Forall_forall. intros x Hx. apply in_map_iff in Hx as [j [<- _]].
    pose proof (advs_good nts_alive (or_introl eq_refl)) as A. fold advs in A. rewrite Forall_forall in A.
    assert (Hin : In (nth (Nat.modulo (idx + j) NN) advs dm) advs).
    { apply nth_In. apply Nat.mod_upper_bound. pose proof NN_pos. lia. }
    destruct (A _ Hin) as [A1 [A2 A3]]. unfold is_good_nts. cbn [x_msg x_dest]. auto.
  Qed.

  Lemma mon_adv_advance k dt now' sentl alives a idx dflt :
    filter is_alive sentl = alives -> filter is_byebye sentl = [] -> forallb others sentl = true ->
    k_next k = Some a -> k_seen k = rev (firstn idx L) -> (idx < NN)%nat ->
    map g_time alives = map (fun j => (a + Z.of_nat j * announce_interval_ms)%Z) (seq 0 (alive_count a now')) ->
    map gpair alives = map (fun j => nth (Nat.modulo (idx + j) NN) L dflt) (seq 0 (alive_count a now')) ->
    mon_adv root k (OAdvance dt) now' sentl =
    (Some (a + Z.of_nat (alive_count a now') * announce_interval_ms)%Z,
     rev (firstn (Nat.modulo (idx + alive_count a now') NN) L), []).
  Proof.
    intros Ha Hb Ho Hn Hs Hi Ht Hp. unfold mon_adv. rewrite Ha, Hb, Hn, Hs, Ht, Hp. fold others. rewrite Ho.
    fold all. rewrite <- L_length.
    assert (P1 : (0 < length L)%nat) by (rewrite L_length; apply NN_pos).
    assert (P2 : (idx < length L)%nat) by (rewrite L_length; exact Hi).
    rewrite (see_alives_cycle all L L_perm dflt P1 _ idx P2).
    rewrite zlist_eqb_refl. reflexivity.
  Qed.

  Lemma filter_dest_block d p :
    filter (fun x => x_dest x =? d) (resp_block p) = if snd (fst p) =? d then resp_block p else [].
  Proof.
    unfold resp_block, send_all. destruct (snd (fst p) =? d) eqn:E.
    - apply filter_all_true. intros x Hx. apply in_map_iff in Hx as [m [<- _]]. exact E.
    - apply filter_all_false. intros x Hx. apply in_map_iff in Hx as [m [<- _]]. exact E.
  Qed.

  Lemma mine_adv d due :
    filter (fun g => g_dest g =? d) (map dg (flat_map resp_block due)) =
    map dg (flat_map resp_block (filter (fun p => snd (fst p) =? d) due)).
  Proof.
    rewrite filter_map_comm. f_equal. unfold dg. cbn [dg_simple g_dest]. rewrite filter_flat_map.
    induction due as [|p r IH]; [reflexivity|]. cbn [flat_map filter]. rewrite filter_dest_block, IH.
    destruct (snd (fst p) =? d); reflexivity.
  Qed.

  Lemma due_pend d target pending :
    filter (fun p => snd (fst p) =? d) (filter (duep target) pending) = filter (duep target) (pend_for d pending).
  Proof. unfold pend_for. rewrite !filter_filter. apply filter_ext. intros p. apply andb_comm. Qed.
  Lemma later_pend d target pending :
    pend_for d (filter (fun p => negb (duep target p)) pending) =
    filter (fun p => negb (duep target p)) (pend_for d pending).
  Proof. unfold pend_for. rewrite !filter_filter. apply filter_ext. intros p. apply andb_comm. Qed.

  Lemma duep_pair target when d (rs : list msg) : duep target (when, d, rs) = (when <=? target)%Z.
  Proof. reflexivity. Qed.

  Definition settle (target : Z) (pending : list (Z * N * list msg)) (w : owed) : owed :=
    match pend_for (w_dest w) pending with
    | [(when, _, rsw)] =>
        if (when <=? target)%Z
        then {| w_dest := w_dest w; w_t0 := w_t0 w; w_dl := w_dl w; w_orig := w_orig w; w_got := pairs_of rsw |}
        else w
    | _ => w
    end.
  Lemma settle_dest target pending w : w_dest (settle target pending w) = w_dest w.
  Proof.
    unfold settle. destruct (pend_for (w_dest w) pending) as [|[[when d] rsw] [|q r]]; try reflexivity.
    destruct (when <=? target)%Z; reflexivity.
  Qed.

  Lemma adv_entry s target w s' : owed_ok s w ->
    s_now s' = target -> s_pending s' = filter (fun p => negb (duep target p)) (s_pending s) ->
    upd_owed target (map dg (flat_map resp_block (filter (duep target) (s_pending s)))) w =
      (settle target (s_pending s) w, []) /\
    owed_ok s' (settle target (s_pending s) w).
  Proof.
    intros H E1 E2. unfold owed_ok. rewrite E1, E2. unfold settle.
    destruct H as [[Hg [when [rsw [Pf [Perm [A [B C]]]]]]]|[Perm Pf]].
    - rewrite Pf. destruct (when <=? target)%Z eqn:E.
      + split.
        * apply (upd_answer cfg target _ w rsw when); auto; [|lia].
          rewrite mine_adv, due_pend, Pf. cbn [filter]; rewrite ?duep_pair. rewrite E. cbn [flat_map resp_block fst snd].
          now rewrite app_nil_r.
        * right. cbn [w_got w_orig w_dest]. split; [exact Perm|]. rewrite later_pend, Pf. cbn [filter]; rewrite ?duep_pair.
          now rewrite E.
      + split.
        * apply upd_idle; [|left; split; [exact Hg | left; lia]].
          rewrite mine_adv, due_pend, Pf. cbn [filter]; rewrite ?duep_pair. now rewrite E.
        * left. split; [exact Hg|]. exists when, rsw. rewrite later_pend, Pf. cbn [filter]; rewrite ?duep_pair. rewrite E. cbn [negb].
          repeat split; auto. lia.
    - rewrite Pf. split.
      + apply upd_idle; [|now right]. now rewrite mine_adv, due_pend, Pf.
      + right. split; [exact Perm|]. now rewrite later_pend, Pf.
  Qed.

  Lemma ann_strict a target : (target < a + Z.of_nat (alive_count a target) * announce_interval_ms)%Z.
  Proof.
    assert (P : (0 < announce_interval_ms)%Z) by reflexivity.
    unfold alive_count. destruct (a <=? target)%Z eqn:E; [|lia].
    assert (Q : (0 <= (target - a) / announce_interval_ms)%Z) by (apply Z.div_pos; lia).
    rewrite Z2Nat.id by lia.
    pose proof (Z.mul_succ_div_gt (target - a) announce_interval_ms P). lia.
  Qed.

  Lemma step_advance s k ops dt : Inv s k (OAdvance dt :: ops) ->
    exists s' out k',
      advance cfg s dt = (s', out, false) /\
      mon_step root k (OAdvance dt) {| o_sent := map (dgram_of cfg) out; o_raised := false |} = (k', []) /\
      Forall good_sent out /\ Inv s' k' ops /\ strict s'.
  Proof.
    intros I. set (target := (s_now s + dt)%Z).
    set (due := filter (duep target) (s_pending s)).
    set (later := filter (fun p => negb (duep target p)) (s_pending s)).
    set (rsent := flat_map resp_block due).
    assert (Gr : Forall is_good_resp rsent).
    { apply Forall_forall. intros x Hx. apply in_flat_map in Hx as [p [Hp Hx]]. apply filter_In in Hp as [Hp _].
      destruct (i_pend _ _ _ I p Hp) as [_ G]. apply in_map_iff in Hx as [m [<- Hm]]. rewrite Forall_forall in G.
      exact (G m Hm). }
    destruct (resp_filters _ Gr) as [R1 [R2 [R3 R4]]].
    set (owed' := map (settle target (s_pending s)) (k_owed k)).
    assert (Hupd : forall s', s_now s' = target -> s_pending s' = later ->
              Forall2 (fun w w' => upd_owed target (map dg rsent) w = (w', []))
                      (k_owed k ++ new_owed root (k_now k) (OAdvance dt)) owed' /\ Forall (owed_ok s') owed').
    { intros s' E1 E2. cbn [new_owed]. rewrite app_nil_r. split.
      - apply Forall2_map_self. intros w Hw. pose proof (i_owed _ _ _ I) as O. rewrite Forall_forall in O.
        exact (proj1 (adv_entry s target w s' (O w Hw) E1 E2)).
      - apply Forall_forall. intros w' Hw'. apply in_map_iff in Hw' as [w [<- Hw]].
        pose proof (i_owed _ _ _ I) as O. rewrite Forall_forall in O.
        exact (proj2 (adv_entry s target w s' (O w Hw) E1 E2)). }
    assert (Hunsol : forallb (fun g => existsb (fun w => w_dest w =? g_dest g)
                                               (k_owed k ++ new_owed root (k_now k) (OAdvance dt))) (map dg rsent) = true).
    { cbn [new_owed]. rewrite app_nil_r. apply forallb_forall. intros g Hg. apply in_map_iff in Hg as [x [<- Hx]].
      apply in_flat_map in Hx as [p [Hp Hx]]. apply filter_In in Hp as [Hp _].
      destruct (i_pend _ _ _ I p Hp) as [Hd _]. apply in_map_iff in Hd as [w [Ew Hw]].
      apply existsb_exists. exists w. split; [exact Hw|]. apply in_map_iff in Hx as [m [<- _]]. cbn. rewrite Ew. apply N.eqb_refl. }
    assert (Hdests : map w_dest owed' = map w_dest (k_owed k)).
    { unfold owed'. rewrite map_map. apply map_ext. intros w. apply settle_dest. }
    assert (Hpend' : forall p, In p later ->
               In (snd (fst p)) (map w_dest owed') /\ Forall (fun m => good_msg cfg m /\ m_kind m = MResponse) (snd p)).
    { intros p Hp. apply filter_In in Hp as [Hp _]. rewrite Hdests. exact (i_pend _ _ _ I p Hp). }
    assert (Hnd : NoDup (map w_dest owed' ++ flat_map op_dests ops)).
    { rewrite Hdests. exact (i_dests _ _ _ I). }
    unfold advance. fold target. change (fun p : Z * N * list msg => (fst (fst p) <=? target)%Z) with (duep target).
    fold due. fold later. change (fun p : Z * N * list msg => send_all (fst (fst p)) (snd (fst p)) (snd p)) with resp_block.
    fold rsent. fold advs.
    pose proof (i_ann _ _ _ I) as A. destruct (s_ann s) as [[a idx]|] eqn:Ea.
    - destruct A as [An [Ai As]]. set (n := ann_count a target).
      set (dm := {| m_kind := MNotify; m_type := []; m_usn := []; m_nts := [] |}).
      rewrite (asent_simpl a idx n dm).
      pose proof (asent_good a idx n dm) as Ga. destruct (alive_filters _ Ga) as [A1 [A2 [A3 A4]]].
      set (s' := {| s_now := target; s_pending := later;
                    s_ann := Some ((a + Z.of_nat n * announce_interval_ms)%Z, Nat.modulo (idx + n) (length advs)) |}).
      destruct (Hupd s' eq_refl eq_refl) as [H2 Ho].
      exists s', (rsent ++ asent_of a idx n dm),
             {| k_now := target; k_owed := owed';
                k_next := Some (a + Z.of_nat n * announce_interval_ms)%Z;
                k_seen := rev (firstn (Nat.modulo (idx + n) NN) L) |}.
      assert (Gall : Forall good_sent (rsent ++ asent_of a idx n dm)).
      { apply Forall_app. split; [eapply Forall_impl; [|exact Gr]; apply good_of_resp |
                                 eapply Forall_impl; [|exact Ga]; apply good_of_nts]. }
      split; [reflexivity|]. split; [|split; [exact Gall|split]].
      + unfold mon_step. cbn [o_sent]. rewrite (i_now _ _ _ I). fold target.
        rewrite (map_dgram_simple cfg OK) by (eapply Forall_impl; [|exact Gall]; intros x [Gx _]; exact Gx).
        fold dg. rewrite map_app, filter_app, R1, A1, app_nil_r.
        rewrite (mon_owed_ok k _ target (map dg rsent) owed' H2 Hunsol).
        rewrite (mon_adv_advance k dt target _ (map dg (asent_of a idx n dm)) a idx (mpair dm)); auto.
        * rewrite filter_app, R2, A2. reflexivity.
        * rewrite filter_app, R3, A3. reflexivity.
        * rewrite forallb_app, R4, A4. reflexivity.
        * unfold asent_of. rewrite !map_map. reflexivity.
        * unfold asent_of. rewrite !map_map. apply map_ext. intros j. unfold L, pairs_of. cbn [dg dg_simple gpair g_type g_usn x_msg].
          symmetry. apply (map_nth mpair).
      + constructor; cbn [k_now k_owed k_next k_seen s_now s_pending s_ann s']; auto.
        split; [reflexivity|]. split; [apply Nat.mod_upper_bound; pose proof NN_pos; fold NN; lia | reflexivity].
      + unfold strict, s'. cbn [s_ann s_now]. apply ann_strict.
    - set (s' := {| s_now := target; s_pending := later; s_ann := None |}).
      destruct (Hupd s' eq_refl eq_refl) as [H2 Ho].
      exists s', rsent, {| k_now := target; k_owed := owed'; k_next := k_next k; k_seen := k_seen k |}.
      assert (Gall : Forall good_sent rsent) by (eapply Forall_impl; [|exact Gr]; apply good_of_resp).
      split; [reflexivity|]. split; [|split; [exact Gall|split]].
      + unfold mon_step. cbn [o_sent]. rewrite (i_now _ _ _ I). fold target.
        rewrite (map_dgram_simple cfg OK) by (eapply Forall_impl; [|exact Gall]; intros x [Gx _]; exact Gx).
        fold dg. rewrite R1.
        rewrite (mon_owed_ok k _ target (map dg rsent) owed' H2 Hunsol).
        rewrite mon_adv_quiet; auto. now rewrite A.
      + constructor; cbn [k_now k_owed k_next k_seen s_now s_pending s_ann s']; auto.
      + unfold strict, s'. cbn [s_ann]. constructor.
  Qed.
End Invariant.

(* ------------------------------------------------------------------ all histories *)
Definition obs_of (cfg : config) (r : list sent * bool) : step_obs :=
  {| o_sent := map (dgram_of cfg) (fst r); o_raised := snd r |}.

Section Main.
  Variable cfg : config.
  Hypothesis OK : CfgOk cfg.

  Definition ready (s : state) (ops : list sop) : Prop :=
    strict s \/ exists dt r, ops = OAdvance dt :: r.

  Lemma run_ok : forall ops s k n, Inv cfg s k ops -> ready s ops -> forallb op_ok ops = true ->
    mon_run cfg n k ops (map (obs_of cfg) (run_from cfg s ops)) = [].
  Proof.
    induction ops as [|o r IH]; intros s k n I R Hok; [reflexivity|].
    cbn [forallb] in Hok. apply andb_true_iff in Hok as [Ho Hr].
    assert (Step : exists s' out k',
               sstep cfg s o = (s', out, false) /\
               mon_step (c_root cfg) k o {| o_sent := map (dgram_of cfg) out; o_raised := false |} = (k', []) /\
               Forall (good_sent cfg) out /\ Inv cfg s' k' r /\ strict s').
    { destruct o as [line man st mx dest pick|dt| |].
      - destruct R as [St|[dt [r' E]]]; [|discriminate]. cbn [sstep]. now apply step_search.
      - cbn [sstep]. now apply step_advance.
      - destruct R as [St|[dt [r' E]]]; [|discriminate]. cbn [sstep].
        destruct (step_stop cfg OK s k r I St) as [A [B [C D]]]. unfold stop. eauto 10.
      - destruct R as [St|[dt [r' E]]]; [|discriminate]. cbn [sstep].
        destruct (step_noop cfg s k r I St) as [A B]. eexists s, [], _. split; [reflexivity|].
        split; [exact A|]. split; [constructor|]. split; [exact B | exact St]. }
    destruct Step as [s' [out [k' [E1 [E2 [G [I' St']]]]]]].
    cbn [run_from]. rewrite E1. cbn [map mon_run]. unfold obs_of at 1. cbn [fst snd]. rewrite E2.
    change (obs_of cfg (out, false)) with {| o_sent := map (dgram_of cfg) out; o_raised := false |}.
    rewrite (step_failures_ok cfg OK out G). cbn [List.app map].
    apply IH; [exact I' | now left | exact Hr].
  Qed.

  Lemma Inv0 ops : NoDup (flat_map op_dests ops) -> Inv cfg state0 mon0 (OAdvance 0 :: ops).
  Proof.
    intros H. constructor; cbn [state0 mon0 k_now s_now k_owed s_pending k_next k_seen s_ann].
    - reflexivity.
    - constructor.
    - intros p [].
    - exact H.
    - split; [reflexivity|]. split; [apply (NN_pos cfg) | reflexivity].
  Qed.
End Main.

Theorem spec_holds : forall i : input, dom i = true -> failures i (model_run i) = [].
Proof.
  intros [cfg ops] H. unfold dom in H. apply andb_true_iff in H as [Hc Ho].
  pose proof (cfg_ok_facts cfg Hc) as OK. unfold ops_ok in Ho. apply andb_true_iff in Ho as [Ho Hd].
  apply (nodupb_NoDup N.eqb N.eqb_spec) in Hd.
  unfold failures, spec_failures, model_run, run.
  change (map (fun r => {| o_sent := map (dgram_of cfg) (fst r); o_raised := snd r |})) with (map (obs_of cfg)).
  apply (run_ok cfg OK).
  - now apply Inv0.
  - right. eauto.
  - cbn [forallb op_ok]. rewrite Ho. reflexivity.
Qed.
