(* C13 — the monitor accepts every history of the model: by induction over the operation list, with an
   invariant tying the model's pending timers to the monitor's obligations. *)
From Coq Require Import List Bool NArith ZArith Lia ZifyBool ZifyN Permutation Arith.
From AUC Require Import Prelude.PyStr Prelude.PyDict C16.Model C16.Spec C16.Proofs C16.Equivb C08.Model
  C03.Model C03.Spec C13.Model C13.Spec C13.Strings C13.Table C13.Accept C13.Run Gen.Server Gen.Ssdp.
Import ListNotations.
Local Open Scope N_scope.

Local Notation KS := str_eqb_spec.

(* ------------------------------------------------------------------ lists and counts *)
Lemma pair_eqb_spec a b : reflect (a = b) (pair_eqb a b).
Proof.
  destruct a as [a1 a2], b as [b1 b2]. unfold pair_eqb. cbn [fst snd].
  destruct (KS a1 b1) as [->|H1]; cbn; [destruct (KS a2 b2) as [->|H2]|]; constructor; congruence.
Qed.
Lemma pair_eqb_refl p : pair_eqb p p = true.
Proof. destruct (pair_eqb_spec p p); congruence. Qed.

Lemma filter_map_comm (A B : Type) (f : B -> bool) (g : A -> B) l :
  filter f (map g l) = map g (filter (fun x => f (g x)) l).
Proof. induction l as [|x r IH]; [reflexivity|]. cbn. destruct (f (g x)); cbn; now rewrite IH. Qed.

Lemma filter_filter (A : Type) (f g : A -> bool) l : filter f (filter g l) = filter (fun x => g x && f x) l.
Proof. induction l as [|x r IH]; [reflexivity|]. cbn. destruct (g x); cbn; [destruct (f x)|]; now rewrite IH. Qed.

Lemma filter_all_true (A : Type) (f : A -> bool) l : (forall x, In x l -> f x = true) -> filter f l = l.
Proof.
  induction l as [|x r IH]; intros H; [reflexivity|]. cbn. rewrite (H x (or_introl eq_refl)). f_equal. apply IH.
  intros y Hy. apply H. now right.
Qed.

Lemma filter_flat_map (A B : Type) (f : B -> bool) (g : A -> list B) l :
  filter f (flat_map g l) = flat_map (fun x => filter f (g x)) l.
Proof. induction l as [|x r IH]; [reflexivity|]. cbn. now rewrite filter_app, IH. Qed.

Lemma countp_app p a b : countp p (a ++ b) = (countp p a + countp p b)%nat.
Proof. unfold countp. now rewrite filter_app, app_length. Qed.
Lemma countp_rev p l : countp p (rev l) = countp p l.
Proof.
  induction l as [|x r IH]; [reflexivity|]. cbn [rev]. rewrite countp_app, IH. unfold countp. cbn.
  destruct (pair_eqb p x); cbn; lia.
Qed.
Lemma countp_firstn p n l : (countp p (firstn n l) <= countp p l)%nat.
Proof. rewrite <- (firstn_skipn n l) at 2. rewrite countp_app. lia. Qed.
Lemma countp_perm p l1 l2 : Permutation l1 l2 -> countp p l1 = countp p l2.
Proof.
  unfold countp. induction 1; cbn; try lia.
  - destruct (pair_eqb p x); cbn; lia.
  - destruct (pair_eqb p x), (pair_eqb p y); cbn; lia.
Qed.
Lemma countp_in p l : In p l -> (1 <= countp p l)%nat.
Proof.
  unfold countp. induction l as [|x r IH]; [contradiction|]. intros [->|H]; cbn.
  - rewrite pair_eqb_refl. cbn. lia.
  - destruct (pair_eqb p x); cbn; [lia | auto].
Qed.

Lemma firstn_succ (A : Type) (l : list A) (d : A) : forall idx, (idx < length l)%nat ->
  firstn (S idx) l = firstn idx l ++ [nth idx l d].
Proof.
  induction l as [|x r IH]; intros idx H; [cbn in H; lia|].
  destruct idx as [|i]; [reflexivity|]. cbn [firstn nth List.app]. f_equal. apply IH. cbn in H. lia.
Qed.

(* ------------------------------------------------------------------ the round robin *)
Section Cycle.
  Variable all L : list pair.
  Hypothesis PERM : Permutation L all.
  Variable dflt : pair.
  Let n := length L.
  Hypothesis NPOS : (0 < n)%nat.

  Lemma see_alives_cycle k : forall idx, (idx < n)%nat ->
    see_alives all (rev (firstn idx L)) (map (fun j => nth (Nat.modulo (idx + j) n) L dflt) (seq 0 k)) =
    (rev (firstn (Nat.modulo (idx + k) n) L), true).
  Proof.
    induction k as [|k IH]; intros idx Hidx.
    - cbn. rewrite Nat.add_0_r, Nat.mod_small by exact Hidx. reflexivity.
    - cbn [seq map]. rewrite <- seq_shift, map_map. cbn [see_alives].
      rewrite Nat.add_0_r, (Nat.mod_small idx n Hidx).
      set (p := nth idx L dflt).
      assert (E1 : p :: rev (firstn idx L) = rev (firstn (S idx) L)).
      { rewrite (firstn_succ _ L dflt idx Hidx), rev_app_distr. reflexivity. }
      rewrite E1.
      assert (C : Nat.leb (countp p (rev (firstn (S idx) L))) (countp p all) = true).
      { apply Nat.leb_le. rewrite countp_rev, <- (countp_perm p _ _ PERM). apply countp_firstn. }
      rewrite C. rewrite rev_length, firstn_length, <- (Permutation_length PERM). fold n.
      replace (Nat.min (S idx) n) with (S idx) by lia.
      destruct (Nat.eqb (S idx) n) eqn:E.
      + apply Nat.eqb_eq in E.
        assert (IH0 := IH 0%nat NPOS). cbn [firstn rev] in IH0.
        rewrite (map_ext (fun j => nth (Nat.modulo (idx + S j) n) L dflt)
                         (fun j => nth (Nat.modulo (0 + j) n) L dflt)).
        2:{ intros j. f_equal. replace (idx + S j)%nat with (j + 1 * n)%nat by lia. now rewrite Nat.mod_add by lia. }
        rewrite IH0. cbn [andb]. f_equal. f_equal. f_equal.
        replace (idx + S k)%nat with (k + 1 * n)%nat by lia. now rewrite Nat.mod_add by lia.
      + apply Nat.eqb_neq in E. assert (Hs : (S idx < n)%nat) by lia.
        rewrite (map_ext (fun j => nth (Nat.modulo (idx + S j) n) L dflt)
                         (fun j => nth (Nat.modulo (S idx + j) n) L dflt))
          by (intros j; f_equal; f_equal; lia).
        rewrite (IH (S idx) Hs). cbn [andb]. f_equal. f_equal. f_equal. f_equal. lia.
  Qed.
End Cycle.

(* ------------------------------------------------------------------ what the harness sees of a model message *)
Section Dgrams.
  Variable cfg : config.
  Hypothesis OK : CfgOk cfg.
  Let root := c_root cfg.
  Let loc := location_of_cfg cfg.

  Definition good_msg (m : msg) : Prop :=
    msg_wf cfg m /\
    ((m_kind m = MResponse /\ m_nts m = []) \/
     (m_kind m = MNotify /\ (m_nts m = nts_alive \/ m_nts m = nts_byebye))).

  Definition dg_simple (x : sent) : dgram :=
    {| g_time := x_time x;
       g_kind := match m_kind (x_msg x) with MResponse => 0 | MNotify => 1 end;
       g_type := m_type (x_msg x); g_nts := m_nts (x_msg x); g_usn := m_usn (x_msg x);
       g_loc := loc; g_dest := x_dest x; g_acc := true |}.

  Lemma dgram_simple x : good_msg (x_msg x) -> dgram_of cfg x = dg_simple x.
  Proof.
    intros [W H]. pose proof (accepted_true cfg OK (x_msg x) W H) as A.
    unfold dgram_of, dg_simple. rewrite A. destruct H as [[K Nn]|[K Nn]]; rewrite K.
    - destruct (seen_resp cfg (x_msg x) K) as [-> [-> [-> ->]]]. now rewrite Nn.
    - destruct (seen_adv cfg (x_msg x) K) as [-> [-> [-> ->]]]. reflexivity.
  Qed.

  Lemma map_dgram_simple xs : Forall (fun x => good_msg (x_msg x)) xs -> map (dgram_of cfg) xs = map dg_simple xs.
  Proof. intros H. apply map_ext_in. intros x Hx. rewrite Forall_forall in H. now apply dgram_simple, H. Qed.

  Lemma simple_usn_owner x : good_msg (x_msg x) -> c_usn_owner root (dg_simple x) = true.
  Proof.
    intros [W _]. destruct (wf_usn_part cfg (x_msg x) W) as [d [Hd [Hdesc [Hpart _]]]].
    unfold c_usn_owner. apply existsb_exists. exists d. split; [exact Hd|]. cbn [dg_simple g_type g_usn].
    unfold root. rewrite Hdesc, Hpart. apply str_eqb_refl.
  Qed.
  Lemma simple_accepted x : good_msg (x_msg x) -> (m_kind (x_msg x) = MNotify -> x_dest x = target_tok) ->
    c_accepted cfg (dg_simple x) = true.
  Proof.
    intros _ Hd. unfold c_accepted. cbn [dg_simple g_acc g_loc g_dest]. fold loc. rewrite str_eqb_refl. cbn [andb].
    unfold is_resp. cbn [g_kind dg_simple]. destruct (m_kind (x_msg x)); [reflexivity|]. rewrite Hd by reflexivity. reflexivity.
  Qed.

  Lemma simple_is_resp x : is_resp (dg_simple x) = match m_kind (x_msg x) with MResponse => true | MNotify => false end.
  Proof. unfold is_resp. cbn. destruct (m_kind (x_msg x)); reflexivity. Qed.
  Lemma simple_is_alive x : is_alive (dg_simple x) =
    match m_kind (x_msg x) with MResponse => false | MNotify => str_eqb (m_nts (x_msg x)) sp_alive end.
  Proof. unfold is_alive. cbn. destruct (m_kind (x_msg x)); reflexivity. Qed.
  Lemma simple_is_byebye x : is_byebye (dg_simple x) =
    match m_kind (x_msg x) with MResponse => false | MNotify => str_eqb (m_nts (x_msg x)) sp_byebye end.
  Proof. unfold is_byebye. cbn. destruct (m_kind (x_msg x)); reflexivity. Qed.
  Lemma simple_gpair x : gpair (dg_simple x) = mpair (x_msg x).
  Proof. reflexivity. Qed.
End Dgrams.

(* ------------------------------------------------------------------ obligations *)
Lemma owed_eta w : {| w_dest := w_dest w; w_t0 := w_t0 w; w_dl := w_dl w; w_orig := w_orig w; w_got := w_got w |} = w.
Proof. destruct w; reflexivity. Qed.

Lemma counts_le_of_perm got orig : Permutation got orig ->
  forallb (fun p => Nat.leb (countp p got) (countp p orig)) got = true.
Proof.
  intros H. apply forallb_forall. intros p _. apply Nat.leb_le. rewrite (countp_perm p _ _ H). lia.
Qed.

(* nothing for this requester in this step *)
Lemma upd_idle now' rs w :
  filter (fun g => g_dest g =? w_dest w) rs = [] ->
  (w_got w = [] /\ ((now' < w_dl w)%Z \/ w_orig w = [])) \/ Permutation (w_got w) (w_orig w) ->
  upd_owed now' rs w = (w, []).
Proof.
  intros Hf H. unfold upd_owed. rewrite Hf. cbn [map forallb]. rewrite app_nil_r, owed_eta. f_equal.
  destruct H as [[Hg H]|H].
  - rewrite Hg. cbn [forallb length]. destruct H as [H|H].
    + assert (E : (w_dl w <=? now')%Z = false) by lia. rewrite E. reflexivity.
    + rewrite H. cbn. now rewrite andb_false_r.
  - rewrite (counts_le_of_perm _ _ H), (Permutation_length H), Nat.eqb_refl. cbn. now rewrite andb_false_r.
Qed.

(* all the answers for this requester arrive in this step, inside the window *)
Lemma upd_answer cfg now' rs w ms tm :
  w_got w = [] ->
  filter (fun g => g_dest g =? w_dest w) rs = map (dg_simple cfg) (send_all tm (w_dest w) ms) ->
  Permutation (pairs_of ms) (w_orig w) -> (w_t0 w <= tm <= w_dl w)%Z ->
  upd_owed now' rs w =
  ({| w_dest := w_dest w; w_t0 := w_t0 w; w_dl := w_dl w; w_orig := w_orig w; w_got := pairs_of ms |}, []).
Proof.
  intros Hg Hf Hp Ht. unfold upd_owed. rewrite Hf, Hg. cbn [List.app].
  assert (E : map gpair (map (dg_simple cfg) (send_all tm (w_dest w) ms)) = pairs_of ms).
  { unfold send_all, pairs_of. rewrite !map_map. reflexivity. }
  rewrite E. f_equal.
  assert (C1 : forallb (fun g => Nat.leb 1 (countp (gpair g) (w_orig w)))
                       (map (dg_simple cfg) (send_all tm (w_dest w) ms)) = true).
  { apply forallb_forall. intros g Hin. apply in_map_iff in Hin as [x [<- Hx]].
    apply in_map_iff in Hx as [m [<- Hm]]. apply Nat.leb_le. apply countp_in.
    apply (Permutation_in _ Hp). unfold pairs_of. apply in_map_iff. exists m. auto. }
  assert (C2 : forallb (fun g => (w_t0 w <=? g_time g)%Z && (g_time g <=? w_dl w)%Z)
                       (map (dg_simple cfg) (send_all tm (w_dest w) ms)) = true).
  { apply forallb_forall. intros g Hin. apply in_map_iff in Hin as [x [<- Hx]].
    apply in_map_iff in Hx as [m [<- Hm]]. cbn. lia. }
  rewrite C1, C2, (counts_le_of_perm _ _ Hp), (Permutation_length Hp), Nat.eqb_refl. cbn. now rewrite andb_false_r.
Qed.

(* ------------------------------------------------------------------ the invariant *)
Section Invariant.
  Variable cfg : config.
  Hypothesis OK : CfgOk cfg.
  Let root := c_root cfg.
  Let advs := build_advertisements cfg nts_alive.
  Let L := pairs_of advs.
  Let NN := length advs.
  Let all := spec_all root.
  Let dg := dg_simple cfg.

  Definition is_good_resp (x : sent) : Prop := good_msg cfg (x_msg x) /\ m_kind (x_msg x) = MResponse.
  Definition is_good_nts (nts : pystr) (x : sent) : Prop :=
    good_msg cfg (x_msg x) /\ m_kind (x_msg x) = MNotify /\ m_nts (x_msg x) = nts /\ x_dest x = target_tok.
  Definition good_sent (x : sent) : Prop :=
    good_msg cfg (x_msg x) /\ (m_kind (x_msg x) = MNotify -> x_dest x = target_tok).

  Lemma good_of_resp x : is_good_resp x -> good_sent x.
  Proof. intros [G K]. split; [exact G|]. rewrite K. discriminate. Qed.
  Lemma good_of_nts nts x : is_good_nts nts x -> good_sent x.
  Proof. intros [G [K [_ D]]]. split; auto. Qed.

  Definition others (g : dgram) : bool := is_resp g || is_alive g || is_byebye g.

  Lemma resp_filters xs : Forall is_good_resp xs ->
    filter is_resp (map dg xs) = map dg xs /\ filter is_alive (map dg xs) = [] /\
    filter is_byebye (map dg xs) = [] /\ forallb others (map dg xs) = true.
  Proof.
    intros H. rewrite Forall_forall in H. repeat split.
    - apply filter_all_true. intros g Hg. apply in_map_iff in Hg as [x [<- Hx]]. unfold dg.
      rewrite simple_is_resp. now rewrite (proj2 (H x Hx)).
    - apply filter_all_false. intros g Hg. apply in_map_iff in Hg as [x [<- Hx]]. unfold dg.
      rewrite simple_is_alive. now rewrite (proj2 (H x Hx)).
    - apply filter_all_false. intros g Hg. apply in_map_iff in Hg as [x [<- Hx]]. unfold dg.
      rewrite simple_is_byebye. now rewrite (proj2 (H x Hx)).
    - apply forallb_forall. intros g Hg. apply in_map_iff in Hg as [x [<- Hx]]. unfold others, dg.
      rewrite simple_is_resp. now rewrite (proj2 (H x Hx)).
  Qed.

  Lemma alive_filters xs : Forall (is_good_nts nts_alive) xs ->
    filter is_resp (map dg xs) = [] /\ filter is_alive (map dg xs) = map dg xs /\
    filter is_byebye (map dg xs) = [] /\ forallb others (map dg xs) = true.
  Proof.
    intros H. rewrite Forall_forall in H. repeat split.
    - apply filter_all_false. intros g Hg. apply in_map_iff in Hg as [x [<- Hx]]. unfold dg.
      rewrite simple_is_resp. destruct (H x Hx) as [_ [K _]]. now rewrite K.
    - apply filter_all_true. intros g Hg. apply in_map_iff in Hg as [x [<- Hx]]. unfold dg.
      rewrite simple_is_alive. destruct (H x Hx) as [_ [K [Nn _]]]. rewrite K, Nn. reflexivity.
    - apply filter_all_false. intros g Hg. apply in_map_iff in Hg as [x [<- Hx]]. unfold dg.
      rewrite simple_is_byebye. destruct (H x Hx) as [_ [K [Nn _]]]. rewrite K, Nn. reflexivity.
    - apply forallb_forall. intros g Hg. apply in_map_iff in Hg as [x [<- Hx]]. unfold others, dg.
      rewrite simple_is_resp, simple_is_alive. destruct (H x Hx) as [_ [K [Nn _]]]. rewrite K, Nn. reflexivity.
  Qed.

  Lemma byebye_filters xs : Forall (is_good_nts nts_byebye) xs ->
    filter is_resp (map dg xs) = [] /\ filter is_alive (map dg xs) = [] /\
    filter is_byebye (map dg xs) = map dg xs /\ forallb others (map dg xs) = true.
  Proof.
    intros H. rewrite Forall_forall in H. repeat split.
    - apply filter_all_false. intros g Hg. apply in_map_iff in Hg as [x [<- Hx]]. unfold dg.
      rewrite simple_is_resp. destruct (H x Hx) as [_ [K _]]. now rewrite K.
    - apply filter_all_false. intros g Hg. apply in_map_iff in Hg as [x [<- Hx]]. unfold dg.
      rewrite simple_is_alive. destruct (H x Hx) as [_ [K [Nn _]]]. rewrite K, Nn. reflexivity.
    - apply filter_all_true. intros g Hg. apply in_map_iff in Hg as [x [<- Hx]]. unfold dg.
      rewrite simple_is_byebye. destruct (H x Hx) as [_ [K [Nn _]]]. rewrite K, Nn. reflexivity.
    - apply forallb_forall. intros g Hg. apply in_map_iff in Hg as [x [<- Hx]]. unfold others, dg.
      rewrite simple_is_resp, simple_is_alive, simple_is_byebye. destruct (H x Hx) as [_ [K [Nn _]]]. rewrite K, Nn. reflexivity.
  Qed.

  Lemma step_failures_ok out : Forall good_sent out ->
    step_failures cfg {| o_sent := map (dgram_of cfg) out; o_raised := false |} = [].
  Proof.
    intros H. unfold step_failures. cbn [o_sent o_raised].
    rewrite (map_dgram_simple cfg OK out) by (eapply Forall_impl; [|exact H]; intros x [G _]; exact G).
    assert (A : forallb (c_usn_owner (c_root cfg)) (map (dg_simple cfg) out) = true).
    { apply forallb_forall. intros g Hg. apply in_map_iff in Hg as [x [<- Hx]]. rewrite Forall_forall in H.
      now apply simple_usn_owner, (H x Hx). }
    assert (B : forallb (c_accepted cfg) (map (dg_simple cfg) out) = true).
    { apply forallb_forall. intros g Hg. apply in_map_iff in Hg as [x [<- Hx]]. rewrite Forall_forall in H.
      destruct (H x Hx) as [G D]. now apply simple_accepted. }
    now rewrite A, B.
  Qed.

  (* the advertisement lists *)
  Lemma advs_good nts : nts = nts_alive \/ nts = nts_byebye ->
    Forall (fun m => good_msg cfg m /\ m_kind m = MNotify /\ m_nts m = nts) (build_advertisements cfg nts).
  Proof.
    intros Hn. eapply Forall_impl; [|apply (adverts_wf cfg OK nts)]. intros m [W [K Nn]].
    split; [|auto]. split; [exact W|]. right. split; [exact K|]. rewrite Nn. exact Hn.
  Qed.
  Lemma NN_pos : (0 < NN)%nat.
  Proof. unfold NN, advs, build_advertisements. cbn [length]. lia. Qed.
  Lemma L_perm : Permutation L all.
  Proof. apply (adverts_table cfg OK). Qed.
  Lemma L_length : length L = NN.
  Proof. unfold L, pairs_of. apply map_length. Qed.

  (* ---------------------------------------------------------------- invariant *)
  Definition pend_for (d : N) (pend : list (Z * N * list msg)) : list (Z * N * list msg) :=
    filter (fun p => snd (fst p) =? d) pend.

  Definition owed_ok (s : state) (w : owed) : Prop :=
    (w_got w = [] /\
     exists when rs, pend_for (w_dest w) (s_pending s) = [(when, w_dest w, rs)] /\
                     Permutation (pairs_of rs) (w_orig w) /\
                     (s_now s < when)%Z /\ (when < w_dl w)%Z /\ (w_t0 w <= when)%Z) \/
    (Permutation (w_got w) (w_orig w) /\ pend_for (w_dest w) (s_pending s) = []).

  Record Inv (s : state) (k : mon) (ops : list sop) : Prop := {
    i_now : k_now k = s_now s;
    i_owed : Forall (owed_ok s) (k_owed k);
    i_pend : forall p, In p (s_pending s) ->
               In (snd (fst p)) (map w_dest (k_owed k)) /\
               Forall (fun m => good_msg cfg m /\ m_kind m = MResponse) (snd p);
    i_dests : NoDup (map w_dest (k_owed k) ++ flat_map op_dests ops);
    i_ann : match s_ann s with
            | Some (a, idx) => k_next k = Some a /\ (idx < NN)%nat /\ k_seen k = rev (firstn idx L)
            | None => k_next k = None
            end
  }.
  Definition strict (s : state) : Prop :=
    match s_ann s with Some (a, _) => (s_now s < a)%Z | None => True end.

  Lemma pend_for_fresh s k ops d : Inv s k ops -> ~ In d (map w_dest (k_owed k)) -> pend_for d (s_pending s) = [].
  Proof.
    intros I Hn. apply filter_all_false. intros p Hp. destruct (i_pend _ _ _ I p Hp) as [Hin _].
    destruct (snd (fst p) =? d) eqn:E; [|reflexivity]. apply N.eqb_eq in E. subst. contradiction.
  Qed.

  (* ---------------------------------------------------------------- the advertisement side of a step *)
  Lemma alive_count_zero a now' : (now' < a)%Z -> alive_count a now' = O.
  Proof. intros H. unfold alive_count. assert (E : (a <=? now')%Z = false) by lia. now rewrite E. Qed.

  Lemma mon_adv_quiet k o now' sent :
    filter is_alive sent = [] -> filter is_byebye sent = [] -> forallb others sent = true ->
    (match o with OStop => False | _ => True end) ->
    match k_next k with Some a => (now' < a)%Z | None => True end ->
    mon_adv root k o now' sent = (k_next k, k_seen k, []).
  Proof.
    intros Ha Hb Ho Hs Hn. unfold mon_adv. rewrite Ha, Hb. cbn [map see_alives].
    fold others. rewrite Ho.
    assert (S : match o with OStop => true | _ => false end = false) by (destruct o; try reflexivity; contradiction).
    rewrite S. destruct (k_next k) as [a|].
    - rewrite (alive_count_zero _ _ Hn). cbn [seq map zlist_eqb andb]. f_equal. f_equal. f_equal. lia.
    - reflexivity.
  Qed.

  Lemma mon_adv_stop k now' sent byes :
    filter is_alive sent = [] -> filter is_byebye sent = byes -> forallb others sent = true ->
    Permutation (map gpair byes) all -> Forall (fun g => g_time g = k_now k) byes ->
    match k_next k with Some a => (now' < a)%Z | None => True end ->
    mon_adv root k OStop now' sent = (None, k_seen k, []).
  Proof.
    intros Ha Hb Ho Hp Ht Hn. unfold mon_adv. rewrite Ha, Hb. cbn [map see_alives].
    fold others. rewrite Ho. fold all.
    rewrite (perm_eqb_complete pair_eqb pair_eqb_spec Hp).
    assert (T : forallb (fun g => (g_time g =? k_now k)%Z) byes = true).
    { apply forallb_forall. intros g Hg. rewrite Forall_forall in Ht. rewrite (Ht g Hg). lia. }
    rewrite T. destruct (k_next k) as [a|].
    - rewrite (alive_count_zero _ _ Hn). reflexivity.
    - reflexivity.
  Qed.

  (* ---------------------------------------------------------------- the obligation side of a step *)
  Lemma upd_all now' rs l l' :
    Forall2 (fun w w' => upd_owed now' rs w = (w', [])) l l' ->
    map fst (map (upd_owed now' rs) l) = l' /\ flat_map snd (map (upd_owed now' rs) l) = [].
  Proof.
    induction 1 as [|w w' l l' Hw Hl [IH1 IH2]]; [split; reflexivity|]. cbn [map flat_map]. rewrite Hw. cbn [fst snd List.app].
    now rewrite IH1, IH2.
  Qed.

  Lemma mon_owed_ok k o now' rs owed' :
    Forall2 (fun w w' => upd_owed now' rs w = (w', [])) (k_owed k ++ new_owed root (k_now k) o) owed' ->
    forallb (fun g => existsb (fun w => w_dest w =? g_dest g) (k_owed k ++ new_owed root (k_now k) o)) rs = true ->
    mon_owed root k o now' rs = (owed', []).
  Proof.
    intros H U. unfold mon_owed. rewrite U, app_nil_r. destruct (upd_all _ _ _ _ H) as [-> ->]. reflexivity.
  Qed.

  Lemma Forall2_app_intro (A B : Type) (P : A -> B -> Prop) l1 l1' l2 l2' :
    Forall2 P l1 l1' -> Forall2 P l2 l2' -> Forall2 P (l1 ++ l2) (l1' ++ l2').
  Proof. induction 1; cbn; auto. Qed.
  Lemma Forall2_map_self (A B : Type) (P : A -> B -> Prop) (f : A -> B) l :
    (forall x, In x l -> P x (f x)) -> Forall2 P l (map f l).
  Proof. induction l as [|x r IH]; intros H; cbn; constructor; [apply H; now left | apply IH; intros; apply H; now right]. Qed.

  Lemma old_idle s owed now' rs :
    Forall (owed_ok s) owed -> now' = s_now s ->
    (forall w, In w owed -> filter (fun g => g_dest g =? w_dest w) rs = []) ->
    Forall2 (fun w w' => upd_owed now' rs w = (w', [])) owed owed.
  Proof.
    intros H -> Hf. rewrite <- (map_id owed) at 2. apply Forall2_map_self. intros w Hw.
    rewrite Forall_forall in H. apply upd_idle; [now apply Hf|].
    destruct (H w Hw) as [[Hg [when [rsw [_ [_ [A [B _]]]]]]]|[Hp _]]; [left; split; [exact Hg | left; lia] | now right].
  Qed.

  Lemma owed_ok_same s s' w : s_now s' = s_now s -> s_pending s' = s_pending s -> owed_ok s w -> owed_ok s' w.
  Proof. intros E1 E2. unfold owed_ok. now rewrite E1, E2. Qed.

  (* ---------------------------------------------------------------- ONoop *)
  Lemma step_noop s k ops : Inv s k (ONoop :: ops) -> strict s ->
    mon_step root k ONoop {| o_sent := map (dgram_of cfg) []; o_raised := false |} =
      ({| k_now := k_now k; k_owed := k_owed k; k_next := k_next k; k_seen := k_seen k |}, []) /\
    Inv s {| k_now := k_now k; k_owed := k_owed k; k_next := k_next k; k_seen := k_seen k |} ops.
  Proof.
    intros I St. split.
    - unfold mon_step. cbn [map o_sent filter].
      rewrite (mon_owed_ok k ONoop (k_now k) [] (k_owed k)).
      + rewrite mon_adv_quiet; try reflexivity; try exact I0.
        unfold strict in St. pose proof (i_ann _ _ _ I) as A. rewrite (i_now _ _ _ I).
        destruct (s_ann s) as [[a idx]|]; [destruct A as [-> _]; exact St | now rewrite A].
      + cbn [new_owed]. rewrite app_nil_r. apply (old_idle s); [apply (i_owed _ _ _ I) | apply (i_now _ _ _ I) | reflexivity].
      + reflexivity.
    - destruct I as [I1 I2 I3 I4 I5]. constructor; cbn [k_now k_owed k_next k_seen]; auto.
  Qed.

  (* ---------------------------------------------------------------- OStop *)
  Lemma step_stop s k ops : Inv s k (OStop :: ops) -> strict s ->
    let out := send_all (s_now s) target_tok (build_advertisements cfg nts_byebye) in
    let s' := {| s_now := s_now s; s_pending := s_pending s; s_ann := None |} in
    let k' := {| k_now := k_now k; k_owed := k_owed k; k_next := None; k_seen := k_seen k |} in
    mon_step root k OStop {| o_sent := map (dgram_of cfg) out; o_raised := false |} = (k', []) /\
    Forall good_sent out /\ Inv s' k' ops /\ strict s'.
  Proof.
    intros I St out s' k'.
    assert (G : Forall (is_good_nts nts_byebye) out).
    { unfold out, send_all. apply Forall_forall. intros x Hx. apply in_map_iff in Hx as [m [<- Hm]].
      pose proof (advs_good nts_byebye (or_intror eq_refl)) as A. rewrite Forall_forall in A.
      destruct (A m Hm) as [A1 [A2 A3]]. unfold is_good_nts. cbn [x_msg x_dest]. auto. }
    assert (Gs : Forall good_sent out) by (eapply Forall_impl; [|exact G]; apply good_of_nts).
    destruct (byebye_filters out G) as [F1 [F2 [F3 F4]]].
    split; [|split; [exact Gs|split]].
    - unfold mon_step. cbn [o_sent].
      rewrite (map_dgram_simple cfg OK out) by (eapply Forall_impl; [|exact Gs]; intros x [Gx _]; exact Gx).
      fold dg. rewrite F1.
      rewrite (mon_owed_ok k OStop (k_now k) [] (k_owed k)).
      + rewrite (mon_adv_stop k (k_now k) (map dg out) (map dg out)); auto.
        * unfold out, dg, send_all. rewrite !map_map. cbn [gpair dg_simple g_type g_usn x_msg].
          apply (adverts_table cfg OK nts_byebye).
        * apply Forall_forall. intros g Hg. apply in_map_iff in Hg as [x [<- Hx]]. unfold out, send_all in Hx.
          apply in_map_iff in Hx as [m [<- _]]. cbn. symmetry. apply (i_now _ _ _ I).
        * unfold strict in St. pose proof (i_ann _ _ _ I) as A. rewrite (i_now _ _ _ I).
          destruct (s_ann s) as [[a idx]|]; [destruct A as [-> _]; exact St | now rewrite A].
      + cbn [new_owed]. rewrite app_nil_r. apply (old_idle s); [apply (i_owed _ _ _ I) | apply (i_now _ _ _ I) | reflexivity].
      + reflexivity.
    - destruct I as [I1 I2 I3 I4 I5]. constructor.
      + exact I1.
      + exact I2.
      + exact I3.
      + exact I4.
      + reflexivity.
    - unfold strict, s'. cbn [s_ann]. constructor.
  Qed.

  (* ---------------------------------------------------------------- OSearch *)
  Lemma mx_facts mx :
    (mx_delay mx = 0 /\ 0 <= mx_window mx)%Z \/
    (1 <= mx_delay mx <= 5 /\ 1000 * mx_delay mx <= mx_window mx)%Z.
  Proof.
    unfold mx_delay, mx_window, mx_floor, mx_cap. destruct mx as [s|]; [|left; lia].
    destruct (int_of_str s) as [z|e]; [|left; lia]. lia.
  Qed.

  Lemma randrange_facts d pick : (1 <= d <= 5)%Z ->
    exists r, randrange rnd_lo (d * rnd_scale + rnd_off) pick = Some r /\ (100 <= r < d * 1000 - 250)%Z /\
              (r * 1000 / rnd_div = r)%Z.
  Proof.
    intros Hd. unfold randrange, rnd_lo, rnd_scale, rnd_off, rnd_div.
    assert (E : (100 <? d * 1000 + -250)%Z = true) by lia. rewrite E.
    eexists. split; [reflexivity|]. pose proof (Z.mod_pos_bound pick (d * 1000 + -250 - 100)) as B.
    split; [lia|]. apply Z.div_mul. lia.
  Qed.

  Definition add_pending (s : state) (p : Z * N * list msg) : state :=
    {| s_now := s_now s; s_pending := s_pending s ++ [p]; s_ann := s_ann s |}.

  Lemma search_outcome s line man st mx dest pick :
    let st0 := match st with Some x => x | None => [] end in
    let orig := if search_valid line man then spec_answers root st0 else [] in
    wire_value_ok st0 = true ->
    (on_search cfg s line man st mx dest pick = (s, [], false) /\ orig = []) \/
    (exists ms, on_search cfg s line man st mx dest pick = (s, send_all (s_now s) dest ms, false) /\
                pairs_of ms = orig /\ Forall (fun m => good_msg cfg m /\ m_kind m = MResponse) ms /\
                (0 <= mx_window mx)%Z) \/
    (exists ms when, on_search cfg s line man st mx dest pick = (add_pending s (when, dest, ms), [], false) /\
                pairs_of ms = orig /\ Forall (fun m => good_msg cfg m /\ m_kind m = MResponse) ms /\
                (s_now s < when < s_now s + mx_window mx)%Z).
  Proof.
    intros st0 orig W. unfold on_search. destruct consts_agree as [_ [_ [_ [E1 [E2 _]]]]].
    assert (V : negb (str_eqb line search_line) ||
                negb (match man with Some m => str_eqb m ssdp_discover | None => false end) =
                negb (search_valid line man)).
    { unfold search_valid. rewrite E1, E2. destruct (str_eqb line sp_search_line); cbn; [|reflexivity].
      destruct man as [m|]; reflexivity. }
    rewrite V. unfold orig. destruct (search_valid line man); cbn [negb]; [|left; auto].
    change (match st with Some x => x | None => [] end) with st0. pose proof (responses_table cfg OK st0 (wire_ascii _ W)) as T. fold root in T.
    pose proof (responses_wf cfg OK st0 W) as G.
    assert (G' : Forall (fun m => good_msg cfg m /\ m_kind m = MResponse) (build_responses cfg st0)).
    { eapply Forall_impl; [|exact G]. intros m [Wm [K Nn]]. split; [|exact K]. split; [exact Wm|]. left. auto. }
    subst st0. destruct (build_responses cfg _) as [|m ms] eqn:B.
    - left. split; [reflexivity|]. now rewrite <- T.
    - destruct (mx_facts mx) as [[D Wd]|[D Wd]].
      + right. left. exists (m :: ms). rewrite D. cbn [Z.eqb]. auto.
      + right. right. destruct (randrange_facts (mx_delay mx) pick D) as [r [R [Rb Rd]]].
        assert (Dz : (mx_delay mx =? 0)%Z = false) by lia. rewrite Dz, R, Rd.
        exists (m :: ms), (s_now s + r)%Z. split; [reflexivity|]. split; [exact T|]. split; [exact G'|]. lia.
  Qed.

  Lemma fresh_dest s k ops line man st mx dest pick :
    Inv s k (OSearch line man st mx dest pick :: ops) ->
    ~ In dest (map w_dest (k_owed k)) /\
    NoDup (map w_dest (k_owed k ++ [{| w_dest := dest; w_t0 := 0; w_dl := 0; w_orig := []; w_got := [] |}]) ++
           flat_map op_dests ops).
  Proof.
    intros I. pose proof (i_dests _ _ _ I) as H. cbn [flat_map op_dests List.app] in H. split.
    - apply NoDup_remove_2 in H. intros Hin. apply H. apply in_or_app. now left.
    - rewrite map_app. cbn [map w_dest]. now rewrite <- app_assoc.
  Qed.

  Lemma dest_filter_all d xs : Forall (fun x => x_dest x = d) xs ->
    filter (fun g => g_dest g =? d) (map dg xs) = map dg xs.
  Proof.
    intros H. apply filter_all_true. intros g Hg. apply in_map_iff in Hg as [x [<- Hx]].
    rewrite Forall_forall in H. cbn. rewrite (H x Hx). apply N.eqb_refl.
  Qed.
  Lemma dest_filter_none d d' xs : Forall (fun x => x_dest x = d) xs -> d <> d' ->
    filter (fun g => g_dest g =? d') (map dg xs) = [].
  Proof.
    intros H Hne. apply filter_all_false. intros g Hg. apply in_map_iff in Hg as [x [<- Hx]].
    rewrite Forall_forall in H. cbn. rewrite (H x Hx). apply N.eqb_neq. exact Hne.
  Qed.
  Lemma send_all_dest t d ms : Forall (fun x => x_dest x = d) (send_all t d ms).
  Proof. apply Forall_forall. intros x Hx. apply in_map_iff in Hx as [m [<- _]]. reflexivity. Qed.
  Lemma send_all_resp t d ms : Forall (fun m => good_msg cfg m /\ m_kind m = MResponse) ms ->
    Forall is_good_resp (send_all t d ms).
  Proof.
    intros H. apply Forall_forall. intros x Hx. apply in_map_iff in Hx as [m [<- Hm]].
    rewrite Forall_forall in H. exact (H m Hm).
  Qed.

  Lemma pend_for_app d a b : pend_for d (a ++ b) = pend_for d a ++ pend_for d b.
  Proof. apply filter_app. Qed.

  Lemma step_search s k ops line man st mx dest pick :
    Inv s k (OSearch line man st mx dest pick :: ops) -> strict s ->
    op_ok (OSearch line man st mx dest pick) = true ->
    exists s' out k',
      on_search cfg s line man st mx dest pick = (s', out, false) /\
      mon_step root k (OSearch line man st mx dest pick)
               {| o_sent := map (dgram_of cfg) out; o_raised := false |} = (k', []) /\
      Forall good_sent out /\ Inv s' k' ops /\ strict s'.
  Proof.
    intros I St Hok. cbn [op_ok] in Hok. apply andb_true_iff in Hok as [Hd W].
    set (st0 := match st with Some x => x | None => [] end) in *.
    set (orig := if search_valid line man then spec_answers root st0 else []).
    destruct (fresh_dest _ _ _ _ _ _ _ _ _ I) as [Hfresh Hnd].
    pose proof (pend_for_fresh _ _ _ _ I Hfresh) as Pf.
    set (wnew := {| w_dest := dest; w_t0 := k_now k; w_dl := (k_now k + mx_window mx)%Z; w_orig := orig; w_got := [] |}).
    assert (Enew : new_owed root (k_now k) (OSearch line man st mx dest pick) = [wnew]) by reflexivity.
    assert (Hq : match k_next k with Some a => (k_now k < a)%Z | None => True end).
    { unfold strict in St. pose proof (i_ann _ _ _ I) as A. rewrite (i_now _ _ _ I).
      destruct (s_ann s) as [[a idx]|]; [destruct A as [-> _]; exact St | now rewrite A]. }
    assert (Hold : forall w, In w (k_owed k) -> w_dest w <> dest).
    { intros w Hw E. apply Hfresh. rewrite <- E. now apply in_map. }
    assert (Hnd' : forall w', w_dest w' = dest ->
                   NoDup (map w_dest (k_owed k ++ [w']) ++ flat_map op_dests ops)).
    { intros w' E. rewrite map_app in *. cbn [map w_dest] in *. now rewrite E. }
    destruct (search_outcome s line man st mx dest pick W) as [[E O0]|[[ms [E [P0 [G Wn]]]]|[ms [when [E [P0 [G T]]]]]]].
    - (* nothing to answer *)
      assert (O : orig = []) by exact O0. clear O0.
      exists s, [], {| k_now := k_now k; k_owed := k_owed k ++ [wnew]; k_next := k_next k; k_seen := k_seen k |}.
      split; [exact E|]. split; [|split; [constructor|split; [|exact St]]].
      + unfold mon_step. cbn [map o_sent filter].
        rewrite (mon_owed_ok k _ (k_now k) [] (k_owed k ++ [wnew])).
        * rewrite mon_adv_quiet; try reflexivity; try exact Logic.I. exact Hq.
        * rewrite Enew. apply Forall2_app_intro.
          -- apply (old_idle s); [apply (i_owed _ _ _ I) | apply (i_now _ _ _ I) | reflexivity].
          -- constructor; [|constructor]. apply upd_idle; [reflexivity|]. left. split; [reflexivity|]. right. exact O.
        * reflexivity.
      + destruct I as [I1 I2 I3 I4 I5]. constructor; cbn [k_now k_owed k_next k_seen].
        * exact I1.
        * apply Forall_app. split; [exact I2|]. constructor; [|constructor]. right. cbn [w_got w_orig w_dest wnew].
          rewrite O. split; [constructor | exact Pf].
        * intros p Hp. destruct (I3 p Hp) as [A B]. split; [|exact B]. rewrite map_app. apply in_or_app. now left.
        * now apply Hnd'.
        * exact I5.
    - (* answered at once *)
      assert (P : pairs_of ms = orig) by exact P0. clear P0.
      pose proof (send_all_resp (s_now s) dest ms G) as Gr.
      destruct (resp_filters _ Gr) as [F1 [F2 [F3 F4]]].
      set (w' := {| w_dest := dest; w_t0 := k_now k; w_dl := (k_now k + mx_window mx)%Z; w_orig := orig;
                    w_got := pairs_of ms |}).
      exists s, (send_all (s_now s) dest ms),
             {| k_now := k_now k; k_owed := k_owed k ++ [w']; k_next := k_next k; k_seen := k_seen k |}.
      split; [exact E|]. split; [|split; [|split; [|exact St]]].
      + unfold mon_step. cbn [o_sent].
        rewrite (map_dgram_simple cfg OK) by (eapply Forall_impl; [|exact Gr]; intros x [Gx _]; exact Gx).
        fold dg. rewrite F1.
        rewrite (mon_owed_ok k _ (k_now k) (map dg (send_all (s_now s) dest ms)) (k_owed k ++ [w'])).
        * rewrite mon_adv_quiet; try reflexivity; try exact Logic.I; auto.
        * rewrite Enew. apply Forall2_app_intro.
          -- apply (old_idle s); [apply (i_owed _ _ _ I) | apply (i_now _ _ _ I)|].
             intros w Hw. apply (dest_filter_none dest); [apply send_all_dest|]. intros E'. now apply (Hold w Hw).
          -- constructor; [|constructor].
             apply (upd_answer cfg (k_now k) _ wnew ms (s_now s)); cbn [wnew w_got w_dest w_orig w_t0 w_dl].
             ++ reflexivity.
             ++ apply dest_filter_all, send_all_dest.
             ++ rewrite P. apply Permutation_refl.
             ++ rewrite (i_now _ _ _ I). lia.
        * apply forallb_forall. intros g Hg. apply in_map_iff in Hg as [x [<- Hx]].
          apply existsb_exists. exists wnew. rewrite Enew. split; [apply in_or_app; right; now left|].
          pose proof (send_all_dest (s_now s) dest ms) as Sd. rewrite Forall_forall in Sd. cbn. rewrite (Sd x Hx).
          apply N.eqb_refl.
      + eapply Forall_impl; [|exact Gr]. apply good_of_resp.
      + destruct I as [I1 I2 I3 I4 I5]. constructor; cbn [k_now k_owed k_next k_seen].
        * exact I1.
        * apply Forall_app. split; [exact I2|]. constructor; [|constructor]. right. cbn [w_got w_orig w_dest w'].
          rewrite P. split; [apply Permutation_refl | exact Pf].
        * intros p Hp. destruct (I3 p Hp) as [A B]. split; [|exact B]. rewrite map_app. apply in_or_app. now left.
        * now apply Hnd'.
        * exact I5.
    - (* scheduled *)
      assert (P : pairs_of ms = orig) by exact P0. clear P0.
      exists (add_pending s (when, dest, ms)), [],
             {| k_now := k_now k; k_owed := k_owed k ++ [wnew]; k_next := k_next k; k_seen := k_seen k |}.
      split; [exact E|]. split; [|split; [constructor|split; [|exact St]]].
      + unfold mon_step. cbn [map o_sent filter].
        rewrite (mon_owed_ok k _ (k_now k) [] (k_owed k ++ [wnew])).
        * rewrite mon_adv_quiet; try reflexivity; try exact Logic.I. exact Hq.
        * rewrite Enew. apply Forall2_app_intro.
          -- apply (old_idle s); [apply (i_owed _ _ _ I) | apply (i_now _ _ _ I) | reflexivity].
          -- constructor; [|constructor]. apply upd_idle; [reflexivity|]. left. split; [reflexivity|]. left.
             cbn [wnew w_dl]. rewrite (i_now _ _ _ I). lia.
        * reflexivity.
      + destruct I as [I1 I2 I3 I4 I5]. constructor; cbn [k_now k_owed k_next k_seen add_pending s_now s_pending s_ann].
        * exact I1.
        * apply Forall_app. split.
          -- apply Forall_forall. intros w Hw. rewrite Forall_forall in I2. specialize (I2 w Hw).
             unfold owed_ok in *. cbn [add_pending s_now s_pending].
             rewrite pend_for_app. cbn [pend_for filter fst snd].
             assert (Ne : (dest =? w_dest w) = false) by (apply N.eqb_neq; intros E'; now apply (Hold w Hw)).
             rewrite Ne, app_nil_r. exact I2.
          -- constructor; [|constructor]. left. cbn [wnew w_got w_orig w_dest w_dl w_t0 add_pending s_now s_pending].
             split; [reflexivity|]. exists when, ms. rewrite pend_for_app. fold (pend_for dest (s_pending s)). rewrite Pf.
             cbn [pend_for filter fst snd List.app]. rewrite N.eqb_refl. split; [reflexivity|].
             split; [rewrite P; apply Permutation_refl|]. rewrite I1. lia.
        * intros p Hp. apply in_app_iff in Hp as [Hp|[<-|[]]].
          -- destruct (I3 p Hp) as [A B]. split; [|exact B]. rewrite map_app. apply in_or_app. now left.
          -- cbn [fst snd]. split; [|exact G]. rewrite map_app. apply in_or_app. right. now left.
        * now apply Hnd'.
        * exact I5.
  Qed.
End Invariant.
