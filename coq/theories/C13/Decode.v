(* C13 — the wire-decoding premise of the composition theorem, discharged by the decoder model of C01:
   decoding the datagram built from one of the server's start lines and a wire-safe header dict, received
   from an unscoped address, yields a well-formed header map that reads, under every name the tracker
   consults, like [decoded_view].  This replaces the executable stand-in [model_dec] by the decoder that
   is tied to async_upnp_client/ssdp.py by the C01 correspondence check. *)
From Coq Require Import List Bool NArith ZArith Lia ZifyBool ZifyN Permutation.
From AUC Require Import Prelude.PyStr Prelude.PyDict Prelude.Utf8 C16.Model C16.Spec C16.Proofs
  C03.Model C03.Spec C03.Bridge C01.Model C01.Spec C01.Roundtrip C01.Adjust C13.Model C13.Spec C13.Accept Gen.Server.
Import ListNotations.
Local Open Scope N_scope.

Local Notation KS := str_eqb_spec.

(* ------------------------------------------------------------------ wire-safe headers are in C01's domain *)
Definition printable_c (c : N) : bool := (32 <=? c) && (c <=? 126).

Lemma ascii_encode v : forallb printable_c v = true -> utf8_encode v = v.
Proof.
  induction v as [|c r IH]; [reflexivity|]. cbn [forallb]. intros H. apply andb_true_iff in H as [Hc Hr].
  unfold utf8_encode in *. cbn [flat_map]. rewrite (IH Hr). unfold enc1, printable_c in *.
  replace (c <? 128) with true by lia. reflexivity.
Qed.

Lemma forallb_last (P : N -> bool) c r : forallb P (c :: r) = true -> P (last (c :: r) 0) = true.
Proof.
  revert c. induction r as [|d r IH]; intros c H.
  - cbn in *. now apply andb_true_iff in H as [H _].
  - change (last (c :: d :: r) 0) with (last (d :: r) 0). apply IH.
    cbn [forallb] in H. now apply andb_true_iff in H as [_ H].
Qed.

Lemma forallb_existsb_none (P Q : N -> bool) v :
  forallb P v = true -> (forall c, P c = true -> Q c = false) -> existsb Q v = false.
Proof.
  intros H HQ. induction v as [|c r IH]; [reflexivity|]. cbn [forallb existsb] in *.
  apply andb_true_iff in H as [Hc Hr]. now rewrite (HQ c Hc), (IH Hr).
Qed.

Lemma wire_value_in_domain v : wire_value_ok v = true ->
  C01.Spec.value_ok v = true /\ existsb (N.eqb 0) v = false.
Proof.
  unfold wire_value_ok. intros H. apply andb_true_iff in H as [H Hlen]. apply andb_true_iff in H as [Hp Hends].
  change (forallb printable_c v = true) in Hp.
  split.
  - unfold C01.Spec.value_ok. rewrite (ascii_encode v Hp), Hlen, andb_true_r.
    apply andb_true_iff. split; [apply andb_true_iff; split|].
    + apply forallb_forall. intros c Hin. rewrite forallb_forall in Hp. specialize (Hp c Hin).
      unfold printable_c, is_scalar in *. lia.
    + apply negb_true_iff. apply (forallb_existsb_none printable_c); [exact Hp|].
      intros c Hc. unfold printable_c in Hc. lia.
    + destruct v as [|c r]; [reflexivity|].
      pose proof (forallb_last printable_c c r Hp) as Hl.
      cbn [forallb] in Hp. apply andb_true_iff in Hp as [Hc _].
      unfold blank, printable_c in *. lia.
  - apply (forallb_existsb_none printable_c); [exact Hp|]. intros c Hc. unfold printable_c in Hc. lia.
Qed.

Lemma wire_name_in_domain k : C13.Accept.name_ok k = true -> C01.Spec.name_ok k = true.
Proof.
  unfold C13.Accept.name_ok, C01.Spec.name_ok, is_token. intros H.
  apply andb_true_iff in H as [H Hlen]. apply andb_true_iff in H as [H Hm]. apply andb_true_iff in H as [Hne Ht].
  destruct k as [|c r]; [discriminate|].
  change (forallb is_token_char (c :: r) = true) in Ht. now rewrite Ht, Hlen, Hm.
Qed.

Lemma wire_headers_in_domain items : headers_wire_ok items = true ->
  C01.Spec.headers_ok items = true /\ kf_nul items = false.
Proof.
  unfold headers_wire_ok, C01.Spec.headers_ok, kf_nul. intros H. apply andb_true_iff in H as [Hall Hnd].
  rewrite Hnd, andb_true_r. rewrite forallb_forall in Hall. split.
  - apply forallb_forall. intros kv Hin. specialize (Hall kv Hin). apply andb_true_iff in Hall as [Hn Hv].
    now rewrite (wire_name_in_domain _ Hn), (proj1 (wire_value_in_domain _ Hv)).
  - clear Hnd. induction items as [|kv r IH]; [reflexivity|].
    change (existsb (N.eqb 0) (snd kv) || existsb (fun kv => existsb (N.eqb 0) (snd kv)) r = false).
    assert (Hkv := Hall kv (or_introl eq_refl)). apply andb_true_iff in Hkv as [_ Hv].
    apply orb_false_iff. split; [exact (proj2 (wire_value_in_domain _ Hv))|].
    apply IH. intros x Hx. apply Hall. now right.
Qed.

(* ------------------------------------------------------------------ reading the expected map like the view *)
Lemma md_get_dlast (l : list (pystr * pystr)) lk : NoDup (map (fun kv => lower (fst kv)) l) ->
  md_get l lk = dlast str_eqb (map (fun kv => (lower (fst kv), snd kv)) l) lk.
Proof.
  induction l as [|[k v] r IH]; intros Hnd; [reflexivity|]. inversion Hnd as [|? ? Hn Hr]; subst.
  cbn [md_get map dlast fst snd]. rewrite <- (IH Hr). destruct (KS (lower k) lk) as [<-|Hne].
  - assert (E : md_get r (lower k) = None).
    { rewrite (IH Hr). apply (dlast_None str_eqb KS). rewrite map_map. exact Hn. }
    now rewrite E.
  - destruct (md_get r lk); reflexivity.
Qed.

Lemma dget_meta_none (l : list (pystr * hval)) lk :
  forallb (fun kv => is_meta (fst kv)) l = true -> is_meta lk = false -> dget str_eqb l lk = None.
Proof.
  intros H Hm. induction l as [|[k v] r IH]; [reflexivity|]. cbn [forallb fst] in H.
  apply andb_true_iff in H as [Hk Hr]. cbn [dget]. destruct (KS k lk) as [->|_]; [congruence | now apply IH].
Qed.

Section Real.
  Variable url_of : pystr -> url_info.
  Variables (local_tok remote_tok : N) (a : addr).
  (* the receiver hands every LOCATION on as sent: the sender's address carries no scope id, or the address oracle
     reports no IPv6 link-local host (C01.Adjust: these are the only cases in which get_adjusted_url changes a URL) *)
  Hypothesis Kept : forall url, adjusted_url url_of url a = url.

  (* the library's decoder (C01 model) applied to the datagram the server builds *)
  Definition real_dec (line : pystr) (items : list (pystr * pystr)) (now : Z) : hdrs :=
    match decode url_of (build_packet line items) local_tok a remote_tok now with
    | Ok (_, h) => h
    | Raise _ => mk_hdrs []
    end.

  Lemma expected_view items now lk : headers_wire_ok items = true -> tracker_reads lk = true ->
    dget str_eqb (expected url_of items local_tok a remote_tok now) lk = item_get (decoded_view items now) lk.
  Proof.
    intros Hw Hrd. pose proof (view_items_ok items now Hw) as Hv. unfold items_ok in Hv.
    apply (nodupb_NoDup str_eqb KS) in Hv.
    assert (Hnd : NoDup (map (fun kv => lower (fst kv)) items)).
    { unfold headers_wire_ok in Hw. apply andb_true_iff in Hw as [_ Hd]. now apply (nodupb_NoDup str_eqb KS). }
    unfold item_get. rewrite (dlast_dget str_eqb KS) by (rewrite map_map; exact Hv).
    unfold expected, decoded_view. rewrite (md_get_dlast items k_usn Hnd).
    set (A := map (fun kv : pystr * pystr => (lower (fst kv), HStr (snd kv))) items).
    match goal with |- context [map ?f items ++ [(k_host, _)] ++ _] =>
      replace (map f items) with A
        by (apply map_ext; intros kv; rewrite Kept; destruct (_ && _); reflexivity)
    end.
    rewrite !map_app, !map_map. cbn [fst snd]. fold A.
    rewrite !(dget_app str_eqb A). destruct (dget str_eqb A lk) as [v|]; [reflexivity|].
    set (U := match dlast str_eqb (map (fun kv : pystr * pystr => (lower (fst kv), snd kv)) items) k_usn with
              | Some usn => match udn_from_usn usn with Some u => [(k_udn, HStr u)] | None => [] end
              | None => []
              end).
    assert (HU : U = [] \/ exists u, U = [(k_udn, HStr u)]).
    { unfold U. destruct (dlast _ _ k_usn) as [usn|]; [|now left]. destruct (udn_from_usn usn); [right; eauto | now left]. }
    unfold tracker_reads in Hrd. apply orb_true_iff in Hrd as [Hrd|Hts].
    - apply orb_true_iff in Hrd as [Hnm|Hu].
      + apply negb_true_iff in Hnm.
        rewrite (dget_meta_none _ lk); [symmetry; apply dget_meta_none; [|exact Hnm] | | exact Hnm].
        * destruct HU as [->|[u ->]]; reflexivity.
        * destruct HU as [->|[u ->]]; destruct (negb (forallb is_uspace _)); try destruct (dhas _ _ _); reflexivity.
      + destruct (KS lk k_udn) as [->|]; [|discriminate].
        destruct HU as [->|[u ->]]; destruct (negb (forallb is_uspace _)); try destruct (dhas _ _ _); reflexivity.
    - destruct (KS lk k_timestamp) as [->|]; [|discriminate].
      destruct HU as [->|[u ->]]; destruct (negb (forallb is_uspace _)); try destruct (dhas _ _ _); reflexivity.
  Qed.

  Theorem real_dec_premise : decode_premise real_dec.
  Proof.
    intros line items now Hline Hw.
    destruct (wire_headers_in_domain items Hw) as [Hok Hnul].
    pose proof (headers_ok_dom items Hok Hnul) as D.
    assert (Hstart : In line start_lines).
    { destruct Hline as [<-|[<-|[]]]; unfold start_lines, response_line, notify_line; cbn [In]; auto. }
    destruct (decode_built_strong url_of line items local_tok a remote_tok now Hstart D) as [h [E [Hi [Hg _]]]].
    unfold real_dec. rewrite E. split; [exact Hi|].
    intros lk Hrd. rewrite Hg. now apply expected_view.
  Qed.
End Real.

(* the two situations in which the receiver keeps every LOCATION: an unscoped sender, or an address oracle that reports
   no IPv6 link-local host (e.g. every IPv4 / named-host description URL, whatever the sender's scope) *)
Definition location_kept (url_of : pystr -> url_info) (a : addr) : Prop :=
  a_v6 a = None \/ (exists flow, a_v6 a = Some (flow, 0)) \/ forall url, u_link_local (url_of url) <> Some true.

Lemma kept_adjusted url_of a : location_kept url_of a -> forall url, adjusted_url url_of url a = url.
Proof.
  intros [Hu|[[flow Hz]|Ho]] url.
  - unfold adjusted_url. now rewrite Hu.
  - unfold adjusted_url. rewrite Hz. reflexivity.
  - now apply adjusted_kept.
Qed.

Theorem real_dec_premise_kept url_of local_tok remote_tok a :
  location_kept url_of a -> decode_premise (real_dec url_of local_tok remote_tok a).
Proof. intros H. apply real_dec_premise. now apply kept_adjusted. Qed.
