(* C13 — the response table and the advertisement list of the model are the specification's tables. *)
From Coq Require Import List Bool NArith ZArith Lia ZifyBool ZifyN Permutation.
From AUC Require Import Prelude.PyStr Prelude.PyDict C16.Model C16.Spec C16.Proofs C08.Model C03.Model C03.Spec
  C13.Model C13.Spec C13.Strings Gen.Server Gen.Ssdp.
Import ListNotations.
Local Open Scope N_scope.

Local Notation KS := str_eqb_spec.

(* ------------------------------------------------------------------ trees *)
Lemma dev_ind' (P : dev -> Prop) :
  (forall u t s e, Forall P e -> P (Dev u t s e)) -> forall d, P d.
Proof.
  intros H. fix IH 1. intros [u t s e]. apply H.
  induction e as [|x r IHr]; constructor; [apply IH | exact IHr].
Qed.

Lemma dict_values_id (A : Type) (key : A -> pystr) (l : list A) :
  nodupb str_eqb (map key l) = true -> dict_values key l = l.
Proof.
  intros H. apply (nodupb_NoDup str_eqb KS) in H. unfold dict_values.
  rewrite (dmerge_dict str_eqb KS).
  - cbn [List.app]. rewrite map_map. cbn [snd]. apply map_id.
  - cbn [dkeys map List.app]. now rewrite map_map.
Qed.

Lemma normalize_id d : siblings_ok d = true -> normalize d = d.
Proof.
  induction d as [u t s e IH] using dev_ind'. cbn [siblings_ok normalize]. intros H.
  apply andb_true_iff in H as [H H3]. apply andb_true_iff in H as [H1 H2].
  assert (E : map normalize e = e).
  { rewrite forallb_forall in H3. rewrite Forall_forall in IH. rewrite <- (map_id e) at 2.
    apply map_ext_in. intros x Hx. auto. }
  rewrite E. rewrite (dict_values_id _ (fun x => x) s) by now rewrite map_id.
  now rewrite (dict_values_id _ d_type e).
Qed.

(* ------------------------------------------------------------------ the domain, as facts *)
Record CfgOk (cfg : config) : Prop := {
  co_root : eff_root cfg = c_root cfg;
  co_dev : forall d, In d (all_devices (c_root cfg)) ->
             udn_ok (d_udn d) = true /\ token_ok (d_type d) = true /\ exists bv, parse_type (d_type d) = Some bv;
  co_svc : forall us, In us (all_services (c_root cfg)) ->
             token_ok (snd us) = true /\ exists bv, parse_type (snd us) = Some bv;
  co_svc_owner : forall us, In us (all_services (c_root cfg)) ->
             exists d, In d (all_devices (c_root cfg)) /\ d_udn d = fst us /\ In (snd us) (d_svcs d);
  co_udn_dev : forall d d', In d (all_devices (c_root cfg)) -> In d' (all_devices (c_root cfg)) ->
             spec_matches (d_type d') (d_udn d) = false;
  co_udn_svc : forall d us, In d (all_devices (c_root cfg)) -> In us (all_services (c_root cfg)) ->
             spec_matches (snd us) (d_udn d) = false;
  co_base : forall d us, In d (all_devices (c_root cfg)) -> In us (all_services (c_root cfg)) ->
             same_base (d_type d) (snd us) = false;
  co_loc : good_location (location_of_cfg cfg) = true /\ spec_location_ok (location_of_cfg cfg) = true;
  co_wire : wire_value_ok (location_of_cfg cfg) = true /\ wire_value_ok (host_of_cfg cfg) = true /\
            wire_value_ok (str_of_int (c_boot cfg)) = true /\ wire_value_ok (str_of_int (c_cfgid cfg)) = true /\
            wire_value_ok (c_date cfg) = true;
  co_always : c_always_root cfg = false
}.

Lemma root_in_all d : In d (all_devices d).
Proof. destruct d. now left. Qed.

Lemma cfg_ok_facts cfg : cfg_ok cfg = true -> CfgOk cfg.
Proof.
  unfold cfg_ok. intros H.
  apply andb_true_iff in H as [H Halw]. apply andb_true_iff in H as [H Hdate].
  apply andb_true_iff in H as [H Hcfgid]. apply andb_true_iff in H as [H Hboot].
  apply andb_true_iff in H as [H Hhost]. apply andb_true_iff in H as [H Hwloc].
  apply andb_true_iff in H as [H Hsloc]. apply andb_true_iff in H as [H Hgood].
  apply andb_true_iff in H as [H Hbase]. apply andb_true_iff in H as [H Hcross].
  apply andb_true_iff in H as [H Hsvcs]. apply andb_true_iff in H as [H Hdevs].
  constructor.
  - unfold eff_root. now apply normalize_id.
  - intros d Hd. rewrite forallb_forall in Hdevs. specialize (Hdevs _ Hd).
    apply andb_true_iff in Hdevs as [A B]. unfold type_ok in B. apply andb_true_iff in B as [B1 B2].
    split; [exact A | split; [exact B1|]]. destruct (parse_type (d_type d)) as [bv|]; [eauto | discriminate].
  - intros us Hu. rewrite forallb_forall in Hsvcs. specialize (Hsvcs _ Hu). unfold type_ok in Hsvcs.
    apply andb_true_iff in Hsvcs as [B1 B2]. split; [exact B1|].
    destruct (parse_type (snd us)) as [bv|]; [eauto | discriminate].
  - intros us Hu. unfold all_services in Hu. apply in_flat_map in Hu as [d [Hd Hin]].
    apply in_map_iff in Hin as [s [<- Hs]]. exists d. auto.
  - intros d d' Hd Hd'. rewrite forallb_forall in Hcross. specialize (Hcross _ Hd). apply andb_true_iff in Hcross as [A _].
    rewrite forallb_forall in A. specialize (A _ Hd'). now apply negb_true_iff in A.
  - intros d us Hd Hu. rewrite forallb_forall in Hcross. specialize (Hcross _ Hd). apply andb_true_iff in Hcross as [_ A].
    rewrite forallb_forall in A. specialize (A _ Hu). now apply negb_true_iff in A.
  - intros d us Hd Hu. rewrite forallb_forall in Hbase. specialize (Hbase _ Hd).
    rewrite forallb_forall in Hbase. specialize (Hbase _ Hu). now apply negb_true_iff in Hbase.
  - auto.
  - auto.
  - now apply negb_true_iff in Halw.
Qed.

(* ------------------------------------------------------------------ pairs *)
Definition mpair (m : msg) : pair := (m_type m, m_usn m).
Definition pairs_of (ms : list msg) : list pair := map mpair ms.

Lemma consts_agree :
  st_all = sp_all /\ st_rootdevice = sp_root /\ s_rootdevice = sp_root /\ search_line = sp_search_line /\
  ssdp_discover = sp_discover /\ nts_alive = sp_alive /\ nts_byebye = sp_byebye.
Proof. repeat split; reflexivity. Qed.

Lemma filter_all_false (A : Type) (f : A -> bool) l : (forall x, In x l -> f x = false) -> filter f l = [].
Proof.
  induction l as [|x r IH]; intros H; [reflexivity|]. cbn. rewrite (H x (or_introl eq_refl)). apply IH.
  intros y Hy. apply H. now right.
Qed.

Lemma same_base_of_matches t1 t2 st :
  spec_matches t1 st = true -> spec_matches t2 st = true -> same_base t1 t2 = true.
Proof.
  unfold spec_matches, same_base. destruct (parse_type t1) as [[b1 v1]|]; [|discriminate].
  destruct (parse_type t2) as [[b2 v2]|]; [|intros _; destruct (parse_type st) as [[? ?]|]; discriminate].
  destruct (parse_type st) as [[b v]|]; [|discriminate]. intros H1 H2.
  apply andb_true_iff in H1 as [H1 _]. apply andb_true_iff in H2 as [H2 _].
  apply str_eqb_true in H1, H2. rewrite H1, H2. apply str_eqb_refl.
Qed.

Lemma spec_matches_nil typ : spec_matches typ [] = false.
Proof. unfold spec_matches. destruct (parse_type typ) as [[? ?]|]; reflexivity. Qed.

Section Tables.
  Variable cfg : config.
  Hypothesis OK : CfgOk cfg.
  Let root := c_root cfg.
  Let devs := all_devices root.
  Let svcs := all_services root.

  Lemma dev_match_eq st d : In d devs ->
    match_type_versions (d_type d) (alower st) = spec_matches (d_type d) st.
  Proof.
    intros Hd. destruct (co_dev _ OK d Hd) as [_ [T [[b v] P]]]. eapply match_spec; eauto. now apply token_ascii.
  Qed.
  Lemma svc_match_eq st us : In us svcs ->
    match_type_versions (snd us) (alower st) = spec_matches (snd us) st.
  Proof.
    intros Hu. destruct (co_svc _ OK us Hu) as [T [[b v] P]]. eapply match_spec; eauto. now apply token_ascii.
  Qed.
  Lemma udn_lower_eq d : In d devs -> slower (d_udn d) = alower (d_udn d).
  Proof.
    intros Hd. destruct (co_dev _ OK d Hd) as [U _]. destruct (udn_ok_facts _ U) as [_ [_ T]].
    apply slower_ascii. now apply token_ascii.
  Qed.

  (* the answers to any search target are the specification's, in the specification's order *)
  Theorem responses_table st : is_ascii st ->
    pairs_of (build_responses cfg st) = spec_answers root st.
  Proof.
    intros A. unfold build_responses, spec_answers. rewrite (co_root _ OK), (co_always _ OK), app_nil_r.
    rewrite (slower_ascii _ A). fold root. fold devs. fold svcs.
    destruct consts_agree as [-> [-> _]].
    destruct (str_eqb (alower st) sp_all).
    { unfold spec_all, pairs_of. cbn [map]. fold devs. fold svcs. rewrite !map_app, !map_map. reflexivity. }
    destruct (str_eqb (alower st) sp_root); [reflexivity|].
    rewrite (filter_ext_in (fun d => str_eqb (slower (d_udn d)) (alower st))
                           (fun d => str_eqb (alower (d_udn d)) (alower st)) devs)
      by (intros d Hd; now rewrite udn_lower_eq).
    rewrite (filter_ext_in (fun d => match_type_versions (d_type d) (alower st))
                           (fun d => spec_matches (d_type d) st) devs)
      by (intros d Hd; now apply dev_match_eq).
    rewrite (filter_ext_in (fun us => match_type_versions (snd us) (alower st))
                           (fun us => spec_matches (snd us) st) svcs)
      by (intros us Hu; now apply svc_match_eq).
    destruct (filter (fun d => str_eqb (alower (d_udn d)) (alower st)) devs) as [|d l] eqn:F1.
    - destruct (filter (fun d => spec_matches (d_type d) st) devs) as [|d l] eqn:F2.
      + cbn [map List.app]. unfold pairs_of. rewrite map_map.
        destruct st as [|c r].
        * rewrite filter_all_false by (intros; apply spec_matches_nil). reflexivity.
        * reflexivity.
      + assert (Hd : In d devs /\ spec_matches (d_type d) st = true).
        { apply filter_In with (f := fun d => spec_matches (d_type d) st). rewrite F2. now left. }
        destruct Hd as [Hd Hm].
        rewrite (filter_all_false _ (fun us => spec_matches (snd us) st) svcs).
        2:{ intros us Hu. destruct (spec_matches (snd us) st) eqn:E; [|reflexivity].
            pose proof (same_base_of_matches _ _ _ Hm E) as SB. now rewrite (co_base _ OK d us Hd Hu) in SB. }
        rewrite <- F2. cbn [map List.app]. rewrite app_nil_r. unfold pairs_of. rewrite map_map.
        pose proof (spec_matches_nonempty _ _ Hm) as Hne. destruct st as [|c r]; [congruence | reflexivity].
    - assert (Hd : In d devs /\ str_eqb (alower (d_udn d)) (alower st) = true).
      { apply filter_In with (f := fun d => str_eqb (alower (d_udn d)) (alower st)). rewrite F1. now left. }
      destruct Hd as [Hd Hm]. apply str_eqb_true in Hm.
      rewrite (filter_all_false _ (fun d => spec_matches (d_type d) st) devs).
      2:{ intros d' Hd'. rewrite <- spec_matches_alower, <- Hm, spec_matches_alower. now apply (co_udn_dev _ OK). }
      rewrite (filter_all_false _ (fun us => spec_matches (snd us) st) svcs).
      2:{ intros us Hu. rewrite <- spec_matches_alower, <- Hm, spec_matches_alower. now apply (co_udn_svc _ OK). }
      rewrite <- F1. cbn [map List.app]. rewrite app_nil_r. unfold pairs_of. rewrite map_map. reflexivity.
  Qed.

  Lemma perm_interleave (A B : Type) (f g : A -> B) (l : list A) :
    Permutation (flat_map (fun x => [f x; g x]) l) (map f l ++ map g l).
  Proof.
    induction l as [|x r IH]; [constructor|]. cbn [flat_map map List.app].
    constructor. apply Permutation_cons_app. exact IH.
  Qed.

  (* what is advertised (alive) and revoked (byebye) is the ssdp:all table *)
  Theorem adverts_table nts : Permutation (pairs_of (build_advertisements cfg nts)) (spec_all root).
  Proof.
    unfold build_advertisements, spec_all, pairs_of. rewrite (co_root _ OK). fold root. fold devs. fold svcs.
    cbn [map]. constructor. rewrite map_app, map_map.
    rewrite app_assoc. apply Permutation_app; [|apply Permutation_refl].
    rewrite flat_map_concat_map, concat_map, map_map, <- flat_map_concat_map. cbn [map].
    apply (perm_interleave _ _ p_udn p_dtype).
  Qed.

  Lemma adverts_length nts : length (build_advertisements cfg nts) = length (spec_all root).
  Proof.
    pose proof (Permutation_length (adverts_table nts)) as H. unfold pairs_of in H. now rewrite map_length in H.
  Qed.

  Lemma adverts_pairs_nts n1 n2 :
    pairs_of (build_advertisements cfg n1) = pairs_of (build_advertisements cfg n2).
  Proof.
    unfold build_advertisements, pairs_of. cbn [map]. f_equal. rewrite !map_app, !map_map. f_equal.
    rewrite !flat_map_concat_map, !concat_map, !map_map. reflexivity.
  Qed.

  (* ---------------------------------------------------------------- every message is well formed *)
  (* a message names a device of the tree that its type describes; its USN is that device's UDN,
     optionally followed by "::" and a type name *)
  Definition msg_wf (m : msg) : Prop :=
    m_type m <> [] /\ wire_value_ok (m_type m) = true /\
    exists d, In d devs /\ describes root d (m_type m) = true /\ udn_ok (d_udn d) = true /\
              (m_usn m = d_udn d \/ exists t, token_ok t = true /\ m_usn m = d_udn d ++ 58 :: 58 :: t).

  Lemma token_wire s : token_ok s = true -> wire_value_ok s = true.
  Proof.
    intros H. unfold token_ok in H. apply andb_true_iff in H as [P L]. apply printable_wire; [exact P | lia].
  Qed.
  Lemma udn_nonempty' u : udn_ok u = true -> u <> [].
  Proof. intros H. destruct (udn_ok_facts _ H) as [H1 _]. apply udn_prefix_len in H1. destruct u; [cbn in H1; lia | discriminate]. Qed.
  Lemma parse_nonempty t : (exists bv, parse_type t = Some bv) -> t <> [].
  Proof. intros [bv H] ->. discriminate. Qed.

  Lemma wf_root k nts : msg_wf {| m_kind := k; m_type := s_rootdevice; m_usn := usn2 (d_udn root) s_rootdevice; m_nts := nts |}.
  Proof.
    destruct (co_dev _ OK root (root_in_all root)) as [U _].
    split; [discriminate|]. split; [reflexivity|]. exists root. split; [apply root_in_all|].
    split; [|split; [exact U|]].
    - unfold describes. cbn [m_type]. change (str_eqb s_rootdevice sp_root) with true. now rewrite str_eqb_refl.
    - right. exists s_rootdevice. split; reflexivity.
  Qed.
  Lemma wf_udn k nts d : In d devs -> msg_wf {| m_kind := k; m_type := d_udn d; m_usn := d_udn d; m_nts := nts |}.
  Proof.
    intros Hd. destruct (co_dev _ OK d Hd) as [U _]. destruct (udn_ok_facts _ U) as [_ [_ T]].
    split; [now apply udn_nonempty'|]. split; [now apply token_wire|]. exists d. split; [exact Hd|].
    split; [|split; [exact U | now left]].
    unfold describes. cbn [m_type]. rewrite str_eqb_refl. now rewrite orb_true_r.
  Qed.
  Lemma wf_dtype k nts d ty : In d devs -> (ty = d_type d \/ (spec_matches (d_type d) ty = true /\ wire_value_ok ty = true)) ->
    msg_wf {| m_kind := k; m_type := ty; m_usn := usn2 (d_udn d) (d_type d); m_nts := nts |}.
  Proof.
    intros Hd Hty. destruct (co_dev _ OK d Hd) as [U [T P]].
    assert (M : spec_matches (d_type d) ty = true /\ wire_value_ok ty = true).
    { destruct Hty as [->|[A B]]; [split; [now apply spec_matches_refl | now apply token_wire] | auto]. }
    destruct M as [M W]. split; [now apply (spec_matches_nonempty _ _ M)|]. split; [exact W|].
    exists d. split; [exact Hd|]. split; [|split; [exact U|]].
    - unfold describes. cbn [m_type]. rewrite M. now rewrite !orb_true_r.
    - right. exists (d_type d). split; [exact T | reflexivity].
  Qed.
  Lemma wf_svc k nts us ty : In us svcs -> (ty = snd us \/ (spec_matches (snd us) ty = true /\ wire_value_ok ty = true)) ->
    msg_wf {| m_kind := k; m_type := ty; m_usn := usn2 (fst us) (snd us); m_nts := nts |}.
  Proof.
    intros Hu Hty. destruct (co_svc _ OK us Hu) as [T P]. destruct (co_svc_owner _ OK us Hu) as [d [Hd [E Hs]]].
    destruct (co_dev _ OK d Hd) as [U _].
    assert (M : spec_matches (snd us) ty = true /\ wire_value_ok ty = true).
    { destruct Hty as [->|[A B]]; [split; [now apply spec_matches_refl | now apply token_wire] | auto]. }
    destruct M as [M W]. split; [now apply (spec_matches_nonempty _ _ M)|]. split; [exact W|].
    exists d. split; [exact Hd|]. split; [|split; [exact U|]].
    - unfold describes. cbn [m_type].
      assert (X : existsb (fun s => spec_matches s ty) (d_svcs d) = true) by (apply existsb_exists; eauto).
      rewrite X. now rewrite !orb_true_r.
    - right. exists (snd us). split; [exact T|]. cbn [m_usn]. now rewrite <- E.
  Qed.

  Lemma wire_ascii s : wire_value_ok s = true -> is_ascii s.
  Proof.
    unfold wire_value_ok. intros H. apply andb_true_iff in H as [H _]. apply andb_true_iff in H as [H _].
    unfold is_ascii. rewrite Forall_forall. rewrite forallb_forall in H. intros c Hc. specialize (H c Hc). lia.
  Qed.

  Theorem responses_wf st : wire_value_ok st = true ->
    Forall (fun m => msg_wf m /\ m_kind m = MResponse /\ m_nts m = []) (build_responses cfg st).
  Proof.
    intros W. pose proof (wire_ascii _ W) as A. apply Forall_forall. intros m Hm.
    unfold build_responses in Hm. rewrite (co_root _ OK), (co_always _ OK), app_nil_r in Hm.
    rewrite (slower_ascii _ A) in Hm. fold root in Hm. fold devs in Hm. fold svcs in Hm.
    assert (R : msg_wf (resp_root root) /\ m_kind (resp_root root) = MResponse /\ m_nts (resp_root root) = [])
      by (split; [apply wf_root | split; reflexivity]).
    destruct (str_eqb (alower st) st_all).
    { destruct Hm as [<-|Hm]; [exact R|]. rewrite !in_app_iff, !in_map_iff in Hm.
      destruct Hm as [[d [<- Hd]]|[[d [<- Hd]]|[us [<- Hu]]]].
      - split; [now apply wf_udn | split; reflexivity].
      - split; [apply wf_dtype; [exact Hd | now left] | split; reflexivity].
      - split; [apply wf_svc; [exact Hu | now left] | split; reflexivity]. }
    destruct (str_eqb (alower st) st_rootdevice).
    { destruct Hm as [<-|[]]. exact R. }
    destruct (filter (fun d => str_eqb (slower (d_udn d)) (alower st)) devs) as [|d0 l0] eqn:F1.
    - destruct (filter (fun d => match_type_versions (d_type d) (alower st)) devs) as [|d1 l1] eqn:F2.
      + apply in_map_iff in Hm as [us [<- Hu]]. apply filter_In in Hu as [Hu Hmatch].
        rewrite (svc_match_eq _ _ Hu) in Hmatch.
        pose proof (spec_matches_nonempty _ _ Hmatch) as Hne. destruct st as [|c r]; [congruence|].
        split; [apply wf_svc; [exact Hu | right; auto] | split; reflexivity].
      + rewrite <- F2 in Hm. apply in_map_iff in Hm as [d [<- Hd]]. apply filter_In in Hd as [Hd Hmatch].
        rewrite (dev_match_eq _ _ Hd) in Hmatch.
        pose proof (spec_matches_nonempty _ _ Hmatch) as Hne. destruct st as [|c r]; [congruence|].
        split; [apply wf_dtype; [exact Hd | right; auto] | split; reflexivity].
    - rewrite <- F1 in Hm. apply in_map_iff in Hm as [d [<- Hd]]. apply filter_In in Hd as [Hd _].
      split; [now apply wf_udn | split; reflexivity].
  Qed.

  Theorem adverts_wf nts :
    Forall (fun m => msg_wf m /\ m_kind m = MNotify /\ m_nts m = nts) (build_advertisements cfg nts).
  Proof.
    apply Forall_forall. intros m Hm. unfold build_advertisements in Hm. rewrite (co_root _ OK) in Hm.
    fold root in Hm. fold devs in Hm. fold svcs in Hm.
    destruct Hm as [<-|Hm]; [split; [apply wf_root | split; reflexivity]|].
    apply in_app_iff in Hm as [Hm|Hm].
    - apply in_flat_map in Hm as [d [Hd [<-|[<-|[]]]]].
      + split; [now apply wf_udn | split; reflexivity].
      + split; [apply wf_dtype; [exact Hd | now left] | split; reflexivity].
    - apply in_map_iff in Hm as [us [<- Hu]]. split; [apply wf_svc; [exact Hu | now left] | split; reflexivity].
  Qed.

  (* clause 4 on a well-formed message: its USN begins with the UDN of the device it describes *)
  Lemma wf_usn_part m : msg_wf m ->
    exists d, In d devs /\ describes root d (m_type m) = true /\ usn_udn_part (m_usn m) = d_udn d /\
              udn_from_usn (m_usn m) = Some (d_udn d).
  Proof.
    intros [_ [_ [d [Hd [D [U Husn]]]]]]. exists d. split; [exact Hd|]. split; [exact D|].
    destruct Husn as [->|[t [_ ->]]].
    - split; [now apply usn_part_plain | now apply udn_from_usn_plain].
    - split; [now apply usn_part_typed | now apply udn_from_usn_typed].
  Qed.

  Lemma starts_with_self_app u r : starts_with u (u ++ r) = true.
  Proof. induction u as [|c u IH]; [reflexivity|]. cbn. now rewrite N.eqb_refl, IH. Qed.

  Lemma wf_usn_full m : msg_wf m ->
    exists d, In d devs /\ describes root d (m_type m) = true /\ usn_udn_part (m_usn m) = d_udn d /\
              udn_from_usn (m_usn m) = Some (d_udn d) /\ starts_with (d_udn d) (m_usn m) = true.
  Proof.
    intros [_ [_ [d [Hd [D [U Husn]]]]]]. exists d. split; [exact Hd|]. split; [exact D|].
    destruct Husn as [->|[t [_ ->]]].
    - split; [now apply usn_part_plain|]. split; [now apply udn_from_usn_plain|].
      rewrite <- (app_nil_r (d_udn d)) at 2. apply starts_with_self_app.
    - split; [now apply usn_part_typed|]. split; [now apply udn_from_usn_typed | apply starts_with_self_app].
  Qed.
End Tables.
