(* C13 — The server answers searches with what it advertises and UDA prescribes, once.
   Property theorems only.  The model is the code of /repo with proposed/C13/D7.diff and D8.diff applied. *)
From Coq Require Import List Bool NArith ZArith Permutation.
From AUC Require Import Prelude.PyStr Prelude.PyDict C16.Model C08.Model C03.Model C03.Spec C03.Inv
  C13.Model C13.Spec C13.Strings C13.Table C13.Accept C13.Sched C13.Main C13.Run C13.Decode Gen.Server Gen.Ssdp.
From AUC Require C01.Model C01.Spec.
Import ListNotations.
Local Open Scope N_scope.

(* For every device tree, server configuration and history of the domain (any tree whose sibling types are
   distinct, UUIDs of the form uuid:..., types of the form name:version, a description URL the listener's
   reading accepts, wire-safe strings; any sequence of M-SEARCH datagrams - valid or not, any ST, any MX, each
   from its own requester, any choice of the random generator -, clock advances and stops), at every step:
   (1) every search response is one of the messages the table prescribes for its search (ssdp:all: 1 + 2d + k;
       rootdevice; a UUID; a type of equal or lower version, echoing the requested text; nothing otherwise) and,
       once the MX window has closed, none is missing;
   (2) no answer is sent twice, each is sent within [t, t + MX] (at once when MX is absent or not a number);
   (3) one ssdp:alive is sent per announce interval, going round exactly the ssdp:all table; on stop exactly one
       ssdp:byebye per entry of that table; nothing else is ever sent;
   (4) the USN of every message begins with the UUID of the device its type describes;
   (5) the library's own listener accepts every message as that device at base_uri + device_url
       (flag computed by running the C03 tracker model on the decoded view), NOTIFYs go to the multicast group;
   (6) no exception leaves the datagram handler. *)
Theorem C13_spec_holds : forall i : input, dom i = true -> failures i (model_run i) = [].
Proof. exact spec_holds. Qed.
Print Assumptions C13_spec_holds.

(* The response table: for every search target the (ST, USN) pairs answered are exactly the specification's,
   in order. *)
Theorem C13_response_table : forall (cfg : config) (st : pystr),
  cfg_ok cfg = true -> wire_value_ok st = true ->
  pairs (build_responses cfg st) = spec_answers (c_root cfg) st.
Proof. exact response_table_closed. Qed.
Print Assumptions C13_response_table.

(* The version loop of _match_type_versions is "same name ignoring letter case, requested version <= own". *)
Theorem C13_version_rule : forall (typ st b : pystr) (v : Z),
  parse_type typ = Some (b, v) -> token_ok typ = true ->
  match_type_versions typ (alower st) = spec_matches typ st.
Proof. exact version_rule_closed. Qed.
Print Assumptions C13_version_rule.

(* What is answered to ssdp:all = what one round of ssdp:alive advertises = what the byebyes revoke. *)
Theorem C13_adverts_match : forall cfg : config, cfg_ok cfg = true ->
  Permutation (pairs (build_advertisements cfg nts_alive)) (spec_all (c_root cfg)) /\
  Permutation (pairs (build_advertisements cfg nts_byebye)) (spec_all (c_root cfg)) /\
  pairs (build_responses cfg sp_all) = spec_all (c_root cfg).
Proof. exact adverts_match_closed. Qed.
Print Assumptions C13_adverts_match.

(* Every message the server can emit (an answer to any search, an alive, a byebye) carries a type that
   describes a device of the tree, and its USN begins with that device's UUID (which is also what the
   decoder will put into _udn). *)
Theorem C13_usn_owner : forall (cfg : config) (m : msg), cfg_ok cfg = true -> emitted cfg m ->
  exists d, In d (all_devices (c_root cfg)) /\ describes (c_root cfg) d (m_type m) = true /\
            usn_udn_part (m_usn m) = d_udn d /\ udn_from_usn (m_usn m) = Some (d_udn d) /\
            starts_with (d_udn d) (m_usn m) = true.
Proof. exact usn_owner_closed. Qed.
Print Assumptions C13_usn_owner.

(* A delayed answer is scheduled strictly inside the MX window, whatever the random generator returns within
   its range; otherwise MX asks for no delay. *)
Theorem C13_delay_in_window : forall (mx : option pystr) (pick : Z),
  (mx_delay mx = 0 /\ 0 <= mx_window mx)%Z \/
  (exists r, randrange rnd_lo (mx_delay mx * rnd_scale + rnd_off) pick = Some r /\
             (0 < r * 1000 / rnd_div < mx_window mx)%Z).
Proof. exact delay_in_window_closed. Qed.
Print Assumptions C13_delay_in_window.

(* Composition with the library's own listener (C03 model).  PREMISE decode_premise: the wire round trip
   (build_ssdp_packet, then decode_ssdp_packet at time now) of a wire-safe header dict yields a well-formed
   header map that reads, under every name the tracker consults, like decoded_view - discharged below
   (C13_decode_premise_real) by the decoder model of C01.  Then, for every emitted message,
   every tracker state satisfying the C03 invariant, every clock reading and every ip_version oracle: its
   header dict is wire safe; its type describes a device of the tree whose UDN is the USN's uuid part; a
   response / ssdp:alive is a valid sighting (C03.Spec.sighting) of exactly that device at that time, and after
   the search / advertisement listener processed it the tracker knows the device at base_uri + device_url;
   an ssdp:byebye is a byebye of that device (C03.Spec.byebye_of) and the tracker forgets it. *)
Theorem C13_self_accepted :
  forall (dec : pystr -> list (pystr * pystr) -> Z -> hdrs), decode_premise dec ->
  forall (cfg : config) (m : msg), cfg_ok cfg = true -> emitted cfg m ->
  forall (ipver : pystr -> option N) (now : Z) (t : tracker), (0 <= now <= DT_MAX)%Z -> C03.Inv.Inv t ->
  let D := decoded_view (msg_items cfg m) now in
  let h := dec (msg_line m) (msg_items cfg m) now in
  let u := usn_udn_part (m_usn m) in
  let loc := location_of_cfg cfg in
  headers_wire_ok (msg_items cfg m) = true /\
  (exists d, In d (all_devices (c_root cfg)) /\ describes (c_root cfg) d (m_type m) = true /\ d_udn d = u) /\
  match m_kind m with
  | MResponse =>
      sighting (Srch D) = Some (u, now, spec_valid_to D) /\
      exists dv, In (u, dv) (devices (fst (fst (on_srch ipver [] t h)))) /\
                 dget str_eqb (d_locs dv) loc = Some (spec_valid_to D)
  | MNotify =>
      if str_eqb (m_nts m) nts_byebye
      then byebye_of (Adv D) = Some u /\ devices (fst (fst (on_adv ipver t h))) = sdel (devices t) u
      else sighting (Adv D) = Some (u, now, spec_valid_to D) /\
           exists dv, In (u, dv) (devices (fst (fst (on_adv ipver t h)))) /\
                      dget str_eqb (d_locs dv) loc = Some (spec_valid_to D)
  end.
Proof. exact self_accepted_closed. Qed.
Print Assumptions C13_self_accepted.

(* The premise holds of the library's decoder (the C01 model of build_ssdp_packet / decode_ssdp_packet, tied to
   ssdp.py by the C01 correspondence check): for every URL oracle and source address such that the receiver keeps
   LOCATION as sent ([location_kept]: the address carries no scope id, or the oracle reports no IPv6 link-local host -
   by C01_location_kept the only case in which the decoder rewrites it) and any local/remote address tokens, the datagram built from a server start line and a wire-safe header dict decodes
   to a map that is a well-formed CaseInsensitiveDict and reads like decoded_view under every name the tracker
   consults (the sent headers, _udn, _timestamp). *)
Theorem C13_decode_premise_real :
  forall (url_of : pystr -> C01.Model.url_info) (local_tok remote_tok : N) (a : C01.Model.addr),
  location_kept url_of a -> decode_premise (real_dec url_of local_tok remote_tok a).
Proof. exact real_dec_premise_kept. Qed.
Print Assumptions C13_decode_premise_real.

(* hence: every message the server emits, built by build_ssdp_packet and decoded by decode_ssdp_packet, is
   accepted by the library's own listener as C13_self_accepted states *)
Theorem C13_self_accepted_real :
  forall (url_of : pystr -> C01.Model.url_info) (local_tok remote_tok : N) (a : C01.Model.addr),
  location_kept url_of a ->
  forall (cfg : config) (m : msg), cfg_ok cfg = true -> emitted cfg m ->
  forall (ipver : pystr -> option N) (now : Z) (t : tracker), (0 <= now <= DT_MAX)%Z -> C03.Inv.Inv t ->
  let D := decoded_view (msg_items cfg m) now in
  let h := real_dec url_of local_tok remote_tok a (msg_line m) (msg_items cfg m) now in
  let u := usn_udn_part (m_usn m) in
  let loc := location_of_cfg cfg in
  (exists d, In d (all_devices (c_root cfg)) /\ describes (c_root cfg) d (m_type m) = true /\ d_udn d = u) /\
  match m_kind m with
  | MResponse =>
      exists dv, In (u, dv) (devices (fst (fst (on_srch ipver [] t h)))) /\
                 dget str_eqb (d_locs dv) loc = Some (spec_valid_to D)
  | MNotify =>
      if str_eqb (m_nts m) nts_byebye
      then devices (fst (fst (on_adv ipver t h))) = sdel (devices t) u
      else exists dv, In (u, dv) (devices (fst (fst (on_adv ipver t h)))) /\
                      dget str_eqb (d_locs dv) loc = Some (spec_valid_to D)
  end.
Proof.
  intros url_of lt rt a Ha cfg m Hc He ipver now t Hnow Hi.
  destruct (self_accepted_closed _ (real_dec_premise_kept url_of lt rt a Ha) cfg m Hc He ipver now t Hnow Hi)
    as [_ [Hd Hm]].
  split; [exact Hd|]. destruct (m_kind m); [|destruct (str_eqb (m_nts m) nts_byebye)]; apply Hm.
Qed.
Print Assumptions C13_self_accepted_real.

(* The premise is also satisfied by the header map built from decoded_view itself (the stand-in the
   executable model runs). *)
Theorem C13_decode_premise_inhabited : decode_premise model_dec.
Proof. exact model_dec_premise. Qed.
Print Assumptions C13_decode_premise_inhabited.

(* ------------------------------------------------------------------ non-vacuity *)
Definition ex_emb : dev :=
  Dev [117;117;105;100;58;101] [117;114;110;58;97;58;100;58;69;58;50]          (* uuid:e  urn:a:d:E:2 *)
      [[117;114;110;58;97;58;115;58;83;58;51]] [].                               (* urn:a:s:S:3 *)
Definition ex_root : dev :=
  Dev [117;117;105;100;58;114] [117;114;110;58;97;58;100;58;82;58;49] [] [ex_emb].   (* uuid:r  urn:a:d:R:1 *)
Definition ex_cfg : config :=
  {| c_root := ex_root; c_base := [104;116;116;112;58;47;47;49;46;50;46;51;46;52]; c_url := [47;100];
     c_boot := 1; c_cfgid := 1; c_always_root := false; c_target_ip := [50;51;57;46;49]; c_target_port := 1900;
     c_target_v6 := false; c_date := [100] |}.
(* a search for the embedded device's type at a lower version and different letter case, MX 2; a search for
   everything; two announce intervals (the delayed answer and two ssdp:alive); stop *)
Definition ex_ops : list sop :=
  [OSearch search_line (Some ssdp_discover) (Some [85;82;78;58;65;58;68;58;69;58;49]) (Some [50]) 1 12345;
   OSearch search_line (Some ssdp_discover) (Some sp_all) None 2 0;
   OAdvance (2 * announce_interval_ms); OStop].
Example C13_domain_inhabited :
  dom (ex_cfg, ex_ops) = true /\
  map (fun ob => length (o_sent ob)) (model_run (ex_cfg, ex_ops)) = [1; 0; 6; 3; 6]%nat /\
  map (fun g => (g_time g, g_type g, g_usn g, g_dest g))
      (filter (fun g => g_dest g =? 1) (flat_map o_sent (model_run (ex_cfg, ex_ops)))) =
    [(895%Z, [85;82;78;58;65;58;68;58;69;58;49],
      [117;117;105;100;58;101;58;58;117;114;110;58;97;58;100;58;69;58;50], 1)].
Proof. vm_compute. repeat split; reflexivity. Qed.
