(* placeholder while the model is being validated *)
From AUC Require Import C13.Model C13.Spec.
Theorem C13_placeholder : True.
Proof. exact I. Qed.
Print Assumptions C13_placeholder.
