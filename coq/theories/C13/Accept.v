(* C13 — composition with the listener (C03 model): every message the server model emits is, once decoded,
   a valid sighting (or byebye) of the device whose UDN prefixes its USN, at the server's description URL.
   The wire decoding is the explicit premise [decode_premise] (C01's round trip). *)
From Coq Require Import List Bool NArith ZArith Lia ZifyBool ZifyN.
From AUC Require Import Prelude.PyStr Prelude.PyDict C16.Model C16.Spec C16.Proofs C08.Model
  C03.Model C03.Spec C03.Inv C03.Bridge C03.StepChar
  C13.Model C13.Spec C13.Strings C13.Table Gen.Server Gen.Ssdp.
Import ListNotations.
Local Open Scope N_scope.

Local Notation KS := str_eqb_spec.
Local Notation TInv := C03.Inv.Inv.
Local Notation HInv := (C16.Proofs.Inv str_eqb lower).

(* ------------------------------------------------------------------ what goes over the wire *)
Definition token_char (c : N) : bool :=
  ((48 <=? c) && (c <=? 57)) || ((65 <=? c) && (c <=? 90)) || ((97 <=? c) && (c <=? 122)) ||
  existsb (N.eqb c) [33;35;36;37;38;39;42;43;45;46;94;95;96;124;126].
Definition name_ok (k : pystr) : bool :=
  match k with [] => false | _ => true end && forallb token_char k && negb (is_meta (lower k)) &&
  (N.of_nat (length k) <=? 8190).
(* the header dict of the statement's wire round trip: token names distinct ignoring case, values without
   CR/LF or surrounding blanks (here: printable ASCII) *)
Definition headers_wire_ok (items : list (pystr * pystr)) : bool :=
  forallb (fun kv => name_ok (fst kv) && wire_value_ok (snd kv)) items &&
  nodupb str_eqb (map (fun kv => lower (fst kv)) items).

(* PREMISE (to be discharged by C01): decoding the datagram built from a start line and a wire-safe header
   dict, received at [now] from an unscoped address, yields a header map that is a well-formed
   CaseInsensitiveDict and reads, under case-folded name the tracker reads ([tracker_reads]), like [decoded_view]: the headers as sent,
   _udn = the uuid part of USN, _timestamp = now. *)
Definition decode_premise (dec : pystr -> list (pystr * pystr) -> Z -> hdrs) : Prop :=
  forall line items now, In line [response_line; notify_line] -> headers_wire_ok items = true ->
    HInv (dec line items now) /\
    forall lk, tracker_reads lk = true -> hget (dec line items now) lk = item_get (decoded_view items now) lk.

(* the model's own decoder instance satisfies it *)
Lemma low_names_view items now :
  map (fun kv => lower (fst kv)) (decoded_view items now) =
  map (fun kv => lower (fst kv)) items ++
  match dlast str_eqb (map (fun kv => (lower (fst kv), snd kv)) items) k_usn with
  | Some usn => match udn_from_usn usn with Some u => [k_udn] | None => [] end
  | None => []
  end ++ [k_timestamp].
Proof.
  unfold decoded_view. rewrite !map_app, map_map. cbn [fst]. f_equal. f_equal.
  destruct (dlast str_eqb _ k_usn) as [usn|]; [|reflexivity]. destruct (udn_from_usn usn); reflexivity.
Qed.

Lemma meta_neq a b : is_meta a = true -> is_meta b = false -> str_eqb a b = false.
Proof.
  intros Ha Hb. destruct (KS a b) as [->|]; [congruence | reflexivity].
Qed.

Lemma nodupb_app_meta names extra :
  nodupb str_eqb names = true -> forallb (fun k => negb (is_meta k)) names = true ->
  forallb is_meta extra = true -> nodupb str_eqb extra = true ->
  nodupb str_eqb (names ++ extra) = true.
Proof.
  intros H1 H2 H3 H4. apply (NoDup_nodupb str_eqb KS). apply (nodupb_NoDup str_eqb KS) in H1, H4.
  rewrite forallb_forall in H2, H3. induction names as [|k r IH]; [exact H4|].
  cbn [List.app]. inversion H1; subst. constructor.
  - rewrite in_app_iff. intros [Hin|Hin]; [contradiction|].
    specialize (H3 _ Hin). specialize (H2 k (or_introl eq_refl)). rewrite H3 in H2. discriminate.
  - apply IH; [assumption|]. intros x Hx. apply H2. now right.
Qed.

Lemma view_items_ok items now : headers_wire_ok items = true -> items_ok (decoded_view items now).
Proof.
  unfold headers_wire_ok, items_ok. intros H. apply andb_true_iff in H as [Hn Hd]. rewrite low_names_view.
  apply nodupb_app_meta; [exact Hd| | |].
  - rewrite forallb_forall in *. intros k Hk. apply in_map_iff in Hk as [kv [<- Hkv]].
    specialize (Hn _ Hkv). apply andb_true_iff in Hn as [Hn _]. unfold name_ok in Hn.
    apply andb_true_iff in Hn as [Hn _]. apply andb_true_iff in Hn as [_ Hn]. exact Hn.
  - destruct (dlast str_eqb _ k_usn) as [usn|]; [destruct (udn_from_usn usn)|]; reflexivity.
  - destruct (dlast str_eqb _ k_usn) as [usn|]; [destruct (udn_from_usn usn)|]; reflexivity.
Qed.

Definition model_dec (line : pystr) (items : list (pystr * pystr)) (now : Z) : hdrs :=
  mk_hdrs (decoded_view items now).
Lemma model_dec_premise : decode_premise model_dec.
Proof.
  intros line items now _ H. unfold model_dec. destruct (mk_hdrs_ok _ (view_items_ok items now H)) as [Hi Hg].
  split; [exact Hi|]. intros lk _. apply Hg.
Qed.

(* ------------------------------------------------------------------ reading the decoded view *)
Lemma dlast_app (K V : Type) (keqb : K -> K -> bool) (a b : list (K * V)) k :
  dlast keqb (a ++ b) k = match dlast keqb b k with Some v => Some v | None => dlast keqb a k end.
Proof.
  induction a as [|[x v] r IH]; cbn [List.app dlast].
  - destruct (dlast keqb b k); reflexivity.
  - rewrite IH. destruct (dlast keqb b k); reflexivity.
Qed.

Definition sget_low (items : list (pystr * pystr)) (lk : pystr) : option pystr :=
  dlast str_eqb (map (fun kv => (lower (fst kv), snd kv)) items) lk.

Lemma view_get_plain items now lk : is_meta lk = false ->
  item_get (decoded_view items now) lk =
  match sget_low items lk with Some v => Some (HStr v) | None => None end.
Proof.
  intros Hm. unfold item_get, decoded_view. rewrite !map_app, !dlast_app. cbn [map dlast fst snd].
  change (lower k_timestamp) with k_timestamp. rewrite (meta_neq k_timestamp lk eq_refl Hm).
  assert (E : dlast str_eqb
                (map (fun kv : pystr * hval => (lower (fst kv), snd kv))
                   match dlast str_eqb (map (fun kv : pystr * pystr => (lower (fst kv), snd kv)) items) k_usn with
                   | Some usn => match udn_from_usn usn with Some u => [(k_udn, HStr u)] | None => [] end
                   | None => []
                   end) lk = None).
  { destruct (dlast str_eqb _ k_usn) as [usn|]; [destruct (udn_from_usn usn)|]; try reflexivity.
    cbn [map dlast fst snd]. change (lower k_udn) with k_udn. now rewrite (meta_neq k_udn lk eq_refl Hm). }
  rewrite E. clear E. rewrite map_map. cbn [fst snd]. unfold sget_low.
  rewrite (dlast_map_val str_eqb (fun kv : pystr * pystr => lower (fst kv)) (fun kv => HStr (snd kv))).
  rewrite (dlast_map_val str_eqb (fun kv : pystr * pystr => lower (fst kv)) (fun kv => snd kv)).
  destruct (dlast str_eqb _ lk); reflexivity.
Qed.

Lemma view_get_ts items now : item_get (decoded_view items now) k_timestamp = Some (HTime now).
Proof.
  unfold item_get, decoded_view. rewrite !map_app, !dlast_app. reflexivity.
Qed.

Lemma view_get_udn items now :
  item_get (decoded_view items now) k_udn =
  match sget_low items k_usn with
  | Some usn => match udn_from_usn usn with
                | Some u => Some (HStr u)
                | None => match sget_low items k_udn with Some v => Some (HStr v) | None => None end
                end
  | None => match sget_low items k_udn with Some v => Some (HStr v) | None => None end
  end.
Proof.
  unfold item_get, decoded_view. rewrite !map_app, !dlast_app. cbn [map dlast fst snd].
  change (lower k_timestamp) with k_timestamp. change (str_eqb k_timestamp k_udn) with false. cbv iota.
  unfold sget_low.
  assert (P : dlast str_eqb (map (fun kv : pystr * hval => (lower (fst kv), snd kv))
                               (map (fun kv : pystr * pystr => (fst kv, HStr (snd kv))) items)) k_udn =
              match dlast str_eqb (map (fun kv : pystr * pystr => (lower (fst kv), snd kv)) items) k_udn with
              | Some v => Some (HStr v) | None => None end).
  { rewrite map_map. cbn [fst snd].
    rewrite (dlast_map_val str_eqb (fun kv : pystr * pystr => lower (fst kv)) (fun kv => HStr (snd kv))).
    rewrite (dlast_map_val str_eqb (fun kv : pystr * pystr => lower (fst kv)) (fun kv => snd kv)).
    destruct (dlast str_eqb _ k_udn); reflexivity. }
  destruct (dlast str_eqb (map (fun kv : pystr * pystr => (lower (fst kv), snd kv)) items) k_usn) as [usn|];
    [destruct (udn_from_usn usn)|]; cbn [map dlast fst snd]; try exact P.
  reflexivity.
Qed.

(* a message's headers through the template *)
Definition tpl_slot (tpl : list (pystr * slot)) (lk : pystr) : option slot :=
  dlast str_eqb (map (fun ks => (lower (fst ks), snd ks)) tpl) lk.

Lemma msg_get cfg m lk :
  sget_low (msg_items cfg m) lk =
  match tpl_slot (tpl_of (m_kind m)) lk with Some s => Some (slot_val cfg m s) | None => None end.
Proof.
  unfold sget_low, msg_items, tpl_slot. rewrite map_map. cbn [fst snd].
  rewrite (dlast_map_val str_eqb (fun ks : pystr * slot => lower (fst ks)) (fun ks => slot_val cfg m (snd ks))).
  rewrite (dlast_map_val str_eqb (fun ks : pystr * slot => lower (fst ks)) (fun ks => snd ks)).
  destruct (dlast str_eqb _ lk); reflexivity.
Qed.

(* the facts about the two templates that the composition needs; closed computations on the tables
   generated from the current source *)
Lemma response_tpl_facts :
  tpl_slot response_tpl k_st = Some SType /\ tpl_slot response_tpl k_usn = Some SUsn /\
  tpl_slot response_tpl k_location = Some SLocation /\ tpl_slot response_tpl k_nts = None /\
  tpl_slot response_tpl k_man = None /\ tpl_slot response_tpl k_udn = None /\
  forallb (fun ks => name_ok (fst ks)) response_tpl = true /\
  nodupb str_eqb (map (fun ks => lower (fst ks)) response_tpl) = true.
Proof. vm_compute. repeat split; reflexivity. Qed.

Lemma advert_tpl_facts :
  tpl_slot advert_tpl k_nt = Some SType /\ tpl_slot advert_tpl k_usn = Some SUsn /\
  tpl_slot advert_tpl k_location = Some SLocation /\ tpl_slot advert_tpl k_nts = Some SNts /\
  tpl_slot advert_tpl k_man = None /\ tpl_slot advert_tpl k_udn = None /\
  forallb (fun ks => name_ok (fst ks)) advert_tpl = true /\
  nodupb str_eqb (map (fun ks => lower (fst ks)) advert_tpl) = true.
Proof. vm_compute. repeat split; reflexivity. Qed.

Definition lit_ok (tpl : list (pystr * slot)) : bool :=
  forallb (fun ks => match snd ks with SLit x => wire_value_ok x | _ => true end) tpl.
Lemma tpl_lits : lit_ok response_tpl = true /\ lit_ok advert_tpl = true /\
                 wire_value_ok header_cache_control = true /\ wire_value_ok header_server = true.
Proof. vm_compute. repeat split; reflexivity. Qed.

(* ------------------------------------------------------------------ the tracker on a sighting, with its location *)
Section Tracker.
  Variable ipver : pystr -> option N.
  Variable items : list (pystr * hval).
  Variable h : hdrs.
  Hypothesis D : msg_dom items.
  Hypothesis R : reads_as h items.

  Lemma see_search_loc t u ts vt : TInv t ->
    sighting_items items (item_str items k_st) = Some (u, ts, vt) ->
    exists d, In (u, d) (devices (fst (see_search ipver t h))) /\
              dget str_eqb (d_locs d) (msg_loc items) = Some vt /\ ts = item_time items.
  Proof.
    intros Hi Hs. unfold see_search, valid_search_headers.
    rewrite (truthy_udn items h D R), (truthy_plain items h D R k_st eq_refl eq_refl),
      (loc_read items h R), (loc_ok_good items D).
    unfold sighting_items in Hs. destruct (usn_udn items) as [u0|] eqn:Eu; [|discriminate].
    destruct (item_str items k_st) as [[|c r]|] eqn:Est; try discriminate.
    cbn [nonempty andb]. destruct (good_location (msg_loc items)); [|discriminate]. cbn [negb].
    inversion Hs; subst u0 ts vt. clear Hs.
    destruct (see_device_char ipver items h R t u Hi Eu) as [t1 [nl [E [Hi1 [[d1 [Hin [Hv [Hl _]]]] Hoth]]]]].
    rewrite E, (rd_str items h R k_st eq_refl), Est.
    pose proof (In_dget str_eqb KS _ _ _ (inv_nodup _ Hi1) Hin) as Hg. unfold sget. rewrite Hg. cbn [fst].
    eexists. split; [apply upd_device_In; [exact (inv_nodup _ Hi1)|]; left; split; [reflexivity|]; eauto|].
    cbn [d_locs]. split; [exact Hl | reflexivity].
  Qed.

  Lemma see_adv_loc t b u ts vt : TInv t -> nonempty (item_str items k_nts) = true ->
    sighting_items items (item_str items k_nt) = Some (u, ts, vt) ->
    exists d, In (u, d) (devices (fst (see_advertisement ipver t h b))) /\
              dget str_eqb (d_locs d) (msg_loc items) = Some vt /\ ts = item_time items.
  Proof.
    intros Hi Hnts Hs. unfold see_advertisement, valid_advertisement_headers.
    rewrite (truthy_udn items h D R), (truthy_plain items h D R k_nt eq_refl eq_refl),
      (truthy_plain items h D R k_nts eq_refl eq_refl), Hnts, (loc_read items h R), (loc_ok_good items D).
    unfold sighting_items in Hs. destruct (usn_udn items) as [u0|] eqn:Eu; [|discriminate].
    destruct (item_str items k_nt) as [[|c r]|] eqn:Ent; try discriminate.
    cbn [nonempty andb]. destruct (good_location (msg_loc items)); [|discriminate]. cbn [negb].
    inversion Hs; subst u0 ts vt. clear Hs.
    destruct (see_device_char ipver items h R t u Hi Eu) as [t1 [nl [E [Hi1 [[d1 [Hin [Hv [Hl _]]]] Hoth]]]]].
    rewrite E, (rd_str items h R k_nt eq_refl), Ent.
    pose proof (In_dget str_eqb KS _ _ _ (inv_nodup _ Hi1) Hin) as Hg. unfold sget. rewrite Hg. cbn [fst].
    eexists. split; [apply upd_device_In; [exact (inv_nodup _ Hi1)|]; left; split; [reflexivity|]; eauto|].
    cbn [d_locs]. split; [exact Hl | reflexivity].
  Qed.
End Tracker.

(* ------------------------------------------------------------------ the server's messages *)
Section Compose.
  Variable cfg : config.
  Hypothesis OK : CfgOk cfg.
  Let root := c_root cfg.
  Let loc := location_of_cfg cfg.

  Lemma usn_wire m : msg_wf cfg m -> wire_value_ok (m_usn m) = true.
  Proof.
    intros [_ [_ [d [_ [_ [U Husn]]]]]]. destruct (udn_ok_facts _ U) as [_ [_ T]].
    destruct Husn as [->|[t [Tt ->]]]; [now apply token_wire|].
    unfold token_ok in T, Tt. apply andb_true_iff in T as [P1 L1]. apply andb_true_iff in Tt as [P2 L2].
    apply printable_wire.
    - rewrite printable_app, P1. cbn [andb]. change (58 :: 58 :: t) with ([58; 58] ++ t).
      rewrite printable_app, P2. reflexivity.
    - rewrite app_length. cbn [length]. lia.
  Qed.

  Lemma slot_wire m s : msg_wf cfg m -> wire_value_ok (m_nts m) = true ->
    match s with SLit x => wire_value_ok x = true | _ => True end ->
    wire_value_ok (slot_val cfg m s) = true.
  Proof.
    intros W N L. destruct (co_wire _ OK) as [W1 [W2 [W3 [W4 W5]]]]. destruct tpl_lits as [_ [_ [C S]]].
    destruct s; cbn [slot_val]; auto.
    - now destruct W as [_ [W _]].
    - now apply usn_wire.
  Qed.

  Lemma msg_wire m : msg_wf cfg m -> wire_value_ok (m_nts m) = true -> headers_wire_ok (msg_items cfg m) = true.
  Proof.
    intros W N. unfold headers_wire_ok, msg_items. rewrite map_map. cbn [fst].
    destruct response_tpl_facts as [_ [_ [_ [_ [_ [_ [RN RD]]]]]]].
    destruct advert_tpl_facts as [_ [_ [_ [_ [_ [_ [AN AD]]]]]]].
    destruct tpl_lits as [RL [AL _]].
    assert (G : forall tpl, forallb (fun ks => name_ok (fst ks)) tpl = true -> lit_ok tpl = true ->
                forallb (fun kv : pystr * pystr => name_ok (fst kv) && wire_value_ok (snd kv))
                        (map (fun ks : pystr * slot => (fst ks, slot_val cfg m (snd ks))) tpl) = true).
    { intros tpl Hn Hl. apply forallb_forall. intros kv Hkv. apply in_map_iff in Hkv as [ks [<- Hks]].
      rewrite forallb_forall in Hn. unfold lit_ok in Hl. rewrite forallb_forall in Hl. cbn [fst snd].
      rewrite (Hn _ Hks). cbn [andb]. apply slot_wire; [exact W | exact N|].
      specialize (Hl _ Hks). destruct (snd ks); auto. }
    destruct (m_kind m); cbn [tpl_of]; apply andb_true_iff; split; auto.
  Qed.

  (* the decoded view of a message *)
  Record view_facts (m : msg) (now : Z) (tkey : pystr) (u : pystr) : Prop := {
    vf_dom : msg_dom (decoded_view (msg_items cfg m) now);
    vf_type : item_str (decoded_view (msg_items cfg m) now) tkey = Some (m_type m);
    vf_usn : item_str (decoded_view (msg_items cfg m) now) k_usn = Some (m_usn m);
    vf_loc : item_str (decoded_view (msg_items cfg m) now) k_location = Some loc;
    vf_man : item_get (decoded_view (msg_items cfg m) now) k_man = None;
    vf_udn : usn_udn (decoded_view (msg_items cfg m) now) = Some u;
    vf_time : item_time (decoded_view (msg_items cfg m) now) = now
  }.

  Lemma view_str m now lk s : is_meta lk = false ->
    tpl_slot (tpl_of (m_kind m)) lk = Some s ->
    item_str (decoded_view (msg_items cfg m) now) lk = Some (slot_val cfg m s).
  Proof. intros Hm Ht. unfold item_str. rewrite (view_get_plain _ _ _ Hm), msg_get, Ht. reflexivity. Qed.
  Lemma view_none m now lk : is_meta lk = false ->
    tpl_slot (tpl_of (m_kind m)) lk = None ->
    item_get (decoded_view (msg_items cfg m) now) lk = None.
  Proof. intros Hm Ht. rewrite (view_get_plain _ _ _ Hm), msg_get, Ht. reflexivity. Qed.

  Lemma view_of m now tkey u : msg_wf cfg m -> wire_value_ok (m_nts m) = true -> (0 <= now <= DT_MAX)%Z ->
    is_meta tkey = false -> tpl_slot (tpl_of (m_kind m)) tkey = Some SType ->
    tpl_slot (tpl_of (m_kind m)) k_usn = Some SUsn -> tpl_slot (tpl_of (m_kind m)) k_location = Some SLocation ->
    tpl_slot (tpl_of (m_kind m)) k_man = None ->
    udn_from_usn (m_usn m) = Some u ->
    view_facts m now tkey u.
  Proof.
    intros W N Hnow Hmk Tt Tu Tl Tm Hu.
    pose proof (view_str m now k_usn SUsn eq_refl Tu) as Eu. cbn [slot_val] in Eu.
    pose proof (view_str m now k_location SLocation eq_refl Tl) as El. cbn [slot_val] in El.
    assert (Eudn : item_get (decoded_view (msg_items cfg m) now) k_udn = Some (HStr u)).
    { rewrite view_get_udn, msg_get, Tu. cbn [slot_val]. now rewrite Hu. }
    assert (Eusn : usn_udn (decoded_view (msg_items cfg m) now) = Some u).
    { unfold usn_udn. now rewrite Eu. }
    constructor.
    - constructor.
      + apply view_items_ok. now apply msg_wire.
      + intros lk v Hg Hm. rewrite (view_get_plain _ _ _ Hm) in Hg.
        destruct (sget_low (msg_items cfg m) lk); [|discriminate]. inversion Hg. eauto.
      + rewrite El. unfold location_in_reading. destruct (co_loc _ OK) as [G S]. unfold spec_location_ok in *. rewrite G. unfold spec_location_ok in S. now rewrite S.
      + rewrite Eudn, Eusn. reflexivity.
      + exists now. split; [apply view_get_ts | exact Hnow].
    - pose proof (view_str m now tkey SType Hmk Tt) as E. exact E.
    - exact Eu.
    - exact El.
    - now apply view_none.
    - exact Eusn.
    - unfold item_time. now rewrite view_get_ts.
  Qed.

  Lemma nts_wire_nil : wire_value_ok [] = true. Proof. reflexivity. Qed.
  Lemma nts_wire_alive : wire_value_ok nts_alive = true. Proof. reflexivity. Qed.
  Lemma nts_wire_byebye : wire_value_ok nts_byebye = true. Proof. reflexivity. Qed.

  (* reading the header map the decoder hands over *)
  Section Decoded.
    Variable dec : pystr -> list (pystr * pystr) -> Z -> hdrs.
    Hypothesis DEC : decode_premise dec.
    Variable ipver : pystr -> option N.

    Lemma msg_line_in m : In (msg_line m) [response_line; notify_line].
    Proof. unfold msg_line. destruct (m_kind m); cbn; auto. Qed.

    Lemma dec_reads m now src : msg_wf cfg m -> wire_value_ok (m_nts m) = true ->
      let h := dec (msg_line m) (msg_items cfg m) now in
      (forall lk, tracker_reads lk = true -> hget h lk = item_get (decoded_view (msg_items cfg m) now) lk) /\
      reads_as (with_source h src) (decoded_view (msg_items cfg m) now).
    Proof.
      intros W N h. destruct (DEC (msg_line m) (msg_items cfg m) now (msg_line_in m) (msg_wire m W N)) as [Hi Hr]. fold h in Hi, Hr.
      split; [exact Hr|]. intros lk Hrd. pose proof (tracker_reads_not_source lk Hrd) as Hne.
      destruct (with_source_get h src lk Hi) as [_ E]. rewrite E, Hne. now apply Hr.
    Qed.

    Lemma fst_on_srch t h :
      is_discover h = false -> htruthy h k_nts = false ->
      fst (fst (on_srch ipver [] t h)) = fst (see_search ipver t (with_source h src_search)).
    Proof.
      intros H1 H2. unfold on_srch. rewrite H1, H2. cbn [negb].
      destruct (see_search ipver t (with_source h src_search)) as [t' [[[? ?] ?]|]]; reflexivity.
    Qed.

    Lemma fst_on_adv_alive t h (b : bool) :
      is_discover h = false -> hget h k_nts = Some (HStr (if b then nts_update else nts_alive)) ->
      fst (fst (on_adv ipver t h)) = fst (see_advertisement ipver t (with_source h src_advertisement) b).
    Proof.
      intros H1 H2. unfold on_adv. rewrite H1, H2. destruct b.
      - change (str_eqb nts_update nts_alive) with false. change (str_eqb nts_update nts_byebye) with false.
        change (str_eqb nts_update nts_update) with true. cbv iota.
        destruct (see_advertisement ipver t (with_source h src_advertisement) true) as [t' [[? ?]|]]; reflexivity.
      - change (str_eqb nts_alive nts_alive) with true. cbv iota.
        destruct (see_advertisement ipver t (with_source h src_advertisement) false) as [t' [[? ?]|]]; reflexivity.
    Qed.

    Lemma fst_on_adv_byebye t h :
      is_discover h = false -> hget h k_nts = Some (HStr nts_byebye) ->
      fst (fst (on_adv ipver t h)) = fst (unsee_advertisement t (with_source h src_advertisement)).
    Proof.
      intros H1 H2. unfold on_adv. rewrite H1, H2.
      change (str_eqb nts_byebye nts_alive) with false. change (str_eqb nts_byebye nts_byebye) with true. cbv iota.
      destruct (unsee_advertisement t (with_source h src_advertisement)) as [t' [[[? ?] ?]|]]; reflexivity.
    Qed.

    Lemma not_discover h D : (forall lk, tracker_reads lk = true -> hget h lk = item_get D lk) ->
      item_get D k_man = None -> is_discover h = false.
    Proof. intros Hr Hm. unfold is_discover, hstr. rewrite (Hr k_man eq_refl), Hm. reflexivity. Qed.

    (* a search response: a valid sighting of the device named by its USN; afterwards that device is known
       at the server's description URL *)
    Theorem response_accepted m now t :
      msg_wf cfg m -> m_kind m = MResponse -> m_nts m = [] -> (0 <= now <= DT_MAX)%Z -> TInv t ->
      let D := decoded_view (msg_items cfg m) now in
      let u := usn_udn_part (m_usn m) in
      (exists d, In d (all_devices root) /\ describes root d (m_type m) = true /\ d_udn d = u) /\
      sighting (Srch D) = Some (u, now, spec_valid_to D) /\
      exists dv, In (u, dv) (devices (fst (fst (on_srch ipver [] t (dec (msg_line m) (msg_items cfg m) now))))) /\
                 dget str_eqb (d_locs dv) loc = Some (spec_valid_to D).
    Proof.
      intros W K Nn Hnow Hi D u.
      destruct (wf_usn_part cfg m W) as [d [Hd [Hdesc [Hpart Hudn]]]]. fold u in Hpart.
      destruct response_tpl_facts as [T1 [T2 [T3 [T4 [T5 _]]]]].
      assert (Nw : wire_value_ok (m_nts m) = true) by (rewrite Nn; reflexivity).
      assert (V : view_facts m now k_st u).
      { rewrite Hpart. apply view_of; rewrite ?K; cbn [tpl_of]; auto. }
      destruct V as [Vd Vt Vu Vl Vm Vudn Vtime]. fold D in Vd, Vt, Vu, Vl, Vm, Vudn, Vtime.
      assert (Vnts : item_get D k_nts = None) by (apply view_none; [reflexivity | rewrite K; exact T4]).
      pose proof W as [Tne _].
      assert (SI : sighting_items D (item_str D k_st) = Some (u, now, spec_valid_to D)).
      { rewrite Vt. unfold sighting_items. rewrite Vudn.
        destruct (m_type m) as [|c r]; [congruence|]. unfold msg_loc. rewrite Vl.
        destruct (co_loc _ OK) as [G _]. fold loc in G. now rewrite G, Vtime. }
      assert (S : sighting (Srch D) = Some (u, now, spec_valid_to D)).
      { unfold sighting, msg_kind, op_type, msg_kind, op_items, item_str. rewrite Vm, Vnts. cbn [nonempty].
        exact SI. }
      split; [exists d; auto|]. split; [exact S|].
      destruct (dec_reads m now src_search W Nw) as [Hr Hrs].
      rewrite fst_on_srch.
      - destruct (see_search_loc ipver D _ Vd Hrs t u now _ Hi SI) as [dv [Hin [Hl _]]].
        exists dv. split; [exact Hin|]. unfold msg_loc in Hl. now rewrite Vl in Hl.
      - eapply not_discover; eauto.
      - unfold htruthy. rewrite (Hr k_nts eq_refl). fold D. now rewrite Vnts.
    Qed.

    (* an ssdp:alive advertisement: the same *)
    Theorem alive_accepted m now t :
      msg_wf cfg m -> m_kind m = MNotify -> m_nts m = nts_alive -> (0 <= now <= DT_MAX)%Z -> TInv t ->
      let D := decoded_view (msg_items cfg m) now in
      let u := usn_udn_part (m_usn m) in
      (exists d, In d (all_devices root) /\ describes root d (m_type m) = true /\ d_udn d = u) /\
      sighting (Adv D) = Some (u, now, spec_valid_to D) /\
      exists dv, In (u, dv) (devices (fst (fst (on_adv ipver t (dec (msg_line m) (msg_items cfg m) now))))) /\
                 dget str_eqb (d_locs dv) loc = Some (spec_valid_to D).
    Proof.
      intros W K Nn Hnow Hi D u.
      destruct (wf_usn_part cfg m W) as [d [Hd [Hdesc [Hpart Hudn]]]]. fold u in Hpart.
      destruct advert_tpl_facts as [T1 [T2 [T3 [T4 [T5 _]]]]].
      assert (Nw : wire_value_ok (m_nts m) = true) by (rewrite Nn; reflexivity).
      assert (V : view_facts m now k_nt u).
      { rewrite Hpart. apply view_of; rewrite ?K; cbn [tpl_of]; auto. }
      destruct V as [Vd Vt Vu Vl Vm Vudn Vtime]. fold D in Vd, Vt, Vu, Vl, Vm, Vudn, Vtime.
      assert (Vnts : item_str D k_nts = Some nts_alive).
      { rewrite <- Nn. apply (view_str m now k_nts SNts eq_refl). rewrite K. exact T4. }
      assert (Gnts : item_get D k_nts = Some (HStr nts_alive)).
      { unfold item_str in Vnts. destruct (item_get D k_nts) as [[x| |]|]; try discriminate. now inversion Vnts. }
      pose proof W as [Tne _].
      assert (SI : sighting_items D (item_str D k_nt) = Some (u, now, spec_valid_to D)).
      { rewrite Vt. unfold sighting_items. rewrite Vudn.
        destruct (m_type m) as [|c r]; [congruence|]. unfold msg_loc. rewrite Vl.
        destruct (co_loc _ OK) as [G _]. fold loc in G. now rewrite G, Vtime. }
      assert (S : sighting (Adv D) = Some (u, now, spec_valid_to D)).
      { unfold sighting, msg_kind, op_type, msg_kind, op_items, item_str. rewrite Vm, Gnts.
        change (str_eqb nts_alive nts_alive) with true. cbv iota. exact SI. }
      split; [exists d; auto|]. split; [exact S|].
      destruct (dec_reads m now src_advertisement W Nw) as [Hr Hrs].
      rewrite (fst_on_adv_alive t _ false).
      - assert (Hne : nonempty (item_str D k_nts) = true) by now rewrite Vnts.
        destruct (see_adv_loc ipver D _ Vd Hrs t false u now (spec_valid_to D) Hi Hne SI) as [dv [Hin [Hl _]]].
        exists dv. split; [exact Hin|]. unfold msg_loc in Hl. now rewrite Vl in Hl.
      - eapply not_discover; eauto.
      - now rewrite (Hr k_nts eq_refl).
    Qed.

    (* an ssdp:byebye advertisement: a byebye of the device named by its USN; the listener forgets it *)
    Theorem byebye_accepted m now t :
      msg_wf cfg m -> m_kind m = MNotify -> m_nts m = nts_byebye -> (0 <= now <= DT_MAX)%Z ->
      let D := decoded_view (msg_items cfg m) now in
      let u := usn_udn_part (m_usn m) in
      (exists d, In d (all_devices root) /\ describes root d (m_type m) = true /\ d_udn d = u) /\
      byebye_of (Adv D) = Some u /\
      devices (fst (fst (on_adv ipver t (dec (msg_line m) (msg_items cfg m) now)))) = sdel (devices t) u.
    Proof.
      intros W K Nn Hnow D u.
      destruct (wf_usn_part cfg m W) as [d [Hd [Hdesc [Hpart Hudn]]]]. fold u in Hpart.
      destruct advert_tpl_facts as [T1 [T2 [T3 [T4 [T5 _]]]]].
      assert (Nw : wire_value_ok (m_nts m) = true) by (rewrite Nn; reflexivity).
      assert (V : view_facts m now k_nt u).
      { rewrite Hpart. apply view_of; rewrite ?K; cbn [tpl_of]; auto. }
      destruct V as [Vd Vt Vu Vl Vm Vudn Vtime]. fold D in Vd, Vt, Vu, Vl, Vm, Vudn, Vtime.
      assert (Vnts : item_str D k_nts = Some nts_byebye).
      { rewrite <- Nn. apply (view_str m now k_nts SNts eq_refl). rewrite K. exact T4. }
      assert (Gnts : item_get D k_nts = Some (HStr nts_byebye)).
      { unfold item_str in Vnts. destruct (item_get D k_nts) as [[x| |]|]; try discriminate. now inversion Vnts. }
      pose proof W as [Tne _].
      split; [exists d; auto|]. split.
      - unfold byebye_of, msg_kind, op_type, msg_kind, op_items, item_str. rewrite Vm, Gnts.
        change (str_eqb nts_byebye nts_alive) with false. change (str_eqb nts_byebye nts_byebye) with true. cbv iota.
        rewrite Vudn. fold (item_str D k_nt). rewrite Vt. destruct (m_type m); [congruence | reflexivity].
      - destruct (dec_reads m now src_advertisement W Nw) as [Hr Hrs].
        rewrite (fst_on_adv_byebye t).
        + rewrite (unsee_char D _ Vd Hrs t) by now rewrite Vnts.
          rewrite Vudn, Vt. destruct (m_type m); [congruence | reflexivity].
        + eapply not_discover; eauto.
        + now rewrite (Hr k_nts eq_refl).
    Qed.
  End Decoded.
End Compose.

(* ------------------------------------------------------------------ the flags of the executable model *)
Section Flags.
  Variable cfg : config.
  Hypothesis OK : CfgOk cfg.

  Lemma seen_some m lk s : is_meta lk = false -> tpl_slot (tpl_of (m_kind m)) lk = Some s ->
    seen_str cfg m lk = slot_val cfg m s.
  Proof. intros Hm Ht. unfold seen_str. now rewrite (view_str cfg m 0 lk s Hm Ht). Qed.
  Lemma seen_none m lk : is_meta lk = false -> tpl_slot (tpl_of (m_kind m)) lk = None -> seen_str cfg m lk = [].
  Proof. intros Hm Ht. unfold seen_str, item_str. now rewrite (view_none cfg m 0 lk Hm Ht). Qed.

  Lemma seen_resp m : m_kind m = MResponse ->
    seen_str cfg m k_st = m_type m /\ seen_str cfg m k_usn = m_usn m /\
    seen_str cfg m k_location = location_of_cfg cfg /\ seen_str cfg m k_nts = [].
  Proof.
    intros K. destruct response_tpl_facts as [T1 [T2 [T3 [T4 _]]]].
    repeat split; [apply (seen_some m k_st SType) | apply (seen_some m k_usn SUsn) |
                   apply (seen_some m k_location SLocation) | apply seen_none]; rewrite ?K; auto.
  Qed.
  Lemma seen_adv m : m_kind m = MNotify ->
    seen_str cfg m k_nt = m_type m /\ seen_str cfg m k_usn = m_usn m /\
    seen_str cfg m k_location = location_of_cfg cfg /\ seen_str cfg m k_nts = m_nts m.
  Proof.
    intros K. destruct advert_tpl_facts as [T1 [T2 [T3 [T4 _]]]].
    repeat split; [apply (seen_some m k_nt SType) | apply (seen_some m k_usn SUsn) |
                   apply (seen_some m k_location SLocation) | apply (seen_some m k_nts SNts)]; rewrite ?K; auto.
  Qed.

  Lemma zero_in_range : (0 <= 0 <= DT_MAX)%Z.
  Proof. unfold DT_MAX. lia. Qed.

  Lemma known_at_of t u dv l vt : TInv t -> In (u, dv) (devices t) -> dget str_eqb (d_locs dv) l = Some vt ->
    known_at t u l = true.
  Proof.
    intros Hi Hin Hl. unfold known_at. rewrite (In_dget str_eqb KS _ _ _ (inv_nodup _ Hi) Hin).
    unfold dhas. now rewrite Hl.
  Qed.

  Lemma nts_slot_only :
    forallb (fun ks : pystr * slot => Bool.eqb (str_eqb (lower (fst ks)) k_nts)
                                     (match snd ks with SNts => true | _ => false end)) advert_tpl = true.
  Proof. vm_compute. reflexivity. Qed.

  Lemma as_alive_items m : m_kind m = MNotify ->
    as_alive (msg_items cfg m) =
    msg_items cfg {| m_kind := MNotify; m_type := m_type m; m_usn := m_usn m; m_nts := nts_alive |}.
  Proof.
    intros K. unfold as_alive, msg_items. rewrite K. cbn [m_kind tpl_of]. rewrite map_map. cbn [fst].
    apply map_ext_in. intros [k s] Hks. pose proof nts_slot_only as F. rewrite forallb_forall in F.
    specialize (F _ Hks). cbn [fst snd] in *. apply eqb_prop in F.
    destruct (str_eqb (lower k) k_nts).
    - destruct s; try discriminate. reflexivity.
    - destruct s; try discriminate; reflexivity.
  Qed.

  Theorem accepted_true m :
    msg_wf cfg m ->
    (m_kind m = MResponse /\ m_nts m = []) \/ (m_kind m = MNotify /\ (m_nts m = nts_alive \/ m_nts m = nts_byebye)) ->
    accepted cfg m = true.
  Proof.
    intros W [[K Nn]|[K Nn]]; unfold accepted; rewrite K.
    - destruct (seen_resp m K) as [_ [-> _]].
      destruct (response_accepted cfg OK model_dec model_dec_premise no_ipver m 0 tracker0 W K Nn zero_in_range Inv0)
        as [_ [_ [dv [Hin Hl]]]].
      eapply known_at_of; [apply (step_Inv no_ipver [] tracker0 (Srch _)); exact Inv0 | exact Hin | exact Hl].
    - destruct (seen_adv m K) as [_ [-> [_ ->]]]. destruct Nn as [Nn|Nn]; rewrite Nn.
      + change (str_eqb nts_alive nts_byebye) with false. cbv iota.
        destruct (alive_accepted cfg OK model_dec model_dec_premise no_ipver m 0 tracker0 W K Nn zero_in_range Inv0)
          as [_ [_ [dv [Hin Hl]]]].
        eapply known_at_of; [apply (step_Inv no_ipver [] tracker0 (Adv _)); exact Inv0 | exact Hin | exact Hl].
      + change (str_eqb nts_byebye nts_byebye) with true. cbv iota.
        rewrite (as_alive_items m K).
        set (m' := {| m_kind := MNotify; m_type := m_type m; m_usn := m_usn m; m_nts := nts_alive |}).
        assert (W' : msg_wf cfg m') by exact W.
        destruct (alive_accepted cfg OK model_dec model_dec_premise no_ipver m' 0 tracker0 W' eq_refl eq_refl
                                 zero_in_range Inv0) as [_ [_ [dv [Hin Hl]]]].
        pose proof (step_Inv no_ipver [] tracker0 (Adv (decoded_view (msg_items cfg m') 0)) Inv0) as Hi1.
        apply andb_true_iff. split.
        * eapply known_at_of; [exact Hi1 | exact Hin | exact Hl].
        * destruct (byebye_accepted cfg OK model_dec model_dec_premise no_ipver m 0
                      (fst (fst (C03.Model.step no_ipver [] tracker0 (Adv (decoded_view (msg_items cfg m') 0)))))
                      W K Nn zero_in_range) as [_ [_ E]].
          apply negb_true_iff. unfold dhas.
          change (C03.Model.step no_ipver []
                    (fst (fst (C03.Model.step no_ipver [] tracker0 (Adv (decoded_view (msg_items cfg m') 0)))))
                    (Adv (decoded_view (msg_items cfg m) 0)))
            with (on_adv no_ipver (fst (fst (C03.Model.step no_ipver [] tracker0 (Adv (decoded_view (msg_items cfg m') 0)))))
                         (model_dec (msg_line m) (msg_items cfg m) 0)).
          rewrite E. unfold sdel. rewrite (dget_ddel str_eqb KS _ _ _ (inv_nodup _ Hi1)).
          now rewrite str_eqb_refl.
  Qed.
End Flags.
