(* C13 — the statements of Properties.v, closed (no section hypotheses), from the lemmas of Table / Accept / Sched. *)
From Coq Require Import List Bool NArith ZArith Lia Permutation.
From AUC Require Import Prelude.PyStr Prelude.PyDict C16.Model C08.Model C03.Model C03.Spec C03.Inv
  C13.Model C13.Spec C13.Strings C13.Table C13.Accept C13.Sched C13.Run Gen.Server Gen.Ssdp.
Import ListNotations.
Local Open Scope N_scope.

Local Notation TInv := C03.Inv.Inv.

Definition pairs (ms : list msg) : list pair := map (fun m => (m_type m, m_usn m)) ms.

Lemma response_table_closed : forall cfg st,
  cfg_ok cfg = true -> wire_value_ok st = true ->
  pairs (build_responses cfg st) = spec_answers (c_root cfg) st.
Proof.
  intros cfg st H W. apply (responses_table cfg (cfg_ok_facts cfg H)). exact (wire_ascii st W).
Qed.

Lemma version_rule_closed : forall typ st b v,
  parse_type typ = Some (b, v) -> token_ok typ = true ->
  match_type_versions typ (alower st) = spec_matches typ st.
Proof. intros typ st b v P T. eapply match_spec; eauto. now apply token_ascii. Qed.

Lemma adverts_match_closed : forall cfg, cfg_ok cfg = true ->
  Permutation (pairs (build_advertisements cfg nts_alive)) (spec_all (c_root cfg)) /\
  Permutation (pairs (build_advertisements cfg nts_byebye)) (spec_all (c_root cfg)) /\
  pairs (build_responses cfg sp_all) = spec_all (c_root cfg).
Proof.
  intros cfg H. pose proof (cfg_ok_facts cfg H) as OK. split; [|split].
  - apply (adverts_table cfg OK).
  - apply (adverts_table cfg OK).
  - rewrite (response_table_closed cfg sp_all H eq_refl). reflexivity.
Qed.

(* every message the server can emit *)
Inductive emitted (cfg : config) : msg -> Prop :=
| EmResp st m : wire_value_ok st = true -> In m (build_responses cfg st) -> emitted cfg m
| EmAlive m : In m (build_advertisements cfg nts_alive) -> emitted cfg m
| EmByebye m : In m (build_advertisements cfg nts_byebye) -> emitted cfg m.

Lemma emitted_good cfg m : cfg_ok cfg = true -> emitted cfg m -> good_msg cfg m.
Proof.
  intros H E. pose proof (cfg_ok_facts cfg H) as OK. destruct E as [st m W Hin|m Hin|m Hin].
  - pose proof (responses_wf cfg OK st W) as F. rewrite Forall_forall in F. destruct (F m Hin) as [Wm [K Nn]].
    split; [exact Wm | left; auto].
  - pose proof (advs_good cfg OK nts_alive (or_introl eq_refl)) as F. rewrite Forall_forall in F.
    destruct (F m Hin) as [G _]. exact G.
  - pose proof (advs_good cfg OK nts_byebye (or_intror eq_refl)) as F. rewrite Forall_forall in F.
    destruct (F m Hin) as [G _]. exact G.
Qed.

Lemma usn_owner_closed : forall cfg m, cfg_ok cfg = true -> emitted cfg m ->
  exists d, In d (all_devices (c_root cfg)) /\ describes (c_root cfg) d (m_type m) = true /\
            usn_udn_part (m_usn m) = d_udn d /\ udn_from_usn (m_usn m) = Some (d_udn d) /\
            starts_with (d_udn d) (m_usn m) = true.
Proof.
  intros cfg m H E. destruct (emitted_good cfg m H E) as [W _]. exact (wf_usn_full cfg m W).
Qed.

(* composition with the listener: the three kinds of message *)
Lemma emitted_kinds cfg m : cfg_ok cfg = true -> emitted cfg m ->
  (m_kind m = MResponse /\ m_nts m = []) \/
  (m_kind m = MNotify /\ m_nts m = nts_alive) \/ (m_kind m = MNotify /\ m_nts m = nts_byebye).
Proof.
  intros H E. pose proof (cfg_ok_facts cfg H) as OK. destruct E as [st m W Hin|m Hin|m Hin].
  - pose proof (responses_wf cfg OK st W) as F. rewrite Forall_forall in F. destruct (F m Hin) as [_ [K Nn]]. auto.
  - pose proof (adverts_wf cfg OK nts_alive) as F. rewrite Forall_forall in F. destruct (F m Hin) as [_ [K Nn]]. auto.
  - pose proof (adverts_wf cfg OK nts_byebye) as F. rewrite Forall_forall in F. destruct (F m Hin) as [_ [K Nn]]. auto.
Qed.

Lemma self_accepted_closed :
  forall (dec : pystr -> list (pystr * pystr) -> Z -> hdrs), decode_premise dec ->
  forall cfg m, cfg_ok cfg = true -> emitted cfg m ->
  forall (ipver : pystr -> option N) (now : Z) (t : tracker), (0 <= now <= DT_MAX)%Z -> TInv t ->
  let D := decoded_view (msg_items cfg m) now in
  let h := dec (msg_line m) (msg_items cfg m) now in
  let u := usn_udn_part (m_usn m) in
  let loc := location_of_cfg cfg in
  headers_wire_ok (msg_items cfg m) = true /\
  (exists d, In d (all_devices (c_root cfg)) /\ describes (c_root cfg) d (m_type m) = true /\ d_udn d = u) /\
  match m_kind m with
  | MResponse =>
      sighting (Srch D) = Some (u, now, spec_valid_to D) /\
      exists dv, In (u, dv) (devices (fst (fst (on_srch ipver [] t h)))) /\
                 dget str_eqb (d_locs dv) loc = Some (spec_valid_to D)
  | MNotify =>
      if str_eqb (m_nts m) nts_byebye
      then byebye_of (Adv D) = Some u /\ devices (fst (fst (on_adv ipver t h))) = sdel (devices t) u
      else sighting (Adv D) = Some (u, now, spec_valid_to D) /\
           exists dv, In (u, dv) (devices (fst (fst (on_adv ipver t h)))) /\
                      dget str_eqb (d_locs dv) loc = Some (spec_valid_to D)
  end.
Proof.
  intros dec DEC cfg m H E ipver now t Hnow Hi D h u loc.
  pose proof (cfg_ok_facts cfg H) as OK. destruct (emitted_good cfg m H E) as [W _].
  destruct (emitted_kinds cfg m H E) as [[K Nn]|[[K Nn]|[K Nn]]]; rewrite K.
  - destruct (response_accepted cfg OK dec DEC ipver m now t W K Nn Hnow Hi) as [A [B C]].
    split; [apply (msg_wire cfg OK m W); rewrite Nn; reflexivity|]. split; [exact A|]. split; [exact B | exact C].
  - destruct (alive_accepted cfg OK dec DEC ipver m now t W K Nn Hnow Hi) as [A [B C]].
    split; [apply (msg_wire cfg OK m W); rewrite Nn; reflexivity|]. split; [exact A|]. rewrite Nn.
    change (str_eqb nts_alive nts_byebye) with false. cbv iota. split; [exact B | exact C].
  - destruct (byebye_accepted cfg OK dec DEC ipver m now t W K Nn Hnow) as [A [B C]].
    split; [apply (msg_wire cfg OK m W); rewrite Nn; reflexivity|]. split; [exact A|]. rewrite Nn.
    change (str_eqb nts_byebye nts_byebye) with true. cbv iota. split; [exact B | exact C].
Qed.

(* a delayed answer is sent strictly inside the MX window; an immediate one at once *)
Lemma delay_in_window_closed : forall mx pick,
  (mx_delay mx = 0 /\ 0 <= mx_window mx)%Z \/
  (exists r, randrange rnd_lo (mx_delay mx * rnd_scale + rnd_off) pick = Some r /\
             (0 < r * 1000 / rnd_div < mx_window mx)%Z).
Proof.
  intros mx pick. destruct (mx_facts mx) as [[D W]|[D W]]; [left; auto|]. right.
  destruct (randrange_facts (mx_delay mx) pick D) as [r [R Rb]]. exists r. split; [exact R|]. lia.
Qed.
