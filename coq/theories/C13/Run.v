(* C13 — instantiation used by the correspondence check (never by a theorem). *)
From Coq Require Import List Bool NArith ZArith.
From AUC Require Export Prelude.PyStr Prelude.PyDict C16.Spec C03.Model C03.Spec C13.Model C13.Spec Gen.Server Gen.Ssdp.
Import ListNotations.
Local Open Scope N_scope.

Definition input := (config * list sop)%type.
Definition observation := list step_obs.

(* what the harness reads off an emitted datagram (through the library's own decoder) *)
Definition dgram_of (cfg : config) (x : sent) : dgram :=
  let m := x_msg x in
  {| g_time := x_time x;
     g_kind := match m_kind m with MResponse => 0 | MNotify => 1 end;
     g_type := seen_str cfg m (match m_kind m with MResponse => k_st | MNotify => k_nt end);
     g_nts := seen_str cfg m k_nts;
     g_usn := seen_str cfg m k_usn;
     g_loc := seen_str cfg m k_location;
     g_dest := x_dest x;
     g_acc := accepted cfg m |}.

Definition model_run (i : input) : observation :=
  let '(cfg, ops) := i in
  map (fun r => {| o_sent := map (dgram_of cfg) (fst r); o_raised := snd r |}) (run cfg ops).

Definition dom (i : input) : bool := let '(cfg, ops) := i in cfg_ok cfg && ops_ok ops.
Definition failures (i : input) (o : observation) : list (N * N) :=
  let '(cfg, ops) := i in spec_failures cfg ops o.

(* ---- comparison: the datagrams of one step as a multiset.  Which entry of the table an ssdp:alive carries at
   which tick (and hence its acceptance flag) is not compared (the property fixes the round, not its order):
   clauses 3-5 judge that on the implementation's datagrams directly. ---- *)
Definition dgram_eqb (a b : dgram) : bool :=
  (g_time a =? g_time b)%Z && (g_kind a =? g_kind b) &&
  (is_alive a && is_alive b ||
   str_eqb (g_type a) (g_type b) && str_eqb (g_usn a) (g_usn b) && Bool.eqb (g_acc a) (g_acc b)) &&
  str_eqb (g_nts a) (g_nts b) && str_eqb (g_loc a) (g_loc b) && (g_dest a =? g_dest b).
Definition step_eqb (a b : step_obs) : bool :=
  perm_eqb dgram_eqb (o_sent a) (o_sent b) && Bool.eqb (o_raised a) (o_raised b).
Fixpoint first_diff (n : N) (a b : observation) : option N :=
  match a, b with
  | [], [] => None
  | x :: a', y :: b' => if step_eqb x y then first_diff (N.succ n) a' b' else Some n
  | _, _ => Some n
  end.

(* (case, kind, step): kind 0 = the model's datagrams differ from the implementation's at that step;
   kind c = clause c of the specification fails on the implementation's datagrams at that step *)
Fixpoint report (base : N) (cases : list (input * observation)) : list (N * N * N) :=
  match cases with
  | [] => []
  | (i, o) :: r =>
      (match first_diff 0 (model_run i) o with Some p => [(base, 0, p)] | None => [] end) ++
      (if dom i then map (fun e => (base, fst e, snd e)) (failures i o) else []) ++
      report (N.succ base) r
  end.

Definition replay (c : input * observation) :=
  (model_run (fst c), dom (fst c), failures (fst c) (snd c), failures (fst c) (model_run (fst c))).
