(* C13 — the specification: what a server with a given device tree must answer, advertise and revoke,
   as executable clauses over (configuration, history, observed datagrams).  The same definitions judge
   the model (theorems) and the implementation (correspondence check). *)
From Coq Require Import List Bool NArith ZArith.
From AUC Require Import Prelude.PyStr Prelude.PyDict C16.Model C16.Spec C08.Model C03.Model C03.Spec C13.Model
  Gen.Server.
Import ListNotations.
Local Open Scope N_scope.

(* ------------------------------------------------------------------ observations *)
Record dgram := {
  g_time : Z;          (* loop time of the send, ms since start *)
  g_kind : N;          (* 0 = "HTTP/1.1 200 OK", 1 = "NOTIFY * HTTP/1.1", 2 = anything else *)
  g_type : pystr;      (* ST of a response, NT of a NOTIFY *)
  g_nts : pystr;
  g_usn : pystr;
  g_loc : pystr;       (* LOCATION *)
  g_dest : N;          (* 0 = the multicast group, n >= 1 = the n-th requester *)
  g_acc : bool         (* the library's own listener accepted it as the device named by the USN at g_loc *)
}.
Record step_obs := { o_sent : list dgram; o_raised : bool }.

(* ------------------------------------------------------------------ type names *)
Definition alower : pystr -> pystr := lower_with (fun c => c).      (* ASCII letter case *)

(* "base:ver" with ver a canonical decimal number *)
Definition canon_ver (d : pystr) : option Z :=
  match int_of_str d with
  | Ok z => if (0 <=? z)%Z && str_eqb (str_of_int z) d then Some z else None
  | Raise _ => None
  end.
Definition parse_type (s : pystr) : option (pystr * Z) :=
  match rsplit_colon s with
  | Some (b, d) => match canon_ver d with Some v => Some (b, v) | None => None end
  | None => None
  end.
(* a device or service of type [typ] answers a search for [st]: same name (any letter case), equal or
   lower version *)
Definition spec_matches (typ st : pystr) : bool :=
  match parse_type typ, parse_type st with
  | Some (b, v), Some (b', v') => str_eqb (alower b) (alower b') && (v' <=? v)%Z
  | _, _ => false
  end.
Definition same_base (t1 t2 : pystr) : bool :=
  match parse_type t1, parse_type t2 with
  | Some (b, _), Some (b', _) => str_eqb (alower b) (alower b')
  | _, _ => false
  end.

(* ------------------------------------------------------------------ the tables *)
Definition pair := (pystr * pystr)%type.                       (* (ST or NT, USN) *)
Definition pair_eqb (a b : pair) : bool := str_eqb (fst a) (fst b) && str_eqb (snd a) (snd b).
Definition countp (p : pair) (l : list pair) : nat := length (filter (pair_eqb p) l).

Definition sp_all : pystr := [115;115;100;112;58;97;108;108].                                  (* ssdp:all *)
Definition sp_root : pystr := [117;112;110;112;58;114;111;111;116;100;101;118;105;99;101].      (* upnp:rootdevice *)
Definition sp_search_line : pystr := [77;45;83;69;65;82;67;72;32;42;32;72;84;84;80;47;49;46;49].
Definition sp_discover : pystr := [34;115;115;100;112;58;100;105;115;99;111;118;101;114;34].
Definition sp_alive : pystr := [115;115;100;112;58;97;108;105;118;101].
Definition sp_byebye : pystr := [115;115;100;112;58;98;121;101;98;121;101].

Definition usn_for (u t : pystr) : pystr := u ++ [58; 58] ++ t.
Definition p_root (root : dev) : pair := (sp_root, usn_for (d_udn root) sp_root).
Definition p_udn (d : dev) : pair := (d_udn d, d_udn d).
Definition p_dtype (d : dev) : pair := (d_type d, usn_for (d_udn d) (d_type d)).
Definition p_svc (us : pystr * pystr) : pair := (snd us, usn_for (fst us) (snd us)).

(* 1 + 2d + k: one message for the root device, two per device, one per service *)
Definition spec_all (root : dev) : list pair :=
  p_root root :: map p_udn (all_devices root) ++ map p_dtype (all_devices root) ++ map p_svc (all_services root).

(* Reading "echoing the requested type": a type search is answered with the requested text as ST (and the
   advertised USN); rootdevice and UUID searches with the canonical ST that is also advertised. *)
Definition spec_answers (root : dev) (st : pystr) : list pair :=
  let t := alower st in
  if str_eqb t sp_all then spec_all root
  else if str_eqb t sp_root then [p_root root]
  else
    map p_udn (filter (fun d => str_eqb (alower (d_udn d)) t) (all_devices root)) ++
    map (fun d => (st, snd (p_dtype d))) (filter (fun d => spec_matches (d_type d) st) (all_devices root)) ++
    map (fun us => (st, snd (p_svc us))) (filter (fun us => spec_matches (snd us) st) (all_services root)).

(* Reading "within the MX window": [t, t + MX] for a numeric MX >= 0; at once when MX is absent, negative
   or not a number *)
Definition mx_window (mx : option pystr) : Z :=
  match mx with
  | None => 0%Z
  | Some s => match int_of_str s with Ok z => (1000 * Z.max 0 z)%Z | Raise _ => 0%Z end
  end.
Definition search_valid (line : pystr) (man : option pystr) : bool :=
  str_eqb line sp_search_line && match man with Some m => str_eqb m sp_discover | None => false end.

(* ------------------------------------------------------------------ the domain *)
Definition printable (s : pystr) : bool := forallb (fun c => (33 <=? c) && (c <=? 126)) s.
(* a header value that survives the wire: printable ASCII, blanks only inside *)
Definition wire_value_ok (v : pystr) : bool :=
  forallb (fun c => (32 <=? c) && (c <=? 126)) v &&
  match v with [] => true | c :: _ => negb (c =? 32) && negb (last v 0 =? 32) end &&
  (N.of_nat (length v) <=? 8190).

(* names of devices and types: printable, of moderate length (so that a USN fits a header line) *)
Definition token_ok (s : pystr) : bool := printable s && (N.of_nat (length s) <=? 2000).
Definition udn_ok (u : pystr) : bool :=
  starts_with s_uuid (alower (firstn 5 u)) && negb (contains [58; 58] (u ++ [58])) && token_ok u.
Definition type_ok (t : pystr) : bool :=
  token_ok t && match parse_type t with Some _ => true | None => false end.
Fixpoint siblings_ok (d : dev) : bool :=
  match d with
  | Dev _ _ s e => nodupb str_eqb s && nodupb str_eqb (map d_type e) && forallb siblings_ok e
  end.

Definition cfg_ok (cfg : config) : bool :=
  let root := c_root cfg in
  let devs := all_devices root in
  let svcs := all_services root in
  let loc := location_of_cfg cfg in
  siblings_ok root &&
  forallb (fun d => udn_ok (d_udn d) && type_ok (d_type d)) devs &&
  forallb (fun us => type_ok (snd us)) svcs &&
  (* no device UUID reads as a type name of the tree *)
  forallb (fun d => forallb (fun d' => negb (spec_matches (d_type d') (d_udn d))) devs &&
                    forallb (fun us => negb (spec_matches (snd us) (d_udn d))) svcs) devs &&
  (* device types and service types are different names *)
  forallb (fun d => forallb (fun us => negb (same_base (d_type d) (snd us))) svcs) devs &&
  (* the description URL is one the listener's reading accepts *)
  good_location loc && spec_location_ok loc &&
  (* what the server renders into its headers survives the wire *)
  wire_value_ok loc && wire_value_ok (host_of_cfg cfg) && wire_value_ok (str_of_int (c_boot cfg)) &&
  wire_value_ok (str_of_int (c_cfgid cfg)) && wire_value_ok (c_date cfg) &&
  negb (c_always_root cfg).

Definition op_ok (o : sop) : bool :=
  match o with
  | OSearch line man st mx dest pick =>
      (1 <=? dest) && wire_value_ok (match st with Some s => s | None => [] end)
  | OAdvance dt => (0 <=? dt)%Z
  | OStop | ONoop => true
  end.
Definition op_dests (o : sop) : list N :=
  match o with OSearch _ _ _ _ dest _ => [dest] | _ => [] end.
(* every search comes from its own requester address (so an answer can be attributed to its search) *)
Definition ops_ok (ops : list sop) : bool :=
  forallb op_ok ops && nodupb N.eqb (flat_map op_dests ops).

(* ------------------------------------------------------------------ the monitor *)
Record owed := {
  w_dest : N; w_t0 : Z; w_dl : Z;            (* requester, time of the search, end of its MX window *)
  w_orig : list pair;                         (* what must be answered *)
  w_got : list pair                           (* what has been answered so far *)
}.
Record mon := {
  k_now : Z;
  k_owed : list owed;
  k_next : option Z;                          (* when the next ssdp:alive is due; None once stopped *)
  k_seen : list pair                          (* advertised so far in the current round *)
}.
Definition mon0 : mon := {| k_now := 0%Z; k_owed := []; k_next := Some 0%Z; k_seen := [] |}.

Definition gpair (g : dgram) : pair := (g_type g, g_usn g).
Definition is_resp (g : dgram) : bool := g_kind g =? 0.
Definition is_alive (g : dgram) : bool := (g_kind g =? 1) && str_eqb (g_nts g) sp_alive.
Definition is_byebye (g : dgram) : bool := (g_kind g =? 1) && str_eqb (g_nts g) sp_byebye.

(* the answers to one search seen in this step: clause 1 (table), clause 2 (once, within the window) *)
Definition upd_owed (now' : Z) (rs : list dgram) (w : owed) : owed * list N :=
  let mine := filter (fun g => g_dest g =? w_dest w) rs in
  let got' := w_got w ++ map gpair mine in
  ({| w_dest := w_dest w; w_t0 := w_t0 w; w_dl := w_dl w; w_orig := w_orig w; w_got := got' |},
   (if forallb (fun g => Nat.leb 1 (countp (gpair g) (w_orig w))) mine then [] else [1]) ++
   (if forallb (fun g => (w_t0 w <=? g_time g)%Z && (g_time g <=? w_dl w)%Z) mine then [] else [2]) ++
   (if forallb (fun p => Nat.leb (countp p got') (countp p (w_orig w))) got' then [] else [2]) ++
   (if (w_dl w <=? now')%Z && negb (Nat.eqb (length got') (length (w_orig w))) then [1] else [])).

(* the round-robin of ssdp:alive: each pair at most as often as the table has it; a round is over when as
   many have been sent as the table has *)
Fixpoint see_alives (all : list pair) (seen : list pair) (ps : list pair) : list pair * bool :=
  match ps with
  | [] => (seen, true)
  | p :: r =>
      let seen1 := p :: seen in
      let ok := Nat.leb (countp p seen1) (countp p all) in
      let seen2 := if Nat.eqb (length seen1) (length all) then [] else seen1 in
      let '(s, ok') := see_alives all seen2 r in (s, ok && ok')
  end.

Fixpoint zlist_eqb (a b : list Z) : bool :=
  match a, b with
  | [], [] => true
  | x :: a', y :: b' => (x =? y)%Z && zlist_eqb a' b'
  | _, _ => false
  end.

Definition alive_count (a now' : Z) : nat :=
  if (a <=? now')%Z then Z.to_nat ((now' - a) / announce_interval_ms + 1) else O.

Definition new_owed (root : dev) (now : Z) (o : sop) : list owed :=
  match o with
  | OSearch line man st mx dest _ =>
      [{| w_dest := dest; w_t0 := now; w_dl := (now + mx_window mx)%Z;
          w_orig := if search_valid line man
                    then spec_answers root (match st with Some s => s | None => [] end) else [];
          w_got := [] |}]
  | _ => []
  end.

(* clauses 1 and 2: the answers seen in one step against what is owed *)
Definition mon_owed (root : dev) (k : mon) (o : sop) (now' : Z) (rs : list dgram) : list owed * list N :=
  let owed1 := k_owed k ++ new_owed root (k_now k) o in
  let upd := map (upd_owed now' rs) owed1 in
  (map fst upd,
   flat_map snd upd ++
   (if forallb (fun g => existsb (fun w => w_dest w =? g_dest g) owed1) rs then [] else [1])).

(* clause 3: one ssdp:alive per announce interval while running, going round the table; on stop one
   ssdp:byebye for every entry of the table; nothing else *)
Definition mon_adv (root : dev) (k : mon) (o : sop) (now' : Z) (sent : list dgram)
  : option Z * list pair * list N :=
  let alives := filter is_alive sent in
  let byes := filter is_byebye sent in
  let n_exp := match k_next k with Some a => alive_count a now' | None => O end in
  let exp_times := match k_next k with
                   | Some a => map (fun j => (a + Z.of_nat j * announce_interval_ms)%Z) (seq 0 n_exp)
                   | None => []
                   end in
  let '(seen', seen_ok) := see_alives (spec_all root) (k_seen k) (map gpair alives) in
  let times_ok := zlist_eqb (map g_time alives) exp_times in
  let stopping := match o with OStop => true | _ => false end in
  let byes_ok := if stopping
                 then perm_eqb pair_eqb (map gpair byes) (spec_all root) &&
                      forallb (fun g => (g_time g =? k_now k)%Z) byes
                 else match byes with [] => true | _ => false end in
  let others_ok := forallb (fun g => is_resp g || is_alive g || is_byebye g) sent in
  let next' := if stopping then None
               else match k_next k with
                    | Some a => Some (a + Z.of_nat n_exp * announce_interval_ms)%Z
                    | None => None
                    end in
  (next', seen', if seen_ok && times_ok && byes_ok && others_ok then [] else [3]).

Definition mon_step (root : dev) (k : mon) (o : sop) (ob : step_obs) : mon * list N :=
  let now' := match o with OAdvance dt => (k_now k + dt)%Z | _ => k_now k end in
  let '(owed', f1) := mon_owed root k o now' (filter is_resp (o_sent ob)) in
  let '(next', seen', f3) := mon_adv root k o now' (o_sent ob) in
  ({| k_now := now'; k_owed := owed'; k_next := next'; k_seen := seen' |}, f1 ++ f3).

(* ------------------------------------------------------------------ clauses on single datagrams *)
(* the device a (type, USN) pair describes *)
Definition describes (root d : dev) (ty : pystr) : bool :=
  (str_eqb ty sp_root && str_eqb (d_udn d) (d_udn root)) ||
  str_eqb (alower ty) (alower (d_udn d)) ||
  spec_matches (d_type d) ty ||
  existsb (fun s => spec_matches s ty) (d_svcs d).
(* clause 4: the USN begins with (its text before "::" is) the UUID of the device it describes *)
Definition c_usn_owner (root : dev) (g : dgram) : bool :=
  existsb (fun d => describes root d (g_type g) && str_eqb (usn_udn_part (g_usn g)) (d_udn d))
          (all_devices root).
(* clause 5: accepted by the library's own listener, at the server's description URL; NOTIFYs go to the
   multicast group *)
Definition c_accepted (cfg : config) (g : dgram) : bool :=
  g_acc g && str_eqb (g_loc g) (location_of_cfg cfg) && (is_resp g || (g_dest g =? target_tok)).

Definition step_failures (cfg : config) (ob : step_obs) : list N :=
  (if forallb (c_usn_owner (c_root cfg)) (o_sent ob) then [] else [4]) ++
  (if forallb (c_accepted cfg) (o_sent ob) then [] else [5]) ++
  (if o_raised ob then [6] else []).

(* the start of both components is step 0; operation i is step i+1 *)
Fixpoint mon_run (cfg : config) (n : N) (k : mon) (ops : list sop) (obs : list step_obs) : list (N * N) :=
  match ops, obs with
  | o :: ops', ob :: obs' =>
      let '(k', fs) := mon_step (c_root cfg) k o ob in
      map (fun c => (c, n)) (fs ++ step_failures cfg ob) ++ mon_run cfg (N.succ n) k' ops' obs'
  | [], [] => []
  | _, _ => [(1, n)]
  end.
Definition spec_failures (cfg : config) (ops : list sop) (obs : list step_obs) : list (N * N) :=
  mon_run cfg 0 mon0 (OAdvance 0 :: ops) obs.
