(* C13 — string facts: ASCII letter case, the last-colon split, canonical version numbers, and
   _match_type_versions = the specification's "same name, equal or lower version". *)
From Coq Require Import List Bool NArith ZArith Lia ZifyBool ZifyN Decimal DecimalZ.
From AUC Require Import Prelude.PyStr Prelude.PyDict C08.Model C08.CodecInt C03.Model C13.Model C13.Spec.
Import ListNotations.
Local Open Scope N_scope.

Local Notation KS := str_eqb_spec.

Lemma str_eqb_true a b : str_eqb a b = true -> a = b.
Proof. destruct (KS a b); congruence. Qed.
Lemma str_eqb_refl a : str_eqb a a = true.
Proof. destruct (KS a a); congruence. Qed.
Lemma str_eqb_false a b : str_eqb a b = false -> a <> b.
Proof. destruct (KS a b); congruence. Qed.

Lemma bool_eq_iff (x y : bool) : (x = true <-> y = true) -> x = y.
Proof. destruct x, y; intuition congruence. Qed.

(* ------------------------------------------------------------------ letter case *)
Definition is_ascii (s : pystr) : Prop := Forall (fun c => c < 128) s.

Lemma lower_char_ascii ext c : c < 128 -> lower_char ext c = lower_char (fun x => x) c.
Proof. intros H. unfold lower_char. destruct ((65 <=? c) && (c <=? 90)); [reflexivity|]. assert (E : (c <? 128) = true) by lia. now rewrite E. Qed.

Lemma slower_ascii s : is_ascii s -> slower s = alower s.
Proof.
  intros H. unfold slower, alower, lower_with. apply map_ext_in. intros c Hc.
  apply lower_char_ascii. unfold is_ascii in H. rewrite Forall_forall in H. auto.
Qed.

Lemma printable_ascii s : printable s = true -> is_ascii s.
Proof.
  unfold printable, is_ascii. rewrite forallb_forall, Forall_forall. intros H c Hc. specialize (H c Hc). lia.
Qed.

Lemma lc_id_colon c : lower_char (fun x => x) c = 58 <-> c = 58.
Proof. unfold lower_char. destruct ((65 <=? c) && (c <=? 90)) eqn:E; destruct (c <? 128) eqn:F; lia. Qed.

Lemma lc_id_idem c : lower_char (fun x => x) (lower_char (fun x => x) c) = lower_char (fun x => x) c.
Proof.
  unfold lower_char. destruct ((65 <=? c) && (c <=? 90)) eqn:E.
  - assert (G : ((65 <=? c + 32) && (c + 32 <=? 90)) = false) by lia. rewrite G.
    assert (G2 : (c + 32 <? 128) = true) by lia. now rewrite G2.
  - destruct (c <? 128) eqn:F; rewrite ?E, ?F; reflexivity.
Qed.

Lemma alower_idem s : alower (alower s) = alower s.
Proof. unfold alower, lower_with. rewrite map_map. apply map_ext. intros. apply lc_id_idem. Qed.

Lemma alower_app a b : alower (a ++ b) = alower a ++ alower b.
Proof. unfold alower, lower_with. apply map_app. Qed.

Lemma lc_id_digit c : is_digit (lower_char (fun x => x) c) = true -> lower_char (fun x => x) c = c.
Proof.
  unfold is_digit, lower_char. destruct ((65 <=? c) && (c <=? 90)) eqn:E; [lia|].
  destruct (c <? 128); reflexivity.
Qed.
Lemma lc_id_of_digit c : is_digit c = true -> lower_char (fun x => x) c = c.
Proof.
  unfold is_digit, lower_char. intros H. assert (E : ((65 <=? c) && (c <=? 90)) = false) by lia. rewrite E.
  assert (F : (c <? 128) = true) by lia. now rewrite F.
Qed.

Lemma alower_digits d : all_digits d -> alower d = d.
Proof.
  induction 1 as [|c r Hc Hr IH]; [reflexivity|]. unfold alower, lower_with in *. cbn [map].
  rewrite IH. f_equal. now apply lc_id_of_digit.
Qed.
Lemma alower_digits_inv d : all_digits (alower d) -> alower d = d.
Proof.
  induction d as [|c r IH]; [reflexivity|]. unfold alower, lower_with in *. cbn [map]. intros H.
  inversion H as [|? ? Hc Hr]; subst. rewrite (IH Hr). f_equal. now apply lc_id_digit.
Qed.

(* ------------------------------------------------------------------ the last colon *)
Lemma rsplit_none s : ~ In 58 s -> rsplit_colon s = None.
Proof.
  induction s as [|c r IH]; [reflexivity|]. intros H. cbn [rsplit_colon].
  rewrite IH by (intros G; apply H; now right).
  destruct (c =? 58) eqn:E; [|reflexivity]. exfalso. apply H. left. lia.
Qed.

Lemma rsplit_app x y : ~ In 58 y -> rsplit_colon (x ++ 58 :: y) = Some (x, y).
Proof.
  intros Hy. induction x as [|c r IH]; cbn [List.app rsplit_colon].
  - rewrite (rsplit_none y Hy). reflexivity.
  - cbn [List.app] in IH. rewrite IH. reflexivity.
Qed.

Lemma rsplit_some s : forall a b, rsplit_colon s = Some (a, b) -> s = a ++ 58 :: b /\ ~ In 58 b.
Proof.
  induction s as [|c r IH]; intros a b H; [discriminate|]. cbn [rsplit_colon] in H.
  destruct (rsplit_colon r) as [[a' b']|] eqn:E.
  - inversion H; subst. destruct (IH _ _ eq_refl) as [-> Hn]. split; [reflexivity | exact Hn].
  - destruct (c =? 58) eqn:F; [|discriminate]. inversion H; subst. split.
    + cbn. f_equal. lia.
    + intros Hin. clear -E Hin. induction b as [|d r IH]; [contradiction|]. cbn [rsplit_colon] in E.
      destruct (rsplit_colon r) as [[? ?]|] eqn:G; [discriminate|].
      destruct (d =? 58) eqn:F; [discriminate|]. destruct Hin as [->|Hin]; [rewrite N.eqb_refl in F; discriminate | auto].
Qed.

Lemma In_alower_colon s : In 58 (alower s) <-> In 58 s.
Proof.
  unfold alower, lower_with. rewrite in_map_iff. split.
  - intros [c [E Hc]]. apply (proj1 (lc_id_colon c)) in E. now subst.
  - intros H. exists 58. split; [reflexivity | exact H].
Qed.

Lemma rsplit_alower s :
  rsplit_colon (alower s) =
  match rsplit_colon s with Some (a, b) => Some (alower a, alower b) | None => None end.
Proof.
  destruct (rsplit_colon s) as [[a b]|] eqn:E.
  - destruct (rsplit_some _ _ _ E) as [-> Hn]. rewrite alower_app. unfold alower at 2, lower_with. cbn [map].
    change (lower_char (fun x => x) 58) with 58. apply rsplit_app. now rewrite In_alower_colon.
  - apply rsplit_none. rewrite In_alower_colon. intros Hin. clear -E Hin.
    induction s as [|d r IH]; [contradiction|]. cbn [rsplit_colon] in E.
    destruct (rsplit_colon r) as [[? ?]|] eqn:G; [discriminate|].
    destruct (d =? 58) eqn:F; [discriminate|]. destruct Hin as [->|Hin]; [rewrite N.eqb_refl in F; discriminate | auto].
Qed.

(* ------------------------------------------------------------------ canonical version numbers *)
Lemma str_of_int_digits v : (0 <= v)%Z -> all_digits (str_of_int v).
Proof.
  intros H. unfold str_of_int. destruct v as [|p|p]; cbn [Z.to_int render_int]; try lia; apply render_uint_digits.
Qed.

Lemma digits_no_colon d : all_digits d -> ~ In 58 d.
Proof.
  intros H Hin. unfold all_digits in H. rewrite Forall_forall in H. specialize (H _ Hin). unfold is_digit in H. lia.
Qed.

Lemma canon_ver_some d v : canon_ver d = Some v -> d = str_of_int v /\ (0 <= v)%Z.
Proof.
  unfold canon_ver. destruct (int_of_str d) as [z|e]; [|discriminate].
  destruct ((0 <=? z)%Z && str_eqb (str_of_int z) d) eqn:E; [|discriminate].
  intros H; inversion H; subst. apply andb_true_iff in E as [E1 E2]. apply str_eqb_true in E2. split; [now symmetry | lia].
Qed.

Lemma canon_ver_str v : (0 <= v)%Z -> canon_ver (str_of_int v) = Some v.
Proof.
  intros H. unfold canon_ver. rewrite int_roundtrip, str_eqb_refl. assert (E : (0 <=? v)%Z = true) by lia. now rewrite E.
Qed.

Lemma canon_ver_alower d : canon_ver (alower d) = canon_ver d.
Proof.
  destruct (canon_ver d) as [v|] eqn:E.
  - destruct (canon_ver_some _ _ E) as [-> Hv]. rewrite alower_digits by now apply str_of_int_digits. exact E.
  - destruct (canon_ver (alower d)) as [v|] eqn:F; [|reflexivity]. exfalso.
    destruct (canon_ver_some _ _ F) as [G Hv].
    assert (D : alower d = d) by (apply alower_digits_inv; rewrite G; now apply str_of_int_digits).
    rewrite D in F. congruence.
Qed.

Lemma parse_type_alower s :
  parse_type (alower s) = match parse_type s with Some (b, v) => Some (alower b, v) | None => None end.
Proof.
  unfold parse_type. rewrite rsplit_alower. destruct (rsplit_colon s) as [[a b]|]; [|reflexivity].
  rewrite canon_ver_alower. destruct (canon_ver b); reflexivity.
Qed.

Lemma parse_type_some s b v : parse_type s = Some (b, v) -> s = b ++ 58 :: str_of_int v /\ (0 <= v)%Z.
Proof.
  unfold parse_type. destruct (rsplit_colon s) as [[a d]|] eqn:E; [|discriminate].
  destruct (canon_ver d) as [w|] eqn:F; [|discriminate]. intros H; inversion H; subst.
  destruct (rsplit_some _ _ _ E) as [-> _]. destruct (canon_ver_some _ _ F) as [-> Hv]. auto.
Qed.

Lemma parse_type_build b v : (0 <= v)%Z -> parse_type (b ++ 58 :: str_of_int v) = Some (b, v).
Proof.
  intros H. unfold parse_type. rewrite rsplit_app by (apply digits_no_colon; now apply str_of_int_digits).
  now rewrite canon_ver_str.
Qed.

Lemma spec_matches_alower typ st : spec_matches typ (alower st) = spec_matches typ st.
Proof.
  unfold spec_matches. rewrite parse_type_alower. destruct (parse_type typ) as [[b v]|]; [|reflexivity].
  destruct (parse_type st) as [[b' v']|]; [|reflexivity]. now rewrite alower_idem.
Qed.

Lemma spec_matches_refl typ : (exists bv, parse_type typ = Some bv) -> spec_matches typ typ = true.
Proof.
  intros [[b v] E]. unfold spec_matches. rewrite E, str_eqb_refl. cbn. lia.
Qed.

Lemma spec_matches_nonempty typ st : spec_matches typ st = true -> st <> [].
Proof.
  unfold spec_matches. destruct (parse_type typ) as [[b v]|]; [|discriminate].
  destruct (parse_type st) as [[b' v']|] eqn:E; [|discriminate]. intros _ ->. discriminate.
Qed.

Lemma In_range0 m x : In x (range0 m) <-> (0 <= x <= m)%Z.
Proof.
  unfold range0. rewrite in_map_iff. split.
  - intros [n [<- Hn]]. apply in_seq in Hn. lia.
  - intros H. exists (Z.to_nat x). split; [lia|]. apply in_seq. lia.
Qed.

(* the code's version loop is the specification's comparison *)
Theorem match_spec typ st b v :
  parse_type typ = Some (b, v) -> is_ascii typ ->
  match_type_versions typ (alower st) = spec_matches typ st.
Proof.
  intros P A. destruct (parse_type_some _ _ _ P) as [E Hv].
  assert (D : all_digits (str_of_int v)) by now apply str_of_int_digits.
  unfold match_type_versions. rewrite (slower_ascii _ A). rewrite E at 1.
  rewrite alower_app. unfold alower at 2, lower_with. cbn [map].
  change (lower_char (fun x => x) 58) with 58. fold (lower_with (fun x => x) (str_of_int v)). fold (alower (str_of_int v)).
  rewrite (alower_digits _ D), (rsplit_app _ _ (digits_no_colon _ D)), int_roundtrip.
  unfold spec_matches. rewrite P.
  apply bool_eq_iff. rewrite existsb_exists. split.
  - intros [v' [Hin Heq]]. apply In_range0 in Hin. apply str_eqb_true in Heq.
    assert (Q : parse_type (alower st) = Some (alower b, v')).
    { rewrite <- Heq. cbn [List.app]. apply parse_type_build. lia. }
    rewrite parse_type_alower in Q. destruct (parse_type st) as [[b' w]|]; [|discriminate].
    inversion Q; subst. rewrite H0, str_eqb_refl. cbn. lia.
  - destruct (parse_type st) as [[b' v']|] eqn:Q; [|discriminate]. intros H.
    apply andb_true_iff in H as [H1 H2]. apply str_eqb_true in H1.
    destruct (parse_type_some _ _ _ Q) as [-> Hv'].
    exists v'. split; [apply In_range0; lia|].
    rewrite alower_app. unfold alower at 3, lower_with. cbn [map List.app].
    change (lower_char (fun x => x) 58) with 58. fold (lower_with (fun x => x) (str_of_int v')). fold (alower (str_of_int v')).
    rewrite (alower_digits _ (str_of_int_digits _ Hv')), H1. apply str_eqb_refl.
Qed.

(* ------------------------------------------------------------------ USN = UDN [:: type] *)
Lemma starts_with_app_l p s t : starts_with p s = true -> starts_with p (s ++ t) = true.
Proof.
  revert s. induction p as [|x p IH]; intros s H; [reflexivity|]. destruct s as [|y s]; [discriminate|].
  cbn in *. apply andb_true_iff in H as [H1 H2]. rewrite H1. cbn. auto.
Qed.

Lemma contains_false_cons sep c r : contains sep (c :: r) = false ->
  starts_with sep (c :: r) = false /\ contains sep r = false.
Proof. cbn [contains]. intros H. apply orb_false_iff in H. exact H. Qed.

Lemma before_sep_usn u rest :
  contains [58; 58] (u ++ [58]) = false -> before_sep [58; 58] (u ++ 58 :: 58 :: rest) = u.
Proof.
  induction u as [|c r IH]; intros H.
  - reflexivity.
  - cbn [List.app] in *. apply contains_false_cons in H as [H1 H2]. cbn [before_sep].
    assert (S : starts_with [58; 58] (c :: r ++ 58 :: 58 :: rest) = false).
    { cbn [starts_with] in *. destruct (58 =? c) eqn:E; [|reflexivity]. cbn [andb] in *.
      destruct r as [|d r']; cbn [List.app] in *.
      - cbn in H1. discriminate.
      - destruct (58 =? d); [discriminate | reflexivity]. }
    rewrite S. f_equal. apply IH. exact H2.
Qed.

Lemma contains_app_false sep a b : contains sep (a ++ b) = false -> b <> [] -> contains sep a = false.
Proof.
  induction a as [|c r IH]; intros H Hb.
  - destruct sep; [|reflexivity]. destruct b; [contradiction | discriminate H].
  - cbn [List.app] in H. apply contains_false_cons in H as [H1 H2]. cbn [contains].
    rewrite (IH H2 Hb), orb_false_r.
    destruct (starts_with sep (c :: r)) eqn:E; [|reflexivity].
    apply (starts_with_app_l _ _ b) in E. cbn [List.app] in E. congruence.
Qed.

Lemma before_sep_none sep u : contains sep u = false -> before_sep sep u = u.
Proof.
  induction u as [|c r IH]; intros H; [reflexivity|]. apply contains_false_cons in H as [H1 H2].
  cbn [before_sep]. rewrite H1. f_equal. auto.
Qed.

Lemma firstn_app_long (A : Type) n (l1 l2 : list A) : (n <= length l1)%nat -> firstn n (l1 ++ l2) = firstn n l1.
Proof.
  intros H. rewrite firstn_app. replace (n - length l1)%nat with O by lia. cbn. apply app_nil_r.
Qed.

Lemma starts_with_length p s : starts_with p s = true -> (length p <= length s)%nat.
Proof.
  revert s. induction p as [|x p IH]; intros s H; cbn; [lia|]. destruct s; [discriminate|]. cbn in *.
  apply andb_true_iff in H as [_ H]. specialize (IH _ H). lia.
Qed.

Lemma udn_prefix_len u : starts_with s_uuid (alower (firstn 5 u)) = true -> (5 <= length u)%nat.
Proof.
  intros H. apply starts_with_length in H. unfold alower, lower_with in H. rewrite map_length, firstn_length in H.
  unfold s_uuid in H. cbn [length] in H. lia.
Qed.

(* the udn conditions of the domain, as facts *)
Lemma udn_ok_facts u : udn_ok u = true ->
  starts_with s_uuid (alower (firstn 5 u)) = true /\ contains [58; 58] (u ++ [58]) = false /\ token_ok u = true.
Proof.
  unfold udn_ok. intros H. apply andb_true_iff in H as [H H3]. apply andb_true_iff in H as [H1 H2].
  apply negb_true_iff in H2. auto.
Qed.

Lemma token_printable s : token_ok s = true -> printable s = true.
Proof. unfold token_ok. intros H. now apply andb_true_iff in H as [H _]. Qed.
Lemma token_ascii s : token_ok s = true -> is_ascii s.
Proof. intros H. now apply printable_ascii, token_printable. Qed.

Lemma printable_wire s : printable s = true -> N.of_nat (length s) <= 8190 -> wire_value_ok s = true.
Proof.
  intros P L. unfold wire_value_ok. unfold printable in P. rewrite forallb_forall in P.
  apply andb_true_iff. split; [apply andb_true_iff; split|].
  - apply forallb_forall. intros c Hc. specialize (P c Hc). lia.
  - destruct s as [|c r]; [reflexivity|]. pose proof (P c (or_introl eq_refl)) as Pc.
    assert (Hl : In (last (c :: r) 0) (c :: r)).
    { clear. revert c. induction r as [|d r IH]; intros c; [now left|]. right. apply IH. }
    specialize (P _ Hl). apply andb_true_iff. split; apply negb_true_iff; lia.
  - lia.
Qed.
Lemma printable_app a b : printable (a ++ b) = printable a && printable b.
Proof. unfold printable. apply forallb_app. Qed.

Lemma udn_from_usn_typed u t : udn_ok u = true -> udn_from_usn (u ++ 58 :: 58 :: t) = Some u.
Proof.
  intros H. destruct (udn_ok_facts _ H) as [H1 [H2 _]]. unfold udn_from_usn.
  rewrite (firstn_app_long _ 5 u _ (udn_prefix_len _ H1)). fold alower. rewrite H1.
  now rewrite before_sep_usn.
Qed.

Lemma udn_from_usn_plain u : udn_ok u = true -> udn_from_usn u = Some u.
Proof.
  intros H. destruct (udn_ok_facts _ H) as [H1 [H2 _]]. unfold udn_from_usn. fold alower. rewrite H1.
  rewrite before_sep_none; [reflexivity|]. apply (contains_app_false _ _ [58]); [exact H2 | discriminate].
Qed.

Lemma usn_part_typed u t : udn_ok u = true -> usn_udn_part (u ++ 58 :: 58 :: t) = u.
Proof. intros H. destruct (udn_ok_facts _ H) as [_ [H2 _]]. unfold usn_udn_part. now apply before_sep_usn. Qed.
Lemma usn_part_plain u : udn_ok u = true -> usn_udn_part u = u.
Proof.
  intros H. destruct (udn_ok_facts _ H) as [_ [H2 _]]. unfold usn_udn_part.
  apply before_sep_none. apply (contains_app_false _ _ [58]); [exact H2 | discriminate].
Qed.
