(* C17 — the property restated as executable clauses over (input, observation).

   An input is a request (requester kind, method, URL, headers, body) together with the infinite
   sequence of transport outcomes  script ++ rest^omega  the session answers with.  An observation
   is the list of calls the session received and what the requester finally did.  The clauses look
   only at those two things; they never mention a ladder, a retry loop or a Host-header helper.

   Readings (interpretive decisions, each a named definition):
     conn_level        "connection-level failure" = timeout, connection failure or server disconnect:
                        an instance of asyncio.TimeoutError or of aiohttp.ClientConnectionError
     consumed          the k-th call is answered by the k-th outcome of the sequence
     expected_host     the Host value for http://[addr%zone]:port/ is "[addr]:port" (addr as urlparse
                        reports it, i.e. lower-cased), "[addr]" without a port *)
From Coq Require Import List Bool NArith Arith.
From AUC Require Import Prelude.PyStr Prelude.PyDict Gen.Requester C17.Model.
Import ListNotations.

(* ---------------------------------------------------------------- structured URLs *)
Inductive hostkind :=
| HIPv4 (a : pystr) | HName (a : pystr) | HIPv6 (a : pystr) | HScoped (a zone : pystr).

Record surl := { s_scheme : pystr; s_host : hostkind; s_port : option N; s_path : pystr }.

Definition LBR : N := 91.  Definition RBR : N := 93.

Definition bare_host (h : hostkind) : pystr :=
  match h with
  | HIPv4 a | HName a | HIPv6 a => a
  | HScoped a z => a ++ [PCT] ++ z
  end.
Definition host_text (h : hostkind) : pystr :=
  match h with
  | HIPv4 a | HName a => a
  | HIPv6 _ | HScoped _ _ => [LBR] ++ bare_host h ++ [RBR]
  end.
Definition port_text (p : option N) : pystr :=
  match p with Some n => [COLON] ++ dec n | None => [] end.

(* scheme://host[:port]path *)
Definition render (s : surl) : pystr :=
  s_scheme s ++ [58; 47; 47]%N ++ host_text (s_host s) ++ port_text (s_port s) ++ s_path s.

Definition ascii_lower : pystr -> pystr := lower_with (fun c => c).

(* what urllib.parse.urlparse answers for render s (premise of host_without_zone, checked against
   the real urlparse on every case the harness runs) *)
Definition expected_hostname (h : hostkind) : pystr :=
  match h with
  | HIPv4 a | HName a | HIPv6 a => ascii_lower a
  | HScoped a z => ascii_lower a ++ [PCT] ++ z      (* the zone keeps its case *)
  end.
Definition expected_up (s : surl) : up_oracle :=
  UpOk (Some (expected_hostname (s_host s)))
       (match s_port s with Some p => PortSome p | None => PortNone end).

Definition expected_host (s : surl) : option pystr :=
  match s_host s with
  | HScoped a _ => Some ([LBR] ++ ascii_lower a ++ [RBR] ++ port_text (s_port s))
  | _ => None
  end.

(* ---------------------------------------------------------------- inputs *)
Record input := { i_m : minput; i_surl : option surl }.   (* i_surl: Some s when the URL is render s *)

Definition model_run (i : input) : observation := run (i_m i).

(* ---------------------------------------------------------------- small decision procedures *)
Definition opt_eqb {A} (eqb : A -> A -> bool) (a b : option A) : bool :=
  match a, b with
  | Some x, Some y => eqb x y
  | None, None => true
  | _, _ => false
  end.

Definition kv_eqb (a b : pystr * pystr) : bool := str_eqb (fst a) (fst b) && str_eqb (snd a) (snd b).

Section Perm.
  Variable A : Type.
  Variable aeqb : A -> A -> bool.
  Fixpoint remove1 (x : A) (l : list A) : option (list A) :=
    match l with
    | [] => None
    | y :: r => if aeqb x y then Some r
                else match remove1 x r with Some r' => Some (y :: r') | None => None end
    end.
  Fixpoint perm_eqb (l1 l2 : list A) : bool :=
    match l1 with
    | [] => match l2 with [] => true | _ => false end
    | x :: r => match remove1 x l2 with Some l2' => perm_eqb r l2' | None => false end
    end.
End Perm.
Arguments remove1 {A} aeqb x l.
Arguments perm_eqb {A} aeqb l1 l2.

(* header mappings are compared as multisets of items: their order is not part of the property *)
Definition headers_eqb (a b : headers) : bool := perm_eqb kv_eqb a b.

Definition up_port_eqb (a b : up_port) : bool :=
  match a, b with
  | PortNone, PortNone | PortRaises, PortRaises => true
  | PortSome x, PortSome y => N.eqb x y
  | _, _ => false
  end.
Definition up_eqb (a b : up_oracle) : bool :=
  match a, b with
  | UpRaises, UpRaises => true
  | UpOk h p, UpOk h' p' => opt_eqb str_eqb h h' && up_port_eqb p p'
  | _, _ => false
  end.

Definition result_eqb (a b : result) : bool :=
  match a, b with
  | Returned s h t, Returned s' h' t' => N.eqb s s' && headers_eqb h h' && str_eqb t t'
  | Raised c st, Raised c' st' => cls_eqb c c' && opt_eqb N.eqb st st'
  | ReturnedOther, ReturnedOther => true
  | _, _ => false
  end.

Definition call_eqb (a b : call) : bool :=
  str_eqb (c_method a) (c_method b) && str_eqb (c_url a) (c_url b) &&
  headers_eqb (c_headers a) (c_headers b) && opt_eqb str_eqb (c_body a) (c_body b).

Fixpoint calls_eqb (a b : list call) : bool :=
  match a, b with
  | [], [] => true
  | x :: a', y :: b' => call_eqb x y && calls_eqb a' b'
  | _, _ => false
  end.

Definition obs_eqb (a b : observation) : bool :=
  calls_eqb (o_calls a) (o_calls b) && result_eqb (o_result a) (o_result b).

Fixpoint nodupb (l : list pystr) : bool :=
  match l with
  | [] => true
  | x :: r => negb (existsb (str_eqb x) r) && nodupb r
  end.

(* ---------------------------------------------------------------- domains *)
Definition in_transport (c : cls) : bool := existsb (cls_eqb c) transport_classes.

(* every fault is an instance of one of the exception classes a session can raise, at any of the
   four places (connect, send, read, decode) *)
Definition wf_outcome (o : outcome) : bool :=
  match o with Success _ _ _ => true | Fault _ c _ => in_transport c end.

(* urlparse accepts the URL (consulted only when the URL contains '%') *)
Definition url_parses (m : minput) : bool :=
  negb (mem PCT (i_url m)) ||
  match i_up m with UpOk _ PortNone | UpOk _ (PortSome _) => true | _ => false end.

Definition is_dict (h : headers) : bool := nodupb (map fst h).

Definition dom_main (i : input) : bool :=
  let m := i_m i in
  forallb wf_outcome (i_script m) && wf_outcome (i_rest m) && url_parses m &&
  is_dict (i_http_headers m) && is_dict (caller_headers m).

Definition host_lc : pystr := [104; 111; 115; 116]%N.   (* "host" *)
Definition no_host_key (h : headers) : bool :=
  forallb (fun kv => negb (str_eqb (ascii_lower (fst kv)) host_lc)) h.

Definition wf_scoped (s : surl) : bool :=
  match s_host s with
  | HScoped a z =>
      negb (mem PCT a) && mem COLON a && negb (mem PCT z) &&
      match s_port s with Some p => negb (N.eqb p 0) | None => true end
  | _ => true
  end.

(* the URL is the rendering of a structured URL, urlparse answers as expected for it, and neither
   the requester's default headers nor the caller's carry a Host header of their own *)
Definition dom_host (i : input) : bool :=
  let m := i_m i in
  dom_main i &&
  match i_surl i with
  | Some s => str_eqb (i_url m) (render s) && up_eqb (i_up m) (expected_up s) && wf_scoped s
  | None => false
  end &&
  no_host_key (i_http_headers m) && no_host_key (caller_headers m).

(* ---------------------------------------------------------------- clauses *)
(* the first k outcomes of script ++ rest^omega: the answers to the k calls that were made *)
Fixpoint consumed (k : nat) (script : list outcome) (rest : outcome) : list outcome :=
  match k with
  | O => []
  | S k' => hd rest script :: consumed k' (tl script) rest
  end.

Definition answers (i : input) (o : observation) : list outcome :=
  consumed (length (o_calls o)) (i_script (i_m i)) (i_rest (i_m i)).

Definition conn_level (c : cls) : bool :=
  subclassb c C_TimeoutError || subclassb c C_ClientConnectionError.

Definition is_success (o : outcome) : bool := match o with Success _ _ _ => true | _ => false end.
Definition is_conn_fault (o : outcome) : bool :=
  match o with Fault _ c _ => conn_level c | _ => false end.

(* 1. the requester returns, or raises a member of the communication-error family *)
Definition clause_family (i : input) (o : observation) : bool :=
  match o_result o with
  | Returned _ _ _ => true
  | Raised c _ => subclassb c C_UpnpCommunicationError
  | ReturnedOther => false
  end.

(* 2. at least one call is made; no call before the last one was answered successfully; the result
      is the (status, headers, decoded body) of the last call's answer iff that answer is a success *)
Definition clause_first_success (i : input) (o : observation) : bool :=
  match answers i o with
  | [] => false
  | cs =>
      forallb (fun x => negb (is_success x)) (removelast cs) &&
      match last cs (i_rest (i_m i)) with
      | Success s h b => result_eqb (o_result o) (Returned s h b)
      | Fault _ _ _ => match o_result o with Raised _ _ => true | _ => false end
      end
  end.

(* 3. a timeout or connection failure ends in a connection error *)
Definition clause_conn (i : input) (o : observation) : bool :=
  match last (answers i o) (i_rest (i_m i)) with
  | Fault _ c _ =>
      if conn_level c
      then match o_result o with Raised c' _ => subclassb c' C_UpnpConnectionError | _ => false end
      else true
  | _ => true
  end.

(* 4. a response-level failure ends in a response error carrying the same status *)
Definition clause_resp (i : input) (o : observation) : bool :=
  match last (answers i o) (i_rest (i_m i)) with
  | Fault _ c st =>
      if subclassb c C_ClientResponseError
      then match o_result o with
           | Raised c' (Some st') => subclassb c' C_UpnpResponseError && N.eqb st' st
           | _ => false
           end
      else true
  | _ => true
  end.

(* 5. the session-based requester makes at most three attempts *)
Definition clause_attempts (i : input) (o : observation) : bool :=
  match i_kind (i_m i) with
  | Session _ => length (o_calls o) <=? 3
  | Plain => true
  end.

(* 6. every call but the last was answered by a connection-level failure *)
Definition clause_retry (i : input) (o : observation) : bool :=
  forallb is_conn_fault (removelast (answers i o)).

(* 7. every call is the request that was asked for: method, URL and body as given, every caller
      header present, every default header present unless the caller overrides it *)
Definition clause_same_request (i : input) (o : observation) : bool :=
  let m := i_m i in
  forallb (fun c =>
    str_eqb (c_method c) (i_method m) && str_eqb (c_url c) (i_url m) &&
    opt_eqb str_eqb (c_body c) (i_body m) &&
    forallb (fun kv => opt_eqb str_eqb (dget str_eqb (c_headers c) (fst kv)) (Some (snd kv)))
            (caller_headers m) &&
    forallb (fun kv => existsb (str_eqb (fst kv)) (map fst (caller_headers m)) ||
                       opt_eqb str_eqb (dget str_eqb (c_headers c) (fst kv)) (Some (snd kv)))
            (i_http_headers m))
    (o_calls o).

(* 8. for a URL with an IPv6 zone identifier every call carries Host: [addr] or [addr]:port, and
      that value contains no '%' *)
Definition clause_host (i : input) (o : observation) : bool :=
  match i_surl i with
  | Some s =>
      match expected_host s with
      | Some h =>
          forallb (fun c => match dget str_eqb (c_headers c) HOST with
                            | Some x => str_eqb x h && negb (mem PCT x)
                            | None => false
                            end) (o_calls o)
      | None => true
      end
  | None => true
  end.
