(* C17 — the generated tables satisfy the per-class condition of Loop.v.  Finite check by
   computation over the generated list `transport_classes` (the bound is in the statement), lifted
   with forallb_forall.  Re-checked whenever Gen/Requester.v changes. *)
From Coq Require Import List Bool NArith Arith.
From AUC Require Import Prelude.PyStr Gen.Requester C17.Model C17.Spec C17.Strings C17.Loop.
Import ListNotations.

Definition gen_chk : cls -> bool :=
  chk ladder_plain ladder_session_inner ladder_retry_loop ladder_retry_final.

Lemma gen_tables_forallb : forallb gen_chk transport_classes = true.
Proof. vm_compute. reflexivity. Qed.

Lemma gen_tables_ok : forall c, in_transport c = true -> gen_chk c = true.
Proof.
  intros c Hc. unfold in_transport in Hc. apply existsb_exists in Hc as [x [Hin Heq]].
  apply cls_eqb_eq in Heq. subst x.
  exact (proj1 (forallb_forall gen_chk transport_classes) gen_tables_forallb c Hin).
Qed.

(* one silent retry less than three attempts *)
Lemma gen_retry_bound : S retry_silent <= 3.
Proof. apply Nat.leb_le. vm_compute. reflexivity. Qed.

(* the Host-header helper cannot raise once urlparse accepts the URL *)
Lemma url_parses_total m : url_parses m = true -> fixed_host_header (i_url m) (i_up m) <> None.
Proof.
  unfold url_parses, fixed_host_header. destruct (mem PCT (i_url m)); cbn; [|discriminate].
  destruct (i_up m) as [|h p]; [discriminate|]. intros Hp.
  destruct h as [h|]; [|discriminate]. destruct (mem PCT h); cbn; [|discriminate].
  destruct p as [|p|]; try discriminate. destruct (N.eqb p 0); discriminate.
Qed.
