(* C17 — executable model of the two HTTP requesters of async_upnp_client/aiohttp.py:
     _fixed_host_header, AiohttpRequester.async_http_request,
     AiohttpSessionRequester.async_http_request / _async_http_request.
   Definitions only.  The `except` ladders, the class hierarchy and the retry count are NOT written
   here: they are read from Gen/Requester.v, regenerated from the source on every check; this file is
   the interpreter (Python's first-matching-handler rule, what each handler shape does, the retry loop,
   the header merge, the Host-header helper). *)
From Coq Require Import List Bool NArith Arith.
From AUC Require Import Prelude.PyStr Prelude.PyDict Gen.Requester.
Import ListNotations.

Definition headers := list (pystr * pystr).

(* ---------------------------------------------------------------- exceptions and handlers *)
(* An exception instance, as far as the property can see it: its class and its `status`
   attribute (present on aiohttp.ClientResponseError and on UpnpResponseError instances). *)
Record exn := mkExn { ecls : cls; estatus : option N }.

Definition has_status (c : cls) : bool :=
  subclassb c C_ClientResponseError || subclassb c C_UpnpResponseError.

(* the session raises an instance of class c (whose status, if it has one, is st) *)
Definition raise_of (c : cls) (st : N) : exn :=
  mkExn c (if has_status c then Some st else None).

Definition is_some {A} (o : option A) : bool := match o with Some _ => true | None => false end.

(* what leaves a handler: an exception of class c that keeps (keep = true) or lacks the status of
   the caught one; or nothing (the handler body only logs) *)
Inductive handled := HRaise (c : cls) (keep : bool) | HSwallow.

(* c = class of the caught exception, hs = it has a status attribute *)
Definition act_cls (a : action) (c : cls) (hs : bool) : handled :=
  match a with
  | Reraise => HRaise c hs
  | Wrap x =>
      (* X(repr(err)): the response-error classes need status= / request_info, history *)
      if has_status x then HRaise C_TypeError false else HRaise x false
  | WrapStatus x =>
      (* X(..., status=err.status, ...): evaluating err.status comes first *)
      if hs then HRaise x (has_status x) else HRaise C_AttributeError false
  | Swallow => HSwallow
  end.

(* Python: the first handler whose class the exception is an instance of *)
Fixpoint find_row (l : ladder) (c : cls) : option action :=
  match l with
  | [] => None
  | (k, a) :: r => if subclassb c k then Some a else find_row r c
  end.

Definition apply_cls (l : ladder) (c : cls) (hs : bool) : handled :=
  match find_row l c with
  | None => HRaise c hs                (* no handler matches: propagates unchanged *)
  | Some a => act_cls a c hs
  end.

(* None = swallowed *)
Definition apply_exn (l : ladder) (e : exn) : option exn :=
  match apply_cls l (ecls e) (is_some (estatus e)) with
  | HRaise c keep => Some (mkExn c (if keep then estatus e else None))
  | HSwallow => None
  end.

(* ---------------------------------------------------------------- one exchange *)
(* where in `async with session.request(...) as response: ... read() ... text()` the fault occurs;
   all four places are inside the same try statement, so the model does not branch on it *)
Inductive phase := PConnect | PSend | PRead | PDecode.

(* what the session does with one request *)
Inductive outcome :=
| Success (status : N) (hdrs : headers) (body : pystr)   (* body = what response.text() returns *)
| Fault (p : phase) (c : cls) (st : N).                  (* raises an instance of c (status st if it has one) *)

Inductive attempt_res :=
| ARet (status : N) (hdrs : headers) (body : pystr)
| ARaise (e : exn)
| ANone.                                                 (* fell off the end of the function *)

(* the try statement of async_http_request / _async_http_request around one exchange; a handler
   that swallowed would reach `return status, resp_headers, resp_body_text` with resp_body_text
   unbound (the generator refuses that shape; kept for totality) *)
Definition attempt (l : ladder) (o : outcome) : attempt_res :=
  match o with
  | Success s h b => ARet s h b
  | Fault _ c st =>
      match apply_exn l (raise_of c st) with
      | Some e => ARaise e
      | None => ARaise (mkExn C_UnboundLocalError None)
      end
  end.

(* ---------------------------------------------------------------- the retry loop *)
Section Retry.
  Variables inner loop final : ladder.

  (* AiohttpSessionRequester.async_http_request:
       for _ in range(n): try: return await inner(...)  except <loop ladder>
       try: return await inner(...)  except <final ladder>
     The k-th call to the session consumes the k-th outcome of script ++ rest^omega.
     Result: (number of calls made, what the method does). *)
  Fixpoint retry (n : nat) (script : list outcome) (rest : outcome) : nat * attempt_res :=
    let o := hd rest script in
    match n with
    | O =>
        (1, match attempt inner o with
            | ARaise e => match apply_exn final e with Some e' => ARaise e' | None => ANone end
            | r => r
            end)
    | S n' =>
        match attempt inner o with
        | ARaise e =>
            match apply_exn loop e with
            | None => let kr := retry n' (tl script) rest in (S (fst kr), snd kr)
            | Some e' => (1, ARaise e')
            end
        | r => (1, r)
        end
    end.

  (* the same loop when the attempt raises e before reaching the session (no call is made) *)
  Fixpoint retry_nocall (n : nat) (e : exn) : attempt_res :=
    match n with
    | O => match apply_exn final e with Some e' => ARaise e' | None => ANone end
    | S n' => match apply_exn loop e with None => retry_nocall n' e | Some e' => ARaise e' end
    end.
End Retry.

(* ---------------------------------------------------------------- _fixed_host_header *)
Definition PCT : N := 37.    (* % *)
Definition COLON : N := 58.  (* : *)
Definition mem (x : N) (s : pystr) : bool := existsb (N.eqb x) s.

(* str.rindex for a one-character needle *)
Fixpoint rindex (x : N) (s : pystr) : option nat :=
  match s with
  | [] => None
  | c :: r => match rindex x r with
              | Some i => Some (S i)
              | None => if N.eqb c x then Some O else None
              end
  end.

(* str(int) for a non-negative int *)
Fixpoint dec_fuel (fuel : nat) (n : N) (acc : pystr) : pystr :=
  match fuel with
  | O => acc
  | S f => let acc' := (48 + N.modulo n 10)%N :: acc in
           if (n <? 10)%N then acc' else dec_fuel f (N.div n 10) acc'
  end.
Definition dec (n : N) : pystr := dec_fuel (S (N.size_nat n)) n [].

(* urllib.parse.urlparse is an oracle: its answers for this URL are part of the input *)
Inductive up_port := PortNone | PortSome (p : N) | PortRaises.     (* .port: None / int / ValueError *)
Inductive up_oracle := UpRaises | UpOk (hostname : option pystr) (port : up_port).

Definition HOST : pystr := [72; 111; 115; 116]%N.   (* "Host" *)

(* None = ValueError (from urlparse or from .port) *)
Definition fixed_host_header (url : pystr) (up : up_oracle) : option headers :=
  if negb (mem PCT url) then Some []
  else match up with
       | UpRaises => None
       | UpOk None _ => Some []
       | UpOk (Some h) port =>
           if negb (mem PCT h) then Some []   (* `hostname and "%" in hostname` *)
           else
             let fixed := match rindex PCT h with Some idx => firstn idx h | None => h end in
             let fixed' := if mem COLON fixed then [91%N] ++ fixed ++ [93%N] else fixed in
             match port with
             | PortRaises => None
             | PortNone => Some [(HOST, fixed')]
             | PortSome p => if N.eqb p 0 then Some [(HOST, fixed')]
                             else Some [(HOST, fixed' ++ [COLON] ++ dec p)]
             end
       end.

(* ---------------------------------------------------------------- the requesters *)
Inductive rkind := Plain | Session (with_sleep : bool).

Record minput := {
  i_kind : rkind;
  i_method : pystr;
  i_url : pystr;
  i_up : up_oracle;                 (* urlparse(url): hostname, port *)
  i_http_headers : headers;         (* constructor argument http_headers (a mapping) *)
  i_caller : option headers;        (* argument headers (None or a mapping) *)
  i_body : option pystr;
  i_script : list outcome;          (* the session's answers: script ++ rest^omega *)
  i_rest : outcome
}.

Record call := { c_method : pystr; c_url : pystr; c_headers : headers; c_body : option pystr }.

Inductive result :=
| Returned (status : N) (hdrs : headers) (body : pystr)
| Raised (c : cls) (st : option N)
| ReturnedOther.                    (* returned something that is not (int, mapping, str) *)

Record observation := { o_calls : list call; o_result : result }.

Definition to_result (r : attempt_res) : result :=
  match r with
  | ARet s h b => Returned s h b
  | ARaise e => Raised (ecls e) (estatus e)
  | ANone => ReturnedOther
  end.

Definition caller_headers (i : minput) : headers :=
  match i_caller i with Some h => h | None => [] end.

(* {**_fixed_host_header(url), **self._http_headers, **(headers or {})} *)
Definition request_headers (fh : headers) (i : minput) : headers :=
  dmerge str_eqb (dmerge str_eqb fh (i_http_headers i)) (caller_headers i).

Definition run (i : minput) : observation :=
  match fixed_host_header (i_url i) (i_up i) with
  | None =>
      let e := mkExn C_ValueError None in
      {| o_calls := [];
         o_result := to_result
           match i_kind i with
           | Plain => ARaise e
           | Session _ => retry_nocall ladder_retry_loop ladder_retry_final retry_silent e
           end |}
  | Some fh =>
      let c := {| c_method := i_method i; c_url := i_url i;
                  c_headers := request_headers fh i; c_body := i_body i |} in
      match i_kind i with
      | Plain =>
          {| o_calls := [c];
             o_result := to_result (attempt ladder_plain (hd (i_rest i) (i_script i))) |}
      | Session _ =>
          let kr := retry ladder_session_inner ladder_retry_loop ladder_retry_final
                          retry_silent (i_script i) (i_rest i) in
          {| o_calls := repeat c (fst kr); o_result := to_result (snd kr) |}
      end
  end.
