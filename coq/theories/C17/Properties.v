(* C17 — HTTP requesters map every transport fault and retry within bounds.  Property theorems only.

   model_run interprets the except ladders, class hierarchy and retry count GENERATED from
   async_upnp_client/aiohttp.py and the installed exception classes (Gen/Requester.v); the clauses
   are the executable definitions of Spec.v that the correspondence check also evaluates on the
   implementation's observations.  dom_main: every fault is an instance of one of the generated
   `transport_classes` (all exception classes of aiohttp.client_exceptions, asyncio.TimeoutError,
   UnicodeDecodeError) raised at any of connect/send/read/decode; urlparse accepts the URL; the two
   header mappings are dicts.  The outcome sequence script ++ rest^omega is arbitrary. *)
From Coq Require Import List Bool NArith Arith.
From AUC Require Import Prelude.PyStr Prelude.PyDict Gen.Requester C17.Model C17.Spec C17.Strings
  C17.Loop C17.Tables C17.Proofs.
Import ListNotations.

(* Either the requester returns, or it raises a subclass of UpnpCommunicationError: never a raw
   transport exception. *)
Theorem C17_maps_into_family :
  forall i : input, dom_main i = true -> clause_family i (model_run i) = true.
Proof. exact maps_into_family. Qed.
Print Assumptions C17_maps_into_family.

(* At least one call is made, no call before the last was answered by a success, and the result is
   exactly (status, headers, decoded body) of the last answer iff that answer is a success. *)
Theorem C17_first_success :
  forall i : input, dom_main i = true -> clause_first_success i (model_run i) = true.
Proof. exact first_success. Qed.
Print Assumptions C17_first_success.

(* Timeouts and connection failures surface as UpnpConnectionError. *)
Theorem C17_connection_errors :
  forall i : input, dom_main i = true -> clause_conn i (model_run i) = true.
Proof. exact connection_errors. Qed.
Print Assumptions C17_connection_errors.

(* Response-level failures surface as UpnpResponseError with the status of the failure. *)
Theorem C17_response_status :
  forall i : input, dom_main i = true -> clause_resp i (model_run i) = true.
Proof. exact response_status. Qed.
Print Assumptions C17_response_status.

(* The session-based requester makes at most three attempts, whatever the outcome sequence. *)
Theorem C17_attempts_le_3 :
  forall i : input, dom_main i = true -> clause_attempts i (model_run i) = true.
Proof. exact attempts_le_3. Qed.
Print Assumptions C17_attempts_le_3.

(* The request is repeated only after connection-level failures. *)
Theorem C17_retry_only_after_connection_failure :
  forall i : input, dom_main i = true -> clause_retry i (model_run i) = true.
Proof. exact retry_only_after_connection_failure. Qed.
Print Assumptions C17_retry_only_after_connection_failure.

(* Every attempt sends the request that was asked for (method, URL, body, caller headers, default
   headers unless overridden). *)
Theorem C17_same_request :
  forall i : input, dom_main i = true -> clause_same_request i (model_run i) = true.
Proof. exact same_request. Qed.
Print Assumptions C17_same_request.

(* For http://[addr%zone](:port)/..., given urlparse's documented answer for it, every attempt
   carries Host: [addr](:port), which contains no '%'. *)
Theorem C17_host_without_zone :
  forall i : input, dom_host i = true -> clause_host i (model_run i) = true.
Proof. exact host_without_zone. Qed.
Print Assumptions C17_host_without_zone.

(* The whole statement as one proposition. *)
Theorem C17_statement :
  forall i : input, dom_main i = true ->
    let o := model_run i in
    let cs := consumed (length (o_calls o)) (i_script (i_m i)) (i_rest (i_m i)) in
    1 <= length (o_calls o) /\
    (forall w, i_kind (i_m i) = Session w -> length (o_calls o) <= 3) /\
    Forall (fun x => exists p c st, x = Fault p c st /\ conn_level c = true) (removelast cs) /\
    match last cs (i_rest (i_m i)) with
    | Success s h b => o_result o = Returned s h b
    | Fault _ c st =>
        exists c' st', o_result o = Raised c' st' /\
          subclassb c' C_UpnpCommunicationError = true /\
          (conn_level c = true -> subclassb c' C_UpnpConnectionError = true) /\
          (subclassb c C_ClientResponseError = true ->
             subclassb c' C_UpnpResponseError = true /\ st' = Some st)
    end.
Proof. exact statement. Qed.
Print Assumptions C17_statement.

(* The retry loop for ANY ladders that pass the per-class check, ANY number n of silent retries and
   ANY outcome sequence: at most n+1 calls, all but the last answered by connection-level faults,
   the last answer decides (induction over n). *)
Theorem C17_retry_loop_general :
  forall (plain inner loop final : ladder),
    (forall c, in_transport c = true -> chk plain inner loop final c = true) ->
    forall (n : nat) (script : list outcome) (rest : outcome),
      forallb wf_outcome script = true -> wf_outcome rest = true ->
      let kr := retry inner loop final n script rest in
      fst kr <= S n /\ verdict (fst kr) (snd kr) script rest.
Proof. exact retry_verdict. Qed.
Print Assumptions C17_retry_loop_general.

(* The generated tables pass that check: finite, over the generated class list. *)
Theorem C17_generated_tables_ok :
  forallb (chk ladder_plain ladder_session_inner ladder_retry_loop ladder_retry_final)
          transport_classes = true.
Proof. exact gen_tables_forallb. Qed.
Print Assumptions C17_generated_tables_ok.

(* ---------------------------------------------------------------- non-vacuity *)
Definition ex_url : pystr :=   (* http://[fe80::1%eth0]:8080/d *)
  [104;116;116;112;58;47;47;91;102;101;56;48;58;58;49;37;101;116;104;48;93;58;56;48;56;48;47;100]%N.
Definition ex_surl : surl :=
  {| s_scheme := [104;116;116;112]%N; s_host := HScoped [102;101;56;48;58;58;49]%N [101;116;104;48]%N;
     s_port := Some 8080%N; s_path := [47;100]%N |}.
Definition ex_input (k : rkind) (script : list outcome) (rest : outcome) : input :=
  {| i_m := {| i_kind := k; i_method := [71;69;84]%N; i_url := ex_url; i_up := expected_up ex_surl;
               i_http_headers := [([65]%N, [49]%N)]; i_caller := Some [([66]%N, [50]%N)];
               i_body := None; i_script := script; i_rest := rest |};
     i_surl := Some ex_surl |}.

(* inside both domains: two connection-level faults, then a 200; at least one call is made and
   every call carries Host: [fe80::1]:8080 next to the default and the caller header *)
Example C17_domain_inhabited :
  let i := ex_input (Session false)
             [Fault PConnect C_ClientConnectorError 0; Fault PSend C_ServerDisconnectedError 0]
             (Success 200 [] [111;107]%N) in
  dom_main i = true /\ dom_host i = true /\ o_calls (model_run i) <> [] /\
  forallb (fun c => headers_eqb (c_headers c)
                      [(HOST, [91;102;101;56;48;58;58;49;93;58;56;48;56;48]%N);   (* [fe80::1]:8080 *)
                       ([65]%N, [49]%N); ([66]%N, [50]%N)]) (o_calls (model_run i)) = true.
Proof. vm_compute. repeat split; try reflexivity. discriminate. Qed.

Example C17_domain_inhabited_faults :
  dom_main (ex_input Plain [] (Fault PDecode C_UnicodeDecodeError 0)) = true /\
  dom_main (ex_input (Session true) [Fault PRead C_TimeoutError 0] (Fault PConnect C_ClientResponseError 503)) = true.
Proof. vm_compute. split; reflexivity. Qed.

(* The interpreter on the ladders as they are written in aiohttp.py today, spelled out here so that
   these examples do not change with the generated file. *)
Definition ex_inner : ladder :=
  [(C_TimeoutError, Wrap C_UpnpConnectionTimeoutError); (C_ClientConnectionError, Reraise);
   (C_ClientResponseError, WrapStatus C_UpnpClientResponseError);
   (C_ClientError, Wrap C_UpnpCommunicationError); (C_UnicodeDecodeError, Wrap C_UpnpCommunicationError)].
Definition ex_loop : ladder := [(C_ClientConnectionError, Swallow)].
Definition ex_final : ladder := [(C_ClientConnectionError, Wrap C_UpnpConnectionError)].

Example C17_retry_examples :
  let run2 := retry ex_inner ex_loop ex_final 2 in
  (* connector error, disconnect, 200: third answer returned after three calls *)
  run2 [Fault PConnect C_ClientConnectorError 0; Fault PSend C_ServerDisconnectedError 0] (Success 200 [] [111;107]%N)
    = (3, ARet 200 [] [111;107]%N) /\
  (* disconnects for ever: three calls, UpnpConnectionError *)
  run2 [] (Fault PRead C_ServerDisconnectedError 0) = (3, ARaise (mkExn C_UpnpConnectionError None)) /\
  (* timeouts are retried too (UpnpConnectionTimeoutError is a ClientConnectionError) *)
  run2 [] (Fault PRead C_TimeoutError 0) = (3, ARaise (mkExn C_UpnpConnectionError None)) /\
  (* a response error is not retried and keeps its status *)
  run2 [] (Fault PConnect C_ClientResponseError 503) = (1, ARaise (mkExn C_UpnpClientResponseError (Some 503%N))) /\
  (* an undecodable body, a payload error *)
  run2 [Fault PSend C_ClientOSError 0] (Fault PDecode C_UnicodeDecodeError 0) = (2, ARaise (mkExn C_UpnpCommunicationError None)) /\
  attempt ex_inner (Fault PRead C_ClientPayloadError 0) = ARaise (mkExn C_UpnpCommunicationError None).
Proof. vm_compute. repeat split; reflexivity. Qed.
