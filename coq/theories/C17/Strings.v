(* C17 — string facts used by host_without_zone: membership, rindex, ASCII lower-casing, decimal
   rendering; decision procedures reflect equality. *)
From Coq Require Import List Bool NArith Arith Lia.
From AUC Require Import Prelude.PyStr Prelude.PyDict Gen.Requester C17.Model C17.Spec.
Import ListNotations.

Lemma str_eqb_refl s : str_eqb s s = true.
Proof. destruct (str_eqb_spec s s); congruence. Qed.

Lemma str_eqb_eq a b : str_eqb a b = true -> a = b.
Proof. destruct (str_eqb_spec a b); congruence. Qed.

Lemma mem_app x a b : mem x (a ++ b) = mem x a || mem x b.
Proof. unfold mem. apply existsb_app. Qed.

Lemma mem_cons x c s : mem x (c :: s) = N.eqb x c || mem x s.
Proof. reflexivity. Qed.

(* ---- rindex on a ++ x :: z when x does not occur in z ---- *)
Lemma rindex_none x s : mem x s = false -> rindex x s = None.
Proof.
  induction s as [|c r IH]; cbn; [reflexivity|].
  rewrite orb_false_iff. intros [Hc Hr]. rewrite (IH Hr).
  rewrite N.eqb_sym, Hc. reflexivity.
Qed.

Lemma rindex_split x a z :
  mem x z = false -> rindex x (a ++ x :: z) = Some (length a).
Proof.
  intros Hz. induction a as [|c a IH]; cbn.
  - rewrite (rindex_none _ _ Hz), N.eqb_refl. reflexivity.
  - rewrite IH. reflexivity.
Qed.

Lemma firstn_length_app {A} (a b : list A) : firstn (length a) (a ++ b) = a.
Proof.
  rewrite firstn_app, Nat.sub_diag, firstn_all. cbn. apply app_nil_r.
Qed.

(* ---- ASCII lower-casing neither creates nor removes '%' and ':' ---- *)
Lemma lower_char_pres x c :
  (x <? 65)%N = true -> N.eqb x (lower_char (fun c => c) c) = N.eqb x c.
Proof.
  intros Hx. apply N.ltb_lt in Hx. unfold lower_char.
  destruct ((65 <=? c)%N) eqn:E1; destruct ((c <=? 90)%N) eqn:E2; cbn;
    try (destruct ((c <? 128)%N); reflexivity).
  apply N.leb_le in E1.
  destruct (N.eqb_spec x (c + 32)), (N.eqb_spec x c); try reflexivity; exfalso; lia.
Qed.

Lemma mem_lower x s :
  (x <? 65)%N = true -> mem x (ascii_lower s) = mem x s.
Proof.
  intros Hx. induction s as [|c r IH]; [reflexivity|].
  unfold ascii_lower, lower_with in *. cbn [map]. rewrite !mem_cons, IH.
  now rewrite lower_char_pres.
Qed.

(* ---- str(int) consists of digits ---- *)
Lemma mem_dec_fuel x f n acc :
  (x <? 48)%N = true -> mem x acc = false -> mem x (dec_fuel f n acc) = false.
Proof.
  intros Hx. apply N.ltb_lt in Hx. revert n acc.
  induction f as [|f IH]; intros n acc Hacc; cbn [dec_fuel]; [exact Hacc|].
  assert (H1 : mem x ((48 + N.modulo n 10)%N :: acc) = false).
  { rewrite mem_cons, Hacc, orb_false_r. apply N.eqb_neq. generalize (N.modulo n 10). intros r. lia. }
  destruct ((n <? 10)%N); [exact H1 | now apply IH].
Qed.

Lemma mem_dec x n : (x <? 48)%N = true -> mem x (dec n) = false.
Proof. intros Hx. unfold dec. now apply mem_dec_fuel. Qed.

(* ---- decision procedures ---- *)
Lemma cls_eqb_eq a b : cls_eqb a b = true -> a = b.
Proof. destruct a, b; intros H; (reflexivity || (vm_compute in H; discriminate H)). Qed.

Lemma cls_eqb_refl a : cls_eqb a a = true.
Proof. unfold cls_eqb. apply N.eqb_refl. Qed.

Lemma opt_eqb_str_eq a b : opt_eqb str_eqb a b = true -> a = b.
Proof.
  destruct a, b; cbn; try congruence. intros H. f_equal. now apply str_eqb_eq.
Qed.

Lemma opt_eqb_str_refl a : opt_eqb str_eqb a a = true.
Proof. destruct a; cbn; [apply str_eqb_refl | reflexivity]. Qed.

Lemma up_eqb_eq a b : up_eqb a b = true -> a = b.
Proof.
  destruct a as [|h p], b as [|h' p']; cbn; try congruence.
  rewrite andb_true_iff. intros [H1 H2]. apply opt_eqb_str_eq in H1. subst h'.
  destruct p, p'; cbn in H2; try congruence. apply N.eqb_eq in H2. now subst.
Qed.

Lemma kv_eqb_refl x : kv_eqb x x = true.
Proof. unfold kv_eqb. now rewrite !str_eqb_refl. Qed.

Lemma perm_eqb_refl {A} (aeqb : A -> A -> bool) (Hr : forall x, aeqb x x = true) l :
  perm_eqb aeqb l l = true.
Proof. induction l as [|x r IH]; cbn; [reflexivity|]. now rewrite Hr. Qed.

Lemma headers_eqb_refl h : headers_eqb h h = true.
Proof. apply perm_eqb_refl, kv_eqb_refl. Qed.

Lemma result_eqb_refl r : result_eqb r r = true.
Proof.
  destruct r as [s h b|c st|]; cbn; [| |reflexivity].
  - now rewrite N.eqb_refl, headers_eqb_refl, str_eqb_refl.
  - rewrite cls_eqb_refl. destruct st; cbn; [apply N.eqb_refl | reflexivity].
Qed.

Lemma nodupb_NoDup l : nodupb l = true -> NoDup l.
Proof.
  induction l as [|x r IH]; cbn; [constructor|].
  rewrite andb_true_iff, negb_true_iff. intros [Hx Hr]. constructor; [|auto].
  intros Hin. assert (E : existsb (str_eqb x) r = true).
  { apply existsb_exists. exists x. split; [exact Hin | apply str_eqb_refl]. }
  congruence.
Qed.
