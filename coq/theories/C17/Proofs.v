(* C17 — the clauses of Spec.v hold of the model on every input of their domain. *)
From Coq Require Import List Bool NArith Arith Lia.
From AUC Require Import Prelude.PyStr Prelude.PyDict Gen.Requester C17.Model C17.Spec C17.Strings
  C17.Loop C17.Tables.
Import ListNotations.

Definition the_call (fh : headers) (m : minput) : call :=
  {| c_method := i_method m; c_url := i_url m; c_headers := request_headers fh m; c_body := i_body m |}.

Lemma dom_main_parts i :
  dom_main i = true ->
  forallb wf_outcome (i_script (i_m i)) = true /\ wf_outcome (i_rest (i_m i)) = true /\
  url_parses (i_m i) = true /\ is_dict (i_http_headers (i_m i)) = true /\
  is_dict (caller_headers (i_m i)) = true.
Proof. unfold dom_main. cbn zeta. rewrite !andb_true_iff. tauto. Qed.

(* the shape of every run inside the domain: k >= 1 identical calls and a verdict *)
Lemma run_shape i :
  dom_main i = true ->
  exists fh k r,
    fixed_host_header (i_url (i_m i)) (i_up (i_m i)) = Some fh /\
    model_run i = {| o_calls := repeat (the_call fh (i_m i)) k; o_result := to_result r |} /\
    verdict k r (i_script (i_m i)) (i_rest (i_m i)) /\
    (forall w, i_kind (i_m i) = Session w -> k <= 3).
Proof.
  intros Hd. apply dom_main_parts in Hd as [Hs [Hr [Hu _]]].
  pose proof (url_parses_total _ Hu) as Hfh.
  unfold model_run, run.
  destruct (fixed_host_header (i_url (i_m i)) (i_up (i_m i))) as [fh|]; [|congruence].
  exists fh. destruct (i_kind (i_m i)) as [|w] eqn:Ek.
  - exists 1, (attempt ladder_plain (hd (i_rest (i_m i)) (i_script (i_m i)))).
    split; [reflexivity|]. split; [reflexivity|]. split.
    + exact (plain_verdict ladder_plain ladder_session_inner ladder_retry_loop ladder_retry_final
               gen_tables_ok _ _ Hs Hr).
    + discriminate.
  - pose proof (retry_verdict ladder_plain ladder_session_inner ladder_retry_loop ladder_retry_final
                  gen_tables_ok retry_silent _ _ Hs Hr) as Hv. cbn zeta in Hv.
    set (kr := retry ladder_session_inner ladder_retry_loop ladder_retry_final retry_silent
                     (i_script (i_m i)) (i_rest (i_m i))) in *.
    exists (fst kr), (snd kr). split; [reflexivity|]. split; [reflexivity|].
    destruct Hv as [Hk Hv]. split; [exact Hv|]. intros ? _. pose proof gen_retry_bound. lia.
Qed.

Section Results.
  Variable i : input.
  Hypothesis Hd : dom_main i = true.

  Ltac with_shape :=
    destruct (run_shape i Hd) as [fh [k [r [_ [-> [V Hk]]]]]];
    rewrite <- (repeat_length (the_call fh (i_m i)) k) in V.

  Lemma maps_into_family : clause_family i (model_run i) = true.
  Proof. with_shape. now apply verdict_family. Qed.

  Lemma first_success : clause_first_success i (model_run i) = true.
  Proof. with_shape. now apply verdict_first_success. Qed.

  Lemma connection_errors : clause_conn i (model_run i) = true.
  Proof. with_shape. now apply verdict_conn. Qed.

  Lemma response_status : clause_resp i (model_run i) = true.
  Proof. with_shape. now apply verdict_resp. Qed.

  Lemma retry_only_after_connection_failure : clause_retry i (model_run i) = true.
  Proof. with_shape. now apply verdict_retry. Qed.

  Lemma attempts_le_3 : clause_attempts i (model_run i) = true.
  Proof.
    destruct (run_shape i Hd) as [fh [k [r [_ [-> [_ Hk]]]]]].
    unfold clause_attempts. cbn [o_calls]. rewrite repeat_length.
    destruct (i_kind (i_m i)) as [|w]; [reflexivity|]. apply Nat.leb_le. eauto.
  Qed.

  Lemma forallb_repeat {A} (f : A -> bool) x n : f x = true -> forallb f (repeat x n) = true.
  Proof. intros H. induction n; cbn; [reflexivity|]. now rewrite H. Qed.

  (* the header merge keeps every caller header and every default header the caller does not override *)
  Lemma same_request : clause_same_request i (model_run i) = true.
  Proof.
    pose proof (dom_main_parts i Hd) as [_ [_ [_ [Hh Hc]]]].
    destruct (run_shape i Hd) as [fh [k [r [_ [-> _]]]]].
    unfold clause_same_request. cbn [o_calls]. apply forallb_repeat.
    cbn [the_call c_method c_url c_body c_headers].
    rewrite !str_eqb_refl, opt_eqb_str_refl. cbn [andb].
    apply nodupb_NoDup in Hh. apply nodupb_NoDup in Hc.
    set (ch := caller_headers (i_m i)) in *. set (hh := i_http_headers (i_m i)) in *.
    unfold request_headers. fold ch hh.
    apply andb_true_iff. split.
    - apply forallb_forall. intros [kx vx] Hin. cbn [fst snd].
      rewrite (dget_dmerge str_eqb str_eqb_spec), (dlast_dget str_eqb str_eqb_spec) by exact Hc.
      rewrite (In_dget str_eqb str_eqb_spec ch kx vx Hc Hin). cbn. apply str_eqb_refl.
    - apply forallb_forall. intros [kx vx] Hin. cbn [fst snd].
      destruct (existsb (str_eqb kx) (map fst ch)) eqn:Eex; [reflexivity|]. cbn [orb].
      assert (Hnot : ~ In kx (map fst ch)).
      { intros Hi. assert (existsb (str_eqb kx) (map fst ch) = true).
        { apply existsb_exists. exists kx. split; [exact Hi | apply str_eqb_refl]. }
        congruence. }
      rewrite (dget_dmerge str_eqb str_eqb_spec).
      rewrite (proj2 (dlast_None str_eqb str_eqb_spec ch kx) Hnot).
      rewrite (dget_dmerge str_eqb str_eqb_spec), (dlast_dget str_eqb str_eqb_spec) by exact Hh.
      rewrite (In_dget str_eqb str_eqb_spec hh kx vx Hh Hin). cbn. apply str_eqb_refl.
  Qed.
End Results.

(* ---------------------------------------------------------------- Host header *)
Lemma no_host_key_notin h : no_host_key h = true -> ~ In HOST (map fst h).
Proof.
  unfold no_host_key. rewrite forallb_forall. intros H Hin.
  apply in_map_iff in Hin as [[k v] [Hk Hin]]. cbn in Hk. subst k.
  specialize (H _ Hin). cbn in H. discriminate.
Qed.

Lemma fixed_host_scoped sch a z port path :
  mem PCT a = false -> mem COLON a = true -> mem PCT z = false ->
  match port with Some p => negb (N.eqb p 0) | None => true end = true ->
  let s := {| s_scheme := sch; s_host := HScoped a z; s_port := port; s_path := path |} in
  fixed_host_header (render s) (expected_up s) =
  Some [(HOST, [LBR] ++ ascii_lower a ++ [RBR] ++ port_text port)].
Proof.
  intros Ha Hc Hz Hp s. unfold fixed_host_header.
  assert (Hu : mem PCT (render s) = true).
  { unfold render, s. cbn [s_scheme s_host s_port s_path host_text bare_host].
    rewrite !mem_app. cbn [mem existsb PCT]. rewrite !orb_true_r. reflexivity. }
  rewrite Hu. cbn [negb expected_up s s_host s_port expected_hostname].
  assert (Hla : mem PCT (ascii_lower a) = false) by (rewrite mem_lower; [exact Ha | reflexivity]).
  assert (Hh : mem PCT (ascii_lower a ++ [PCT] ++ z) = true).
  { rewrite !mem_app. cbn. now rewrite orb_true_r. }
  rewrite Hh. cbn [negb].
  change (ascii_lower a ++ [PCT] ++ z) with (ascii_lower a ++ PCT :: z).
  rewrite (rindex_split PCT (ascii_lower a) z Hz), firstn_length_app.
  rewrite (mem_lower COLON a) by reflexivity. rewrite Hc.
  destruct port as [p|]; cbn [port_text].
  - cbn in Hp. apply negb_true_iff in Hp. rewrite Hp.
    unfold LBR, RBR. rewrite <- !app_assoc. reflexivity.
  - unfold LBR, RBR. rewrite app_nil_r. reflexivity.
Qed.

Lemma expected_host_no_pct a port :
  mem PCT a = false -> mem PCT ([LBR] ++ ascii_lower a ++ [RBR] ++ port_text port) = false.
Proof.
  intros Ha. rewrite !mem_app. rewrite mem_lower by reflexivity. rewrite Ha.
  destruct port as [p|]; cbn [port_text]; [|reflexivity].
  rewrite mem_app, (mem_dec PCT p) by reflexivity. reflexivity.
Qed.

Lemma host_without_zone i : dom_host i = true -> clause_host i (model_run i) = true.
Proof.
  unfold dom_host. cbn zeta. rewrite !andb_true_iff. intros [[[Hd Hs] Hnh] Hnc].
  unfold clause_host. destruct (i_surl i) as [s|]; [|reflexivity].
  rewrite !andb_true_iff in Hs. destruct Hs as [[Hurl Hup] Hwf].
  apply str_eqb_eq in Hurl. apply up_eqb_eq in Hup.
  destruct (expected_host s) as [h|] eqn:Eh; [|reflexivity].
  destruct s as [sch hk port path]. unfold expected_host in Eh. cbn [s_host s_port] in Eh.
  destruct hk as [a|a|a|a z]; try discriminate. injection Eh as <-.
  unfold wf_scoped in Hwf. cbn [s_host s_port] in Hwf. rewrite !andb_true_iff in Hwf.
  destruct Hwf as [[[Ha Hc] Hz] Hp]. apply negb_true_iff in Ha, Hz.
  destruct (run_shape i Hd) as [fh [k [r [Hfh [-> _]]]]].
  rewrite Hurl, Hup in Hfh. rewrite (fixed_host_scoped sch a z port path Ha Hc Hz Hp) in Hfh.
  injection Hfh as <-.
  cbn [o_calls]. apply forallb_repeat. cbn [the_call c_headers]. unfold request_headers.
  rewrite (dget_dmerge str_eqb str_eqb_spec).
  rewrite (proj2 (dlast_None str_eqb str_eqb_spec _ HOST) (no_host_key_notin _ Hnc)).
  rewrite (dget_dmerge str_eqb str_eqb_spec).
  rewrite (proj2 (dlast_None str_eqb str_eqb_spec _ HOST) (no_host_key_notin _ Hnh)).
  pose proof (expected_host_no_pct a port Ha) as Hn. cbn [app] in Hn.
  cbn [dget]. rewrite str_eqb_refl. cbn [app]. rewrite str_eqb_refl, Hn. reflexivity.
Qed.

(* ---------------------------------------------------------------- the statement in one piece *)
Definition statement_of (i : input) (o : observation) : Prop :=
  let cs := answers i o in
  1 <= length (o_calls o) /\
  (forall w, i_kind (i_m i) = Session w -> length (o_calls o) <= 3) /\
  Forall (fun x => exists p c st, x = Fault p c st /\ conn_level c = true) (removelast cs) /\
  match last cs (i_rest (i_m i)) with
  | Success s h b => o_result o = Returned s h b
  | Fault _ c st =>
      exists c' st', o_result o = Raised c' st' /\
        subclassb c' C_UpnpCommunicationError = true /\
        (conn_level c = true -> subclassb c' C_UpnpConnectionError = true) /\
        (subclassb c C_ClientResponseError = true ->
           subclassb c' C_UpnpResponseError = true /\ st' = Some st)
  end.

Lemma statement i : dom_main i = true -> statement_of i (model_run i).
Proof.
  intros Hd. destruct (run_shape i Hd) as [fh [k [r [_ [-> [V Hk]]]]]].
  unfold statement_of, answers. cbn [o_calls o_result]. rewrite repeat_length.
  destruct V as [Hk1 [Hpre Hl]]. split; [exact Hk1|]. split; [exact Hk|]. split.
  - apply Forall_forall. intros x Hx. rewrite forallb_forall in Hpre. specialize (Hpre x Hx).
    destruct x as [s h b|p c st]; cbn in Hpre; [discriminate|]. now exists p, c, st.
  - destruct (last (consumed k (i_script (i_m i)) (i_rest (i_m i))) (i_rest (i_m i))) as [s h b|p c st].
    + now subst r.
    + destruct Hl as [[c' hs] [Hg ->]]. unfold good in Hg. cbn [fst snd] in Hg.
      rewrite !andb_true_iff in Hg. destruct Hg as [[Hf Hc] Hr].
      exists c', (if hs then Some st else None). split; [reflexivity|]. split; [exact Hf|]. split.
      * intros E. now rewrite E in Hc.
      * intros E. rewrite E in Hr. cbn in Hr. apply andb_true_iff in Hr as [Hr1 Hr2].
        subst hs. split; [exact Hr1 | reflexivity].
Qed.
