(* C17 — instantiation used by the correspondence check (never by a theorem). *)
From Coq Require Import List Bool NArith Arith.
From AUC Require Export Prelude.PyStr Prelude.PyDict Gen.Requester C17.Model C17.Spec.
Import ListNotations.

Definition clauses : list (N * (input -> bool) * (input -> observation -> bool)) :=
  [ (1%N, dom_main, clause_family);
    (2%N, dom_main, clause_first_success);
    (3%N, dom_main, clause_conn);
    (4%N, dom_main, clause_resp);
    (5%N, dom_main, clause_attempts);
    (6%N, dom_main, clause_retry);
    (7%N, dom_main, clause_same_request);
    (8%N, dom_host, clause_host) ].

Definition failing (i : input) (o : observation) : list N :=
  flat_map (fun t => match t with (k, dom, cl) => if dom i && negb (cl i o) then [k] else [] end) clauses.

(* (case index, kind, detail): kind 0 = model_run differs from the implementation's observation
   (detail = number of calls the model predicts); kind c in 1..8 = clause c fails on the
   implementation's observation (detail = number of calls observed). *)
Fixpoint report (base : N) (cases : list (input * observation)) : list (N * N * N) :=
  match cases with
  | [] => []
  | (i, o) :: r =>
      (if obs_eqb (model_run i) o then [] else [(base, 0%N, N.of_nat (length (o_calls (model_run i))))]) ++
      map (fun k => (base, k, N.of_nat (length (o_calls o)))) (failing i o) ++
      report (N.succ base) r
  end.

Definition replay (c : input * observation) :=
  (model_run (fst c), failing (fst c) (snd c), failing (fst c) (model_run (fst c)),
   (dom_main (fst c), dom_host (fst c))).
