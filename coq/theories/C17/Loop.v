(* C17 — the retry loop, for ANY ladders, ANY number of silent retries and ANY outcome sequence.
   Induction over the retry count with the outcome list generalised.  What the ladders must satisfy
   is a per-class condition (`tables_ok`); Tables.v discharges it for the generated ladders. *)
From Coq Require Import List Bool NArith Arith Lia.
From AUC Require Import Prelude.PyStr Prelude.PyDict Gen.Requester C17.Model C17.Spec C17.Strings.
Import ListNotations.

(* an exception of class c that has status st iff hs *)
Definition sexn (x : cls * bool) (st : N) : exn := mkExn (fst x) (if snd x then Some st else None).

(* one try statement at class level: (class, has status) of what leaves it; None = swallowed *)
Definition step_cls (l : ladder) (x : cls * bool) : option (cls * bool) :=
  match apply_cls l (fst x) (snd x) with
  | HRaise c k => Some (c, k && snd x)
  | HSwallow => None
  end.

Lemma apply_exn_sexn l x st :
  apply_exn l (sexn x st) =
  match step_cls l x with Some y => Some (sexn y st) | None => None end.
Proof.
  destruct x as [c hs]. unfold apply_exn, step_cls, sexn. cbn [fst snd ecls estatus].
  assert (E : is_some (if hs then Some st else None) = hs) by (destruct hs; reflexivity).
  rewrite E. destruct (apply_cls l c hs) as [c' k|]; [|reflexivity].
  cbn [fst snd]. destruct k, hs; reflexivity.
Qed.

Lemma raise_of_sexn c st : raise_of c st = sexn (c, has_status c) st.
Proof. reflexivity. Qed.

(* what leaves the inner try statement for a fault of class c *)
Definition after_inner (inner : ladder) (c : cls) : cls * bool :=
  match step_cls inner (c, has_status c) with
  | Some y => y
  | None => (C_UnboundLocalError, false)
  end.

Lemma attempt_fault inner p c st :
  attempt inner (Fault p c st) = ARaise (sexn (after_inner inner c) st).
Proof.
  unfold attempt, after_inner. rewrite raise_of_sexn, apply_exn_sexn.
  destruct (step_cls inner (c, has_status c)); reflexivity.
Qed.

(* the per-class requirement on what finally reaches the caller for a fault of class c *)
Definition good (c : cls) (y : cls * bool) : bool :=
  subclassb (fst y) C_UpnpCommunicationError &&
  implb (conn_level c) (subclassb (fst y) C_UpnpConnectionError) &&
  implb (subclassb c C_ClientResponseError) (subclassb (fst y) C_UpnpResponseError && snd y).

Section Generic.
  Variables plain inner loop final : ladder.

  Definition chk_plain (c : cls) : bool := good c (after_inner plain c).
  Definition chk_nonfinal (c : cls) : bool :=
    match step_cls loop (after_inner inner c) with
    | None => conn_level c                 (* silently retried: only connection-level faults *)
    | Some y => good c y
    end.
  Definition chk_final (c : cls) : bool :=
    match step_cls final (after_inner inner c) with
    | None => false
    | Some y => good c y
    end.
  Definition chk (c : cls) : bool := chk_plain c && chk_nonfinal c && chk_final c.

  Hypothesis tables_ok : forall c, in_transport c = true -> chk c = true.

  (* what every clause about results needs to know about (calls made, outcome of the method) *)
  Definition verdict (k : nat) (r : attempt_res) (script : list outcome) (rest : outcome) : Prop :=
    let cs := consumed k script rest in
    1 <= k /\
    forallb is_conn_fault (removelast cs) = true /\
    match last cs rest with
    | Success s h b => r = ARet s h b
    | Fault _ c st => exists y, good c y = true /\ r = ARaise (sexn y st)
    end.

  Lemma consumed_nonempty k script rest : 1 <= k -> consumed k script rest <> [].
  Proof. destruct k; [lia|]. cbn. discriminate. Qed.

  Lemma wf_hd script rest :
    forallb wf_outcome script = true -> wf_outcome rest = true -> wf_outcome (hd rest script) = true.
  Proof. destruct script; cbn; [auto|]. rewrite andb_true_iff. tauto. Qed.

  Lemma wf_tl script :
    forallb wf_outcome script = true -> forallb wf_outcome (tl script) = true.
  Proof. destruct script; cbn; [auto|]. rewrite andb_true_iff. tauto. Qed.

  Theorem retry_verdict n : forall script rest,
    forallb wf_outcome script = true -> wf_outcome rest = true ->
    let kr := retry inner loop final n script rest in
    fst kr <= S n /\ verdict (fst kr) (snd kr) script rest.
  Proof.
    induction n as [|n IH]; intros script rest Hs Hr; cbn [retry].
    - (* the last attempt *)
      pose proof (wf_hd _ _ Hs Hr) as Ho.
      cbn [fst snd]. split; [lia|]. unfold verdict. cbn [consumed removelast last forallb].
      split; [lia|]. split; [reflexivity|].
      destruct (hd rest script) as [s h b|p c st]; [reflexivity|].
      rewrite attempt_fault, apply_exn_sexn.
      cbn [wf_outcome] in Ho. specialize (tables_ok c Ho). unfold chk in tables_ok.
      rewrite !andb_true_iff in tables_ok. destruct tables_ok as [[_ _] Hf].
      unfold chk_final in Hf.
      destruct (step_cls final (after_inner inner c)) as [y|]; [|discriminate].
      exists y. split; [exact Hf | reflexivity].
    - pose proof (wf_hd _ _ Hs Hr) as Ho.
      destruct (hd rest script) as [s h b|p c st] eqn:Eo.
      + (* success: return at once *)
        cbn [attempt fst snd]. split; [lia|]. unfold verdict. cbn [consumed removelast last forallb].
        rewrite Eo. split; [lia|]. split; reflexivity.
      + rewrite attempt_fault, apply_exn_sexn.
        cbn [wf_outcome] in Ho. pose proof (tables_ok c Ho) as Hc. unfold chk in Hc.
        rewrite !andb_true_iff in Hc. destruct Hc as [[_ Hnf] _]. unfold chk_nonfinal in Hnf.
        destruct (step_cls loop (after_inner inner c)) as [y|].
        * (* a handler of the loop raises: one call *)
          cbn [fst snd]. split; [lia|]. unfold verdict. cbn [consumed removelast last forallb].
          rewrite Eo. split; [lia|]. split; [reflexivity|].
          exists y. split; [exact Hnf | reflexivity].
        * (* swallowed: the next attempt answers *)
          specialize (IH (tl script) rest (wf_tl _ Hs) Hr). cbn zeta in IH.
          destruct (retry inner loop final n (tl script) rest) as [k r]. cbn [fst snd] in *.
          destruct IH as [Hk [Hk1 [Hpre Hlast]]]. split; [lia|].
          unfold verdict. cbn [consumed]. rewrite Eo.
          pose proof (consumed_nonempty k (tl script) rest Hk1) as Hne.
          destruct (consumed k (tl script) rest) as [|o1 cs'] eqn:Ecs; [congruence|].
          split; [lia|]. split.
          -- change (removelast (Fault p c st :: o1 :: cs')) with (Fault p c st :: removelast (o1 :: cs')).
             cbn [forallb is_conn_fault]. rewrite Hnf. exact Hpre.
          -- change (last (Fault p c st :: o1 :: cs') rest) with (last (o1 :: cs') rest).
             exact Hlast.
  Qed.

  (* the plain requester: one attempt *)
  Theorem plain_verdict script rest :
    forallb wf_outcome script = true -> wf_outcome rest = true ->
    verdict 1 (attempt plain (hd rest script)) script rest.
  Proof.
    intros Hs Hr. pose proof (wf_hd _ _ Hs Hr) as Ho.
    unfold verdict. cbn [consumed removelast last forallb].
    split; [lia|]. split; [reflexivity|].
    destruct (hd rest script) as [s h b|p c st]; [reflexivity|].
    rewrite attempt_fault. cbn [wf_outcome] in Ho. pose proof (tables_ok c Ho) as Hc.
    unfold chk in Hc. rewrite !andb_true_iff in Hc. destruct Hc as [[Hp _] _].
    exists (after_inner plain c). split; [exact Hp | reflexivity].
  Qed.
End Generic.

(* ---------------------------------------------------------------- from a verdict to the clauses *)
Section Clauses.
  Variables (i : input) (calls : list call) (r : attempt_res).
  Let script := i_script (i_m i).
  Let rest := i_rest (i_m i).
  Let o := {| o_calls := calls; o_result := to_result r |}.
  Hypothesis V : verdict (length calls) r script rest.

  Lemma verdict_family : clause_family i o = true.
  Proof.
    destruct V as [_ [_ Hl]]. unfold clause_family. cbn [o o_result].
    destruct (last (consumed (length calls) script rest) rest) as [s h b|p c st].
    - subst r. reflexivity.
    - destruct Hl as [y [Hg ->]]. cbn. unfold good in Hg. rewrite !andb_true_iff in Hg. tauto.
  Qed.

  Lemma conn_not_success x : is_conn_fault x = true -> negb (is_success x) = true.
  Proof. destruct x; cbn; congruence. Qed.

  Lemma verdict_first_success : clause_first_success i o = true.
  Proof.
    destruct V as [Hk [Hpre Hl]]. unfold clause_first_success, answers. cbn [o o_calls o_result].
    fold script rest.
    pose proof (consumed_nonempty _ script rest Hk) as Hne.
    destruct (consumed (length calls) script rest) as [|o1 cs] eqn:E; [congruence|].
    apply andb_true_iff. split.
    - rewrite forallb_forall in *. intros x Hx. apply conn_not_success. auto.
    - destruct (last (o1 :: cs) rest) as [s h b|p c st].
      + subst r. apply result_eqb_refl.
      + destruct Hl as [y [_ ->]]. reflexivity.
  Qed.

  Lemma verdict_conn : clause_conn i o = true.
  Proof.
    destruct V as [_ [_ Hl]]. unfold clause_conn, answers. cbn [o o_calls o_result]. fold script rest.
    destruct (last (consumed (length calls) script rest) rest) as [s h b|p c st]; [reflexivity|].
    destruct Hl as [y [Hg ->]]. unfold good in Hg. rewrite !andb_true_iff in Hg.
    destruct Hg as [[_ Hc] _]. destruct (conn_level c); [|reflexivity]. exact Hc.
  Qed.

  Lemma verdict_resp : clause_resp i o = true.
  Proof.
    destruct V as [_ [_ Hl]]. unfold clause_resp, answers. cbn [o o_calls o_result]. fold script rest.
    destruct (last (consumed (length calls) script rest) rest) as [s h b|p c st]; [reflexivity|].
    destruct Hl as [y [Hg ->]]. unfold good in Hg. rewrite !andb_true_iff in Hg.
    destruct Hg as [_ Hc]. destruct (subclassb c C_ClientResponseError); [|reflexivity].
    cbn in Hc. rewrite andb_true_iff in Hc. destruct Hc as [Hc1 Hc2].
    destruct y as [c' k]. cbn in *. subst k. cbn. now rewrite Hc1, N.eqb_refl.
  Qed.

  Lemma verdict_retry : clause_retry i o = true.
  Proof. destruct V as [_ [Hpre _]]. exact Hpre. Qed.
End Clauses.
