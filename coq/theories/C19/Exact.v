(* C19 — the step for a well-formed document, restated without the auxiliary definitions of the
   proofs: what a reader compares with the property's text. *)
From Coq Require Import List Bool NArith Arith Lia.
From AUC Require Import Prelude.PyDict Prelude.PyStr C19.Model C19.Spec C19.Handler C19.Notify.
Import ListNotations.

Lemma snapshot_ext a b l : w_vals a = w_vals b -> snapshot a l = snapshot b l.
Proof. intros H. unfold snapshot, obs_of. now rewrite H. Qed.

(* the parser-level statement: changes["0"] holds, per local name, the last val among the master-channel
   children of the instances whose id is "0" - and exists iff such an instance has a child with a val *)
Theorem changes_of_instance_0 t :
  wf_tree t = true ->
  match dget str_eqb (handle_events (sax_of_tree t)) s_0 with
  | Some ch0 => touched t = true /\ forall n, dget str_eqb ch0 n = last_given t n
  | None => touched t = false
  end.
Proof.
  intros Hwf. rewrite (handle_tree t Hwf). destruct (touched t); [|reflexivity].
  split; [reflexivity|]. intros n. apply ch0_get.
Qed.

Section Exact.
  Variable conv : str -> str -> outcome.
  Variable parse : str -> parsed.

  Lemma lc_call_plain w : ~ In s_LastChange (dkeys (w_vals w)) -> lc_call w = [(s_LastChange, None)].
  Proof.
    intros H. unfold lc_call, snapshot, obs_of. cbn. apply (dget_None_notin str_eqb sspec) in H. now rewrite H.
  Qed.

  Theorem expands_exactly w t :
    wf_tree t = true -> NoDup (dkeys (w_vals w)) -> ~ In s_LastChange (dkeys (w_vals w)) ->
    (forall n x c, last_given t n = Some x -> In n (dkeys (w_vals w)) -> conv n x <> ORaise c) ->
    exists w' names,
      step conv parse w (EDoc t) = ROk w' /\
      (* every variable holds the last value given for it in instance 0 (master channel), else what it held *)
      w_vals w' = map (fun nb => (fst nb, match last_given t (fst nb) with
                                         | Some x => assign conv (fst nb) x (snd nb)
                                         | None => snd nb
                                         end)) (w_vals w) /\
      (* one further callback, before the one for LastChange itself, carrying exactly those variables *)
      w_log w' = (if touched t then [snapshot w' names] else []) ++ [[(s_LastChange, None)]] /\
      NoDup names /\
      (forall n, In n names <->
                 In n (dkeys (w_vals w)) /\
                 exists x, last_given t n = Some x /\ outcome_carried (conv n x) = true).
  Proof.
    intros Hwf Hnd Hlc Hsafe.
    assert (Hs : conv_safe_tree conv (w_vals w) t).
    { intros n x c Hg Hh. apply Hsafe; [exact Hg | now apply dhas_true_iff]. }
    pose proof (step_wf_doc conv parse w t Hwf Hnd Hs) as Hstep. cbn zeta in Hstep.
    assert (Hvals : vals_after conv t (w_vals w) =
                    map (fun nb => (fst nb, match last_given t (fst nb) with
                                            | Some x => assign conv (fst nb) x (snd nb) | None => snd nb end)) (w_vals w)).
    { unfold vals_after. apply map_ext. intros [n b]. cbn. f_equal. unfold upd. rewrite ch0_get.
      destruct (last_given t n); reflexivity. }
    assert (Hkeys : dkeys (vals_after conv t (w_vals w)) = dkeys (w_vals w)).
    { unfold vals_after. now rewrite dkeys_map_vals. }
    assert (Hnames : NoDup (changed_of conv t (w_vals w)) /\
              forall n, In n (changed_of conv t (w_vals w)) <->
                        In n (dkeys (w_vals w)) /\
                        exists x, last_given t n = Some x /\ outcome_carried (conv n x) = true).
    { split; [unfold changed_of; apply NoDup_filter, ch0_nodup|].
      intros n. unfold changed_of. rewrite filter_In, andb_true_iff, dhas_true_iff. unfold carried.
      rewrite ch0_get. split.
      - intros (_ & Hk & Hc). split; [exact Hk|]. destruct (last_given t n) as [x|]; [|discriminate]. now exists x.
      - intros (Hk & x & Hg & Hc). rewrite Hg. split; [|now split].
        apply (dget_Some_in str_eqb sspec) with (v := x). now rewrite ch0_get. }
    destruct (touched t) eqn:Et.
    - eexists. exists (changed_of conv t (w_vals w)). split; [exact Hstep|].
      cbn [w_vals w_log set_log]. split; [exact Hvals|]. split; [|exact Hnames].
      cbn [app]. rewrite lc_call_plain by (cbn [w_vals]; now rewrite Hkeys).
      f_equal; now apply snapshot_ext.
    - eexists. exists []. split; [exact Hstep|]. cbn [w_vals w_log app]. split.
      + rewrite <- Hvals. unfold vals_after, ch0_of.
        assert (Hg : given t = []).
        { clear -Et. unfold touched, given in *. induction (t_insts t) as [|i r IH]; [reflexivity|].
          cbn in *. apply orb_false_iff in Et as [Hi Hr]. rewrite (IH Hr), app_nil_r.
          destruct (is_inst0 i); [|reflexivity]. cbn in Hi.
          induction (ie_vars i) as [|v l IHl]; [reflexivity|].
          cbn in Hi. apply orb_false_iff in Hi as [Hv Hl]. cbn. rewrite (IHl Hl), app_nil_r.
          unfold given_var, has_val in *. destruct (ve_val v); [discriminate | reflexivity]. }
        rewrite Hg. cbn. rewrite <- (map_id (w_vals w)) at 1. apply map_ext. intros [n b]. reflexivity.
      + split; [now rewrite lc_call_plain|]. split; [constructor|].
        intros n. split; [intros []|]. intros (_ & x & Hg & _).
        assert (Hin : In n (map fst (given t))).
        { unfold last_given in Hg. apply (dlast_In str_eqb sspec) in Hg. apply in_map_iff. now exists (n, x). }
        exfalso. clear -Et Hin. unfold touched, given in *. rewrite in_map_iff in Hin.
        destruct Hin as [[k y] [_ Hin]]. apply in_flat_map in Hin as [i [Hi Hin]].
        destruct (is_inst0 i) eqn:E0; [|contradiction]. apply in_flat_map in Hin as [v [Hv Hin]].
        assert (existsb (fun i => is_inst0 i && existsb has_val (ie_vars i)) (t_insts t) = true); [|congruence].
        apply existsb_exists. exists i. split; [exact Hi|]. rewrite E0. cbn.
        apply existsb_exists. exists v. split; [exact Hv|]. unfold given_var in Hin. unfold has_val.
        destruct (ve_val v); [reflexivity | contradiction].
  Qed.

  (* an event without instance 0 changes nothing and calls nothing further *)
  Theorem nothing_without_0 w t :
    wf_tree t = true -> has_inst0 t = false -> ~ In s_LastChange (dkeys (w_vals w)) ->
    step conv parse w (EDoc t) =
    ROk {| w_vals := w_vals w; w_lc := LCDoc t; w_log := [[(s_LastChange, None)]] |}.
  Proof.
    intros Hwf H0 Hlc. unfold step, on_event_body. cbn [expand_loop]. rewrite str_eqb_refl.
    unfold handle_lc. cbn [w_lc set_lc lc_of_event]. unfold with_parsed. rewrite (handle_tree t Hwf).
    assert (Et : touched t = false).
    { clear -H0. unfold has_inst0, touched in *. induction (t_insts t) as [|i r IH]; [reflexivity|].
      cbn in *. apply orb_false_iff in H0 as [Hi Hr]. rewrite Hi. cbn. auto. }
    rewrite Et. rewrite <- (lc_call_plain w Hlc). reflexivity.
  Qed.

  (* so does an empty value *)
  Theorem empty_value w :
    ~ In s_LastChange (dkeys (w_vals w)) ->
    step conv parse w (ERaw []) =
    ROk {| w_vals := w_vals w; w_lc := LCText []; w_log := [[(s_LastChange, None)]] |}.
  Proof. intros Hlc. rewrite step_empty. now rewrite lc_call_plain. Qed.
End Exact.
