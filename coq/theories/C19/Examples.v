(* C19 — concrete inputs used by the non-vacuity Examples of Properties.v.  Definitions only. *)
From Coq Require Import List Bool NArith Arith.
From AUC Require Import Prelude.PyDict Prelude.PyStr C19.Model C19.Spec C19.Run.
Import ListNotations.

(* conversions: Volume is numeric ("x" is a ValueError), everything else a string *)
Definition ex_conv (n v : str) : outcome :=
  if str_eqb n [86;111;108;117;109;101]%N then (if str_eqb v [120]%N then OValueError else OSet 1 v) else OSet 0 v.
(* <e:Event><e:InstanceID val="0"><e:TransportState val="PLAYING"/><Volume channel="Master" val="7"/>
     <Volume channel="LF" val="9"/><x:Unknown val="1"/></e:InstanceID>
     <e:InstanceID val="1"><e:TransportState val="STOPPED"/></e:InstanceID></e:Event> *)
Definition ex_tree : tree := Build_tree [101;58;69;118;101;110;116]%N None [Build_inst_el (Some [101]%N) (Some [48]%N) [Build_var_el (Some [101]%N) [84;114;97;110;115;112;111;114;116;83;116;97;116;101]%N None (Some [80;76;65;89;73;78;71]%N); Build_var_el None [86;111;108;117;109;101]%N (Some [77;97;115;116;101;114]%N) (Some [55]%N); Build_var_el None [86;111;108;117;109;101]%N (Some [76;70]%N) (Some [57]%N); Build_var_el (Some [120]%N) [85;110;107;110;111;119;110]%N None (Some [49]%N)]; Build_inst_el (Some [101]%N) (Some [49]%N) [Build_var_el (Some [101]%N) [84;114;97;110;115;112;111;114;116;83;116;97;116;101]%N None (Some [83;84;79;80;80;69;68]%N)]].
(* <Event><e:InstanceID val="1"><Volume val="3"/></e:InstanceID></Event> *)
Definition ex_tree_no0 : tree := Build_tree [69;118;101;110;116]%N None [Build_inst_el (Some [101]%N) (Some [49]%N) [Build_var_el None [86;111;108;117;109;101]%N None (Some [51]%N)]].
(* TransportState, Volume, Mute *)
Definition ex_vars : list str := [[84;114;97;110;115;112;111;114;116;83;116;97;116;101]%N; [86;111;108;117;109;101]%N; [77;117;116;101]%N].

(* the raw text  <Event><InstanceID val='0'><Volume val='5'/><Volume val='x'/><Mute val='1   [double quotes in
   the text; cut inside an attribute] with the events expat delivers before the fatal error, then the document without instance 0 *)
Definition ex_input : input := {|
  in_vars := ex_vars;
  in_conv := [(([86;111;108;117;109;101]%N, [53]%N), OSet 1 [53]%N); (([86;111;108;117;109;101]%N, [120]%N), OValueError)];
  in_parse := [([60;69;118;101;110;116;62;60;73;110;115;116;97;110;99;101;73;68;32;118;97;108;61;34;48;34;62;60;86;111;108;117;109;101;32;118;97;108;61;34;53;34;47;62;60;86;111;108;117;109;101;32;118;97;108;61;34;120;34;47;62;60;77;117;116;101;32;118;97;108;61;34;49]%N, PEvents [SStart [69;118;101;110;116]%N None None; SStart [73;110;115;116;97;110;99;101;73;68]%N (Some [48]%N) None; SStart [86;111;108;117;109;101]%N (Some [53]%N) None; SEnd [86;111;108;117;109;101]%N; SStart [86;111;108;117;109;101]%N (Some [120]%N) None; SEnd [86;111;108;117;109;101]%N])];
  in_events := [ERaw [60;69;118;101;110;116;62;60;73;110;115;116;97;110;99;101;73;68;32;118;97;108;61;34;48;34;62;60;86;111;108;117;109;101;32;118;97;108;61;34;53;34;47;62;60;86;111;108;117;109;101;32;118;97;108;61;34;120;34;47;62;60;77;117;116;101;32;118;97;108;61;34;49]%N; EDoc ex_tree_no0]
|}.
