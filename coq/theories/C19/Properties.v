(* C19 — DLNA LastChange events expand to exactly instance 0's master-channel variables.
   Property theorems only; every statement is closed (oracles and premises are quantified here). *)
From Coq Require Import List Bool NArith Arith.
From AUC Require Import Prelude.PyDict Prelude.PyStr C19.Model C19.Spec C19.Handler C19.Notify C19.Total
  C19.Exact C19.Main C19.Run C19.Examples.
Import ListNotations.

(* TOTALITY.  Whatever list of SAX events the parser delivers for whatever text (balanced or not: every
   prefix expat can deliver before a fatal error is such a list), whatever variables the service has and
   whatever their conversions do short of raising something other than ValueError/UpnpValueError, every
   LastChange event of every history is expanded without an exception (and without exhausting the model's
   recursion fuel, which nested LastChange values consume).  Premises about code that is not C19's:
   the coercers (C08), and the parser: it reports instead of raising, and an attribute value is shorter
   than its document. *)
Theorem C19_no_raise :
  forall (conv : str -> str -> outcome) (parse : str -> parsed),
    (forall n v c, conv n v <> ORaise c) ->
    (forall t c, parse t <> PRaise c) ->
    (forall t evs n v c, parse t = PEvents evs -> In (SStart n (Some v) c) evs -> length v < length t) ->
    forall (evs : list event) (w : world),
      Forall (fun o => o_raised o = None) (run conv parse w evs).
Proof. exact run_total. Qed.
Print Assumptions C19_no_raise.

(* What the content handler leaves in changes["0"] for the SAX stream of a well-formed
   Event / InstanceID* / variable* tree (prefixed or unprefixed elements): per local name, the last val among
   the children of the instances whose id is "0" that have no channel or channel Master; the entry exists
   iff such an instance has a child carrying a val. *)
Theorem C19_changes_of_instance_0 :
  forall t : tree,
    wf_tree t = true ->
    match dget str_eqb (handle_events (sax_of_tree t)) s_0 with
    | Some ch0 => touched t = true /\ forall n, dget str_eqb ch0 n = last_given t n
    | None => touched t = false
    end.
Proof. exact changes_of_instance_0. Qed.
Print Assumptions C19_changes_of_instance_0.

(* EXACT EXPANSION, ONE FURTHER CALLBACK.  For a well-formed event, from any state of a service with
   distinct variable names: the step returns normally; every variable for which instance 0 (master channel,
   prefix ignored) gives a value holds the result of assigning the LAST such value through the normal event
   path (stored / UPNP_VALUE_ERROR / rejected and left alone), every other variable is untouched; the
   profile's on_event is called once more before the call for LastChange itself - iff instance 0 has a child
   with a val - carrying each variable that was given an accepted-or-ValueError value exactly once and no
   other.  Other instances and other channels do not appear in the statement: they are ignored. *)
Theorem C19_expands_exactly :
  forall (conv : str -> str -> outcome) (parse : str -> parsed) (w : world) (t : tree),
    wf_tree t = true ->
    NoDup (dkeys (w_vals w)) -> ~ In s_LastChange (dkeys (w_vals w)) ->
    (forall n x c, last_given t n = Some x -> In n (dkeys (w_vals w)) -> conv n x <> ORaise c) ->
    exists w' names,
      step conv parse w (EDoc t) = ROk w' /\
      w_vals w' = map (fun nb => (fst nb, match last_given t (fst nb) with
                                         | Some x => assign conv (fst nb) x (snd nb)
                                         | None => snd nb
                                         end)) (w_vals w) /\
      w_log w' = (if touched t then [snapshot w' names] else []) ++ [[(s_LastChange, None)]] /\
      NoDup names /\
      (forall n, In n names <->
                 In n (dkeys (w_vals w)) /\
                 exists x, last_given t n = Some x /\ outcome_carried (conv n x) = true).
Proof. exact expands_exactly. Qed.
Print Assumptions C19_expands_exactly.

(* An event without instance 0 changes nothing and causes no further callback ... *)
Theorem C19_nothing_without_0 :
  forall (conv : str -> str -> outcome) (parse : str -> parsed) (w : world) (t : tree),
    wf_tree t = true -> has_inst0 t = false -> ~ In s_LastChange (dkeys (w_vals w)) ->
    step conv parse w (EDoc t) =
    ROk {| w_vals := w_vals w; w_lc := LCDoc t; w_log := [[(s_LastChange, None)]] |}.
Proof. exact nothing_without_0. Qed.
Print Assumptions C19_nothing_without_0.

(* ... and so does an empty value. *)
Theorem C19_empty_value :
  forall (conv : str -> str -> outcome) (parse : str -> parsed) (w : world),
    ~ In s_LastChange (dkeys (w_vals w)) ->
    step conv parse w (ERaw []) =
    ROk {| w_vals := w_vals w; w_lc := LCText []; w_log := [[(s_LastChange, None)]] |}.
Proof. exact empty_value. Qed.
Print Assumptions C19_empty_value.

(* THE LINK TO THE CHECK.  For every case the correspondence check can build (service, finite oracle
   tables, history of documents and raw texts): if it lies in the statement's domain (distinct variable
   names; every text, at every level of nesting, free of "<!DOCTYPE" and made of scalar values) and the
   oracle tables satisfy the premises above, then NO clause (1 no_raise, 2 values_exact, 3 one_more_callback,
   4 nothing_without_0) fails at any step of the model's run.  Run.report evaluates the same spec_failures on
   the implementation's observations. *)
Theorem C19_spec_holds :
  forall i : input, in_domain i = true -> oracle_ok i = true -> spec_failures i (model_run i) = [].
Proof. exact spec_holds. Qed.
Print Assumptions C19_spec_holds.

(* ------------------------------------------------------------------------------------------ *)
(* Non-vacuity. *)
(* prefixed InstanceID elements, two instances, three channels, an unknown variable: in the domain, and
   only instance 0's master entries arrive (TransportState PLAYING, Volume 7), in one further callback *)
Example C19_domain_inhabited :
  wf_tree ex_tree = true /\ has_inst0 ex_tree = true /\
  run ex_conv (fun _ => PEvents []) (world0 ex_vars) [EDoc ex_tree; EDoc ex_tree_no0; ERaw []] =
  [ {| o_raised := None; o_vals := [Some (0%N, [80;76;65;89;73;78;71]%N); Some (1%N, [55]%N); None];
       o_calls := [[([84;114;97;110;115;112;111;114;116;83;116;97;116;101]%N, Some (0%N, [80;76;65;89;73;78;71]%N)); ([86;111;108;117;109;101]%N, Some (1%N, [55]%N))];
                   [(s_LastChange, None)]] |};
    {| o_raised := None; o_vals := [Some (0%N, [80;76;65;89;73;78;71]%N); Some (1%N, [55]%N); None];
       o_calls := [[(s_LastChange, None)]] |};
    {| o_raised := None; o_vals := [Some (0%N, [80;76;65;89;73;78;71]%N); Some (1%N, [55]%N); None];
       o_calls := [[(s_LastChange, None)]] |} ].
Proof. vm_compute. repeat split; reflexivity. Qed.

(* a truncated document (an unbalanced event list, delivered before the fatal error) in a table-level case
   that satisfies both hypotheses of C19_spec_holds; the ValueError value reads back as None and is carried *)
Example C19_hypotheses_satisfiable :
  in_domain ex_input = true /\ oracle_ok ex_input = true /\
  model_run ex_input =
  [ {| o_raised := None; o_vals := [None; None; None];
       o_calls := [[([86;111;108;117;109;101]%N, None)]; [(s_LastChange, None)]] |};
    {| o_raised := None; o_vals := [None; None; None]; o_calls := [[(s_LastChange, None)]] |} ].
Proof. vm_compute. repeat split; reflexivity. Qed.

(* the premise about the coercers is not decoration: a conversion that raises something else escapes *)
Example C19_coercer_premise_needed :
  map o_raised (run (fun _ _ => ORaise [73;110;100;101;120;69;114;114;111;114]%N) (fun _ => PEvents []) (world0 ex_vars) [EDoc ex_tree]) =
  [Some [73;110;100;101;120;69;114;114;111;114]%N].
Proof. vm_compute. reflexivity. Qed.
