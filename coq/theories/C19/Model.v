(* C19 — DLNA LastChange expansion: executable model of the anchored code.  Definitions only.

   async_upnp_client/profiles/dlna.py   DlnaDmrEventContentHandler, DlnaDmrEventErrorHandler,
                                        _parse_last_change_event, dlna_handle_notify_last_change,
                                        DmrDevice._on_event
   async_upnp_client/client.py          UpnpService.notify_changed_state_variables,
                                        has_state_variable / state_variable, UpnpStateVariable.upnp_value

   What is an oracle (Section variable, never an axiom):
     parse : the XML text -> what the defused expat SAX parser, fed the UTF-8 encoding of the (already
             decoded) text with that encoding imposed, delivered to the content handler (the SAX
             events up to the first fatal error, which the error handler swallows), or the exception
             it raised (defusedxml refuses DTD declarations by raising);
     conv  : variable name -> text -> what `state_var.upnp_value = text` does (the type's coercer
             followed by the voluptuous schema) — C08's subject.
   The model describes the code as REPAIRED by proposed/C19/D28.diff (prefix stripped before the
   comparison with "InstanceID"), proposed/C19/D29.diff (DIDL-Lite parse errors of the metadata
   variables do not escape DmrDevice._on_event; after the repair that step has no effect on what is
   observed here and is therefore absent) and proposed/C19/D30.diff (the encoding named by the
   text's XML declaration is neither looked up nor used: this is in the parse oracle's definition). *)
From Coq Require Import List Bool NArith Arith.
From AUC Require Import Prelude.PyDict Prelude.PyStr.
Import ListNotations.
Local Open Scope N_scope.

Definition str := pystr.

Definition s_InstanceID : str := [73;110;115;116;97;110;99;101;73;68].
Definition s_LastChange : str := [76;97;115;116;67;104;97;110;103;101].
Definition s_Master : str := [77;97;115;116;101;114].
Definition s_0 : str := [48].
Definition c_colon : N := 58.
Definition c_rbrace : N := 125.

(* ------------------------------------------------------------------------------------------ *)
(* SAX events as far as the handler can see them: the element name and the three attribute
   queries it makes ("val" in attrs, attrs.get("val"), attrs.get("channel")). *)
Inductive sax :=
| SStart (name : str) (val chan : option str)
| SEnd (name : str).

(* s[s.find(c)+1:] if c in s *)
Fixpoint after_char (c : N) (s : str) : option str :=
  match s with
  | [] => None
  | x :: r => if N.eqb x c then Some r else after_char c r
  end.
Fixpoint until_char (c : N) (s : str) : str :=
  match s with
  | [] => []
  | x :: r => if N.eqb x c then [] else x :: until_char c r
  end.

(*  if ":" in name: name = name[name.find(":") + 1:]  *)
Definition strip_prefix (name : str) : str :=
  match after_char c_colon name with Some r => r | None => name end.

(* ---- DlnaDmrEventContentHandler ---- *)
Definition changes_t := dict str (dict str str).
Record handler := { h_changes : changes_t; h_cur : option str }.
Definition handler0 : handler := {| h_changes := []; h_cur := None |}.

(*  self._current_instance or "0"  *)
Definition cur_or_0 (c : option str) : str :=
  match c with Some (x :: r) => x :: r | _ => s_0 end.
(*  attrs.get("channel") in (None, "Master")  *)
Definition chan_ok (c : option str) : bool :=
  match c with None => true | Some s => str_eqb s s_Master end.
Definition inner_of (ch : changes_t) (k : str) : dict str str :=
  match dget str_eqb ch k with Some d => d | None => [] end.
Definition ensure (ch : changes_t) (k : str) : changes_t :=
  if dhas str_eqb ch k then ch else dset str_eqb ch k [].

Definition start_element (h : handler) (name : str) (val chan : option str) : handler :=
  match val with
  | None => h                                                   (* "val" not in attrs *)
  | Some v =>
      let name := strip_prefix name in
      if str_eqb name s_InstanceID then
        {| h_changes := h_changes h; h_cur := Some v |}
      else
        let ci := cur_or_0 (h_cur h) in
        let ch := ensure (h_changes h) ci in
        if chan_ok chan then
          {| h_changes := dset str_eqb ch ci (dset str_eqb (inner_of ch ci) name v);
             h_cur := h_cur h |}
        else {| h_changes := ch; h_cur := h_cur h |}
  end.

Definition end_element (h : handler) (name : str) : handler :=
  if str_eqb (strip_prefix name) s_InstanceID
  then {| h_changes := h_changes h; h_cur := None |} else h.

Definition feed (h : handler) (e : sax) : handler :=
  match e with
  | SStart n v c => start_element h n v c
  | SEnd n => end_element h n
  end.

(* content_handler.changes after the parser returned (errors are swallowed by the error handler,
   so whatever prefix of events was delivered is what counts) *)
Definition handle_events (evs : list sax) : changes_t := h_changes (fold_left feed evs handler0).

(* ------------------------------------------------------------------------------------------ *)
(* The well-formed shape Event / InstanceID* / variable*, and the SAX stream of its rendering
   (text, comments, other attributes and namespace declarations are invisible to the handler). *)
Record var_el := { ve_prefix : option str; ve_name : str; ve_chan : option str; ve_val : option str }.
Record inst_el := { ie_prefix : option str; ie_val : option str; ie_vars : list var_el }.
Record tree := { t_root : str; t_root_val : option str; t_insts : list inst_el }.

Definition qname (p : option str) (n : str) : str :=
  match p with Some p => p ++ c_colon :: n | None => n end.
Definition sax_of_var (v : var_el) : list sax :=
  [SStart (qname (ve_prefix v) (ve_name v)) (ve_val v) (ve_chan v);
   SEnd (qname (ve_prefix v) (ve_name v))].
Definition sax_of_inst (i : inst_el) : list sax :=
  SStart (qname (ie_prefix i) s_InstanceID) (ie_val i) None
    :: flat_map sax_of_var (ie_vars i) ++ [SEnd (qname (ie_prefix i) s_InstanceID)].
Definition sax_of_tree (t : tree) : list sax :=
  SStart (t_root t) (t_root_val t) None :: flat_map sax_of_inst (t_insts t) ++ [SEnd (t_root t)].

(* an upper bound of the length of every val an event list carries *)
Fixpoint events_bound (evs : list sax) : nat :=
  match evs with
  | [] => 0%nat
  | SStart _ (Some v) _ :: r => Nat.max (length v) (events_bound r)
  | _ :: r => events_bound r
  end.
Definition tree_size (t : tree) : nat := S (events_bound (sax_of_tree t)).

(* ------------------------------------------------------------------------------------------ *)
(* The service. *)
Inductive parsed := PEvents (evs : list sax) | PRaise (cls : str).

Inductive outcome :=
| OSet (tag : N) (repr : str)   (* coerced and accepted by the schema: stored *)
| OValueError                   (* the coercer raised ValueError: UPNP_VALUE_ERROR stored, counted as changed *)
| OInvalid                      (* UpnpValueError from validation: left alone, not counted *)
| ORaise (cls : str).           (* anything else propagates *)

Inductive vstate := VNone | VError | VVal (tag : N) (repr : str).
Definition oval := option (N * str).               (* UpnpStateVariable.value as observed *)
Definition to_obs (v : vstate) : oval :=
  match v with VVal t r => Some (t, r) | _ => None end.

(* LastChange is declared `string` without restrictions in every service description: its coercer
   is str and its schema accepts every str, so it is kept apart from the oracle. *)
Inductive lcval := LCNone | LCText (s : str) | LCDoc (t : tree).

Definition call := list (str * oval).              (* one on_event invocation: variables and their values then *)
Record world := {
  w_vals : dict str vstate;      (* the other state variables, in definition order *)
  w_lc : lcval;
  w_log : list call              (* on_event invocations of the profile device *)
}.
Definition set_vals (w : world) (v : dict str vstate) := {| w_vals := v; w_lc := w_lc w; w_log := w_log w |}.
Definition set_lc (w : world) (l : lcval) := {| w_vals := w_vals w; w_lc := l; w_log := w_log w |}.
Definition set_log (w : world) (l : list call) := {| w_vals := w_vals w; w_lc := w_lc w; w_log := l |}.

Inductive res := ROk (w : world) | RRaise (cls : str) (w : world) | RFuel (w : world).

(* has_state_variable / state_variable: exact name, else the part after the first "}" *)
Definition known (vals : dict str vstate) (n : str) : bool :=
  str_eqb n s_LastChange || dhas str_eqb vals n.
Definition resolve (vals : dict str vstate) (name : str) : option str :=
  if known vals name then Some name
  else match after_char c_rbrace name with
       | Some rest => let seg := until_char c_rbrace rest in
                      if known vals seg then Some seg else None
       | None => None
       end.

Definition obs_of (w : world) (n : str) : oval :=
  match dget str_eqb (w_vals w) n with Some v => to_obs v | None => None end.
Definition snapshot (w : world) (names : list str) : call := map (fun n => (n, obs_of w n)) names.

Section Service.
  Variable conv : str -> str -> outcome.
  Variable parse : str -> parsed.

  (* UpnpService.notify_changed_state_variables, the loop *)
  Fixpoint apply_changes (w : world) (changes : list (str * str)) (changed : list str)
    : world * list str * option str :=
    match changes with
    | [] => (w, changed, None)
    | (name, v) :: r =>
        match resolve (w_vals w) name with
        | None => apply_changes w r changed
        | Some n =>
            if str_eqb n s_LastChange then apply_changes (set_lc w (LCText v)) r (changed ++ [n])
            else match conv n v with
                 | OSet tag rp =>
                     apply_changes (set_vals w (dset str_eqb (w_vals w) n (VVal tag rp))) r (changed ++ [n])
                 | OValueError =>
                     apply_changes (set_vals w (dset str_eqb (w_vals w) n VError)) r (changed ++ [n])
                 | OInvalid => apply_changes w r changed
                 | ORaise c => (w, changed, Some c)
                 end
        end
    end.

  Section Body.
    (* service.notify_changed_state_variables, one level down *)
    Variable rec : world -> list (str * str) -> res.

    (* _parse_last_change_event + the rest of dlna_handle_notify_last_change *)
    Definition with_parsed (w : world) (p : parsed) : res :=
      match p with
      | PRaise c => RRaise c w
      | PEvents evs =>
          match dget str_eqb (handle_events evs) s_0 with
          | None => ROk w                       (* "Only InstanceID 0 is supported" *)
          | Some ch0 => rec w ch0
          end
      end.
    Definition handle_lc (w : world) : res :=
      match w_lc w with
      | LCNone => ROk w
      | LCText [] => ROk w                      (* not event_data *)
      | LCText (c :: s) => with_parsed w (parse (c :: s))
      | LCDoc t => with_parsed w (PEvents (sax_of_tree t))
      end.

    (* DmrDevice._on_event: expand every LastChange among the changed variables, then call the
       profile's on_event *)
    Fixpoint expand_loop (l : list str) (w : world) : res :=
      match l with
      | [] => ROk w
      | n :: r =>
          if str_eqb n s_LastChange then
            match handle_lc w with ROk w' => expand_loop r w' | e => e end
          else expand_loop r w
      end.
    Definition on_event_body (w : world) (changed : list str) : res :=
      match expand_loop changed w with
      | ROk w' => ROk (set_log w' (w_log w' ++ [snapshot w' changed]))
      | e => e
      end.
    Definition notify_body (w : world) (changes : list (str * str)) : res :=
      match apply_changes w changes [] with
      | (w1, changed, Some c) => RRaise c w1
      | (w1, changed, None) => on_event_body w1 changed
      end.
  End Body.

  Fixpoint notify (fuel : nat) (w : world) (changes : list (str * str)) : res :=
    match fuel with
    | O => RFuel w
    | S f => notify_body (notify f) w changes
    end.

  (* one LastChange event reaching the service: notify_changed_state_variables({"LastChange": text}) *)
  Inductive event := EDoc (t : tree) | ERaw (text : str).
  Definition lc_of_event (e : event) : lcval :=
    match e with EDoc t => LCDoc t | ERaw s => LCText s end.
  Definition step_fuel (e : event) : nat :=
    match e with EDoc t => tree_size t | ERaw s => length s end.
  Definition step (w : world) (e : event) : res :=
    on_event_body (notify (S (step_fuel e))) (set_lc (set_log w []) (lc_of_event e)) [s_LastChange].

  (* ---- observation after every step ---- *)
  Record step_obs := { o_raised : option str; o_vals : list oval; o_calls : list call }.
  Definition s_fuel : str := [60;102;117;101;108;62].   (* "<fuel>" *)
  Definition obs_world (r : option str) (w : world) : step_obs :=
    {| o_raised := r; o_vals := map (fun nv => to_obs (snd nv)) (w_vals w); o_calls := w_log w |}.
  Definition res_world (r : res) : world :=
    match r with ROk w | RRaise _ w | RFuel w => w end.
  Definition obs_res (r : res) : step_obs :=
    match r with
    | ROk w => obs_world None w
    | RRaise c w => obs_world (Some c) w
    | RFuel w => obs_world (Some s_fuel) w
    end.
  Fixpoint run (w : world) (evs : list event) : list step_obs :=
    match evs with
    | [] => []
    | e :: r => let x := step w e in obs_res x :: run (res_world x) r
    end.
End Service.

Definition world0 (vars : list str) : world :=
  {| w_vals := map (fun n => (n, VNone)) vars; w_lc := LCNone; w_log := [] |}.
