(* C19 — totality: whatever event list the parser delivers (balanced or not), whatever the service's
   variables are, expansion returns normally, provided the two oracles do not raise and a parser
   never reports an attribute value as long as its document (which bounds the nesting of LastChange
   inside LastChange). *)
From Coq Require Import List Bool NArith Arith Lia.
From AUC Require Import Prelude.PyDict Prelude.PyStr C19.Model C19.Spec C19.Handler C19.Notify.
Import ListNotations.

(* ---- every value the handler stores was the val of some start event ---- *)
Section HandlerVals.
  Variable P : str -> Prop.
  Definition inner_inv (d : dict str str) : Prop := forall n v, In (n, v) d -> P v.
  Definition changes_inv (ch : changes_t) : Prop := forall k d, In (k, d) ch -> inner_inv d.

  Lemma In_dset_inv (V : Type) (d : dict str V) k v x :
    In x (dset str_eqb d k v) -> snd x = v \/ In x d.
  Proof.
    induction d as [|[a w] r IH]; cbn.
    - intros [<-|[]]. now left.
    - destruct (str_eqb a k); cbn.
      + intros [<-|H]; [now left | right; now right].
      + intros [<-|H]; [right; now left|]. destruct (IH H); [now left | right; now right].
  Qed.

  Lemma ensure_inv ch k : changes_inv ch -> changes_inv (ensure ch k).
  Proof.
    intros H. unfold ensure. destruct (dhas str_eqb ch k); [exact H|].
    intros k' d Hin. apply In_dset_inv in Hin as [Hd|Hin]; [|eauto].
    cbn in Hd. subst d. intros n v [].
  Qed.
  Lemma inner_of_inv ch k : changes_inv ch -> inner_inv (inner_of ch k).
  Proof.
    intros H. unfold inner_of. destruct (dget str_eqb ch k) as [d|] eqn:E; [|intros n v []].
    apply (dget_In str_eqb sspec) in E. eauto.
  Qed.

  Lemma feed_inv h e :
    changes_inv (h_changes h) -> (forall n v c, e = SStart n (Some v) c -> P v) ->
    changes_inv (h_changes (feed h e)).
  Proof.
    intros Hinv He. destruct e as [name val chan|name]; cbn.
    - unfold start_element. destruct val as [v|]; [|exact Hinv].
      destruct (str_eqb _ s_InstanceID); [exact Hinv|].
      destruct (chan_ok chan); cbn [h_changes]; [|now apply ensure_inv].
      intros k d Hin. apply In_dset_inv in Hin as [Hd|Hin].
      + cbn in Hd. subst d. intros n v' Hin'. apply In_dset_inv in Hin' as [Hv|Hin'].
        * cbn in Hv. subst v'. eapply He; reflexivity.
        * eapply inner_of_inv; [apply ensure_inv; exact Hinv | exact Hin'].
      + eapply ensure_inv; eauto.
    - unfold end_element. destruct (str_eqb _ _); exact Hinv.
  Qed.

  Lemma handle_events_inv evs :
    (forall n v c, In (SStart n (Some v) c) evs -> P v) -> changes_inv (handle_events evs).
  Proof.
    unfold handle_events. assert (H0 : changes_inv (h_changes handler0)) by (intros k d []).
    revert H0. generalize handler0. induction evs as [|e r IH]; intros h Hh Hall; [exact Hh|].
    cbn [fold_left]. apply IH.
    - apply feed_inv; [exact Hh|]. intros n v c ->. apply (Hall n v c). now left.
    - intros n v c Hin. apply (Hall n v c). now right.
  Qed.
End HandlerVals.

Lemma events_bound_spec evs n v c : In (SStart n (Some v) c) evs -> length v <= events_bound evs.
Proof.
  induction evs as [|e r IH]; [intros []|]. intros [->|Hin]; cbn.
  - lia.
  - specialize (IH Hin). destruct e as [? [?|] ?|?]; lia.
Qed.

Section Total.
  Variable conv : str -> str -> outcome.
  Variable parse : str -> parsed.
  Hypothesis conv_total : forall n v c, conv n v <> ORaise c.
  Hypothesis parse_total : forall t c, parse t <> PRaise c.
  Hypothesis parse_shrinks :
    forall t evs n v c, parse t = PEvents evs -> In (SStart n (Some v) c) evs -> length v < length t.

  Definition lc_len (w : world) : nat :=
    match w_lc w with LCNone => 0 | LCText s => length s | LCDoc t => tree_size t end.

  Lemma resolve_known vals name n : resolve vals name = Some n -> known vals n = true.
  Proof.
    unfold resolve. destruct (known vals name) eqn:E.
    - intros H; inversion H; subst; exact E.
    - destruct (after_char c_rbrace name); [|discriminate].
      destruct (known vals (until_char c_rbrace s)) eqn:E2; [|discriminate].
      intros H; inversion H; subst; exact E2.
  Qed.

  (* the assignment loop: does not raise, keeps the variables, and LastChange is among the changed
     variables only if it was assigned one of the given texts *)
  Lemma apply_total l : forall w acc,
    exists w1 changed,
      apply_changes conv w l acc = (w1, changed, None) /\
      dkeys (w_vals w1) = dkeys (w_vals w) /\ w_log w1 = w_log w /\
      ((w_lc w1 = w_lc w /\ (In s_LastChange changed -> In s_LastChange acc)) \/
       (exists n v, In (n, v) l /\ w_lc w1 = LCText v)).
  Proof.
    induction l as [|[name v] r IH]; intros w acc.
    - exists w, acc. cbn. repeat split; auto.
    - cbn [apply_changes]. destruct (resolve (w_vals w) name) as [n|] eqn:Er.
      + destruct (sspec n s_LastChange) as [->|Hne].
        * destruct (IH (set_lc w (LCText v)) (acc ++ [s_LastChange])) as (w1 & ch & H1 & H2 & H3 & H4).
          exists w1, ch. split; [exact H1|]. split; [exact H2|]. split; [exact H3|]. right.
          destruct H4 as [[H4 _]|(n' & v' & Hin & H4)].
          -- exists name, v. split; [now left | exact H4].
          -- exists n', v'. split; [now right | exact H4].
        * assert (Hhas : dhas str_eqb (w_vals w) n = true).
          { apply resolve_known in Er. unfold known in Er. rewrite (str_neq_eqb _ _ Hne) in Er. exact Er. }
          assert (Hstep : forall x,
                    exists w1 changed,
                      apply_changes conv (set_vals w (dset str_eqb (w_vals w) n x)) r (acc ++ [n]) = (w1, changed, None) /\
                      dkeys (w_vals w1) = dkeys (w_vals w) /\ w_log w1 = w_log w /\
                      ((w_lc w1 = w_lc w /\ (In s_LastChange changed -> In s_LastChange acc)) \/
                       (exists n0 v0, In (n0, v0) ((name, v) :: r) /\ w_lc w1 = LCText v0))).
          { intros x. destruct (IH (set_vals w (dset str_eqb (w_vals w) n x)) (acc ++ [n]))
              as (w1 & ch & H1 & H2 & H3 & H4).
            exists w1, ch. split; [exact H1|]. split.
            { rewrite H2. cbn. now apply dkeys_dset_present. }
            split; [exact H3|]. destruct H4 as [[H4 H5]|(n' & v' & Hin & H4)].
            - left. split; [exact H4|]. intros Hc. apply H5 in Hc. apply in_app_iff in Hc as [Hc|[Hc|[]]]; [exact Hc|].
              congruence.
            - right. exists n', v'. split; [now right | exact H4]. }
          destruct (conv n v) as [tag rp| | |c] eqn:Ec.
          -- apply Hstep.
          -- apply Hstep.
          -- destruct (IH w acc) as (w1 & ch & H1 & H2 & H3 & H4). exists w1, ch.
             split; [exact H1|]. split; [exact H2|]. split; [exact H3|].
             destruct H4 as [H4|(n' & v' & Hin & H4)]; [now left|]. right. exists n', v'. split; [now right | exact H4].
          -- exfalso. exact (conv_total n v c Ec).
      + destruct (IH w acc) as (w1 & ch & H1 & H2 & H3 & H4). exists w1, ch.
        split; [exact H1|]. split; [exact H2|]. split; [exact H3|].
        destruct H4 as [H4|(n' & v' & Hin & H4)]; [now left|]. right. exists n', v'. split; [now right | exact H4].
  Qed.

  (* postcondition of one level of notify *)
  Definition notify_post (B : nat) (w : world) (r : res) : Prop :=
    exists w', r = ROk w' /\ dkeys (w_vals w') = dkeys (w_vals w) /\
               (w_lc w' = w_lc w \/ lc_len w' < B).
  Definition T (f : nat) : Prop :=
    forall w l B, B <= f -> (forall n v, In (n, v) l -> length v < B) -> notify_post B w (notify conv parse (S f) w l).

  Definition step_post (w : world) (r : res) : Prop :=
    exists w', r = ROk w' /\ dkeys (w_vals w') = dkeys (w_vals w) /\ lc_len w' <= lc_len w.

  Lemma handle_total f : T f -> forall w, lc_len w <= f -> step_post w (handle_lc parse (notify conv parse (S f)) w).
  Proof.
    intros HT w Hlen. unfold handle_lc, lc_len in *.
    assert (Hwith : forall evs B, B <= f -> lc_len w = B ->
              (forall n v c, In (SStart n (Some v) c) evs -> length v < B) ->
              step_post w (with_parsed (notify conv parse (S f)) w (PEvents evs))).
    { intros evs B HB HlB Hvals. unfold with_parsed.
      destruct (dget str_eqb (handle_events evs) s_0) as [ch0|] eqn:E.
      - destruct (HT w ch0 B HB) as (w' & Hr & Hk & Hlc).
        + intros n v Hin. apply (dget_In str_eqb sspec) in E.
          exact (handle_events_inv (fun v => length v < B) evs Hvals _ _ E n v Hin).
        + exists w'. split; [exact Hr|]. split; [exact Hk|].
          destruct Hlc as [Hlc|Hlc]; [unfold lc_len; rewrite Hlc; reflexivity | lia].
      - exists w. repeat split; auto. }
    destruct (w_lc w) as [|s|t] eqn:Elc.
    - exists w. repeat split; auto.
    - destruct s as [|c s]; [exists w; repeat split; auto|].
      destruct (parse (c :: s)) as [evs|cls] eqn:Ep; [|exfalso; exact (parse_total _ _ Ep)].
      apply (Hwith evs (length (c :: s))); [exact Hlen | unfold lc_len; now rewrite Elc|].
      intros n v c0 Hin. exact (parse_shrinks _ _ _ _ _ Ep Hin).
    - apply (Hwith (sax_of_tree t) (tree_size t)); [exact Hlen | unfold lc_len; now rewrite Elc|].
      intros n v c Hin. apply events_bound_spec in Hin. unfold tree_size. lia.
  Qed.

  Lemma loop_total f : T f -> forall l w,
    (In s_LastChange l -> lc_len w <= f) ->
    step_post w (expand_loop parse (notify conv parse (S f)) l w).
  Proof.
    intros HT. induction l as [|n r IH]; intros w Hl.
    - exists w. repeat split; auto.
    - cbn [expand_loop]. destruct (sspec n s_LastChange) as [->|Hne].
      + destruct (handle_total f HT w (Hl (or_introl eq_refl))) as (w1 & Hr & Hk & Hlen). rewrite Hr.
        destruct (IH w1) as (w2 & Hr2 & Hk2 & Hlen2).
        * intros _. specialize (Hl (or_introl eq_refl)). lia.
        * exists w2. split; [exact Hr2|]. split; [congruence | lia].
      + apply IH. intros Hin. apply Hl. now right.
  Qed.

  Lemma T_all f : T f.
  Proof.
    induction f as [|f IH]; intros w l B HB Hvals.
    - (* no text is shorter than 0: nothing is assigned, nothing is expanded *)
      assert (B = 0) by lia. subst B.
      assert (l = []) as ->. { destruct l as [|[n v] r]; [reflexivity|]. specialize (Hvals n v (or_introl eq_refl)). lia. }
      cbn. exists (set_log w (w_log w ++ [snapshot w []])). repeat split; auto.
    - change (notify conv parse (S (S f)) w l) with (notify_body conv parse (notify conv parse (S f)) w l).
      unfold notify_body.
      destruct (apply_total l w []) as (w1 & changed & Ha & Hk1 & Hlog1 & Hlc1). rewrite Ha.
      unfold on_event_body.
      destruct Hlc1 as [[Hsame Hacc]|(n & v & Hin' & Hlc)].
      + (* LastChange itself was not assigned at this level: nothing to expand *)
        rewrite expand_loop_plain by (intros Hin; destruct (Hacc Hin)).
        eexists. split; [reflexivity|]. cbn [w_vals w_lc set_log]. split; [exact Hk1 | now left].
      + destruct (loop_total f IH changed w1) as (w2 & Hr2 & Hk2 & Hlen2).
        * intros _. unfold lc_len. rewrite Hlc. specialize (Hvals n v Hin'). lia.
        * rewrite Hr2. eexists. split; [reflexivity|]. cbn [w_vals w_lc set_log]. split; [congruence|].
          right. unfold lc_len in *. cbn [w_lc set_log]. rewrite Hlc in Hlen2. specialize (Hvals n v Hin'). lia.
  Qed.

  (* one event: never raises, never runs out of fuel, keeps the service's variables *)
  Theorem step_total w e :
    exists w', step conv parse w e = ROk w' /\ dkeys (w_vals w') = dkeys (w_vals w).
  Proof.
    unfold step, on_event_body.
    destruct (loop_total (step_fuel e) (T_all _) [s_LastChange] (set_lc (set_log w []) (lc_of_event e)))
      as (w2 & Hr & Hk & _).
    - intros _. unfold lc_len. cbn [w_lc set_lc]. destruct e; cbn; lia.
    - rewrite Hr. eexists. split; [reflexivity|]. cbn [w_vals set_log]. exact Hk.
  Qed.

  Theorem run_total evs : forall w, Forall (fun o => o_raised o = None) (run conv parse w evs).
  Proof.
    induction evs as [|e r IH]; intros w; cbn; [constructor|].
    destruct (step_total w e) as (w' & Hs & _). rewrite Hs. constructor; [reflexivity | apply IH].
  Qed.
End Total.
