(* C19 — instantiation used by the correspondence check (never by a theorem's proof; the
   definitions input / model_run / in_domain / oracle_ok / spec_failures are the ones the table-level
   theorem of Properties.v speaks about).  Imports no proof file. *)
From Coq Require Import List Bool NArith Arith.
From AUC Require Export Prelude.PyDict Prelude.PyStr C19.Model C19.Spec.
Import ListNotations.

(* One case: the service's variables (other than LastChange), the two oracles as finite tables
   (computed by the harness with the real coercers/schemas and the real parser, independently of
   the run that is observed), and the history of LastChange events. *)
Record input := {
  in_vars : list str;
  in_conv : list ((str * str) * outcome);
  in_parse : list (str * parsed);
  in_events : list event
}.

Definition pair_eqb (a b : str * str) : bool := str_eqb (fst a) (fst b) && str_eqb (snd a) (snd b).
Definition conv_of (tbl : list ((str * str) * outcome)) (n v : str) : outcome :=
  match dget pair_eqb tbl (n, v) with Some o => o | None => OInvalid end.
Definition parse_of (tbl : list (str * parsed)) (t : str) : parsed :=
  match dget str_eqb tbl t with Some p => p | None => PEvents [] end.

Definition observation := list step_obs.
Definition model_run (i : input) : observation :=
  run (conv_of (in_conv i)) (parse_of (in_parse i)) (world0 (in_vars i)) (in_events i).

(* the statement's domain: event values (at every level of nesting) free of DTD declarations;
   a service description has distinct variable names *)
Definition event_ok (e : event) : bool :=
  match e with ERaw s => text_ok s | EDoc _ => true end.
Definition in_domain (i : input) : bool :=
  nodupb (in_vars i) && negb (mem s_LastChange (in_vars i))
  && forallb (fun kv => text_ok (fst kv)) (in_parse i) && forallb event_ok (in_events i).

(* premises about code that is not C19's: the coercers raise ValueError only (C08); the parser,
   given a DTD-free text, reports to the error handler instead of raising, and every attribute
   value it delivers is shorter than the document *)
Definition outcome_total (o : outcome) : bool := match o with ORaise _ => false | _ => true end.
Fixpoint vals_shorter (n : nat) (evs : list sax) : bool :=
  match evs with
  | [] => true
  | SStart _ (Some v) _ :: r => Nat.ltb (length v) n && vals_shorter n r
  | _ :: r => vals_shorter n r
  end.
Definition parsed_ok (t : str) (p : parsed) : bool :=
  match p with PRaise _ => false | PEvents evs => vals_shorter (length t) evs end.
Definition oracle_ok (i : input) : bool :=
  forallb (fun kv => outcome_total (snd kv)) (in_conv i)
  && forallb (fun kv => parsed_ok (fst kv) (snd kv)) (in_parse i).

Definition spec_failures (i : input) (o : observation) : list (N * N) :=
  run_clauses (conv_of (in_conv i)) (in_vars i) 0%N (map (fun _ => None) (in_vars i)) (in_events i) o.

(* ---- comparison of observations (the order of the variables inside one callback is not part of
   the property) ---- *)
Definition opt_str_eqb (a b : option str) : bool :=
  match a, b with None, None => true | Some x, Some y => str_eqb x y | _, _ => false end.
Definition entry_eqb (a b : str * oval) : bool := str_eqb (fst a) (fst b) && oval_eqb (snd a) (snd b).
Fixpoint remove1 (x : str * oval) (l : call) : option call :=
  match l with
  | [] => None
  | y :: r => if entry_eqb x y then Some r
              else match remove1 x r with Some r' => Some (y :: r') | None => None end
  end.
Fixpoint call_equivb (a b : call) : bool :=
  match a with
  | [] => match b with [] => true | _ => false end
  | x :: r => match remove1 x b with Some b' => call_equivb r b' | None => false end
  end.
(* neither the order of the calls of one step nor an empty further call is part of the property
   (clause 4 watches the latter where the statement forbids it) *)
Definition nonempty (c : call) : bool := match c with [] => false | _ => true end.
Fixpoint remove1c (x : call) (l : list call) : option (list call) :=
  match l with
  | [] => None
  | y :: r => if call_equivb x y then Some r
              else match remove1c x r with Some r' => Some (y :: r') | None => None end
  end.
Fixpoint calls_equivb (a b : list call) : bool :=
  match a with
  | [] => match b with [] => true | _ => false end
  | x :: r => match remove1c x b with Some b' => calls_equivb r b' | None => false end
  end.
Definition step_obs_eqb (a b : step_obs) : bool :=
  opt_str_eqb (o_raised a) (o_raised b) && list_eqb oval_eqb (o_vals a) (o_vals b)
  && calls_equivb (filter nonempty (o_calls a)) (filter nonempty (o_calls b)).
Fixpoint first_diff (n : N) (a b : observation) : option N :=
  match a, b with
  | [], [] => None
  | x :: a', y :: b' => if step_obs_eqb x y then first_diff (N.succ n) a' b' else Some n
  | _, _ => Some n
  end.

(* (case, kind, detail): kind 0 = the model's observation differs from the implementation's (detail:
   first differing step); kind c in 1..4 = clause c fails on the IMPLEMENTATION's observation
   (detail: step), reported for inputs in the statement's domain. *)
Fixpoint report (base : N) (cases : list (input * observation)) : list (N * N * N) :=
  match cases with
  | [] => []
  | (i, o) :: r =>
      (match first_diff 0%N (model_run i) o with Some p => [(base, 0%N, p)] | None => [] end) ++
      (if in_domain i then map (fun ck => (base, fst ck, snd ck)) (spec_failures i o) else []) ++
      report (N.succ base) r
  end.

Definition replay (c : input * observation) :=
  (model_run (fst c), spec_failures (fst c) (snd c), spec_failures (fst c) (model_run (fst c)),
   in_domain (fst c), oracle_ok (fst c)).
