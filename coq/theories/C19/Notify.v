(* C19 — notify_changed_state_variables on the changes a well-formed tree produces, and the whole
   step for such an event in closed form. *)
From Coq Require Import List Bool NArith Arith Lia.
From AUC Require Import Prelude.PyDict Prelude.PyStr C19.Model C19.Spec C19.Handler.
Import ListNotations.

Notation sget := (dget str_eqb).
Notation shas := (dhas str_eqb).

(* ---- generic dict facts ---- *)
Lemma dhas_true_iff (V : Type) (d : dict str V) k : shas d k = true <-> In k (dkeys d).
Proof.
  unfold dhas. rewrite (In_dkeys_dget str_eqb sspec). destruct (sget d k); split; congruence.
Qed.

Lemma dset_as_map (V : Type) (d : dict str V) k v :
  NoDup (dkeys d) -> shas d k = true ->
  dset str_eqb d k v = map (fun nb => if str_eqb (fst nb) k then (fst nb, v) else nb) d.
Proof.
  induction d as [|[a w] r IH]; cbn; intros Hnd Hhas; [discriminate|].
  inversion Hnd as [|? ? Hn Hnd']; subst.
  destruct (sspec a k) as [->|Hne].
  - f_equal. rewrite <- (map_id r) at 1. apply map_ext_in. intros [n b] Hin. cbn.
    destruct (sspec n k) as [->|]; [|reflexivity]. exfalso. apply Hn. apply in_map_iff. now exists (k, b).
  - f_equal. apply IH; [exact Hnd'|]. unfold dhas in *. cbn in Hhas.
    rewrite (str_neq_eqb _ _ Hne) in Hhas. exact Hhas.
Qed.

Lemma dkeys_dset_present (V : Type) (d : dict str V) k v :
  shas d k = true -> dkeys (dset str_eqb d k v) = dkeys d.
Proof. intros H. rewrite (dkeys_dset str_eqb sspec). now rewrite H. Qed.

Lemma dget_map_vals (A B : Type) (h : str -> A -> B) (l : dict str A) n :
  sget (map (fun nb => (fst nb, h (fst nb) (snd nb))) l) n =
  match sget l n with Some b => Some (h n b) | None => None end.
Proof.
  induction l as [|[a w] r IH]; cbn; [reflexivity|].
  destruct (sspec a n) as [->|]; [reflexivity | exact IH].
Qed.

Lemma dkeys_map_vals (A B : Type) (h : str -> A -> B) (l : dict str A) :
  dkeys (map (fun nb => (fst nb, h (fst nb) (snd nb))) l) = dkeys l.
Proof. unfold dkeys. rewrite map_map. reflexivity. Qed.

(* ---- booleans of the spec ---- *)
Lemma mem_true_iff n l : mem n l = true <-> In n l.
Proof.
  unfold mem. rewrite existsb_exists. split.
  - intros [x [Hin Hx]]. apply str_eqb_eq in Hx. now subst.
  - intros H. exists n. split; [exact H | apply str_eqb_refl].
Qed.
Lemma nodupb_true l : NoDup l -> nodupb l = true.
Proof.
  induction 1 as [|x l Hn Hnd IH]; cbn; [reflexivity|]. rewrite IH, andb_true_r.
  apply negb_true_iff. destruct (mem x l) eqn:E; [|reflexivity]. apply mem_true_iff in E. contradiction.
Qed.
Lemma nodupb_NoDup l : nodupb l = true -> NoDup l.
Proof.
  induction l as [|x l IH]; cbn; [constructor|]. rewrite andb_true_iff, negb_true_iff.
  intros [H1 H2]. constructor; [|auto]. intros Hin. apply mem_true_iff in Hin. congruence.
Qed.
Lemma oval_eqb_refl v : oval_eqb v v = true.
Proof. destruct v as [[t r]|]; cbn; [|reflexivity]. now rewrite N.eqb_refl, str_eqb_refl. Qed.
Lemma list_eqb_refl (A : Type) (eqb : A -> A -> bool) :
  (forall x, eqb x x = true) -> forall l, list_eqb eqb l l = true.
Proof. intros H. induction l as [|x l IH]; cbn; [reflexivity|]. now rewrite H, IH. Qed.

Section Notify.
  Variable conv : str -> str -> outcome.
  Variable parse : str -> parsed.

  Definition vstate_after (o : outcome) (b : vstate) : vstate :=
    match o with
    | OSet t r => VVal t r
    | OValueError => VError
    | OInvalid | ORaise _ => b
    end.
  Lemma to_obs_after o b : to_obs (vstate_after o b) = outcome_obs o (to_obs b).
  Proof. destruct o; reflexivity. Qed.

  Definition upd (l : list (str * str)) (n : str) (b : vstate) : vstate :=
    match sget l n with Some x => vstate_after (conv n x) b | None => b end.
  Definition carried (l : list (str * str)) (k : str) : bool :=
    match sget l k with Some x => outcome_carried (conv k x) | None => false end.

  (* keys that are plain variable names: no "}" fall-back, not LastChange *)
  Definition plain (l : list (str * str)) : Prop :=
    forall k, In k (dkeys l) -> has_char c_rbrace k = false /\ k <> s_LastChange.

  Lemma resolve_plain vals k :
    has_char c_rbrace k = false -> k <> s_LastChange ->
    resolve vals k = if shas vals k then Some k else None.
  Proof.
    intros Hb Hl. unfold resolve, known. rewrite (str_neq_eqb _ _ Hl). cbn [orb].
    destruct (shas vals k); [reflexivity|]. now rewrite after_char_none.
  Qed.

  Definition conv_safe (vals : dict str vstate) (l : list (str * str)) : Prop :=
    forall n x c, In (n, x) l -> shas vals n = true -> conv n x <> ORaise c.

  Lemma upd_skip k x r n b : k <> n -> upd ((k, x) :: r) n b = upd r n b.
  Proof. intros H. unfold upd. cbn. now rewrite (str_neq_eqb _ _ H). Qed.
  Lemma carried_skip k x r n : k <> n -> carried ((k, x) :: r) n = carried r n.
  Proof. intros H. unfold carried. cbn. now rewrite (str_neq_eqb _ _ H). Qed.

  Lemma filter_ext_in' (A : Type) (f g : A -> bool) (l : list A) :
    (forall a, In a l -> f a = g a) -> filter f l = filter g l.
  Proof.
    induction l as [|a l IH]; cbn; intros H; [reflexivity|].
    rewrite (H a) by now left. rewrite IH; [reflexivity|]. intros; apply H; now right.
  Qed.

  Theorem apply_plain l : forall w acc,
    NoDup (dkeys l) -> plain l -> NoDup (dkeys (w_vals w)) -> conv_safe (w_vals w) l ->
    apply_changes conv w l acc =
    (set_vals w (map (fun nb => (fst nb, upd l (fst nb) (snd nb))) (w_vals w)),
     acc ++ filter (fun k => shas (w_vals w) k && carried l k) (dkeys l), None).
  Proof.
    induction l as [|[k x] r IH]; intros w acc Hnd Hpl Hndv Hsafe.
    - cbn. rewrite app_nil_r. destruct w as [vals lc lg]. unfold set_vals. cbn. f_equal. f_equal. f_equal.
      rewrite <- (map_id vals) at 1. apply map_ext. intros [n b]. reflexivity.
    - cbn [dkeys map fst] in Hnd. inversion Hnd as [|? ? Hnotin Hnd']; subst.
      assert (Hpl' : plain r). { intros k' Hk'. apply Hpl. now right. }
      destruct (Hpl k (or_introl eq_refl)) as [Hb Hl].
      assert (Hdr : sget r k = None). { now apply (dget_None_notin str_eqb sspec). }
      cbn [apply_changes]. rewrite (resolve_plain _ _ Hb Hl).
      cbn [dkeys map fst filter].
      assert (Hck : carried ((k, x) :: r) k = outcome_carried (conv k x)).
      { unfold carried. cbn. now rewrite str_eqb_refl. }
      assert (Hfilt : forall vals' : dict str vstate, (forall n, shas vals' n = shas (w_vals w) n) ->
                filter (fun k0 => shas vals' k0 && carried r k0) (map fst r) =
                filter (fun k0 => shas (w_vals w) k0 && carried ((k, x) :: r) k0) (map fst r)).
      { intros vals' Hsame. apply filter_ext_in'. intros a Ha. rewrite Hsame, carried_skip; [reflexivity|].
        intros ->. contradiction. }
      destruct (shas (w_vals w) k) eqn:Ehas.
      + (* the variable exists *)
        rewrite (str_neq_eqb _ _ Hl).
        assert (Hsame : forall v n, shas (dset str_eqb (w_vals w) k v) n = shas (w_vals w) n).
        { intros v n. unfold dhas. rewrite (dget_dset str_eqb sspec).
          destruct (sspec k n) as [->|]; [|reflexivity]. unfold dhas in Ehas.
          destruct (sget (w_vals w) n); [reflexivity | discriminate]. }
        assert (Hstep : forall v,
                  (forall b, vstate_after (conv k x) b = v) ->
                  map (fun nb => (fst nb, upd r (fst nb) (snd nb))) (dset str_eqb (w_vals w) k v) =
                  map (fun nb => (fst nb, upd ((k, x) :: r) (fst nb) (snd nb))) (w_vals w)).
        { intros v Hv. rewrite dset_as_map by assumption. rewrite map_map. apply map_ext. intros [n b]. cbn.
          destruct (sspec n k) as [->|Hne]; cbn.
          - f_equal. unfold upd. cbn. rewrite str_eqb_refl, Hdr. symmetry. apply Hv.
          - f_equal. symmetry. apply upd_skip. congruence. }
        assert (Hsafe' : forall v, conv_safe (dset str_eqb (w_vals w) k v) r).
        { intros v n y c Hin Hh. apply (Hsafe n y c); [now right|]. now rewrite Hsame in Hh. }
        destruct (conv k x) as [tag rp| | |c] eqn:Ec.
        * rewrite IH; [|assumption|assumption|now apply (NoDup_dset str_eqb sspec)|apply Hsafe'].
          cbn [w_vals set_vals]. rewrite Hck. cbn [outcome_carried andb].
          rewrite (Hfilt _ (Hsame _)), <- app_assoc. cbn [app].
          rewrite Hstep by reflexivity. reflexivity.
        * rewrite IH; [|assumption|assumption|now apply (NoDup_dset str_eqb sspec)|apply Hsafe'].
          cbn [w_vals set_vals]. rewrite Hck. cbn [outcome_carried andb].
          rewrite (Hfilt _ (Hsame _)), <- app_assoc. cbn [app].
          rewrite Hstep by reflexivity. reflexivity.
        * rewrite IH; [|assumption|assumption|assumption|].
          2:{ intros n y c Hin Hh. apply (Hsafe n y c); [now right | exact Hh]. }
          change (dkeys r) with (map fst r). rewrite Hck. cbn [outcome_carried andb]. rewrite (Hfilt _ (fun _ => eq_refl)).
          f_equal. f_equal. f_equal. apply map_ext_in. intros [n b] Hin. cbn. f_equal.
          destruct (sspec k n) as [->|Hne]; [|symmetry; now apply upd_skip].
          unfold upd. cbn. now rewrite str_eqb_refl, Hdr, Ec.
        * exfalso. apply (Hsafe k x c); [now left | exact Ehas | exact Ec].
      + (* no such variable: ignored *)
        rewrite IH; [|assumption|assumption|assumption|].
        2:{ intros n y c Hin Hh. apply (Hsafe n y c); [now right | exact Hh]. }
        change (dkeys r) with (map fst r). cbn [andb]. rewrite (Hfilt _ (fun _ => eq_refl)).
        f_equal. f_equal. f_equal. apply map_ext_in. intros [n b] Hin. cbn. f_equal.
        symmetry. apply upd_skip. intros ->.
        assert (Hk : In n (dkeys (w_vals w))). { apply in_map_iff. now exists (n, b). }
        apply dhas_true_iff in Hk. congruence.
  Qed.

  (* ---- the loop of DmrDevice._on_event when no LastChange is among the changed variables ---- *)
  Lemma expand_loop_plain rec l w : ~ In s_LastChange l -> expand_loop parse rec l w = ROk w.
  Proof.
    induction l as [|n r IH]; cbn; intros H; [reflexivity|].
    rewrite str_neq_eqb by (intros ->; apply H; now left). apply IH. intros Hin; apply H; now right.
  Qed.

  (* ---- one well-formed document ---- *)
  Definition ch0_of (t : tree) : list (str * str) := dmerge str_eqb [] (given t).

  Lemma ch0_get t n : sget (ch0_of t) n = last_given t n.
  Proof. unfold ch0_of, last_given. rewrite (dget_dmerge str_eqb sspec). now destruct (dlast str_eqb (given t) n). Qed.
  Lemma ch0_nodup t : NoDup (dkeys (ch0_of t)).
  Proof. apply (NoDup_dmerge str_eqb sspec). constructor. Qed.

  Lemma given_names t k :
    wf_tree t = true -> In k (map fst (given t)) ->
    has_char c_rbrace k = false /\ k <> s_LastChange.
  Proof.
    unfold wf_tree. rewrite andb_true_iff. intros [_ Hwf] Hin.
    unfold given in Hin. rewrite in_map_iff in Hin. destruct Hin as [[k' x] [Hk Hin]]. cbn in Hk. subst k'.
    apply in_flat_map in Hin as [i [Hi Hin]]. rewrite forallb_forall in Hwf. specialize (Hwf i Hi).
    destruct (is_inst0 i); [|contradiction].
    apply in_flat_map in Hin as [v [Hv Hin]].
    apply wf_inst_facts in Hwf as (_ & _ & Hvars). rewrite forallb_forall in Hvars.
    specialize (Hvars v Hv). apply wf_var_facts in Hvars as (_ & _ & Hb & _ & Hl).
    unfold given_var in Hin. destruct (ve_val v); [|contradiction]. destruct (master v); [|contradiction].
    destruct Hin as [Heq|[]]. inversion Heq; subst. split; assumption.
  Qed.

  Lemma ch0_plain t : wf_tree t = true -> plain (ch0_of t).
  Proof.
    intros Hwf k Hk. unfold ch0_of in Hk. apply (In_dkeys_dmerge str_eqb sspec) in Hk as [[]|Hk].
    now apply (given_names t).
  Qed.

  Definition vals_after (t : tree) (vals : dict str vstate) : dict str vstate :=
    map (fun nb => (fst nb, upd (ch0_of t) (fst nb) (snd nb))) vals.
  Definition changed_of (t : tree) (vals : dict str vstate) : list str :=
    filter (fun k => shas vals k && carried (ch0_of t) k) (dkeys (ch0_of t)).

  Definition conv_safe_tree (vals : dict str vstate) (t : tree) : Prop :=
    forall n x c, last_given t n = Some x -> shas vals n = true -> conv n x <> ORaise c.

  Lemma conv_safe_ch0 vals t : conv_safe_tree vals t -> conv_safe vals (ch0_of t).
  Proof.
    intros H n x c Hin Hh. apply (H n x c); [|exact Hh]. rewrite <- ch0_get.
    apply (In_dget str_eqb sspec); [apply ch0_nodup | exact Hin].
  Qed.

  Lemma changed_no_lc t vals : wf_tree t = true -> ~ In s_LastChange (changed_of t vals).
  Proof.
    intros Hwf Hin. unfold changed_of in Hin. apply filter_In in Hin as [Hin _].
    destruct (ch0_plain t Hwf _ Hin) as [_ H]. congruence.
  Qed.

  Definition lc_call (w : world) : call := snapshot w [s_LastChange].

  Theorem step_wf_doc w t :
    wf_tree t = true -> NoDup (dkeys (w_vals w)) -> conv_safe_tree (w_vals w) t ->
    let w1 := {| w_vals := vals_after t (w_vals w); w_lc := LCDoc t; w_log := [] |} in
    step conv parse w (EDoc t) =
    if touched t then
      ROk (set_log w1 [snapshot w1 (changed_of t (w_vals w)); lc_call w1])
    else
      ROk {| w_vals := w_vals w; w_lc := LCDoc t; w_log := [lc_call w] |}.
  Proof.
    intros Hwf Hnd Hsafe w1. unfold step, on_event_body.
    cbn [expand_loop]. rewrite str_eqb_refl. unfold handle_lc. cbn [w_lc set_lc lc_of_event].
    unfold with_parsed. rewrite (handle_tree t Hwf). destruct (touched t).
    - cbn [notify]. unfold notify_body at 1.
      fold (ch0_of t).
      rewrite apply_plain;
        [|apply ch0_nodup|now apply ch0_plain|exact Hnd|now apply conv_safe_ch0].
      cbn [app w_vals set_lc set_log set_vals w_lc w_log].
      unfold on_event_body. rewrite expand_loop_plain by (now apply changed_no_lc).
      reflexivity.
    - reflexivity.
  Qed.

  Theorem step_empty w :
    step conv parse w (ERaw []) =
    ROk {| w_vals := w_vals w; w_lc := LCText []; w_log := [lc_call w] |}.
  Proof. reflexivity. Qed.
End Notify.
