(* C19 — the clauses of Spec.v hold of every run of the model: step level (closed forms of
   Notify.v / Total.v turned into the executable booleans) and table level (the input record of
   Run.v, which is what the correspondence check evaluates). *)
From Coq Require Import List Bool NArith Arith Lia.
From AUC Require Import Prelude.PyDict Prelude.PyStr C19.Model C19.Spec C19.Handler C19.Notify C19.Total C19.Run.
Import ListNotations.

Lemma combine_map_fst (A B : Type) (g : str * A -> B) (l : list (str * A)) :
  combine (map fst l) (map g l) = map (fun x => (fst x, g x)) l.
Proof. induction l as [|x l IH]; cbn; [reflexivity | now rewrite IH]. Qed.

Definition obs_vals (vals : dict str vstate) : list oval := map (fun nv => to_obs (snd nv)) vals.

Section Clauses.
  Variable conv : str -> str -> outcome.
  Variable parse : str -> parsed.
  Hypothesis conv_total : forall n v c, conv n v <> ORaise c.

  Lemma untouched_given t : touched t = false -> given t = [].
  Proof.
    unfold touched, given. induction (t_insts t) as [|i r IH]; [reflexivity|].
    cbn. rewrite orb_false_iff. intros [Hi Hr]. rewrite (IH Hr), app_nil_r.
    destruct (is_inst0 i); [|reflexivity]. cbn in Hi.
    induction (ie_vars i) as [|v l IHl]; [reflexivity|].
    cbn in Hi. apply orb_false_iff in Hi as [Hv Hl]. cbn. rewrite (IHl Hl), app_nil_r.
    unfold given_var, has_val in *. destruct (ve_val v); [discriminate | reflexivity].
  Qed.
  Lemma no_inst0_untouched t : has_inst0 t = false -> touched t = false.
  Proof.
    unfold has_inst0, touched. induction (t_insts t) as [|i r IH]; [reflexivity|].
    cbn. rewrite !orb_false_iff. intros [Hi Hr]. rewrite Hi. cbn. auto.
  Qed.
  Lemma vals_after_untouched t vals : touched t = false -> vals_after conv t vals = vals.
  Proof.
    intros H. unfold vals_after, ch0_of. rewrite (untouched_given t H). cbn.
    rewrite <- (map_id vals) at 2. apply map_ext. intros [n b]. reflexivity.
  Qed.

  Lemma upd_expected t n b :
    to_obs (upd conv (ch0_of t) n b) = expected_val conv t n (to_obs b).
  Proof.
    unfold upd, expected_val. rewrite ch0_get. destruct (last_given t n); [apply to_obs_after | reflexivity].
  Qed.

  (* clause 2 on the closed form *)
  Lemma values_exact_ok t vals r w1 :
    w_vals w1 = vals_after conv t vals ->
    values_exact conv (dkeys vals) t (obs_vals vals) (obs_world r w1) = true.
  Proof.
    intros Hw. unfold values_exact, obs_world, expected_vals, obs_vals, dkeys. cbn [o_vals]. rewrite Hw.
    unfold vals_after. rewrite combine_map_fst, !map_map. cbn [fst snd].
    match goal with |- list_eqb _ (map ?F _) (map ?G _) = true => rewrite (map_ext F G) end.
    - apply list_eqb_refl. apply oval_eqb_refl.
    - intros [n b]. cbn. apply upd_expected.
  Qed.

  Lemma carried_ch0 t k : carried conv (ch0_of t) k = carriedb conv t k.
  Proof. unfold carried, carriedb. now rewrite ch0_get. Qed.

  Lemma obs_of_val_of w n :
    obs_of w n = val_of (dkeys (w_vals w)) (obs_vals (w_vals w)) n.
  Proof.
    unfold obs_of, val_of, obs_vals, dkeys. rewrite combine_map_fst.
    rewrite (dget_map_vals _ _ (fun _ b => to_obs b)). destruct (sget (w_vals w) n); reflexivity.
  Qed.

  Lemma lc_call_ok w :
    ~ In s_LastChange (dkeys (w_vals w)) -> is_lc_call (lc_call w) = true.
  Proof.
    intros H. unfold lc_call, snapshot, is_lc_call, obs_of. cbn [map].
    apply (dget_None_notin str_eqb sspec) in H. rewrite H. apply str_eqb_refl.
  Qed.

  Lemma snapshot_not_lc w l : ~ In s_LastChange l -> is_lc_call (snapshot w l) = false.
  Proof.
    intros H. destruct l as [|n [|m r]]; cbn; [reflexivity| |destruct (obs_of w n); reflexivity].
    destruct (obs_of w n); [reflexivity|]. apply str_neq_eqb. intros ->. apply H. now left.
  Qed.

  Lemma forallb_true_intro (A : Type) (f : A -> bool) l : (forall x, In x l -> f x = true) -> forallb f l = true.
  Proof. intros H. now apply forallb_forall. Qed.

  (* clause 3, the carried-variables callback *)
  Lemma callback_ok_holds t vals w1 :
    NoDup (dkeys vals) -> w_vals w1 = vals_after conv t vals ->
    callback_ok conv (dkeys vals) t (obs_vals (w_vals w1)) (snapshot w1 (changed_of conv t vals)) = true.
  Proof.
    intros Hnd Hw. unfold callback_ok, snapshot. rewrite map_map. cbn [fst]. rewrite map_id.
    rewrite !andb_true_iff. split; [split|].
    - unfold same_set. rewrite andb_true_iff. split; apply forallb_true_intro; intros n Hin; apply mem_true_iff.
      + unfold changed_of in Hin. apply filter_In in Hin as [_ Hc]. apply andb_true_iff in Hc as [Hh Hc].
        unfold expected_names. apply filter_In. split; [now apply dhas_true_iff | now rewrite <- carried_ch0].
      + unfold expected_names in Hin. apply filter_In in Hin as [Hk Hc].
        unfold changed_of. apply filter_In. split.
        * unfold carriedb in Hc. rewrite <- ch0_get in Hc. destruct (sget (ch0_of t) n) eqn:E; [|discriminate].
          eapply (dget_Some_in str_eqb sspec); eauto.
        * apply andb_true_iff. split; [now apply dhas_true_iff | now rewrite carried_ch0].
    - apply nodupb_true. unfold changed_of. apply NoDup_filter. apply ch0_nodup.
    - apply forallb_true_intro. intros [n v] Hin. cbn [fst snd]. apply in_map_iff in Hin as [n' [Heq _]].
      inversion Heq; subst. rewrite obs_of_val_of.
      replace (dkeys (w_vals w1)) with (dkeys vals); [apply oval_eqb_refl|].
      rewrite Hw. unfold vals_after. now rewrite dkeys_map_vals.
  Qed.

  Lemma conv_safe_any vals t : conv_safe_tree conv vals t.
  Proof. intros n x c _ _. apply conv_total. Qed.

  (* all clauses of one well-formed document event *)
  Theorem doc_step_clauses w t :
    wf_tree t = true -> NoDup (dkeys (w_vals w)) -> ~ In s_LastChange (dkeys (w_vals w)) ->
    exists w', step conv parse w (EDoc t) = ROk w' /\
               dkeys (w_vals w') = dkeys (w_vals w) /\
               step_clauses conv (dkeys (w_vals w)) (obs_vals (w_vals w)) (EDoc t) (obs_res (ROk w')) = [].
  Proof.
    intros Hwf Hnd Hlc. pose proof (step_wf_doc conv parse w t Hwf Hnd (conv_safe_any _ t)) as Hs.
    cbn zeta in Hs. unfold step_clauses. rewrite Hwf.
    assert (Hkeys : dkeys (vals_after conv t (w_vals w)) = dkeys (w_vals w)).
    { unfold vals_after. now rewrite dkeys_map_vals. }
    destruct (touched t) eqn:Et.
    - eexists. split; [exact Hs|].
      set (w1 := {| w_vals := vals_after conv t (w_vals w); w_lc := LCDoc t; w_log := [] |}) in *.
      set (w2 := set_log w1 _).
      assert (Hv2 : w_vals w2 = vals_after conv t (w_vals w)) by reflexivity.
      split; [rewrite Hv2; exact Hkeys|].
      cbn [obs_res]. unfold no_raise. cbn [flag app o_raised obs_world].
      rewrite (values_exact_ok t (w_vals w) None w2 Hv2). cbn [flag app].
      unfold one_more_callback.
      change (o_calls (obs_world None w2)) with [snapshot w1 (changed_of conv t (w_vals w)); lc_call w1].
      cbn [remove_lc]. rewrite snapshot_not_lc by (now apply changed_no_lc).
      rewrite lc_call_ok by (cbn [w_vals w1]; rewrite Hkeys; exact Hlc).
      change (o_vals (obs_world None w2)) with (obs_vals (w_vals w1)).
      rewrite (callback_ok_holds t (w_vals w) w1 Hnd eq_refl). cbn [flag app].
      destruct (has_inst0 t) eqn:E0; [reflexivity|]. apply no_inst0_untouched in E0. congruence.
    - eexists. split; [exact Hs|]. cbn [w_vals]. split; [reflexivity|].
      set (w2 := {| w_vals := w_vals w; w_lc := LCDoc t; w_log := [lc_call w] |}).
      assert (Hv2 : w_vals w2 = vals_after conv t (w_vals w)) by (symmetry; now apply vals_after_untouched).
      cbn [obs_res]. unfold no_raise. cbn [flag app o_raised obs_world].
      rewrite (values_exact_ok t (w_vals w) None w2 Hv2). cbn [flag app].
      unfold one_more_callback. change (o_calls (obs_world None w2)) with [lc_call w]. cbn [remove_lc].
      rewrite lc_call_ok by exact Hlc.
      assert (He : expected_names conv (dkeys (w_vals w)) t = []).
      { unfold expected_names, carriedb, last_given. rewrite (untouched_given t Et). cbn.
        clear. generalize (dkeys (w_vals w)). intros l. induction l as [|a l IHl]; [reflexivity | exact IHl]. }
      rewrite He. cbn [flag app].
      destruct (has_inst0 t); [reflexivity|].
      unfold nothing_changes. change (o_calls (obs_world None w2)) with [lc_call w]. cbv beta iota.
      change (o_vals (obs_world None w2)) with (obs_vals (w_vals w)).
      rewrite (list_eqb_refl _ oval_eqb oval_eqb_refl).
      rewrite lc_call_ok by exact Hlc. reflexivity.
  Qed.

  Theorem empty_step_clauses w :
    ~ In s_LastChange (dkeys (w_vals w)) ->
    exists w', step conv parse w (ERaw []) = ROk w' /\
               dkeys (w_vals w') = dkeys (w_vals w) /\
               step_clauses conv (dkeys (w_vals w)) (obs_vals (w_vals w)) (ERaw []) (obs_res (ROk w')) = [].
  Proof.
    intros Hlc. eexists. split; [apply step_empty|]. cbn [w_vals]. split; [reflexivity|].
    set (w2 := {| w_vals := w_vals w; w_lc := LCText []; w_log := [lc_call w] |}).
    unfold step_clauses, no_raise, nothing_changes. cbn [obs_res obs_world o_raised flag app].
    change (o_calls (obs_world None w2)) with [lc_call w]. cbv beta iota.
    change (o_vals (obs_world None w2)) with (obs_vals (w_vals w)).
    rewrite (list_eqb_refl _ oval_eqb oval_eqb_refl).
    rewrite lc_call_ok by exact Hlc. reflexivity.
  Qed.

  Hypothesis parse_total : forall t c, parse t <> PRaise c.
  Hypothesis parse_shrinks :
    forall t evs n v c, parse t = PEvents evs -> In (SStart n (Some v) c) evs -> length v < length t.

  (* every clause, every step, every history *)
  Theorem run_clauses_hold evs : forall w k,
    NoDup (dkeys (w_vals w)) -> ~ In s_LastChange (dkeys (w_vals w)) ->
    run_clauses conv (dkeys (w_vals w)) k (obs_vals (w_vals w)) evs (run conv parse w evs) = [].
  Proof.
    induction evs as [|e r IH]; intros w k Hnd Hlc; [reflexivity|].
    cbn [run run_clauses].
    assert (Hstep : exists w', step conv parse w e = ROk w' /\ dkeys (w_vals w') = dkeys (w_vals w) /\
              step_clauses conv (dkeys (w_vals w)) (obs_vals (w_vals w)) e (obs_res (ROk w')) = []).
    { destruct e as [t|text].
      - destruct (wf_tree t) eqn:Ewf; [now apply doc_step_clauses|].
        destruct (step_total conv parse conv_total parse_total parse_shrinks w (EDoc t)) as (w' & Hs & Hk).
        exists w'. split; [exact Hs|]. split; [exact Hk|]. unfold step_clauses. rewrite Ewf. reflexivity.
      - destruct text as [|c s]; [now apply empty_step_clauses|].
        destruct (step_total conv parse conv_total parse_total parse_shrinks w (ERaw (c :: s))) as (w' & Hs & Hk).
        exists w'. split; [exact Hs|]. split; [exact Hk|]. reflexivity. }
    destruct Hstep as (w' & Hs & Hk & Hc). rewrite Hs, Hc. cbn [map app res_world].
    change (o_vals (obs_res (ROk w'))) with (obs_vals (w_vals w')).
    rewrite <- Hk. apply IH; rewrite Hk; assumption.
  Qed.
End Clauses.

(* ------------------------------------------------------------------------------------------ *)
(* Table level. *)
Lemma pair_eqb_spec a b : reflect (a = b) (pair_eqb a b).
Proof.
  destruct a as [a1 a2], b as [b1 b2]. unfold pair_eqb. cbn.
  destruct (sspec a1 b1) as [->|H1]; cbn.
  - destruct (sspec a2 b2) as [->|H2]; constructor; congruence.
  - constructor; congruence.
Qed.

Lemma conv_of_total tbl :
  forallb (fun kv => outcome_total (snd kv)) tbl = true -> forall n v c, conv_of tbl n v <> ORaise c.
Proof.
  intros H n v c. unfold conv_of. destruct (dget pair_eqb tbl (n, v)) as [o|] eqn:E; [|discriminate].
  apply (dget_In pair_eqb pair_eqb_spec) in E. rewrite forallb_forall in H. specialize (H _ E). cbn in H.
  intros ->. discriminate.
Qed.

Lemma vals_shorter_spec n evs name v c :
  vals_shorter n evs = true -> In (SStart name (Some v) c) evs -> length v < n.
Proof.
  induction evs as [|e r IH]; [intros _ []|]. intros H [->|Hin].
  - cbn in H. apply andb_true_iff in H as [H _]. now apply Nat.ltb_lt.
  - apply IH; [|exact Hin]. destruct e as [? [?|] ?|?]; cbn in H; [|exact H|exact H].
    now apply andb_true_iff in H as [_ H].
Qed.

Lemma parse_of_ok tbl :
  forallb (fun kv => parsed_ok (fst kv) (snd kv)) tbl = true ->
  (forall t c, parse_of tbl t <> PRaise c) /\
  (forall t evs n v c, parse_of tbl t = PEvents evs -> In (SStart n (Some v) c) evs -> length v < length t).
Proof.
  intros H. rewrite forallb_forall in H.
  assert (Hent : forall t p, dget str_eqb tbl t = Some p -> parsed_ok t p = true).
  { intros t p E. apply (dget_In str_eqb sspec) in E. exact (H _ E). }
  split.
  - intros t c. unfold parse_of. destruct (dget str_eqb tbl t) as [p|] eqn:E; [|discriminate].
    specialize (Hent _ _ E). intros ->. discriminate.
  - intros t evs n v c. unfold parse_of. destruct (dget str_eqb tbl t) as [p|] eqn:E.
    + specialize (Hent _ _ E). intros ->. cbn in Hent. now apply vals_shorter_spec.
    + intros Hp. inversion Hp; subst. intros [].
Qed.

Lemma dkeys_world0 vars : dkeys (w_vals (world0 vars)) = vars.
Proof. unfold world0, dkeys. cbn. rewrite map_map. cbn. apply map_id. Qed.
Lemma obs_vals_world0 vars : obs_vals (w_vals (world0 vars)) = map (fun _ => None) vars.
Proof. unfold world0, obs_vals. cbn. rewrite map_map. reflexivity. Qed.

Theorem spec_holds (i : input) :
  in_domain i = true -> oracle_ok i = true -> spec_failures i (model_run i) = [].
Proof.
  unfold in_domain, oracle_ok. rewrite !andb_true_iff. intros [[[Hnd Hlc] _] _] [Hconv Hparse].
  destruct (parse_of_ok _ Hparse) as [Hpt Hps].
  unfold spec_failures, model_run.
  rewrite <- (obs_vals_world0 (in_vars i)). rewrite <- (dkeys_world0 (in_vars i)) at 1.
  apply run_clauses_hold; try assumption.
  - now apply conv_of_total.
  - rewrite dkeys_world0. now apply nodupb_NoDup.
  - rewrite dkeys_world0. intros Hin. apply mem_true_iff in Hin. apply negb_true_iff in Hlc. congruence.
Qed.
