(* C19 — the content handler folded over the SAX stream of a well-formed tree. *)
From Coq Require Import List Bool NArith Arith Lia.
From AUC Require Import Prelude.PyDict Prelude.PyStr C19.Model C19.Spec.
Import ListNotations.

Notation sspec := str_eqb_spec.

Lemma str_eqb_refl s : str_eqb s s = true.
Proof. destruct (sspec s s); congruence. Qed.
Lemma str_eqb_eq a b : str_eqb a b = true -> a = b.
Proof. destruct (sspec a b); congruence. Qed.
Lemma str_eqb_neq a b : str_eqb a b = false -> a <> b.
Proof. destruct (sspec a b); congruence. Qed.
Lemma str_neq_eqb a b : a <> b -> str_eqb a b = false.
Proof. destruct (sspec a b); congruence. Qed.

(* ---- prefixes ---- *)
Lemma after_char_none c s : has_char c s = false -> after_char c s = None.
Proof.
  unfold has_char. induction s as [|x r IH]; cbn; [reflexivity|].
  rewrite orb_false_iff. intros [H1 H2]. rewrite N.eqb_sym, H1. auto.
Qed.
Lemma after_char_app c p n : has_char c p = false -> after_char c (p ++ c :: n) = Some n.
Proof.
  unfold has_char. induction p as [|x r IH]; cbn.
  - now rewrite N.eqb_refl.
  - rewrite orb_false_iff. intros [H1 H2]. rewrite N.eqb_sym, H1. auto.
Qed.
Lemma strip_qname p n :
  prefix_ok p = true -> has_char c_colon n = false -> strip_prefix (qname p n) = n.
Proof.
  unfold strip_prefix, qname, prefix_ok. destruct p as [p|]; intros Hp Hn.
  - apply negb_true_iff in Hp. now rewrite after_char_app.
  - now rewrite after_char_none.
Qed.
Lemma colon_free_InstanceID : has_char c_colon s_InstanceID = false.
Proof. reflexivity. Qed.

(* ---- the view of changes["0"] ---- *)
Definition view (ch : changes_t) : option (dict str str) := dget str_eqb ch s_0.

Lemma view_ensure_0 ch : view (ensure ch s_0) = Some (inner_of ch s_0).
Proof.
  unfold view, ensure, inner_of, dhas. destruct (dget str_eqb ch s_0) eqn:E; [exact E|].
  rewrite (dget_dset str_eqb sspec). now rewrite str_eqb_refl.
Qed.
Lemma view_ensure_other ch k : k <> s_0 -> view (ensure ch k) = view ch.
Proof.
  intros Hk. unfold view, ensure. destruct (dhas str_eqb ch k); [reflexivity|].
  rewrite (dget_dset str_eqb sspec). now rewrite str_neq_eqb.
Qed.
Lemma inner_ensure ch k : inner_of (ensure ch k) k = inner_of ch k.
Proof.
  unfold ensure, inner_of, dhas. destruct (dget str_eqb ch k) eqn:E; [now rewrite E|].
  rewrite (dget_dset str_eqb sspec). now rewrite str_eqb_refl.
Qed.
Lemma view_dset_0 ch d : view (dset str_eqb ch s_0 d) = Some d.
Proof. unfold view. rewrite (dget_dset str_eqb sspec). now rewrite str_eqb_refl. Qed.
Lemma view_dset_other ch k d : k <> s_0 -> view (dset str_eqb ch k d) = view ch.
Proof. intros Hk. unfold view. rewrite (dget_dset str_eqb sspec). now rewrite str_neq_eqb. Qed.

(* what one variable element does to changes["0"] when it sits in instance 0 *)
Definition view_var (vw : option (dict str str)) (v : var_el) : option (dict str str) :=
  match ve_val v with
  | None => vw
  | Some x =>
      let d := match vw with Some d => d | None => [] end in
      Some (if master v then dset str_eqb d (ve_name v) x else d)
  end.

Lemma wf_var_facts v :
  wf_var v = true ->
  prefix_ok (ve_prefix v) = true /\ has_char c_colon (ve_name v) = false /\
  has_char c_rbrace (ve_name v) = false /\ ve_name v <> s_InstanceID /\ ve_name v <> s_LastChange.
Proof.
  unfold wf_var. rewrite !andb_true_iff, !negb_true_iff. intros [[[[[H1 H2] H3] H4] H5] _].
  repeat split; auto using str_eqb_neq.
Qed.

Lemma feed_var h k v :
  wf_var v = true -> h_cur h = Some k -> k <> [] ->
  let h' := fold_left feed (sax_of_var v) h in
  h_cur h' = Some k /\
  view (h_changes h') = if str_eqb k s_0 then view_var (view (h_changes h)) v else view (h_changes h).
Proof.
  intros Hwf Hcur Hk. apply wf_var_facts in Hwf as (Hp & Hc & _ & Hi & _).
  unfold sax_of_var. cbn [fold_left feed]. unfold end_element, start_element.
  rewrite (strip_qname _ _ Hp Hc). rewrite (str_neq_eqb _ _ Hi). unfold view_var, master.
  destruct (ve_val v) as [x|].
  - rewrite Hcur. assert (Hco : cur_or_0 (Some k) = k) by (destruct k; [congruence | reflexivity]).
    rewrite Hco. destruct (chan_ok (ve_chan v)); cbn [h_changes h_cur]; (split; [reflexivity|]).
    + destruct (sspec k s_0) as [->|Hne].
      * rewrite view_dset_0, inner_ensure. unfold inner_of, view.
        destruct (dget str_eqb (h_changes h) s_0); reflexivity.
      * rewrite view_dset_other by exact Hne. now apply view_ensure_other.
    + destruct (sspec k s_0) as [->|Hne].
      * rewrite view_ensure_0. unfold inner_of, view.
        destruct (dget str_eqb (h_changes h) s_0); reflexivity.
      * now apply view_ensure_other.
  - split; [exact Hcur|]. destruct (str_eqb k s_0); reflexivity.
Qed.

Lemma feed_vars vars : forall h k,
  forallb wf_var vars = true -> h_cur h = Some k -> k <> [] ->
  let h' := fold_left feed (flat_map sax_of_var vars) h in
  h_cur h' = Some k /\
  view (h_changes h') =
    if str_eqb k s_0 then fold_left view_var vars (view (h_changes h)) else view (h_changes h).
Proof.
  induction vars as [|v r IH]; intros h k Hwf Hcur Hk.
  - cbn. split; [exact Hcur|]. destruct (str_eqb k s_0); reflexivity.
  - cbn [forallb] in Hwf. apply andb_true_iff in Hwf as [Hv Hr].
    cbn [flat_map]. rewrite fold_left_app.
    destruct (feed_var h k v Hv Hcur Hk) as [Hc1 Hv1].
    destruct (IH (fold_left feed (sax_of_var v) h) k Hr Hc1 Hk) as [Hc2 Hv2].
    split; [exact Hc2|]. rewrite Hv2, Hv1. cbn [fold_left].
    destruct (str_eqb k s_0); reflexivity.
Qed.

Lemma wf_inst_facts i :
  wf_inst i = true ->
  prefix_ok (ie_prefix i) = true /\ (exists k, ie_val i = Some k /\ k <> []) /\
  forallb wf_var (ie_vars i) = true.
Proof.
  unfold wf_inst. rewrite !andb_true_iff. intros [[H1 H2] H3]. repeat split; auto.
  destruct (ie_val i) as [k|]; [|discriminate]. exists k. split; [reflexivity|].
  intros ->. discriminate.
Qed.

Lemma feed_inst h i :
  wf_inst i = true ->
  let h' := fold_left feed (sax_of_inst i) h in
  h_cur h' = None /\
  view (h_changes h') =
    if is_inst0 i then fold_left view_var (ie_vars i) (view (h_changes h)) else view (h_changes h).
Proof.
  intros Hwf. apply wf_inst_facts in Hwf as (Hp & (k & Hk & Hne) & Hvars).
  unfold sax_of_inst. cbn [fold_left]. rewrite fold_left_app.
  set (h1 := feed h _).
  assert (H1 : h_cur h1 = Some k /\ h_changes h1 = h_changes h).
  { unfold h1. cbn. unfold start_element. rewrite Hk.
    rewrite (strip_qname _ _ Hp colon_free_InstanceID), str_eqb_refl. cbn. split; reflexivity. }
  destruct H1 as [Hc1 Hch1].
  destruct (feed_vars (ie_vars i) h1 k Hvars Hc1 Hne) as [Hc2 Hv2].
  set (h2 := fold_left feed (flat_map sax_of_var (ie_vars i)) h1) in *.
  cbn [fold_left feed]. unfold end_element.
  rewrite (strip_qname _ _ Hp colon_free_InstanceID), str_eqb_refl. cbn [h_cur h_changes].
  split; [reflexivity|]. rewrite Hv2, Hch1. unfold is_inst0. now rewrite Hk.
Qed.

Definition inst_step (vw : option (dict str str)) (i : inst_el) : option (dict str str) :=
  if is_inst0 i then fold_left view_var (ie_vars i) vw else vw.

Lemma feed_insts insts : forall h,
  forallb wf_inst insts = true ->
  view (h_changes (fold_left feed (flat_map sax_of_inst insts) h)) =
  fold_left inst_step insts (view (h_changes h)).
Proof.
  induction insts as [|i r IH]; intros h Hwf; [reflexivity|].
  cbn [forallb] in Hwf. apply andb_true_iff in Hwf as [Hi Hr].
  cbn [flat_map]. rewrite fold_left_app, IH by exact Hr.
  destruct (feed_inst h i Hi) as [_ Hv]. cbn [fold_left]. now rewrite Hv.
Qed.

(* ---- from the fold to `given` ---- *)

Lemma dmerge_app (a : dict str str) b c :
  dmerge str_eqb a (b ++ c) = dmerge str_eqb (dmerge str_eqb a b) c.
Proof. unfold dmerge. now rewrite fold_left_app. Qed.

Lemma view_vars_some vars : forall d,
  fold_left view_var vars (Some d) = Some (dmerge str_eqb d (flat_map given_var vars)).
Proof.
  induction vars as [|v r IH]; intros d; [reflexivity|].
  cbn [fold_left flat_map]. rewrite dmerge_app. unfold view_var at 2, given_var at 1.
  destruct (ve_val v) as [x|]; [|apply IH].
  destruct (master v); rewrite IH; reflexivity.
Qed.
Lemma view_vars_none vars :
  fold_left view_var vars None =
  if existsb has_val vars then Some (dmerge str_eqb [] (flat_map given_var vars)) else None.
Proof.
  induction vars as [|v r IH]; [reflexivity|].
  cbn [fold_left flat_map existsb]. unfold view_var at 2, has_val at 1, given_var at 1.
  destruct (ve_val v) as [x|]; cbn [orb]; [|exact IH].
  rewrite view_vars_some, dmerge_app. destruct (master v); reflexivity.
Qed.

Definition given_insts (insts : list inst_el) : list (str * str) :=
  flat_map (fun i => if is_inst0 i then flat_map given_var (ie_vars i) else []) insts.

Lemma inst_fold_some insts : forall d,
  fold_left inst_step insts (Some d) = Some (dmerge str_eqb d (given_insts insts)).
Proof.
  induction insts as [|i r IH]; intros d; [reflexivity|].
  cbn [fold_left]. unfold given_insts. cbn [flat_map]. rewrite dmerge_app. unfold inst_step at 2.
  destruct (is_inst0 i).
  - rewrite view_vars_some. apply IH.
  - apply IH.
Qed.
Lemma inst_fold_none insts :
  fold_left inst_step insts None =
  if existsb (fun i => is_inst0 i && existsb has_val (ie_vars i)) insts
  then Some (dmerge str_eqb [] (given_insts insts)) else None.
Proof.
  induction insts as [|i r IH]; [reflexivity|].
  cbn [fold_left existsb]. unfold given_insts. cbn [flat_map]. unfold inst_step at 2.
  destruct (is_inst0 i); cbn [andb orb]; [|exact IH].
  rewrite view_vars_none. destruct (existsb has_val (ie_vars i)) eqn:E; cbn [orb].
  - rewrite inst_fold_some, dmerge_app. reflexivity.
  - assert (Hg : flat_map given_var (ie_vars i) = []).
    { clear -E. induction (ie_vars i) as [|v l IHl]; [reflexivity|].
      cbn in E. apply orb_false_iff in E as [E1 E2]. cbn. rewrite (IHl E2).
      unfold given_var, has_val in *. destruct (ve_val v); [discriminate | reflexivity]. }
    rewrite Hg. exact IH.
Qed.

(* changes["0"] after parsing the rendering of a well-formed tree *)
Theorem handle_tree t :
  wf_tree t = true ->
  dget str_eqb (handle_events (sax_of_tree t)) s_0 =
  if touched t then Some (dmerge str_eqb [] (given t)) else None.
Proof.
  unfold wf_tree. rewrite andb_true_iff. intros [Hroot Hinsts].
  destruct (t_root_val t) eqn:Erv; [discriminate|].
  unfold handle_events, sax_of_tree. rewrite Erv. cbn [fold_left feed start_element].
  rewrite fold_left_app. cbn [fold_left feed].
  assert (Hend : forall h, h_changes (end_element h (t_root t)) = h_changes h).
  { intros h. unfold end_element. destruct (str_eqb _ _); reflexivity. }
  rewrite Hend. change (dget str_eqb ?c s_0) with (view c).
  rewrite feed_insts by exact Hinsts. cbn. apply inst_fold_none.
Qed.
