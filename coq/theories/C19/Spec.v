(* C19 — the property restated over the document tree, with every interpretive decision
   ("Reading") as a named definition.  Executable booleans over (input, observation): the same
   clauses are evaluated on the implementation's observations by Run.report and are what the
   theorems of Properties.v are about. *)
From Coq Require Import List Bool NArith Arith.
From AUC Require Import Prelude.PyDict Prelude.PyStr C19.Model.
Import ListNotations.

(* ------------------------------------------------------------------------------------------ *)
(* Well-formed events (clauses 2-4 speak about these only). *)
Definition has_char (c : N) (s : str) : bool := existsb (N.eqb c) s.
Definition prefix_ok (p : option str) : bool :=
  match p with None => true | Some p => negb (has_char c_colon p) end.

Definition s_LF : str := [76;70]%N.
Definition s_RF : str := [82;70]%N.
(* Reading: the statement's channels are absent, Master, LF, RF (other spellings are not spoken about) *)
Definition chan_in_scope (c : option str) : bool :=
  match c with
  | None => true
  | Some s => str_eqb s s_Master || str_eqb s s_LF || str_eqb s s_RF
  end.
(* Reading: a variable element carries an XML local name (no colon; "}" cannot occur in a name);
   it is not InstanceID, and LastChange never lists itself. *)
Definition wf_var (v : var_el) : bool :=
  prefix_ok (ve_prefix v) && negb (has_char c_colon (ve_name v)) && negb (has_char c_rbrace (ve_name v))
  && negb (str_eqb (ve_name v) s_InstanceID) && negb (str_eqb (ve_name v) s_LastChange)
  && chan_in_scope (ve_chan v).
(* Reading: an InstanceID element's val is a canonical decimal numeral (the type is ui4), so that
   "instance 0" means the same whether ids are compared as strings (the code) or as numbers. *)
Definition is_digit (c : N) : bool := (N.leb 48 c && N.leb c 57)%N.
Definition canonical_num (k : str) : bool :=
  match k with
  | [] => false
  | [c] => is_digit c
  | c :: r => is_digit c && negb (N.eqb c 48%N) && forallb is_digit r
  end.
Definition wf_inst (i : inst_el) : bool :=
  prefix_ok (ie_prefix i)
  && match ie_val i with Some k => canonical_num k | None => false end
  && forallb wf_var (ie_vars i).
Definition wf_tree (t : tree) : bool :=
  match t_root_val t with None => true | Some _ => false end && forallb wf_inst (t_insts t).

(* ------------------------------------------------------------------------------------------ *)
(* What the event names. *)
Definition is_inst0 (i : inst_el) : bool :=
  match ie_val i with Some v => str_eqb v s_0 | None => false end.
Definition has_inst0 (t : tree) : bool := existsb is_inst0 (t_insts t).
(* entries without a channel or with channel Master *)
Definition master (v : var_el) : bool := chan_ok (ve_chan v).
Definition given_var (v : var_el) : list (str * str) :=
  match ve_val v with Some x => if master v then [(ve_name v, x)] else [] | None => [] end.
(* (local name, value) of the master-channel children of instance 0, in document order *)
Definition given (t : tree) : list (str * str) :=
  flat_map (fun i => if is_inst0 i then flat_map given_var (ie_vars i) else []) (t_insts t).
(* the value given for a name: the last one wins *)
Definition last_given (t : tree) (n : str) : option str := dlast str_eqb (given t) n.
(* instance 0 has a child element with a val at all (whatever its channel): the code then goes through the
   normal event path even if nothing is to be carried *)
Definition has_val (v : var_el) : bool := match ve_val v with Some _ => true | None => false end.
Definition touched (t : tree) : bool :=
  existsb (fun i => is_inst0 i && existsb has_val (ie_vars i)) (t_insts t).

Section Spec.
  Variable conv : str -> str -> outcome.
  Variable vars : list str.       (* the service's state variables other than LastChange *)

  (* "updated to the given value through the normal event path": what assigning the text does *)
  Definition outcome_obs (o : outcome) (before : oval) : oval :=
    match o with
    | OSet t r => Some (t, r)
    | OValueError => None
    | OInvalid | ORaise _ => before
    end.
  Definition outcome_carried (o : outcome) : bool :=
    match o with OSet _ _ | OValueError => true | _ => false end.
  (* the same on the stored value (UPNP_VALUE_ERROR reads as None) *)
  Definition assign (n : str) (x : str) (b : vstate) : vstate :=
    match conv n x with
    | OSet t r => VVal t r
    | OValueError => VError
    | OInvalid | ORaise _ => b
    end.

  Definition expected_val (t : tree) (n : str) (before : oval) : oval :=
    match last_given t n with Some x => outcome_obs (conv n x) before | None => before end.
  Definition expected_vals (t : tree) (before : list oval) : list oval :=
    map (fun nb => expected_val t (fst nb) (snd nb)) (combine vars before).
  Definition carriedb (t : tree) (n : str) : bool :=
    match last_given t n with Some x => outcome_carried (conv n x) | None => false end.
  Definition expected_names (t : tree) : list str := filter (carriedb t) vars.

  Definition oval_eqb (a b : oval) : bool :=
    match a, b with
    | None, None => true
    | Some (t, r), Some (t', r') => N.eqb t t' && str_eqb r r'
    | _, _ => false
    end.
  Fixpoint list_eqb {A} (eqb : A -> A -> bool) (a b : list A) : bool :=
    match a, b with
    | [], [] => true
    | x :: a', y :: b' => eqb x y && list_eqb eqb a' b'
    | _, _ => false
    end.
  Definition mem (n : str) (l : list str) : bool := existsb (str_eqb n) l.
  Fixpoint nodupb (l : list str) : bool :=
    match l with [] => true | x :: r => negb (mem x r) && nodupb r end.
  Definition same_set (a b : list str) : bool :=
    forallb (fun n => mem n b) a && forallb (fun n => mem n a) b.

  (* the callback for the LastChange variable itself *)
  Definition is_lc_call (c : call) : bool :=
    match c with [(n, None)] => str_eqb n s_LastChange | _ => false end.
  Definition val_of (after : list oval) (n : str) : oval :=
    match dget str_eqb (combine vars after) n with Some v => v | None => None end.
  (* carrying exactly those variables (as a set, none twice), each with its new value *)
  Definition callback_ok (t : tree) (after : list oval) (c : call) : bool :=
    same_set (map fst c) (expected_names t) && nodupb (map fst c)
    && forallb (fun nv => oval_eqb (snd nv) (val_of after (fst nv))) c.

  (* clause 2 *)
  Definition values_exact (t : tree) (before : list oval) (o : step_obs) : bool :=
    list_eqb oval_eqb (o_vals o) (expected_vals t before).
  (* the calls other than (the first) one for LastChange itself; None if there is none for LastChange *)
  Fixpoint remove_lc (l : list call) : option (list call) :=
    match l with
    | [] => None
    | c :: r => if is_lc_call c then Some r
                else match remove_lc r with Some r' => Some (c :: r') | None => None end
    end.
  (* clause 3: besides the call for LastChange itself (before or after it) exactly one further call.
     Reading: when no variable is to be carried the further callback may be absent. *)
  Definition one_more_callback (t : tree) (o : step_obs) : bool :=
    match remove_lc (o_calls o) with
    | Some [c] => callback_ok t (o_vals o) c
    | Some [] => match expected_names t with [] => true | _ => false end
    | _ => false
    end.
  (* clause 4: nothing changes, nothing further is called *)
  Definition nothing_changes (before : list oval) (o : step_obs) : bool :=
    list_eqb oval_eqb (o_vals o) before
    && match o_calls o with [l] => is_lc_call l | _ => false end.

  Definition no_raise (o : step_obs) : bool :=
    match o_raised o with None => true | Some _ => false end.

  Definition flag (c : N) (b : bool) : list N := if b then [] else [c].
  (* failing clauses of one step *)
  Definition step_clauses (before : list oval) (e : event) (o : step_obs) : list N :=
    flag 1 (no_raise o) ++
    match e with
    | EDoc t =>
        if wf_tree t then
          flag 2 (values_exact t before o) ++ flag 3 (one_more_callback t o) ++
          (if has_inst0 t then [] else flag 4 (nothing_changes before o))
        else []
    | ERaw [] => flag 4 (nothing_changes before o)
    | ERaw _ => []
    end.

  (* (clause, step) pairs that fail; the values observed after a step are the next step's "before" *)
  Fixpoint run_clauses (k : N) (before : list oval) (evs : list event) (obs : list step_obs)
    : list (N * N) :=
    match evs, obs with
    | [], [] => []
    | e :: evs', o :: obs' =>
        map (fun c => (c, k)) (step_clauses before e o) ++ run_clauses (N.succ k) (o_vals o) evs' obs'
    | _, _ => [(1%N, k)]
    end.
End Spec.

(* ------------------------------------------------------------------------------------------ *)
(* "free of DTD declarations": the text does not contain "<!DOCTYPE" (a DTD declaration cannot
   occur outside a document type declaration); event values are strings of Unicode scalar values. *)
Definition s_doctype : str := [60;33;68;79;67;84;89;80;69]%N.
Fixpoint contains (p s : str) : bool :=
  match s with
  | [] => match p with [] => true | _ => false end
  | _ :: r => starts_with p s || contains p r
  end.
Definition scalarb (c : N) : bool := (N.ltb c 55296%N || N.ltb 57343%N c) && N.ltb c 1114112%N.
Definition text_ok (s : str) : bool := negb (contains s_doctype s) && forallb scalarb s.
