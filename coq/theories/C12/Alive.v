(* C12 - no subscription the profile holds ever lapses at the publisher, and no renewal arrives after the publisher has
   expired the subscription (clause 2 of Spec.v), for every schedule of the domain satisfying lapse_premise: automatic
   renewal was requested, no subscribe call / renewal pass waited longer than the tolerance for its responses, and
   every granted timeout exceeds the tolerance plus that longest wait.

   Timing invariant (while no unsubscribe call has started; afterwards the profile holds nothing and the cancelled
   renewal task awaits nothing): every deadline the profile holds is matched by a publisher-side expiry that is not
   earlier, and lies ahead of the current time by a margin that depends on what the renewal task is doing. *)
From Coq Require Import List Bool Arith ZArith Lia.
From AUC Require Import Prelude.PyDict C12.Model C12.Spec C12.Frame C12.InvDef C12.InvStep C12.InvStep2 C12.InvStep3
  C12.Reach C12.StepFrame C12.Yields C12.Clean C12.ReqStatic C12.Wake C12.Fail.
Import ListNotations.
Local Open Scope Z_scope.

(* ---- the kind of a task never changes ------------------------------------------------------------------------------------ *)
Definition KP (s s' : state) : Prop :=
  (ntasks s <= ntasks s')%nat /\ forall t, (t < ntasks s)%nat -> kindof s' t = kindof s t.
Lemma KP_refl s : KP s s. Proof. split; auto. Qed.
Lemma KP_trans a b c : KP a b -> KP b c -> KP a c.
Proof. intros [A1 A2] [B1 B2]. split; [lia|]. intros t Ht. rewrite B2 by lia. now apply A2. Qed.
Lemma KP_same s s' : tasks s' = tasks s -> ntasks s' = ntasks s -> KP s s'.
Proof. intros A B. split; [lia|]. intros t _. now rewrite A. Qed.
Ltac ksame := apply KP_same; autorewrite with fr_tasks fr_ntasks; sproj; reflexivity.
Lemma KP_upd s s' t k : tasks s' = fupd (tasks s) t k -> t_kind k = kindof s t -> ntasks s' = ntasks s -> KP s s'.
Proof.
  intros A B C. split; [lia|]. intros t' _. rewrite A. unfold fupd. destruct (Nat.eqb_spec t t') as [<-|]; [exact B|reflexivity].
Qed.
Lemma KP_set_pc s t p : KP s (set_pc s t p). Proof. eapply KP_upd; reflexivity. Qed.
Lemma KP_finish s t st : KP s (finish s t st).
Proof. destruct (tasks_finish s t st) as [A _]. eapply KP_upd; [exact A|reflexivity|now autorewrite with fr_ntasks]. Qed.
Lemma KP_spawn s kd : KP s (spawn s kd).
Proof. unfold spawn. split; sproj; [lia|]. intros t Ht. now rewrite fupd_neq by lia. Qed.
Lemma KP_spawn_kids c sids : forall s, KP s (fold_left (fun s x => spawn s (KOne c x)) sids s).
Proof. induction sids as [|x l IH]; intros s; cbn [fold_left]; [apply KP_refl|]. eapply KP_trans; [apply KP_spawn|apply IH]. Qed.
Lemma KP_unsub_return s t re : KP s (unsub_return s t re).
Proof. unfold unsub_return. destruct re; apply KP_finish. Qed.
Lemma KP_unsub_gather s t sids re : KP s (unsub_gather s t sids re).
Proof. unfold unsub_gather. destruct sids; [apply KP_unsub_return|]. eapply KP_trans; [apply KP_spawn_kids|apply KP_set_pc]. Qed.
Lemma KP_cancel s t : KP s (cancel s t).
Proof.
  unfold cancel. destruct (t_pc (tasks s t)) as [| ? ? ? r|? ? r|? []| | |r|]; try apply KP_refl;
    try (eapply KP_upd; reflexivity); destruct (q_state (reqs s r)); try (eapply KP_upd; reflexivity); ksame.
Qed.
Lemma KP_await_task s t sids lt re : KP s (await_task s t sids lt re).
Proof.
  unfold await_task. destruct (t_pc (tasks s lt)) as [| | | | | | |[?|e|]];
    try apply KP_finish; try (eapply KP_trans; [|apply KP_unsub_gather]; ksame);
    (eapply KP_trans; [|apply KP_set_pc]); eapply KP_upd; reflexivity.
Qed.
Lemma KP_unsub_services s t re : KP s (unsub_services s t re).
Proof.
  unfold unsub_services. destruct (rtask _) as [lt|].
  - eapply KP_trans; [|apply KP_await_task]. eapply KP_trans; [|apply KP_cancel]. ksame.
  - eapply KP_trans; [|apply KP_unsub_gather]. ksame.
Qed.
Lemma KP_sub_post s t auto now0 : KP s (sub_post s t auto now0).
Proof.
  unfold sub_post. destruct (subs s); [apply KP_finish|]. destruct auto; [|apply KP_finish].
  eapply KP_trans; [|apply KP_finish]. destruct (rtask (forget_cancelled s)); [ksame|].
  eapply KP_trans with (b := spawn (forget_cancelled s) KLoop); [|ksame]. eapply KP_trans; [|apply KP_spawn]. ksame.
Qed.
Lemma KP_pass_scan t pn nf todo : forall s, KP s (ost (pass_scan s t pn nf todo)).
Proof.
  induction todo as [|[x d] r IH]; intros s; cbn [pass_scan]; [apply KP_refl|].
  destruct (d <? pn - TOL)%Z; [apply IH|]. destruct (negb _); [apply KP_refl|].
  destruct (dget _ _ _).
  - cbn [ost]. eapply KP_trans; [|apply KP_set_pc]. ksame.
  - eapply KP_trans; [|apply IH]. ksame.
Qed.
Lemma KP_pass_error s t p e : KP s (ost (pass_error s t p e)).
Proof.
  unfold pass_error. destruct (is_upnp e); [|apply KP_refl]. destruct (p_notify p).
  - eapply KP_trans; [|apply KP_pass_scan]. destruct (is_conn e); ksame.
  - destruct (is_conn e); ksame.
Qed.
Lemma KP_pass_grant s t p x g : KP s (ost (pass_grant s t p x g)).
Proof. unfold pass_grant. eapply KP_trans; [|apply KP_pass_scan]. ksame. Qed.
Lemma KP_pass_resume s t p st rho hdr : KP s (ost (pass_resume s t p st rho hdr)).
Proof.
  unfold pass_resume. cbv zeta. destruct st.
  - destruct rho as [m g| | |].
    + destruct (match hdr with Some y => _ | None => _ end).
      * destruct (dhas _ _ _); [|apply KP_refl]. eapply KP_trans; [|apply KP_pass_grant]. ksame.
      * eapply KP_trans; [|apply KP_pass_grant]. ksame.
    + destruct (dhas _ _ _); [|apply KP_refl]. cbn [ost]. eapply KP_trans; [|apply KP_set_pc]. ksame.
    + destruct (dhas _ _ _); [|apply KP_refl]. eapply KP_trans; [|apply KP_pass_error]. ksame.
    + destruct (dhas _ _ _); [|apply KP_refl]. cbn [ost]. eapply KP_trans; [|apply KP_set_pc]. ksame.
  - destruct rho as [m g| | |]; try apply KP_pass_error.
    destruct hdr; [|apply KP_pass_error]. eapply KP_trans; [|apply KP_pass_grant]. ksame.
Qed.
Lemma KP_run_pass s t : KP s (ost (run_pass s t)).
Proof. unfold run_pass. eapply KP_trans; [|apply KP_pass_scan]. ksame. Qed.
Lemma KP_loop_head fuel : forall s t, KP s (loop_head fuel s t).
Proof.
  induction fuel as [|f IH]; intros s t; cbn [loop_head].
  - destruct (subs s); [apply KP_finish|]. destruct (0 <? _)%Z; [apply KP_set_pc|].
    pose proof (KP_run_pass s t) as R. destruct (run_pass s t) as [s'|s'|s' e]; cbn [ost] in R; auto.
    + destruct (_ <? _)%nat; (eapply KP_trans; [exact R|ksame]).
    + eapply KP_trans; [exact R|apply KP_finish].
  - destruct (subs s); [apply KP_finish|]. destruct (0 <? _)%Z; [apply KP_set_pc|].
    pose proof (KP_run_pass s t) as R. destruct (run_pass s t) as [s'|s'|s' e]; cbn [ost] in R; auto.
    + destruct (_ <? _)%nat; [eapply KP_trans; [exact R|apply IH]|eapply KP_trans; [exact R|ksame]].
    + eapply KP_trans; [exact R|apply KP_finish].
Qed.
Lemma KP_after_loop t o : KP (ost o) (after_pass_loop t o).
Proof. unfold after_pass_loop. destruct o; cbn [ost]; [apply KP_refl|apply KP_loop_head|apply KP_finish]. Qed.
Lemma KP_after_sub t auto now0 o : KP (ost o) (after_pass_sub t auto now0 o).
Proof.
  unfold after_pass_sub. destruct o as [s'|s'|s' e]; cbn [ost]; [apply KP_refl|apply KP_sub_post|].
  destruct (is_upnp e); [apply KP_unsub_services|apply KP_finish].
Qed.
Lemma KP_sub_next s t auto now0 todo : KP s (sub_next s t auto now0 todo).
Proof. unfold sub_next. destruct todo; [apply KP_sub_post|]. eapply KP_trans; [|apply KP_set_pc]. ksame. Qed.
Lemma KP_sub_resume s t auto now0 todo v rho hdr : KP s (sub_resume s t auto now0 todo v rho hdr).
Proof.
  unfold sub_resume. cbv zeta. destruct rho as [m g| | |]; try apply KP_unsub_services.
  destruct hdr; [|apply KP_unsub_services]. eapply KP_trans; [|apply KP_sub_next]. ksame.
Qed.
Lemma KP_start_body s t : KP s (start_body s t).
Proof.
  unfold start_body. destruct (t_kind (tasks s t)).
  - destruct (subs s); [apply KP_sub_next|]. eapply KP_trans; [|apply KP_after_sub]. apply KP_pass_scan.
  - apply KP_unsub_services.
  - apply KP_loop_head.
  - destruct (dget _ _ _); [|apply KP_finish]. cbv zeta. eapply KP_trans; [|apply KP_set_pc]. ksame.
Qed.
Lemma KP_step_task s t : KP s (step_task s t).
Proof.
  unfold step_task.
  destruct (t_pc (tasks s t)) as [|now0 todo v r|p st r|w ws|sids lt re|n re|r|st]; try apply KP_refl.
  - destruct (t_must _); [apply KP_finish|apply KP_start_body].
  - destruct (q_state _); try apply KP_refl; [|apply KP_finish]. destruct (t_must _); [apply KP_finish|].
    destruct (t_kind _); try apply KP_refl. apply KP_sub_resume.
  - destruct (q_state _); try apply KP_refl; [|apply KP_finish]. destruct (t_must _); [apply KP_finish|].
    destruct (t_kind _); (eapply KP_trans; [apply KP_pass_resume|]); try apply KP_after_loop; apply KP_after_sub.
  - destruct ws; try apply KP_refl; [|apply KP_finish]. destruct (t_must _); [apply KP_finish|].
    eapply KP_trans; [apply KP_run_pass|apply KP_after_loop].
  - destruct (is_done _); [apply KP_await_task|apply KP_refl].
  - destruct n; [apply KP_unsub_return|apply KP_refl].
  - destruct (q_state _); try apply KP_refl; [|apply KP_finish]. destruct (t_must _); apply KP_finish.
Qed.
Lemma KP_run_handle s h : KP s (run_handle s h).
Proof.
  unfold run_handle. destruct (diverged s); [apply KP_refl|]. destruct h as [t|t|p].
  - apply KP_step_task.
  - destruct (t_pc _) as [| | |w [| |]| | | |]; try apply KP_refl. eapply KP_upd; reflexivity.
  - destruct (t_pc _) as [| | | | |[|n] re| |]; try apply KP_refl. destruct n; eapply KP_upd; reflexivity.
Qed.

(* ---- every request made during a step of task t is a request of t ----------------------------------------------------------- *)
Definition NQ (t : tid) (s s' : state) : Prop :=
  RS s s' /\ forall r, (nreqs s <= r)%nat -> (r < nreqs s')%nat -> q_task (reqs s' r) = t.
Lemma NQ_refl t s : NQ t s s. Proof. split; [apply RS_refl|intros; lia]. Qed.
Lemma NQ_trans t a b c : NQ t a b -> NQ t b c -> NQ t a c.
Proof.
  intros [A1 A2] [B1 B2]. split; [eapply RS_trans; eauto|]. intros r H1 H2.
  destruct (Nat.lt_ge_cases r (nreqs b)) as [L|L]; [|now apply B2].
  destruct B1 as [_ B1]. specialize (B1 r L). unfold req_static in B1. specialize (A2 r H1 L). congruence.
Qed.
Lemma NQ_of_RS t s s' : RS s s' -> nreqs s' = nreqs s -> NQ t s s'.
Proof. intros A B. split; [exact A|]. intros; lia. Qed.
Ltac nsame := apply NQ_of_RS; [rsame|autorewrite with fr_nreqs; sproj; reflexivity].
Lemma NQ_issue s t kd v x : NQ t s (issue s t kd v x).
Proof. split; [apply RS_issue|]. unfold issue. sproj. intros r H1 H2. assert (r = nreqs s) by lia. subst r. now rewrite fupd_eq. Qed.
Lemma NQ_unsub_services s t re : NQ t s (unsub_services s t re).
Proof. apply NQ_of_RS; [apply RS_unsub_services|now autorewrite with fr_nreqs]. Qed.
Lemma NQ_pass_scan t pn nf todo : forall s, NQ t s (ost (pass_scan s t pn nf todo)).
Proof.
  induction todo as [|[x d] r IH]; intros s; cbn [pass_scan]; [apply NQ_refl|].
  destruct (d <? pn - TOL)%Z; [apply IH|]. destruct (negb _); [apply NQ_refl|].
  destruct (dget _ _ _).
  - cbn [ost]. eapply NQ_trans; [|apply NQ_of_RS; [apply RS_same|]; sproj; reflexivity]. eapply NQ_trans; [|apply NQ_issue]. nsame.
  - eapply NQ_trans; [|apply IH]. nsame.
Qed.
Lemma NQ_pass_error s t p e : NQ t s (ost (pass_error s t p e)).
Proof.
  unfold pass_error. destruct (is_upnp e); [|apply NQ_refl]. destruct (p_notify p).
  - eapply NQ_trans; [|apply NQ_pass_scan]. destruct (is_conn e); nsame.
  - destruct (is_conn e); nsame.
Qed.
Lemma NQ_pass_grant s t p x g : NQ t s (ost (pass_grant s t p x g)).
Proof. unfold pass_grant. eapply NQ_trans; [|apply NQ_pass_scan]. nsame. Qed.
Lemma NQ_set_pc_issue s1 t kd v x p : NQ t s1 (set_pc (issue s1 t kd v x) t p).
Proof. eapply NQ_trans; [apply NQ_issue|]. apply NQ_of_RS; [apply RS_same|]; sproj; reflexivity. Qed.
Lemma NQ_pass_resume s t p st rho hdr : NQ t s (ost (pass_resume s t p st rho hdr)).
Proof.
  unfold pass_resume. cbv zeta. destruct st.
  - destruct rho as [m g| | |].
    + destruct (match hdr with Some y => _ | None => _ end).
      * destruct (dhas _ _ _); [|apply NQ_refl]. eapply NQ_trans; [|apply NQ_pass_grant]. nsame.
      * eapply NQ_trans; [|apply NQ_pass_grant]. nsame.
    + destruct (dhas _ _ _); [|apply NQ_refl]. cbn [ost]. eapply NQ_trans; [|apply NQ_set_pc_issue]. nsame.
    + destruct (dhas _ _ _); [|apply NQ_refl]. eapply NQ_trans; [|apply NQ_pass_error]. nsame.
    + destruct (dhas _ _ _); [|apply NQ_refl]. cbn [ost]. eapply NQ_trans; [|apply NQ_set_pc_issue]. nsame.
  - destruct rho as [m g| | |]; try apply NQ_pass_error.
    destruct hdr; [|apply NQ_pass_error]. eapply NQ_trans; [|apply NQ_pass_grant]. nsame.
Qed.
Lemma NQ_run_pass s t : NQ t s (ost (run_pass s t)).
Proof. unfold run_pass. eapply NQ_trans; [|apply NQ_pass_scan]. nsame. Qed.
Lemma NQ_loop_head fuel : forall s t, NQ t s (loop_head fuel s t).
Proof.
  induction fuel as [|f IH]; intros s t; cbn [loop_head].
  - destruct (subs s); [nsame|]. destruct (0 <? _)%Z; [nsame|].
    pose proof (NQ_run_pass s t) as R. destruct (run_pass s t) as [s'|s'|s' e]; cbn [ost] in R; auto.
    + destruct (_ <? _)%nat; (eapply NQ_trans; [exact R|nsame]).
    + eapply NQ_trans; [exact R|nsame].
  - destruct (subs s); [nsame|]. destruct (0 <? _)%Z; [nsame|].
    pose proof (NQ_run_pass s t) as R. destruct (run_pass s t) as [s'|s'|s' e]; cbn [ost] in R; auto.
    + destruct (_ <? _)%nat; [eapply NQ_trans; [exact R|apply IH]|eapply NQ_trans; [exact R|nsame]].
    + eapply NQ_trans; [exact R|nsame].
Qed.
Lemma NQ_after_loop t o : NQ t (ost o) (after_pass_loop t o).
Proof. unfold after_pass_loop. destruct o; cbn [ost]; [apply NQ_refl|apply NQ_loop_head|nsame]. Qed.
Lemma NQ_after_sub t auto now0 o : NQ t (ost o) (after_pass_sub t auto now0 o).
Proof.
  unfold after_pass_sub. destruct o as [s'|s'|s' e]; cbn [ost]; [apply NQ_refl|nsame|].
  destruct (is_upnp e); [apply NQ_unsub_services|nsame].
Qed.
Lemma NQ_sub_next s t auto now0 todo : NQ t s (sub_next s t auto now0 todo).
Proof. unfold sub_next. destruct todo; [nsame|]. apply NQ_set_pc_issue. Qed.
Lemma NQ_sub_resume s t auto now0 todo v rho hdr : NQ t s (sub_resume s t auto now0 todo v rho hdr).
Proof.
  unfold sub_resume. cbv zeta. destruct rho as [m g| | |]; try apply NQ_unsub_services.
  destruct hdr; [|apply NQ_unsub_services]. eapply NQ_trans; [|apply NQ_sub_next]. nsame.
Qed.
Lemma NQ_start_body s t : NQ t s (start_body s t).
Proof.
  unfold start_body. destruct (t_kind (tasks s t)).
  - destruct (subs s); [apply NQ_sub_next|]. eapply NQ_trans; [|apply NQ_after_sub]. apply NQ_pass_scan.
  - apply NQ_unsub_services.
  - apply NQ_loop_head.
  - destruct (dget _ _ _); [|nsame]. cbv zeta. eapply NQ_trans; [|apply NQ_set_pc_issue]. nsame.
Qed.
Lemma NQ_step_task s t : NQ t s (step_task s t).
Proof.
  unfold step_task.
  destruct (t_pc (tasks s t)) as [|now0 todo v r|p st r|w ws|sids lt re|n re|r|st]; try apply NQ_refl.
  - destruct (t_must _); [nsame|apply NQ_start_body].
  - destruct (q_state _); try apply NQ_refl; [|nsame]. destruct (t_must _); [nsame|].
    destruct (t_kind _); try apply NQ_refl. apply NQ_sub_resume.
  - destruct (q_state _); try apply NQ_refl; [|nsame]. destruct (t_must _); [nsame|].
    destruct (t_kind _); (eapply NQ_trans; [apply NQ_pass_resume|]); try apply NQ_after_loop; apply NQ_after_sub.
  - destruct ws; try apply NQ_refl; [|nsame]. destruct (t_must _); [nsame|].
    eapply NQ_trans; [apply NQ_run_pass|apply NQ_after_loop].
  - destruct (is_done _); [nsame|apply NQ_refl].
  - destruct n; [nsame|apply NQ_refl].
  - destruct (q_state _); try apply NQ_refl; [|nsame]. destruct (t_must _); nsame.
Qed.

(* ---- sorting, looking up, minima ------------------------------------------------------------------------------------------------ *)
Lemma In_insert_by {A} (x e : nat * A) l : In e (insert_by x l) <-> e = x \/ In e l.
Proof.
  induction l as [|y l IH]; cbn; [intuition|]. destruct (fst x <=? fst y)%nat; cbn; [intuition|]. rewrite IH. intuition.
Qed.
Lemma In_sort_by {A} (e : nat * A) l : In e (sort_by l) <-> In e l.
Proof.
  unfold sort_by. induction l as [|y l IH]; cbn [fold_right]; [reflexivity|]. rewrite In_insert_by, IH. cbn. intuition.
Qed.
Lemma lookup_live_in l x e : lookup_live l x = Some e -> In (x, e) l.
Proof.
  induction l as [|[y e'] l IH]; cbn; [discriminate|]. destruct (Nat.eqb_spec x y) as [->|]; [intros E; injection E as ->; now left|].
  intros E. right. now apply IH.
Qed.
Lemma lookup_live_none l x : lookup_live l x = None -> ~ In x (map fst l).
Proof.
  induction l as [|[y e'] l IH]; cbn; [tauto|]. destruct (Nat.eqb_spec x y) as [->|Hne]; [discriminate|].
  intros E [X|X]; [congruence|]. now apply IH.
Qed.

Lemma min_dl_le l : forall x d, In (x, d) l -> min_dl l <= d.
Proof.
  induction l as [|[y e] l IH]; intros x d Hin; [destruct Hin|]. cbn [min_dl]. destruct l as [|p l'].
  - destruct Hin as [E|[]]. injection E as _ <-. lia.
  - destruct Hin as [E|Hin]; [injection E as _ <-; lia|]. specialize (IH x d Hin). lia.
Qed.
Lemma min_dl_in l : l <> [] -> exists x, In (x, min_dl l) l.
Proof.
  induction l as [|[y e] l IH]; intros Hne; [congruence|]. cbn [min_dl]. destruct l as [|p l'].
  - exists y. now left.
  - destruct IH as [x Hx]; [discriminate|]. destruct (Z.min_spec e (min_dl (p :: l'))) as [[_ E]|[_ E]]; rewrite E.
    + exists y. now left.
    + exists x. now right.
Qed.

(* the next timer is not later than any pending timer *)
Lemma next_timer_le s t w : (t < ntasks s)%nat -> timer_of s t = Some w -> exists a, next_timer s = Some a /\ a <= w.
Proof.
  intros Ht Hw. unfold next_timer.
  set (f := fun acc t0 => match timer_of s t0, acc with Some w0, Some a => Some (Z.min a w0) | Some w0, None => Some w0 | None, _ => acc end).
  assert (Mono : forall l acc a, acc = Some a -> exists a', fold_left f l acc = Some a' /\ a' <= a).
  { induction l as [|x l IH]; intros acc a E; cbn [fold_left]; [exists a; split; [exact E|lia]|].
    subst acc. unfold f at 2. destruct (timer_of s x) as [w0|].
    - destruct (IH (Some (Z.min a w0)) (Z.min a w0) eq_refl) as (a' & A & B). exists a'. split; [exact A|lia].
    - apply (IH (Some a) a eq_refl). }
  assert (G : forall l acc, In t l -> exists a, fold_left f l acc = Some a /\ a <= w).
  { induction l as [|x l IH]; intros acc Hin; [destruct Hin|]. cbn [fold_left]. destruct Hin as [->|Hin]; [|now apply IH].
    unfold f at 2. rewrite Hw. destruct acc as [a0|].
    - destruct (Mono l (Some (Z.min a0 w)) (Z.min a0 w) eq_refl) as (a' & A & B). exists a'. split; [exact A|lia].
    - destruct (Mono l (Some w) w eq_refl) as (a' & A & B). exists a'. split; [exact A|lia]. }
  apply G. apply in_seq. lia.
Qed.

Lemma max_age_ge s nw t : (t < ntasks s)%nat -> age_of s nw t <= max_age s nw.
Proof.
  intros Ht. unfold max_age. assert (Hin : In t (seq 0 (ntasks s))) by (apply in_seq; lia).
  induction (seq 0 (ntasks s)) as [|x l IH]; [destruct Hin|]. cbn [fold_right]. destruct Hin as [->|Hin]; [lia|]. specialize (IH Hin). lia.
Qed.
Lemma max_age_nonneg s nw : 0 <= max_age s nw.
Proof. unfold max_age. induction (seq 0 (ntasks s)) as [|x l IH]; cbn [fold_right]; lia. Qed.

(* ---- the timing invariant ----------------------------------------------------------------------------------------------------- *)
(* the publisher holds x and will not expire it before d *)
Definition good_at (s : state) (x : sid) (d : Z) : Prop :=
  match dget Nat.eqb (pub s) x with Some None => True | Some (Some e) => d <= e | None => False end.
(* every deadline the profile holds is at least lo and is covered by the publisher *)
Definition held (s : state) (lo : Z) : Prop := forall x d, In (x, d) (subs s) -> lo <= d /\ good_at s x d.
(* an accepted response that has not been processed yet: the grant is long enough and the publisher covers the new deadline *)
Definition resp_good (M : Z) (s : state) (base : Z) (r : rid) (newsid : option sid -> option sid) : Prop :=
  match q_state (reqs s r) with
  | QDone (RAccept m g) hdr =>
      TOL + M < grant_secs g /\ match newsid hdr with Some y => good_at s y (base + grant_secs g) | None => True end
  | _ => True
  end.
Definition renew_sid (x : sid) (hdr : option sid) : option sid :=
  Some (match hdr with Some y => if Nat.eqb y x then x else y | None => x end).

Definition tm_pass (M : Z) (s : state) (p : pass) (st : stage) (r : rid) : Prop :=
  p_now p <= now s <= p_now p + g_maxdur s /\
  held s (p_now p + TOL) /\
  (forall x d, In (x, d) (subs s) -> ~ In x (map fst (p_todo p)) -> p_now p + TOL + M < d) /\
  (forall x d, In (x, d) (p_todo p) -> p_now p + TOL <= d) /\
  (st = StRenew -> q_sid (reqs s r) = Some (p_sid p) /\ (q_state (reqs s r) = QPending -> good_at s (p_sid p) (p_now p + TOL))) /\
  resp_good M s (p_now p) r (match st with StRenew => renew_sid (p_sid p) | StFallback => fun h => h end).

Definition tm_loop (M : Z) (s : state) (lt : tid) : Prop :=
  match pcof s lt with
  | PStart => held s (now s + TOL + 1)
  | PSleep when _ => subs s <> [] /\ when = min_dl (subs s) - TOL /\ held s (when + TOL) /\ now s <= when
  | PPass p st r => tm_pass M s p st r
  | _ => subs s = []
  end.

Definition tm_norm (M : Z) (s : state) : Prop :=
  match calls s with
  | [] => True
  | c0 :: _ =>
      match pcof s c0 with
      | PSubReq now0 todo v r =>
          now0 <= now s <= now0 + g_maxdur s /\ held s (now0 + TOL + M + 1) /\ resp_good M s now0 r (fun h => h)
      | PDone _ => match rtask s with None => subs s = [] | Some lt => tm_loop M s lt end
      | _ => True
      end
  end.

Record Tinv (M : Z) (s : state) : Prop := mkT {
  tv_pub : NoDup (dkeys (pub s)) /\ forall x, In x (dkeys (pub s)) -> (x < nsid s)%nat;
  tv_lapsed : lapsed s = false;
  tv_gm : 0 <= g_maxdur s;
  tv_kid : forall t r, (t < ntasks s)%nat -> pcof s t = POneReq r -> q_kind (reqs s r) = QUnsub;
  tv_auto : forall c0 a, hd_error (calls s) = Some c0 -> kindof s c0 = KSub a -> a = true;
  tv_sd : ~ normal s -> forall r, (r < nreqs s)%nat -> q_state (reqs s r) = QPending -> q_kind (reqs s r) <> QRenew;
  tv_norm : normal s -> tm_norm M s
}.

Lemma good_at_mono s x d d' : good_at s x d -> d' <= d -> good_at s x d'.
Proof. unfold good_at. destruct (dget _ _ _) as [[e|]|]; auto. lia. Qed.
Lemma held_mono s lo lo' : held s lo -> lo' <= lo -> held s lo'.
Proof. intros H L x d Hin. destruct (H x d Hin). split; [lia|assumption]. Qed.
Lemma held_nil s lo : subs s = [] -> held s lo.
Proof. intros E x d Hin. rewrite E in Hin. destruct Hin. Qed.
Lemma good_at_in s x d : good_at s x d -> In x (dkeys (pub s)).
Proof. unfold good_at. intros G. apply nin_get. destruct (dget _ _ _); [discriminate|contradiction]. Qed.

(* while a subscribe call is still running (or has failed) the profile's bookkeeping is what phase_ok says *)
Lemma sub_phase_subs pend s c0 us :
  Inv pend s -> normal s -> calls s = c0 :: us ->
  match pcof s c0 with PStart | PUnsubGather _ _ => subs s = [] | PSubReq _ _ _ _ | PDone _ => True | _ => False end.
Proof.
  intros H N Ec. assert (Hin : In c0 (calls s)) by (rewrite Ec; now left). pose proof (call_lt _ _ H c0 Hin) as Hlt.
  pose proof (iv_calls _ _ H) as K. unfold calls_ok in K. rewrite Ec in K. destruct K as (K0 & _).
  destruct (kindof s c0) as [a| | |] eqn:Hk; try discriminate.
  pose proof (iv_pc _ _ H c0 Hlt) as Pc0. unfold pc_ok in Pc0. rewrite Hk in Pc0.
  destruct (pcof s c0) eqn:Epc; try exact I; try contradiction.
  - assert (Hnd : ~ donep s c0) by (unfold is_done; now rewrite Epc).
    destruct (live_sub _ _ H c0 a Hlt Hk Hnd) as (_ & Hcur & _).
    pose proof (iv_phase _ _ H) as Ph. unfold phase_ok in Ph. rewrite Ec in Ph. cbv zeta in Ph. rewrite <- Ec, Hcur, Hk, Epc in Ph. tauto.
  - assert (Hnd : ~ donep s c0) by (unfold is_done; now rewrite Epc).
    destruct (live_sub _ _ H c0 a Hlt Hk Hnd) as (_ & Hcur & _).
    pose proof (iv_pc _ _ H c0 Hlt) as Pc. unfold pc_ok in Pc. rewrite Hk, Epc in Pc.
    pose proof (iv_phase _ _ H) as Ph. unfold phase_ok in Ph. rewrite Ec in Ph. cbv zeta in Ph. rewrite <- Ec, Hcur, Hk, Epc in Ph.
    destruct re; [tauto|contradiction].
Qed.

Lemma shutdown_subs pend s : Inv pend s -> ~ normal s -> subs s = [].
Proof.
  intros H N.
  assert (Ex : exists u, In u (tl (calls s)) /\ pcof s u <> PStart).
  { destruct (existsb (fun u => negb (is_pstart (pcof s u))) (tl (calls s))) eqn:E.
    - apply existsb_exists in E. destruct E as (u & Hu & E). exists u. split; [exact Hu|]. intros X. rewrite X in E. discriminate.
    - exfalso. apply N. intros u Hu. destruct (pcof s u) eqn:Ep; try reflexivity;
        (assert (X : existsb (fun u => negb (is_pstart (pcof s u))) (tl (calls s)) = true)
           by (apply existsb_exists; exists u; split; [exact Hu|now rewrite Ep]); congruence). }
  destruct Ex as (u & Hu & Hup).
  pose proof (iv_calls _ _ H) as K. pose proof (iv_phase _ _ H) as Ph. unfold calls_ok, phase_ok in *.
  destruct (calls s) as [|c0 us] eqn:Ec; [destruct Hu|]. cbn [tl] in Hu. cbv zeta in Ph.
  destruct K as (K0 & Kus & Klt & Kd & Knd).
  assert (Hcin : In (cur s) us).
  { unfold cur. rewrite Ec. destruct us as [|u1 us']; [destruct Hu|]. apply (last_in_tail c0 (u1 :: us') 0%nat). discriminate. }
  pose proof (Kus _ Hcin) as Kc. destruct (kindof s (cur s)) eqn:Hkc; try discriminate.
  pose proof (iv_pc _ _ H (cur s) (Klt _ (or_intror Hcin))) as Pc. unfold pc_ok in Pc. rewrite Hkc in Pc.
  destruct (pcof s (cur s)) as [| | | |sids lt [e|]|nl [e|]| |st] eqn:Epc; try contradiction; try tauto.
  assert (Hne : u <> cur s) by (intros ->; contradiction).
  assert (L : (2 < length (c0 :: us))%nat).
  { destruct us as [|u1 [|u2 us']]; cbn; try lia; [destruct Hu|].
    exfalso. unfold cur in *. rewrite Ec in *. cbn in Hne, Hcin. destruct Hu as [->|[]]. now apply Hne. }
  now destruct (Ph L).
Qed.

(* ---- the clause's check of one snapshot follows from the invariant ---------------------------------------------------------- *)
Lemma alive_ok M pend s0 s :
  Inv pend s -> Tinv M s -> g_maxdur s <= M -> M <= TOL -> alive_step (observe s0 s) = true.
Proof.
  intros H T HM HT. unfold alive_step, observe. destruct (diverged s) eqn:D; [reflexivity|].
  cbn [o_div o_lapsed o_subs o_live o_now]. rewrite (tv_lapsed _ _ T). cbn [negb andb].
  apply forallb_forall. intros [x d] Hin. apply (proj1 (In_sort_by _ _)) in Hin.
  assert (G : good_at s x d /\ now s <= d).
  { destruct (normal_dec s) as [N|N]; [|rewrite (shutdown_subs _ _ H N) in Hin; destruct Hin].
    pose proof (tv_norm _ _ T N) as Tn. pose proof (tv_gm _ _ T) as G0. assert (TOL = 60) by reflexivity. unfold tm_norm in Tn.
    destruct (calls s) as [|c0 us] eqn:Ec.
    { pose proof (iv_calls _ _ H) as K. unfold calls_ok in K. rewrite Ec in K. destruct K as (_ & _ & X & _). rewrite X in Hin. destruct Hin. }
    pose proof (sub_phase_subs _ _ c0 us H N Ec) as Sp.
    destruct (pcof s c0) as [|now0 todo v r| | | | | |st] eqn:Epc; try contradiction; try (rewrite Sp in Hin; destruct Hin).
    - destruct Tn as (A & B & _). destruct (B x d Hin). split; [assumption|lia].
    - destruct (rtask s) as [lt|]; [|rewrite Tn in Hin; destruct Hin]. unfold tm_loop in Tn.
      destruct (pcof s lt) as [| |p st' r|w ws| | | |] eqn:Epl; try (rewrite Tn in Hin; destruct Hin).
      + destruct (Tn x d Hin). split; [assumption|lia].
      + destruct Tn as (A & B & _). destruct (B x d Hin). split; [assumption|lia].
      + destruct Tn as (_ & _ & B & C). destruct (B x d Hin). split; [assumption|lia]. }
  destruct G as [G L]. unfold held_alive. cbn [fst o_live o_now]. unfold good_at in G.
  destruct (tv_pub _ _ T) as [ND _].
  destruct (lookup_live (sort_by (pub s)) x) as [e|] eqn:El.
  - apply lookup_live_in in El. apply (proj1 (In_sort_by _ _)) in El. rewrite (nin_dget _ _ _ ND El) in G. destruct e as [e|]; [|reflexivity].
    apply Z.leb_le. lia.
  - apply lookup_live_none in El. exfalso. apply El.
    destruct (dget Nat.eqb (pub s) x) as [e|] eqn:Eg; [|contradiction]. apply ndget_in in Eg.
    apply in_map_iff. exists (x, e). split; [reflexivity|]. now apply (proj2 (In_sort_by _ _)).
Qed.

(* ---- who is waiting for an outstanding request, while no unsubscribe has started ----------------------------------------- *)
Inductive waiter (s : state) (r : rid) : Prop :=
| W_sub c0 us now0 todo v :
    calls s = c0 :: us -> pcof s c0 = PSubReq now0 todo v r -> q_kind (reqs s r) = QSub -> waiter s r
| W_kid c0 us n e :
    calls s = c0 :: us -> pcof s c0 = PUnsubGather n e -> q_kind (reqs s r) = QUnsub -> waiter s r
| W_loop c0 us stt lt p st :
    calls s = c0 :: us -> pcof s c0 = PDone stt -> rtask s = Some lt -> pcof s lt = PPass p st r ->
    q_kind (reqs s r) = (match st with StRenew => QRenew | StFallback => QSub end) -> waiter s r.

Lemma cur_normal pend s c0 us : Inv pend s -> normal s -> calls s = c0 :: us -> ~ donep s (cur s) -> pcof s (cur s) <> PStart -> cur s = c0.
Proof.
  intros H N Ec Hnd Hp. destruct us as [|u us']; [unfold cur; now rewrite Ec|]. exfalso. apply Hp. apply N. rewrite Ec. cbn [tl].
  unfold cur. rewrite Ec. apply (last_in_tail c0 (u :: us') 0%nat). discriminate.
Qed.

Lemma who_waits M pend s r :
  Inv pend s -> Tinv M s -> normal s -> (r < nreqs s)%nat -> q_state (reqs s r) = QPending -> waiter s r.
Proof.
  intros H T N Hr Eq. destruct (iv_req _ _ H r Hr Eq) as [Ht Haw]. set (t := q_task (reqs s r)) in *.
  assert (Hnd : ~ donep s t) by (unfold is_done; destruct (pcof s t); try discriminate; destruct Haw).
  pose proof (iv_pc _ _ H t Ht) as Pc. unfold pc_ok in Pc.
  destruct (kindof s t) as [a| | |q x] eqn:Hk.
  - destruct (live_sub _ _ H t a Ht Hk Hnd) as (_ & Hcur & Hc).
    pose proof (iv_census _ _ H t Ht) as C. unfold census in C. rewrite Hk in C.
    destruct (calls s) as [|c0 us] eqn:Ec; [discriminate|]. cbn in C. injection C as ->.
    pose proof (iv_phase _ _ H) as Ph. unfold phase_ok in Ph. rewrite Ec in Ph. cbv zeta in Ph. rewrite <- Ec, Hcur, Hk in Ph.
    destruct (pcof s t) as [|now0 todo v r'| | | |n [e|]| |[]] eqn:Epc; try contradiction; try (now destruct Haw).
    cbn in Haw. subst r'. eapply W_sub; eauto. tauto.
  - destruct (pcof s t) as [| | | | ? ? [e|]|? [e|]| |[[?|]|?|]]; try contradiction; destruct Haw.
  - pose proof (loop_is_rtask _ _ _ H Ht Hk Hnd) as Hrt.
    destruct (pcof s t) as [| |p st r'| | | | |] eqn:Epc; try contradiction; try (now destruct Haw).
    cbn in Haw. subst r'. destruct (iv_preq _ _ H t p st r Hrt Epc) as [_ Ekd].
    destruct (calls s) as [|c0 us] eqn:Ec.
    { pose proof (iv_calls _ _ H) as K. unfold calls_ok in K. rewrite Ec in K. lia. }
    assert (Hin : In c0 (calls s)) by (rewrite Ec; now left). pose proof (call_lt _ _ H c0 Hin) as Hlt.
    pose proof (iv_calls _ _ H) as K. unfold calls_ok in K. rewrite Ec in K. destruct K as (K0 & _).
    destruct (kindof s c0) as [a| | |] eqn:Hk0; try discriminate.
    destruct (pcof s c0) as [| | | | | | |stt] eqn:Epc0;
      try (exfalso; assert (X : ~ donep s c0) by (unfold is_done; now rewrite Epc0); destruct (live_sub _ _ H c0 a Hlt Hk0 X) as (Y & _); congruence).
    eapply W_loop; eauto.
  - destruct (kid_context _ _ _ _ _ H Ht Hk Hnd) as (n & re & Epq & _ & _ & _ & Hcur & Hc & Hq & _).
    destruct (calls s) as [|c0 us] eqn:Ec; [congruence|].
    assert (E0 : q = c0).
    { rewrite <- Hcur. eapply cur_normal; try eassumption; rewrite Hcur; [unfold is_done|]; rewrite Epq; discriminate. }
    destruct (pcof s t) as [| | | | | |r'|] eqn:Epc; try contradiction; try (now destruct Haw).
    cbn in Haw. subst r'. eapply W_kid; [exact Ec|rewrite <- E0; exact Epq|]. exact (tv_kid _ _ T t r Ht Epc).
Qed.

(* ---- the publisher answers a request ---------------------------------------------------------------------------------------- *)
Definition good_in (pb : list (sid * option Z)) (x : sid) (d : Z) : Prop :=
  match dget Nat.eqb pb x with Some None => True | Some (Some e) => d <= e | None => False end.
Lemma good_at_in_eq s x d : good_at s x d = good_in (pub s) x d. Proof. reflexivity. Qed.

Lemma good_in_set_other pb k e x d : x <> k -> good_in pb x d -> good_in (dset Nat.eqb pb k e) x d.
Proof. intros Hne. unfold good_in. rewrite nget_set. destruct (Nat.eqb_spec k x); [congruence|auto]. Qed.
Lemma good_in_del_other pb k x d : NoDup (dkeys pb) -> x <> k -> good_in pb x d -> good_in (ddel Nat.eqb pb k) x d.
Proof. intros ND Hne. unfold good_in. rewrite nget_del by exact ND. destruct (Nat.eqb_spec k x); [congruence|auto]. Qed.
Lemma good_in_set_same pb k e d : match e with None => True | Some e' => d <= e' end -> good_in (dset Nat.eqb pb k e) k d.
Proof. intros He. unfold good_in. rewrite nget_set, Nat.eqb_refl. destruct e; exact He. Qed.
Lemma good_in_key pb x d : good_in pb x d -> In x (dkeys pb).
Proof. unfold good_in. intros G. apply nin_get. destruct (dget _ _ _); [discriminate|contradiction]. Qed.

Lemma expiry_good s g base : base <= now s -> match expiry s g with None => True | Some e => base + grant_secs g <= e end.
Proof. intros L. destruct g; cbn; try exact I; lia. Qed.

Inductive pub_outcome (s : state) (q : req) (rho : reaction) : list (sid * option Z) -> nat -> bool -> option sid -> Prop :=
| PO_none :
    (forall m g, rho = RAccept m g -> (q_kind q = QSub /\ m = SidNone) \/ (q_kind q <> QSub /\ q_sid q = None)) ->
    pub_outcome s q rho (pub s) (nsid s) (lapsed s) None
| PO_sub m g : rho = RAccept m g -> q_kind q = QSub ->
    pub_outcome s q rho (dset Nat.eqb (pub s) (nsid s) (expiry s g)) (S (nsid s)) (lapsed s) (Some (nsid s))
| PO_renew_fresh g x : rho = RAccept SidFresh g -> q_kind q = QRenew -> q_sid q = Some x ->
    pub_outcome s q rho (dset Nat.eqb (ddel Nat.eqb (pub s) x) (nsid s) (expiry s g)) (S (nsid s)) (lapsed s || negb (alive s x))
                (Some (nsid s))
| PO_renew_same m g x : rho = RAccept m g -> q_kind q = QRenew -> q_sid q = Some x ->
    pub_outcome s q rho (dset Nat.eqb (pub s) x (expiry s g)) (nsid s) (lapsed s || negb (alive s x))
                (match m with SidNone => None | _ => Some x end)
| PO_unsub m g x : rho = RAccept m g -> q_kind q = QUnsub -> q_sid q = Some x ->
    pub_outcome s q rho (ddel Nat.eqb (pub s) x) (nsid s) (lapsed s) None.

Lemma publisher_outcome s q rho :
  pub_outcome s q rho (pub (fst (publisher s q rho))) (nsid (fst (publisher s q rho))) (lapsed (fst (publisher s q rho)))
              (snd (publisher s q rho)).
Proof.
  unfold publisher. destruct rho as [m g| | |]; try (apply PO_none; intros; discriminate).
  destruct (q_kind q) eqn:Ek; destruct (q_sid q) as [x|] eqn:Es; destruct m; cbn [fst snd]; sproj;
    try (apply PO_none; intros m' g' E; injection E as <- <-;
         first [left; split; [exact Ek|reflexivity] | right; split; [rewrite Ek; discriminate|exact Es]]; fail);
    try (eapply PO_sub; eauto; fail); try (eapply PO_renew_fresh; eauto; fail); try (eapply PO_unsub; eauto; fail).
  - apply (PO_renew_same s q _ SidEcho g x); auto.
  - apply (PO_renew_same s q _ SidNone g x); auto.
Qed.

Definition pubok (pb : list (sid * option Z)) (n : nat) : Prop :=
  NoDup (dkeys pb) /\ forall x, In x (dkeys pb) -> (x < n)%nat.
Lemma pubok_sub pb n e : pubok pb n -> pubok (dset Nat.eqb pb n e) (S n).
Proof.
  intros [A B]. split; [now apply nnd_set|]. intros x Hx. apply nin_set in Hx. destruct Hx as [->|Hx]; [lia|]. specialize (B x Hx). lia.
Qed.
Lemma pubok_set pb n x e : pubok pb n -> In x (dkeys pb) -> pubok (dset Nat.eqb pb x e) n.
Proof. intros [A B] Hin. split; [now apply nnd_set|]. intros y Hy. apply nin_set in Hy. destruct Hy as [->|Hy]; auto. Qed.
Lemma pubok_del pb n x : pubok pb n -> pubok (ddel Nat.eqb pb x) n.
Proof. intros [A B]. split; [now apply nnd_del|]. intros y Hy. apply nin_del in Hy; [|exact A]. now apply B. Qed.

Lemma po_sub_kind M s s' r rho hdr base :
  pub_outcome s (reqs s r) rho (pub s') (nsid s') (lapsed s') hdr -> q_kind (reqs s r) = QSub ->
  q_state (reqs s' r) = QDone rho hdr -> pubok (pub s) (nsid s) -> base <= now s ->
  (forall m g, rho = RAccept m g -> TOL + M < grant_secs g) ->
  (forall x d, good_at s x d -> good_at s' x d) /\ resp_good M s' base r (fun h => h) /\ pubok (pub s') (nsid s') /\ lapsed s' = lapsed s.
Proof.
  intros PO Ek Eq Pb Hb Hg. unfold resp_good. rewrite Eq. unfold good_at.
  inversion PO as [Hn E1 E2 E3 E4|m g E0 _ E1 E2 E3 E4|g x E0 Ek' _ E1 E2 E3 E4|m g x E0 Ek' _ E1 E2 E3 E4|m g x E0 Ek' _ E1 E2 E3 E4];
    try congruence.
  - rewrite <- ?E1, <- ?E2, <- ?E3. split; [auto|split; [|split; [exact Pb|reflexivity]]]. destruct rho as [m g| | |]; try exact I. split; [eapply Hg; eauto|exact I].
  - rewrite <- ?E1, <- ?E2, <- ?E3. subst rho. split; [|split; [|split]].
    + intros y d G. apply good_in_set_other; [|exact G]. apply good_in_key in G. destruct Pb as [_ B]. specialize (B y G). lia.
    + split; [eapply Hg; eauto|]. apply good_in_set_same. now apply expiry_good.
    + now apply pubok_sub.
    + reflexivity.
Qed.

Lemma po_unsub_kind s s' r rho hdr :
  pub_outcome s (reqs s r) rho (pub s') (nsid s') (lapsed s') hdr -> q_kind (reqs s r) = QUnsub ->
  pubok (pub s) (nsid s) -> pubok (pub s') (nsid s') /\ lapsed s' = lapsed s.
Proof.
  intros PO Ek Pb.
  inversion PO as [Hn E1 E2 E3 E4|m g E0 Ek' E1 E2 E3 E4|g x E0 Ek' _ E1 E2 E3 E4|m g x E0 Ek' _ E1 E2 E3 E4|m g x E0 Ek' _ E1 E2 E3 E4];
    try congruence.
  - rewrite <- ?E1, <- ?E2, <- ?E3. auto.
  - rewrite <- ?E1, <- ?E2, <- ?E3. split; [now apply pubok_del|reflexivity].
Qed.

Lemma po_renew_kind M s s' r rho hdr x base :
  pub_outcome s (reqs s r) rho (pub s') (nsid s') (lapsed s') hdr -> q_kind (reqs s r) = QRenew -> q_sid (reqs s r) = Some x ->
  q_state (reqs s' r) = QDone rho hdr -> pubok (pub s) (nsid s) -> base <= now s ->
  (exists d, good_at s x d /\ now s <= d) -> lapsed s = false ->
  (forall m g, rho = RAccept m g -> TOL + M < grant_secs g) ->
  (forall y d, y <> x -> good_at s y d -> good_at s' y d) /\ resp_good M s' base r (renew_sid x) /\ pubok (pub s') (nsid s') /\ lapsed s' = false.
Proof.
  intros PO Ek Es Eq Pb Hb (d0 & Gx & Ld) L0 Hg. unfold resp_good. rewrite Eq. unfold good_at in *.
  assert (Al : alive s x = true).
  { unfold alive. unfold good_in in Gx. destruct (dget Nat.eqb (pub s) x) as [[e|]|]; try reflexivity; [apply Z.leb_le; lia|contradiction]. }
  pose proof (good_in_key _ _ _ Gx) as Kx. assert (Hxn : (x < nsid s)%nat) by (now apply Pb).
  inversion PO as [Hn E1 E2 E3 E4|m g E0 Ek' E1 E2 E3 E4|g y E0 _ Es' E1 E2 E3 E4|m g y E0 _ Es' E1 E2 E3 E4|m g y E0 Ek' _ E1 E2 E3 E4];
    try congruence.
  - rewrite <- ?E1, <- ?E2, <- ?E3. split; [auto|split; [|split; [exact Pb|exact L0]]].
    destruct rho as [m g| | |]; try exact I. exfalso. destruct (Hn m g eq_refl) as [[X _]|[_ X]]; congruence.
  - assert (y = x) by congruence. subst y. rewrite <- ?E1, <- ?E2, <- ?E3, ?Al, ?L0. subst rho. split; [|split; [|split]].
    + intros z d Hne G. apply good_in_set_other; [apply good_in_key in G; destruct Pb as [_ B]; specialize (B z G); lia|].
      apply good_in_del_other; [apply Pb|exact Hne|exact G].
    + split; [eapply Hg; eauto|].
      unfold renew_sid. destruct (Nat.eqb_spec (nsid s) x); [lia|]. apply good_in_set_same. now apply expiry_good.
    + apply pubok_sub. now apply pubok_del.
    + reflexivity.
  - assert (y = x) by congruence. subst y. rewrite <- ?E1, <- ?E2, <- ?E3, ?Al, ?L0. subst rho. split; [|split; [|split]].
    + intros z d Hne G. apply good_in_set_other; [exact Hne|exact G].
    + split; [eapply Hg; eauto|].
      assert (E : renew_sid x (match m with SidNone => None | _ => Some x end) = Some x) by (unfold renew_sid; destruct m; now rewrite ?Nat.eqb_refl).
      rewrite E. apply good_in_set_same. now apply expiry_good.
    + now apply pubok_set.
    + reflexivity.
Qed.

Lemma held_ext s s' lo : subs s' = subs s -> (forall x d, In (x, d) (subs s) -> good_at s x d -> good_at s' x d) -> held s lo -> held s' lo.
Proof. intros Es P Hd x d Hin. rewrite Es in Hin. destruct (Hd x d Hin). split; auto. Qed.

Lemma Tinv_deliver_gen M s s' r rho hdr :
  Inv (ready s) s -> Tinv M s -> g_maxdur s <= M -> M <= TOL ->
  (forall m g, rho = RAccept m g -> TOL + M < grant_secs g) ->
  (r < nreqs s)%nat -> q_state (reqs s r) = QPending ->
  tasks s' = tasks s -> calls s' = calls s -> subs s' = subs s -> now s' = now s -> g_maxdur s' = g_maxdur s ->
  rtask s' = rtask s -> ntasks s' = ntasks s -> nreqs s' = nreqs s ->
  (forall r', r' <> r -> reqs s' r' = reqs s r') -> q_kind (reqs s' r) = q_kind (reqs s r) -> q_sid (reqs s' r) = q_sid (reqs s r) ->
  q_state (reqs s' r) = QDone rho hdr ->
  pub_outcome s (reqs s r) rho (pub s') (nsid s') (lapsed s') hdr ->
  Tinv M s'.
Proof.
  intros H T HM HT Hg Hr Eq Et Ec Es En Eg Ert Ent Enr Er Ek Esid Eq' PO.
  assert (TOL60 : TOL = 60) by reflexivity.
  destruct (tv_pub _ _ T) as [ND Klt]. pose proof (conj ND Klt : pubok (pub s) (nsid s)) as Pb0.
  pose proof (tv_lapsed _ _ T) as L0. pose proof (tv_gm _ _ T) as G0.
  assert (Nn : normal s <-> normal s') by (apply normal_ext; [exact Ec|intros u _; now rewrite Et]).
  assert (Kd : forall r', q_kind (reqs s' r') = q_kind (reqs s r')).
  { intros r'. destruct (Nat.eq_dec r' r) as [->|Hne]; [exact Ek|now rewrite Er]. }
  assert (Core : pubok (pub s') (nsid s') -> lapsed s' = false -> (normal s -> tm_norm M s') -> Tinv M s').
  { intros Pb Lp Tn. constructor.
    - exact Pb.
    - exact Lp.
    - now rewrite Eg.
    - intros t r' Ht Hp. rewrite Et in Hp. rewrite Ent in Ht. rewrite Kd. eapply tv_kid; eauto.
    - intros c0 a Hc Hk. rewrite Ec in Hc. rewrite Et in Hk. eapply tv_auto; eauto.
    - intros N r' Hr' Hq. rewrite Kd. assert (Hne : r' <> r) by (intros ->; congruence).
      rewrite Er in Hq by exact Hne. rewrite Enr in Hr'. apply (tv_sd _ _ T); tauto.
    - intros N. apply Tn. tauto. }
  destruct (normal_dec s) as [N|N].
  2:{ pose proof (tv_sd _ _ T N r Hr Eq) as Kq.
      destruct (q_kind (reqs s r)) eqn:Ekd; try congruence.
      - destruct (po_sub_kind M s s' r rho hdr (now s) PO Ekd Eq' Pb0 ltac:(lia) Hg) as (_ & _ & A & B). apply Core; [exact A|congruence|contradiction].
      - destruct (po_unsub_kind s s' r rho hdr PO Ekd Pb0) as (A & B). apply Core; [exact A|congruence|contradiction]. }
  pose proof (tv_norm _ _ T N) as Tn.
  destruct (who_waits M _ s r H T N Hr Eq) as [c0 us now0 todo v Ec0 Epc Ekd|c0 us n e Ec0 Epc Ekd|c0 us stt lt p st Ec0 Epc Ert0 Epl Ekd].
  - (* the subscribe call is waiting for it *)
    unfold tm_norm in Tn. rewrite Ec0, Epc in Tn. destruct Tn as (A & Hd & _).
    destruct (po_sub_kind M s s' r rho hdr now0 PO Ekd Eq' Pb0 ltac:(lia) Hg) as (P1 & P2 & P3 & P4).
    apply Core; [exact P3|congruence|]. intros _. unfold tm_norm. rewrite Ec, Ec0, Et, Epc, En, Eg.
    split; [exact A|]. split; [|exact P2]. eapply held_ext; eauto.
  - (* a child of the rollback is waiting for it *)
    destruct (po_unsub_kind s s' r rho hdr PO Ekd Pb0) as (A & B).
    apply Core; [exact A|congruence|]. intros _. unfold tm_norm. now rewrite Ec, Ec0, Et, Epc.
  - (* the renewal task is waiting for it *)
    unfold tm_norm in Tn. rewrite Ec0, Epc, Ert0 in Tn. unfold tm_loop in Tn. rewrite Epl in Tn.
    destruct Tn as (A & Hd & Nt & Td & Rn & _).
    destruct (iv_pass _ _ H lt Ert0 p st r Epl) as (Px & _).
    destruct st.
    + destruct (Rn eq_refl) as [Rs Rg]. specialize (Rg Eq).
      assert (Ex : exists d, good_at s (p_sid p) d /\ now s <= d) by (exists (p_now p + TOL); split; [exact Rg|lia]).
      destruct (po_renew_kind M s s' r rho hdr (p_sid p) (p_now p) PO Ekd Rs Eq' Pb0 ltac:(lia) Ex L0 Hg) as (P1 & P2 & P3 & P4).
      apply Core; [exact P3|exact P4|]. intros _. unfold tm_norm. rewrite Ec, Ec0, Et, Epc, Ert, Ert0. unfold tm_loop. rewrite Et, Epl.
      unfold tm_pass. rewrite En, Eg, Es. split; [exact A|]. split.
      { eapply held_ext; eauto. intros y d Hin G. apply P1; [|exact G]. intros ->. apply Px. apply in_map_iff. exists (p_sid p, d). auto. }
      split; [exact Nt|]. split; [exact Td|]. split; [|exact P2].
      intros _. split; [congruence|]. intros X. congruence.
    + destruct (po_sub_kind M s s' r rho hdr (p_now p) PO Ekd Eq' Pb0 ltac:(lia) Hg) as (P1 & P2 & P3 & P4).
      apply Core; [exact P3|congruence|]. intros _. unfold tm_norm. rewrite Ec, Ec0, Et, Epc, Ert, Ert0. unfold tm_loop. rewrite Et, Epl.
      unfold tm_pass. rewrite En, Eg, Es. split; [exact A|]. split; [eapply held_ext; eauto|].
      split; [exact Nt|]. split; [exact Td|]. split; [discriminate|exact P2].
Qed.

Lemma Tinv_deliver M s r rho :
  Inv (ready s) s -> Tinv M s -> g_maxdur s <= M -> M <= TOL ->
  (forall m g, rho = RAccept m g -> TOL + M < grant_secs g) ->
  Tinv M (deliver s r rho).
Proof.
  intros H T HM HT Hg. unfold deliver.
  destruct (r <? nreqs s)%nat eqn:Hr; [|exact T]. apply Nat.ltb_lt in Hr.
  destruct (q_state (reqs s r)) eqn:Eq; try exact T.
  pose proof (publisher_outcome s (reqs s r) rho) as PO.
  pose proof (fr_tasks_publisher s (reqs s r) rho) as F1. pose proof (fr_reqs_publisher s (reqs s r) rho) as F2.
  pose proof (fr_rtask_publisher s (reqs s r) rho) as F3. pose proof (fr_calls_publisher s (reqs s r) rho) as F4.
  pose proof (fr_subs_publisher s (reqs s r) rho) as F5. pose proof (fr_now_publisher s (reqs s r) rho) as F6.
  pose proof (fr_g_maxdur_publisher s (reqs s r) rho) as F7. pose proof (fr_ntasks_publisher s (reqs s r) rho) as F8.
  pose proof (fr_nreqs_publisher s (reqs s r) rho) as F9.
  destruct (publisher s (reqs s r) rho) as [s1 hdr]. cbn [fst snd] in *.
  eapply Tinv_deliver_gen with (s := s) (r := r) (rho := rho) (hdr := hdr); try eassumption; sproj; try assumption.
  - intros r' Hne. rewrite fupd_neq by congruence. now rewrite F2.
  - rewrite fupd_eq. cbn. now rewrite F2.
  - rewrite fupd_eq. cbn. now rewrite F2.
  - now rewrite fupd_eq.
Qed.

(* ---- a user call, the passing of time ------------------------------------------------------------------------------------------ *)
Lemma tm_norm_same M s s' c0 us us' :
  calls s = c0 :: us -> calls s' = c0 :: us' -> tasks s' c0 = tasks s c0 -> rtask s' = rtask s ->
  (forall lt, rtask s = Some lt -> tasks s' lt = tasks s lt) ->
  subs s' = subs s -> now s' = now s -> g_maxdur s' = g_maxdur s -> pub s' = pub s -> reqs s' = reqs s ->
  tm_norm M s -> tm_norm M s'.
Proof.
  intros Ec Ec' Et0 Ert Etl Es En Eg Ep Er. unfold tm_norm. rewrite Ec, Ec', Et0, Ert.
  destruct (pcof s c0); auto.
  - unfold held, resp_good, good_at. now rewrite En, Eg, Es, Ep, Er.
  - destruct (rtask s) as [lt|] eqn:Hrt; [|now rewrite Es]. unfold tm_loop. rewrite (Etl lt eq_refl).
    destruct (pcof s lt); unfold tm_pass, held, resp_good, good_at; now rewrite ?En, ?Eg, ?Es, ?Ep, ?Er.
Qed.

Lemma Tinv_call M pend s kd :
  Inv pend s -> Tinv M s -> (forall a, kd = KSub a -> calls s = [] -> a = true) -> Tinv M (call s kd).
Proof.
  intros H T Ha. unfold call. destruct (user_busy s); [exact T|].
  set (s' := with_calls (spawn s kd) (calls s ++ [ntasks s])).
  assert (Old : forall t, (t < ntasks s)%nat -> tasks s' t = tasks s t) by (intros t Ht; subst s'; unfold spawn; sproj; apply fupd_neq; lia).
  assert (New : tasks s' (ntasks s) = mkTask kd PStart false []) by (subst s'; unfold spawn; sproj; now rewrite fupd_eq).
  pose proof (normal_call s kd pend H) as Nn. fold s' in Nn.
  assert (Cs : calls s = [] \/ exists c us, calls s = c :: us) by (destruct (calls s); eauto).
  constructor.
  - exact (tv_pub _ _ T).
  - exact (tv_lapsed _ _ T).
  - exact (tv_gm _ _ T).
  - intros t r Ht Hp. change (ntasks s') with (S (ntasks s)) in Ht. destruct (Nat.eq_dec t (ntasks s)) as [->|Hne].
    + rewrite New in Hp. discriminate.
    + rewrite Old in Hp by lia. change (reqs s') with (reqs s). eapply tv_kid; eauto. lia.
  - intros c0 a Hc Hk. change (calls s') with (calls s ++ [ntasks s]) in Hc. destruct Cs as [Ec|(c & us & Ec)]; rewrite Ec in Hc.
    + cbn in Hc. injection Hc as <-. rewrite New in Hk. cbn in Hk. now apply Ha.
    + cbn in Hc. injection Hc as <-. rewrite Old in Hk by (apply (call_lt _ _ H); rewrite Ec; now left).
      eapply tv_auto; eauto. now rewrite Ec.
  - intros N r Hr Hq. apply (tv_sd _ _ T); tauto.
  - intros N. apply Nn in N. pose proof (tv_norm _ _ T N) as Tn. destruct Cs as [Ec|(c & us & Ec)].
    + unfold tm_norm. change (calls s') with (calls s ++ [ntasks s]). rewrite Ec. cbn [app]. now rewrite New.
    + eapply tm_norm_same with (s := s) (c0 := c) (us := us) (us' := us ++ [ntasks s]); try eassumption; try reflexivity.
      * change (calls s') with (calls s ++ [ntasks s]). now rewrite Ec.
      * apply Old. apply (call_lt _ _ H). rewrite Ec. now left.
      * intros lt Hrt. apply Old. apply (iv_rtask _ _ H lt Hrt).
Qed.

Lemma Tinv_advance M s dt : Inv (ready s) s -> Winv (ready s) s -> Tinv M s -> Tinv M (advance s dt).
Proof.
  intros H W T. unfold advance. destruct (ready s) eqn:Erd; [|exact T].
  set (d := match next_timer s with None => dt | Some w => Z.min dt (w - now s) end).
  set (n' := now s + Z.max 0 d).
  set (s' := with_ghost (with_now s n') (g_overdue s) (g_inflight s) (Z.max (g_maxdur s) (max_age s n'))).
  assert (Nn : normal s <-> normal s') by (apply normal_ext; reflexivity).
  constructor; try (destruct T; assumption).
  - change (g_maxdur s') with (Z.max (g_maxdur s) (max_age s n')). pose proof (tv_gm _ _ T). lia.
  - intros N. apply Nn in N. pose proof (tv_norm _ _ T N) as Tn. pose proof (tv_gm _ _ T) as G0.
    assert (Age : forall t st, (t < ntasks s)%nat -> phase_start (tasks s t) = Some st -> n' <= st + g_maxdur s').
    { intros t st Ht Hp. pose proof (max_age_ge s n' t Ht) as A. unfold age_of in A. rewrite Hp in A.
      change (g_maxdur s') with (Z.max (g_maxdur s) (max_age s n')). lia. }
    unfold tm_norm in *. change (calls s') with (calls s). destruct (calls s) as [|c0 us] eqn:Ec; [exact I|].
    assert (Hc0 : (c0 < ntasks s)%nat) by (apply (call_lt _ _ H); rewrite Ec; now left).
    change (pcof s' c0) with (pcof s c0). destruct (pcof s c0) as [|now0 todo v r| | | | | |st] eqn:Epc; auto.
    + destruct Tn as (A & B & C). change (now s') with n'. split; [|split; [exact B|exact C]].
      split; [lia|]. apply (Age c0); [exact Hc0|]. unfold phase_start. now rewrite Epc.
    + change (rtask s') with (rtask s). destruct (rtask s) as [lt|] eqn:Ert; [|exact Tn].
      destruct (iv_rtask _ _ H lt Ert) as [Hlt Hkl].
      unfold tm_loop in *. change (pcof s' lt) with (pcof s lt).
      destruct (pcof s lt) as [| |p st' r|when ws| | | |] eqn:Epl; try exact Tn.
      * exfalso. assert (X : needs_wake s lt) by (unfold needs_wake; now rewrite Epl).
        pose proof (w_wake _ _ W N lt Ert X) as Y. destruct Y.
      * destruct Tn as (A & B & C & D & E & F). unfold tm_pass. change (now s') with n'. split; [|split; [exact B|split; [exact C|split; [exact D|split; [exact E|exact F]]]]].
        split; [lia|]. apply (Age lt); [exact Hlt|]. unfold phase_start. now rewrite Epl.
      * destruct Tn as (A & B & C & D). change (now s') with n'. split; [exact A|split; [exact B|split; [exact C|]]].
        destruct ws.
        -- assert (Ht : timer_of s lt = Some when) by (unfold timer_of; now rewrite Epl).
           destruct (next_timer_le s lt when Hlt Ht) as (a & Ea & La). subst n' d. rewrite Ea. lia.
        -- exfalso. assert (X : needs_wake s lt) by (unfold needs_wake; now rewrite Epl).
           pose proof (w_wake _ _ W N lt Ert X) as Y. destruct Y.
        -- exfalso. assert (Hnd : ~ donep s lt) by (unfold is_done; now rewrite Epl).
           apply (w_calm _ _ W N lt Ert Hnd). right. now rewrite Epl.
Qed.

(* ---- the renewal loop: going to sleep, sending the next renewal ------------------------------------------------------------- *)
Lemma loop_head_sleep fuel b t :
  held b (now b + TOL + 1) ->
  loop_head fuel b t = match subs b with [] => finish b t (SRet None) | _ => set_pc b t (PSleep (min_dl (subs b) - TOL) WPending) end.
Proof.
  intros Hd. assert (W : subs b <> [] -> (0 <? min_dl (subs b) - now b - TOL) = true).
  { intros Hne. destruct (min_dl_in _ Hne) as [x Hx]. destruct (Hd x _ Hx) as [L _]. apply Z.ltb_lt. lia. }
  destruct fuel; cbn [loop_head]; destruct (subs b) as [|e l] eqn:Es; try reflexivity; rewrite W by discriminate;
    f_equal; f_equal; lia.
Qed.

Lemma tm_loop_sleep M b t :
  held b (now b + TOL + 1) -> tm_loop M (match subs b with [] => finish b t (SRet None) | _ => set_pc b t (PSleep (min_dl (subs b) - TOL) WPending) end) t.
Proof.
  intros Hd. unfold tm_loop. destruct (subs b) as [|e l] eqn:Es.
  - rewrite pc_finish. now autorewrite with fr_subs.
  - sproj. rewrite fupd_eq. cbn [t_pc]. rewrite Es. split; [discriminate|]. split; [reflexivity|]. rewrite <- Es in *. split.
    + intros x d Hin. change (subs (set_pc b t (PSleep (min_dl (subs b) - TOL) WPending))) with (subs b) in Hin.
      destruct (Hd x d Hin) as [_ G]. split; [pose proof (min_dl_le _ _ _ Hin); lia|exact G].
    + assert (Hne : subs b <> []) by (rewrite Es; discriminate). destruct (min_dl_in _ Hne) as [x Hx]. destruct (Hd x _ Hx) as [L _]. lia.
Qed.

Lemma susp_tm M b t pn x d v rest :
  NoDup (dkeys (subs b)) -> pn <= now b <= pn + g_maxdur b -> held b (pn + TOL) ->
  (forall x' d', In (x', d') (subs b) -> ~ In x' (x :: map fst rest) -> pn + TOL + M < d') ->
  (forall x' d', In (x', d') rest -> pn + TOL <= d') -> In x (dkeys (subs b)) ->
  tm_loop M (susp_state b t pn true x d v rest) t.
Proof.
  intros ND A Hd Nt Td Hx. unfold tm_loop, susp_state. sproj. rewrite fupd_eq. cbn [t_pc]. unfold tm_pass. cbn [p_now p_todo p_sid].
  unfold issue. sproj. split; [exact A|]. split; [|split; [|split; [exact Td|split]]].
  - intros x' d' Hin. apply In_ddel_inv in Hin; [|exact ND]. exact (Hd x' d' Hin).
  - intros x' d' Hin Hn. pose proof Hin as Hin'. apply In_ddel_inv in Hin'; [|exact ND]. apply (Nt x' d' Hin'). intros [<-|X]; [|contradiction].
    assert (Y : In x (dkeys (ddel Nat.eqb (subs b) x))) by (apply in_map_iff; exists (x, d'); auto).
    apply nin_del in Y; [|exact ND]. now destruct Y.
  - intros _. rewrite fupd_eq. cbn. split; [reflexivity|]. intros _.
    apply in_map_iff in Hx. destruct Hx as ([x0 d0] & E & Hin). cbn in E. subst x0. destruct (Hd x d0 Hin) as [L G].
    unfold good_at in *. sproj. eapply good_at_mono; [exact G|exact L].
  - unfold resp_good. sproj. rewrite fupd_eq. cbn. exact I.
Qed.

Lemma scan_tm M b t pn todo :
  NoDup (dkeys (subs b)) -> incl (dkeys (subs b)) (dkeys (routed b)) -> (forall y, In y (map fst todo) -> In y (dkeys (subs b))) ->
  pn <= now b <= pn + g_maxdur b -> g_maxdur b <= M -> held b (pn + TOL) ->
  (forall x' d', In (x', d') (subs b) -> ~ In x' (map fst todo) -> pn + TOL + M < d') ->
  (forall x' d', In (x', d') todo -> pn + TOL <= d') ->
  tm_loop M (after_pass_loop t (pass_scan b t pn true todo)) t.
Proof.
  intros ND Inc Ht A HM Hd Nt Td. assert (TOL60 : TOL = 60) by reflexivity. destruct todo as [|[x d] rest]; cbn [pass_scan after_pass_loop].
  - rewrite loop_head_sleep; [apply tm_loop_sleep|]; intros x d Hin; destruct (Hd x d Hin) as [_ G]; (split; [|exact G]);
      specialize (Nt x d Hin (fun X => X)); lia.
  - assert (L : pn + TOL <= d) by (apply (Td x d); now left).
    replace (d <? pn - TOL) with false by (symmetry; apply Z.ltb_ge; lia).
    assert (Hx : In x (dkeys (subs b))) by (apply Ht; now left).
    rewrite (dhas_in _ _ _ Hx). cbn [negb]. sproj.
    destruct (dget Nat.eqb (routed b) x) as [v|] eqn:Ev; [|apply nget_none in Ev; exfalso; apply Ev; now apply Inc].
    cbn [after_pass_loop]. change (nreqs (with_subs b (ddel Nat.eqb (subs b) x))) with (nreqs b).
    apply (susp_tm M b t pn x d v rest); auto.
    intros x' d' Hin. apply (Td x' d'). now right.
Qed.

(* ---- one step of the renewal task ------------------------------------------------------------------------------------------- *)
Section LoopStep.
  Variables (M : Z) (pend : list handle) (s : state) (lt : tid).
  Hypothesis H : Inv pend s.
  Hypothesis Hrt : rtask s = Some lt.
  Hypothesis HM : g_maxdur s <= M.
  Hypothesis HT : M <= TOL.
  Hypothesis G0 : 0 <= g_maxdur s.

  (* the pass goes on after a response that granted [y] until pn + g *)
  Lemma grant_scan p st r y g R :
    pcof s lt = PPass p st r -> ~ doomed s lt -> tm_pass M s p st r ->
    TOL + M < grant_secs g -> good_at s y (p_now p + grant_secs g) ->
    incl (dkeys (dset Nat.eqb (subs s) y (p_now p + grant_secs g))) (dkeys R) ->
    tm_loop M (after_pass_loop lt (pass_scan (with_subs (with_routed s R) (dset Nat.eqb (subs s) y (p_now p + grant_secs g))) lt (p_now p) true (p_todo p))) lt.
  Proof.
    intros Epc Hnd (A & Hd & Nt & Td & _) Lg Gy Inc.
    destruct (iv_pass _ _ H lt Hrt p st r Epc) as (_ & _ & _ & P4 & _). specialize (P4 Hnd).
    destruct (iv_sid _ _ H) as (S1 & _).
    apply scan_tm; sproj; auto.
    - now apply nnd_set.
    - intros z Hz. apply nin_set. right. now apply P4.
    - intros x d Hin. apply In_dset_inv in Hin; [|exact S1]. destruct Hin as [[-> ->]|Hin]; [split; [lia|exact Gy]|exact (Hd x d Hin)].
    - intros x d Hin Hn. apply In_dset_inv in Hin; [|exact S1]. destruct Hin as [[-> ->]|Hin]; [lia|exact (Nt x d Hin Hn)].
  Qed.

  (* ... after a response that left the profile's bookkeeping alone *)
  Lemma same_scan p st r b :
    pcof s lt = PPass p st r -> ~ doomed s lt -> tm_pass M s p st r ->
    subs b = subs s -> now b = now s -> g_maxdur b = g_maxdur s -> pub b = pub s ->
    incl (dkeys (subs s)) (dkeys (routed b)) ->
    tm_loop M (after_pass_loop lt (pass_scan b lt (p_now p) true (p_todo p))) lt.
  Proof.
    intros Epc Hnd (A & Hd & Nt & Td & _) Es En Eg Ep Inc.
    destruct (iv_pass _ _ H lt Hrt p st r Epc) as (_ & _ & _ & P4 & _). specialize (P4 Hnd).
    destruct (iv_sid _ _ H) as (S1 & _).
    apply scan_tm; rewrite ?Es, ?En, ?Eg; auto.
    intros x d Hin. rewrite Es in Hin. destruct (Hd x d Hin) as [L G]. split; [exact L|]. unfold good_at in *. now rewrite Ep.
  Qed.

  Lemma loop_step_tm :
    ~ donep s lt -> ~ doomed s lt -> tm_loop M s lt -> tm_loop M (step_task s lt) lt.
  Proof.
    intros Hnd Hndm Tl. assert (TOL60 : TOL = 60) by reflexivity.
    destruct (iv_rtask _ _ H lt Hrt) as [Hlt Hkl]. pose proof (not_doomed_must _ _ Hndm) as Hm.
    pose proof (iv_pc _ _ H lt Hlt) as Pc. unfold pc_ok in Pc. rewrite Hkl in Pc.
    destruct (iv_sid _ _ H) as (S1 & S2 & S3).
    unfold step_task. destruct (pcof s lt) as [| |p st r|when ws| | | |stt] eqn:Epc; try contradiction.
    - (* the task starts *)
      rewrite Hm. unfold start_body. rewrite Hkl. unfold tm_loop in Tl. rewrite Epc in Tl.
      rewrite loop_head_sleep by exact Tl. now apply tm_loop_sleep.
    - (* a response *)
      destruct (q_state (reqs s r)) as [|rho hdr|] eqn:Eq.
      + exact Tl.
      + rewrite Hm, Hkl. pose proof Tl as Tp. unfold tm_loop in Tp. rewrite Epc in Tp.
        destruct Tp as (A & Hd & Nt & Td & Rn & Rg). unfold resp_good in Rg. rewrite Eq in Rg.
        assert (Tp : tm_pass M s p st r) by (unfold tm_loop in Tl; now rewrite Epc in Tl).
        destruct (iv_pass _ _ H lt Hrt p st r Epc) as (Px & P2 & _ & P4 & _). specialize (P4 Hndm).
        assert (IncDel : incl (dkeys (subs s)) (dkeys (ddel Nat.eqb (routed s) (p_sid p)))).
        { intros z Hz. apply nin_del; [exact S2|]. split; [intros ->; contradiction|now apply S3]. }
        unfold pass_resume. cbv zeta. destruct st.
        * rewrite (dhas_in _ _ _ (P2 eq_refl)). destruct rho as [m g| | |].
          -- destruct Rg as [Lg Gy]. unfold renew_sid in Gy. unfold pass_grant. rewrite Pc.
             destruct hdr as [y|]; [destruct (Nat.eqb_spec y (p_sid p)) as [->|Hne]|].
             ++ eapply grant_scan; eauto. intros z Hz. apply nin_set in Hz. apply nin_set. destruct Hz as [->|Hz]; [now left|right; now apply S3].
             ++ eapply grant_scan; eauto. intros z Hz. apply nin_set in Hz. apply nin_set. destruct Hz as [->|Hz]; [now left|right; now apply IncDel].
             ++ eapply grant_scan; eauto. intros z Hz. apply nin_set in Hz. apply nin_set. destruct Hz as [->|Hz]; [now left|right; now apply S3].
          -- cbn [after_pass_loop]. unfold tm_loop, issue. sproj. rewrite fupd_eq. cbn [t_pc]. unfold tm_pass. sproj.
             split; [exact A|]. split; [exact Hd|]. split; [exact Nt|]. split; [exact Td|]. split; [discriminate|].
             unfold resp_good. sproj. rewrite fupd_eq. cbn. exact I.
          -- unfold pass_error. cbn [is_upnp is_conn]. rewrite Pc. eapply same_scan; eauto.
          -- cbn [after_pass_loop]. unfold tm_loop, issue. sproj. rewrite fupd_eq. cbn [t_pc]. unfold tm_pass. sproj.
             split; [exact A|]. split; [exact Hd|]. split; [exact Nt|]. split; [exact Td|]. split; [discriminate|].
             unfold resp_good. sproj. rewrite fupd_eq. cbn. exact I.
        * assert (Err : forall e, is_upnp e = true -> tm_loop M (after_pass_loop lt (pass_error s lt p e)) lt).
          { intros e He. unfold pass_error. rewrite He, Pc. destruct (is_conn e); eapply same_scan; eauto. }
          destruct rho as [m g| | |]; try (apply Err; reflexivity).
          destruct hdr as [y|]; [|apply Err; reflexivity]. destruct Rg as [Lg Gy]. unfold pass_grant. rewrite Pc.
          eapply grant_scan; eauto. intros z Hz. apply nin_set in Hz. apply nin_set. destruct Hz as [->|Hz]; [now left|right; now apply S3].
      + exfalso. apply Hndm. right. now rewrite Epc.
    - (* asleep *)
      destruct ws.
      + exact Tl.
      + rewrite Hm. unfold tm_loop in Tl. rewrite Epc in Tl. destruct Tl as (Ne & Ew & Hd & Lw).
        unfold run_pass. apply scan_tm; sproj; auto.
        * lia.
        * eapply held_mono; [exact Hd|lia].
        * intros x d Hin Hn. exfalso. apply Hn. apply in_map_iff. exists (x, d). auto.
        * intros x d Hin. destruct (Hd x d Hin). lia.
      + exfalso. apply Hndm. right. now rewrite Epc.
    - exfalso. apply Hnd. unfold is_done. now rewrite Epc.
  Qed.
End LoopStep.

(* ---- one step of the subscribe call --------------------------------------------------------------------------------------------- *)
Lemma sub_step_tm M rest s t a :
  Inv (HStep t :: rest ++ ready s) s -> Tinv M s -> normal s -> (t < ntasks s)%nat -> kindof s t = KSub a -> ~ donep s t ->
  g_maxdur s <= M -> M <= TOL -> tm_norm M (step_task s t).
Proof.
  intros H T N Ht Hk Hnd HM HT. assert (TOL60 : TOL = 60) by reflexivity. pose proof (tv_gm _ _ T) as G0.
  destruct (live_sub _ _ H t a Ht Hk Hnd) as (Ert & Hcur & Hc).
  assert (Hnl : kindof s t <> KLoop) by (rewrite Hk; discriminate).
  pose proof (not_loop_not_doomed _ _ _ H Ht Hnl) as Hndm. pose proof (not_doomed_must _ _ Hndm) as Hm.
  pose proof (iv_pc _ _ H t Ht) as Hpcok. unfold pc_ok in Hpcok. rewrite Hk in Hpcok.
  pose proof (iv_census _ _ H t Ht) as C. unfold census in C. rewrite Hk in C.
  destruct (calls s) as [|c0 us] eqn:Ec; [discriminate|]. cbn in C. injection C as ->.
  pose proof (tv_norm _ _ T N) as Tn.
  pose proof (iv_phase _ _ H) as Ph. unfold phase_ok in Ph. rewrite Ec in Ph. cbv zeta in Ph. rewrite <- Ec, Hcur, Hk in Ph.
  destruct (iv_sid _ _ H) as (S1 & S2 & S3).
  assert (Fin : forall b st, calls b = calls s -> rtask b = None -> subs b = [] -> tm_norm M (finish b t st)).
  { intros b st E1 E2 E3. unfold tm_norm. autorewrite with fr_calls fr_rtask fr_subs. rewrite E1, Ec, pc_finish, E2. exact E3. }
  unfold step_task.
  destruct (pcof s t) as [|now0 todo v r| | | |n re| |st] eqn:Epc; try contradiction.
  - (* the call starts *)
    destruct Ph as (_ & Es & _). rewrite Hm. unfold start_body. rewrite Hk, Es. unfold sub_next. destruct (interesting (svcs s)) as [|v rest'].
    + unfold sub_post. rewrite Es. now apply Fin.
    + unfold tm_norm, issue. sproj. rewrite Ec, fupd_eq. cbn [t_pc]. split; [lia|]. split; [now apply held_nil|].
      unfold resp_good. sproj. rewrite fupd_eq. cbn. exact I.
  - (* a SUBSCRIBE response *)
    destruct Ph as (_ & _ & En & _). assert (E0 : t = 0%nat) by lia. clear Hcur. subst t.
    destruct (q_state (reqs s r)) as [|rho hdr|] eqn:Eq.
    + exact Tn.
    + rewrite Hm, Hk. unfold tm_norm in Tn. rewrite Ec, Epc in Tn. destruct Tn as (A & Hd & Rg). unfold resp_good in Rg. rewrite Eq in Rg.
      assert (Fail : forall e, tm_norm M (unsub_services s 0%nat (Some e))).
      { intros e. unfold unsub_services. rewrite forget_cancelled_none by exact Ert. sproj. rewrite Ert.
        unfold tm_norm. rewrite fr_calls_unsub_gather. sproj. rewrite Ec.
        unfold unsub_gather. destruct (dkeys (subs s)) as [|x0 l0].
        - unfold unsub_return. rewrite pc_finish. autorewrite with fr_rtask fr_subs. sproj. now rewrite Ert.
        - sproj. rewrite fupd_eq. exact I. }
      unfold sub_resume. cbv zeta. destruct rho as [m g| | |]; try apply Fail. destruct hdr as [y|]; [|apply Fail].
      destruct Rg as [Lg Gy].
      set (b := with_subs (with_routed s (dset Nat.eqb (routed s) y v)) (dset Nat.eqb (subs s) y (now0 + grant_secs g))).
      assert (Hb : forall lo, lo <= now0 + TOL + M + 1 -> forall x d, In (x, d) (subs b) -> lo <= d /\ good_at b x d).
      { intros lo Hlo x d Hin. subst b. sproj in Hin. apply In_dset_inv in Hin; [|exact S1].
        destruct Hin as [[-> ->]|Hin]; [split; [lia|exact Gy]|]. destruct (Hd x d Hin) as [L G]. split; [lia|exact G]. }
      unfold sub_next. destruct todo as [|v' rest'].
      * assert (Bne : subs b <> []).
        { subst b. sproj. intros X. assert (Y : In y (dkeys (dset Nat.eqb (subs s) y (now0 + grant_secs g)))) by (apply nin_set; now left).
          rewrite X in Y. destruct Y. }
        rewrite sub_post_nonempty by (try exact Ert; exact Bne).
        assert (a = true) by (eapply (tv_auto _ _ T); [rewrite Ec; reflexivity|exact Hk]). subst a.
        rewrite (auto_state_eq b true) by (try exact En; exact Hk).
        unfold tm_norm, auto_state. sproj. change (calls b) with (calls s). rewrite Ec. rewrite fupd_eq. cbn [t_pc]. unfold tm_loop. sproj. rewrite fupd_neq by lia. rewrite fupd_eq. cbn [t_pc].
        intros x d Hin. apply (Hb (now s + TOL + 1)); [lia|exact Hin].
      * unfold tm_norm, issue. sproj. change (calls b) with (calls s). rewrite Ec, fupd_eq. cbn [t_pc]. split; [exact A|]. split; [intros x d Hin; now apply (Hb (now0 + TOL + M + 1))|].
        unfold resp_good. sproj. rewrite fupd_eq. cbn. exact I.
    + exfalso. apply Hndm. right. now rewrite Epc.
  - (* the rollback gather *)
    destruct n as [|n]; [|exact Tn].
    destruct re as [e|]; [|contradiction]. destruct Ph as (_ & Es & _). unfold unsub_return. now apply Fin.
  - exfalso. apply Hnd. unfold is_done. now rewrite Epc.
Qed.

(* ---- the timing clause across one handle --------------------------------------------------------------------------------------- *)
Lemma loop_phase pend s lt :
  Inv pend s -> normal s -> rtask s = Some lt ->
  exists c0 us stt, calls s = c0 :: us /\ pcof s c0 = PDone stt /\ c0 <> lt /\ (c0 < ntasks s)%nat.
Proof.
  intros H N Hrt. destruct (iv_rtask _ _ H lt Hrt) as [Hlt Hkl].
  pose proof (iv_calls _ _ H) as K. unfold calls_ok in K. destruct (calls s) as [|c0 us] eqn:Ec; [lia|].
  destruct K as (K0 & _). assert (Hin : In c0 (calls s)) by (rewrite Ec; now left). pose proof (call_lt _ _ H c0 Hin) as Hc0.
  assert (Hne : c0 <> lt) by (intros ->; rewrite Hkl in K0; discriminate).
  destruct (normal_others _ _ H lt c0 N Hrt Hc0 Hne) as [X|[X _]]; [|rewrite X in K0; discriminate].
  unfold is_done in X. destruct (pcof s c0) as [| | | | | | |stt] eqn:Epc; try discriminate. exists c0, us, stt. auto.
Qed.

Lemma tm_run_handle M rest s h :
  Inv (h :: rest ++ ready s) s -> Winv (h :: rest ++ ready s) s -> Tinv M s -> diverged s = false ->
  g_maxdur s <= M -> M <= TOL -> normal (run_handle s h) -> tm_norm M (run_handle s h).
Proof.
  intros H W T Dv HM HT N'. pose proof (normal_back _ s h H N') as N. pose proof (tv_norm _ _ T N) as Tn. pose proof (tv_gm _ _ T) as G0.
  destruct W as [Wc _]. specialize (Wc N).
  unfold run_handle in *. rewrite Dv in *. destruct h as [t|t|p].
  - (* a task takes a step *)
    destruct (Nat.lt_ge_cases t (ntasks s)) as [Ht|Ht].
    2:{ unfold step_task. now rewrite (beyond_noop _ _ _ H Ht). }
    destruct (is_done (tasks s t)) eqn:Ed.
    { unfold step_task. unfold is_done in Ed. destruct (pcof s t); try discriminate. exact Tn. }
    assert (Hnd : ~ donep s t) by congruence.
    destruct (rtask s) as [lt|] eqn:Ert.
    + destruct (Nat.eq_dec t lt) as [->|Hne].
      * destruct (iv_rtask _ _ H lt Ert) as [_ Hkl]. specialize (Wc lt eq_refl Hnd).
        destruct (loop_phase _ _ lt H N Ert) as (c0 & us & stt & Ec & Epc0 & Hc0 & Hc0lt).
        unfold tm_norm in Tn. rewrite Ec, Epc0, Ert in Tn.
        pose proof (loop_step_tm M _ s lt H Ert HM G0 Hnd Wc Tn) as Tl.
        unfold tm_norm. rewrite fr_calls_step_task, Ec.
        destruct (PF_step_task lt s) as (_ & _ & F). destruct (F c0 Hc0lt Hc0) as [E|E]; [|congruence].
        rewrite E, Epc0, (loop_step_rtask _ _ _ H Ht Hkl), Ert. exact Tl.
      * destruct (normal_others _ _ H lt t N Ert Ht Hne) as [X|[X _]]; [contradiction|].
        now destruct (unsub_leaves _ _ _ H Ht X Hnd N).
    + destruct (kindof s t) as [a| | |q x] eqn:Hk.
      * eapply sub_step_tm; eassumption.
      * now destruct (unsub_leaves _ _ _ H Ht Hk Hnd N).
      * pose proof (loop_is_rtask _ _ _ H Ht Hk Hnd). congruence.
      * destruct (kid_context _ _ _ _ _ H Ht Hk Hnd) as (n & re & Epq & _ & _ & _ & Hcur & Hc & Hq & Hqt).
        destruct (calls s) as [|c0 us] eqn:Ec; [congruence|].
        assert (E0 : q = c0).
        { rewrite <- Hcur. eapply cur_normal; try eassumption; rewrite Hcur; [unfold is_done|]; rewrite Epq; discriminate. }
        unfold tm_norm. rewrite fr_calls_step_task, Ec.
        destruct (PF_step_task t s) as (_ & _ & F). destruct (F q Hq Hqt) as [E|E]; [|congruence].
        rewrite <- E0, E, Epq. exact I.
  - (* a timer fires *)
    destruct (pcof s t) as [| | |w [| |]| | | |] eqn:Epc; try exact Tn.
    destruct (Nat.lt_ge_cases t (ntasks s)) as [Ht|Ht]; [|rewrite (beyond_noop _ _ _ H Ht) in Epc; discriminate].
    assert (Hk : kindof s t = KLoop).
    { pose proof (iv_pc _ _ H t Ht) as P. unfold pc_ok in P. rewrite Epc in P. destruct (kindof s t); try contradiction. reflexivity. }
    assert (Hnd : ~ donep s t) by (unfold is_done; rewrite Epc; discriminate).
    pose proof (loop_is_rtask _ _ _ H Ht Hk Hnd) as Ert.
    destruct (loop_phase _ _ t H N Ert) as (c0 & us & stt & Ec & Epc0 & Hc0 & Hc0lt).
    unfold tm_norm in *. sproj. rewrite Ec, Ert in *. rewrite fupd_neq by congruence. rewrite Epc0 in *.
    unfold tm_loop in *. sproj. rewrite fupd_eq. cbn [t_pc]. rewrite Epc in Tn. exact Tn.
  - (* a child of a gather reports *)
    destruct (pcof s p) as [| | | | |[|n] re| |] eqn:Epc; try exact Tn.
    destruct (Nat.lt_ge_cases p (ntasks s)) as [Ht|Ht]; [|rewrite (beyond_noop _ _ _ H Ht) in Epc; discriminate].
    pose proof (iv_pc _ _ H p Ht) as P. unfold pc_ok in P. rewrite Epc in P.
    pose proof (iv_census _ _ H p Ht) as C. unfold census in C.
    assert (X : tm_norm M (set_pc s p (PUnsubGather n re))).
    { destruct (kindof s p) eqn:Hk; try contradiction.
      - destruct (calls s) as [|c0 us] eqn:Ec; [discriminate|]. cbn in C. injection C as ->.
        unfold tm_norm. sproj. rewrite Ec, fupd_eq. exact I.
      - destruct re; [contradiction|]. pose proof (N p C) as Y. congruence. }
    destruct n; exact X.
Qed.

(* ---- the requests of the children of a gather are UNSUBSCRIBEs ------------------------------------------------------------- *)
Lemma kid_run_handle pend' rest s h :
  Inv (h :: rest ++ ready s) s -> Inv pend' (run_handle s h) -> diverged s = false ->
  (forall t r, (t < ntasks s)%nat -> pcof s t = POneReq r -> q_kind (reqs s r) = QUnsub) ->
  forall t r, (t < ntasks (run_handle s h))%nat -> pcof (run_handle s h) t = POneReq r -> q_kind (reqs (run_handle s h) r) = QUnsub.
Proof.
  intros H I' Dv K t r Ht' Hp. unfold run_handle in *. rewrite Dv in *. destruct h as [t0|t0|p].
  - destruct (NQ_step_task s t0) as [[R1 R2] Nq]. destruct (PF_step_task t0 s) as (_ & _ & F). destruct (KP_step_task s t0) as [_ Kp].
    assert (Aw : awaits (pcof (step_task s t0) t) r) by (now rewrite Hp).
    destruct (Nat.lt_ge_cases t (ntasks s)) as [Ht|Ht].
    + destruct (Nat.eq_dec t t0) as [<-|Hne].
      * pose proof (iv_pc _ _ I' t Ht') as Pc'. unfold pc_ok in Pc'. rewrite (Kp t Ht), Hp in Pc'.
        destruct (kindof s t) as [| | |q x] eqn:Hk; try contradiction.
        assert (Hnl : kindof s t <> KLoop) by (rewrite Hk; discriminate).
        pose proof (not_doomed_must _ _ (not_loop_not_doomed _ _ _ H Ht Hnl)) as Hm.
        pose proof (iv_pc _ _ H t Ht) as Pc. unfold pc_ok in Pc. rewrite Hk in Pc.
        unfold step_task in *. destruct (pcof s t) as [| | | | | |r0|st] eqn:Epc; try contradiction.
        -- rewrite Hm in *. unfold start_body in *. rewrite Hk in *. destruct (dget Nat.eqb (routed s) x) as [v|].
           ++ cbv zeta in *. sproj in Hp. unfold fupd in Hp. rewrite Nat.eqb_refl in Hp. cbn in Hp. injection Hp as <-. unfold issue. sproj. now rewrite fupd_eq.
           ++ rewrite pc_finish in Hp. discriminate.
        -- destruct (q_state (reqs s r0)); [rewrite Epc in Hp; injection Hp as <-; now apply (K t)| |unfold throw_cancel in Hp; rewrite pc_finish in Hp; discriminate].
           destruct (t_must (tasks s t)); [unfold throw_cancel in Hp|]; rewrite pc_finish in Hp; discriminate.
        -- rewrite Epc in Hp. discriminate.
      * destruct (F t Ht Hne) as [E|E].
        -- rewrite E in Hp. pose proof (K t r Ht Hp) as X. assert (A0 : awaits (pcof s t) r) by (now rewrite Hp).
           pose proof (iv_reqb _ _ H t Ht r A0) as Hr. specialize (R2 r Hr). unfold req_static in R2. congruence.
        -- destruct (iv_rtask _ _ H t E) as [_ Hk]. pose proof (iv_pc _ _ I' t Ht') as Pc'. unfold pc_ok in Pc'. rewrite (Kp t Ht), Hk, Hp in Pc'. contradiction.
    + exfalso. destruct (Nat.lt_ge_cases t0 (ntasks s)) as [Ht0|Ht0].
      2:{ unfold step_task in Ht'. rewrite (beyond_noop _ _ _ H Ht0) in Ht'. lia. }
      pose proof (iv_reqo _ _ I' t Ht' r Aw) as Ho. pose proof (iv_reqb _ _ I' t Ht' r Aw) as Hr.
      destruct (Nat.lt_ge_cases r (nreqs s)) as [L|L].
      * specialize (R2 r L). unfold req_static in R2. destruct (iv_bg _ _ H r L) as [_ X]. assert (q_task (reqs s r) = t) by congruence. lia.
      * rewrite (Nq r L Hr) in Ho. lia.
  - destruct (pcof s t0) as [| | |w [| |]| | | |] eqn:Epc; try (eapply K; eassumption).
    sproj in Hp. sproj in Ht'. sproj. destruct (Nat.eq_dec t0 t) as [->|Hne]; [rewrite fupd_eq in Hp; discriminate|].
    rewrite fupd_neq in Hp by exact Hne. now apply (K t).
  - destruct (pcof s p) as [| | | | |[|n] re| |] eqn:Epc; try (eapply K; eassumption).
    assert (X : pcof (set_pc s p (PUnsubGather n re)) t = POneReq r) by (destruct n; exact Hp).
    assert (Y : reqs (match n with O => enqueue (set_pc s p (PUnsubGather n re)) (HStep p) | S _ => set_pc s p (PUnsubGather n re) end) = reqs s) by (now destruct n).
    rewrite Y. sproj in X. destruct (Nat.eq_dec p t) as [->|Hne]; [rewrite fupd_eq in X; discriminate|].
    rewrite fupd_neq in X by exact Hne. apply (K t); [|exact X]. destruct n; exact Ht'.
Qed.

(* ---- once an unsubscribe has started no renewal is outstanding ---------------------------------------------------------------- *)
Lemma not_normal_ex s : ~ normal s -> exists u, In u (tl (calls s)) /\ pcof s u <> PStart.
Proof.
  intros N. destruct (existsb (fun u => negb (is_pstart (pcof s u))) (tl (calls s))) eqn:E.
  - apply existsb_exists in E. destruct E as (u & Hu & E). exists u. split; [exact Hu|]. intros X. rewrite X in E. discriminate.
  - exfalso. apply N. intros u Hu. destruct (pcof s u) eqn:Ep; try reflexivity;
      (assert (X : existsb (fun u => negb (is_pstart (pcof s u))) (tl (calls s)) = true)
         by (apply existsb_exists; exists u; split; [exact Hu|now rewrite Ep]); congruence).
Qed.

Lemma doomed_step_nreqs pend s t :
  Inv pend s -> (t < ntasks s)%nat -> kindof s t = KLoop -> doomed s t -> nreqs (step_task s t) = nreqs s.
Proof.
  intros H Ht Hk D. pose proof (iv_pc _ _ H t Ht) as Pc. unfold pc_ok in Pc. rewrite Hk in Pc. unfold doomed in D.
  unfold step_task. destruct (pcof s t) as [| |p st r|w ws| | | |st] eqn:Epc; try contradiction; try reflexivity.
  - destruct D as [D|[]]. rewrite D. now autorewrite with fr_nreqs.
  - destruct (q_state (reqs s r)) eqn:Eq; [reflexivity| |now autorewrite with fr_nreqs].
    destruct D as [D|D]; [|congruence]. rewrite D. now autorewrite with fr_nreqs.
  - destruct ws; [reflexivity| |now autorewrite with fr_nreqs]. destruct D as [D|[]]. rewrite D. now autorewrite with fr_nreqs.
Qed.

Lemma unsub_step_nreqs pend s t :
  Inv pend s -> (t < ntasks s)%nat -> kindof s t = KUnsub -> nreqs (step_task s t) = nreqs s.
Proof.
  intros H Ht Hk. pose proof (iv_pc _ _ H t Ht) as Pc. unfold pc_ok in Pc. rewrite Hk in Pc.
  unfold step_task. destruct (pcof s t) as [| | | |sids lt re|n re| |st] eqn:Epc; try contradiction; try reflexivity.
  - destruct (t_must _); [now autorewrite with fr_nreqs|]. unfold start_body. rewrite Hk. now autorewrite with fr_nreqs.
  - destruct (is_done _); [now autorewrite with fr_nreqs|reflexivity].
  - destruct n; [now autorewrite with fr_nreqs|reflexivity].
Qed.

Lemma kid_step_new pend s t q x :
  Inv pend s -> (t < ntasks s)%nat -> kindof s t = KOne q x ->
  forall r, (nreqs s <= r)%nat -> (r < nreqs (step_task s t))%nat -> q_kind (reqs (step_task s t) r) = QUnsub.
Proof.
  intros H Ht Hk r H1 H2. pose proof (iv_pc _ _ H t Ht) as Pc. unfold pc_ok in Pc. rewrite Hk in Pc.
  unfold step_task in *. destruct (pcof s t) as [| | | | | |r0|st] eqn:Epc; try contradiction; try lia.
  - destruct (t_must _); [autorewrite with fr_nreqs in H2; lia|]. unfold start_body in *. rewrite Hk in *.
    destruct (dget Nat.eqb (routed s) x) as [v|]; [|autorewrite with fr_nreqs in H2; lia].
    cbv zeta in *. unfold issue in *. sproj in H2. sproj. assert (r = nreqs s) by lia. subst r. now rewrite fupd_eq.
  - destruct (q_state _); try lia; [|autorewrite with fr_nreqs in H2; lia]. destruct (t_must _); autorewrite with fr_nreqs in H2; lia.
Qed.

Lemma sd_run_handle M rest s h :
  Inv (h :: rest ++ ready s) s -> Tinv M s -> diverged s = false ->
  ~ normal (run_handle s h) ->
  forall r, (r < nreqs (run_handle s h))%nat -> q_state (reqs (run_handle s h) r) = QPending -> q_kind (reqs (run_handle s h) r) <> QRenew.
Proof.
  intros H T Dv N' r Hr Hq.
  destruct (QN_run_handle s h) as [_ Qs]. destruct (RS_run_handle s h) as [R1 R2].
  assert (Old : (r < nreqs s)%nat -> q_state (reqs s r) = QPending /\ q_kind (reqs (run_handle s h) r) = q_kind (reqs s r)).
  { intros L. split; [destruct (Qs r L) as [E|[E _]]; congruence|]. specialize (R2 r L). unfold req_static in R2. congruence. }
  destruct (normal_dec s) as [N|N].
  - (* the unsubscribe call starts *)
    destruct (not_normal_ex _ N') as (u & Hu & Hup). rewrite fr_calls_run_handle in Hu.
    pose proof (N u Hu) as Epu. pose proof (tl_call_kind _ _ H u Hu) as Hku. pose proof (call_lt _ _ H u (tl_in s u Hu)) as Hlt.
    assert (Hh : h = HStep u).
    { unfold run_handle in Hup. rewrite Dv in Hup. destruct h as [t|t|p].
      - destruct (Nat.eq_dec t u) as [->|Hne]; [reflexivity|]. exfalso.
        destruct (PF_step_task t s) as (_ & _ & F). destruct (F u Hlt ltac:(congruence)) as [E|E]; [rewrite E in Hup; contradiction|].
        destruct (iv_rtask _ _ H u E) as [_ X]. congruence.
      - exfalso. destruct (pcof s t) as [| | |w [| |]| | | |] eqn:Epc; try contradiction.
        sproj in Hup. destruct (Nat.eq_dec t u) as [->|Hne]; [congruence|]. rewrite fupd_neq in Hup by exact Hne. contradiction.
      - exfalso. destruct (pcof s p) as [| | | | |[|n] re| |] eqn:Epc; try contradiction.
        assert (X : pcof (set_pc s p (PUnsubGather n re)) u <> PStart) by (destruct n; exact Hup). sproj in X.
        destruct (Nat.eq_dec p u) as [->|Hne]; [congruence|]. rewrite fupd_neq in X by exact Hne. contradiction. }
    subst h. unfold run_handle in *. rewrite Dv in *.
    assert (Hnl : kindof s u <> KLoop) by (rewrite Hku; discriminate).
    pose proof (not_doomed_must _ _ (not_loop_not_doomed _ _ _ H Hlt Hnl)) as Hm.
    assert (Es : step_task s u = unsub_services s u None) by (unfold step_task; rewrite Epu, Hm; unfold start_body; now rewrite Hku).
    rewrite Es in *. rewrite fr_nreqs_unsub_services in Hr. destruct (Old Hr) as [Hq0 Ek]. rewrite Ek.
    destruct (who_waits M _ s r H T N Hr Hq0) as [c0 us now0 todo v Ec Epc Ekd|c0 us n e Ec Epc Ekd|c0 us stt lt p st Ec Epc Ert Epl Ekd]; try congruence.
    destruct st; [|congruence]. exfalso.
    (* the renewal in flight is cancelled *)
    destruct (iv_rtask _ _ H lt Ert) as [Hltn Hkl].
    assert (Hndl : ~ donep s lt) by (unfold is_done; rewrite Epl; discriminate).
    assert (Ecan : is_cancelled (tasks s lt) = false) by (unfold is_cancelled; now rewrite Epl).
    unfold unsub_services in Hq. rewrite (forget_cancelled_no (with_subs s []) lt) in Hq by assumption. sproj in Hq. rewrite Ert in Hq.
    rewrite fr_reqs_await_task in Hq.
    set (s2 := mark_inflight (with_subs s []) lt) in *.
    assert (Hnd2 : ~ donep s2 lt) by exact Hndl. assert (Hpc2 : pc_ok (tasks s2 lt)) by exact (iv_pc _ _ H lt Hltn).
    destruct (cancel_spec s2 lt Hnd2 Hpc2 Hkl) as (_ & _ & _ & _ & _ & _ & _ & _ & _ & _ & _ & _ & _ & _ & _ & _ & _ & _ & C19).
    assert (A : awaits (pcof s2 lt) r) by (change (pcof s2 lt) with (pcof s lt); now rewrite Epl).
    rewrite (C19 r A Hq0) in Hq. discriminate.
  - (* already shutting down *)
    destruct (Nat.lt_ge_cases r (nreqs s)) as [L|L].
    { destruct (Old L) as [Hq0 Ek]. rewrite Ek. now apply (tv_sd _ _ T N). }
    unfold run_handle in *. rewrite Dv in *. destruct h as [t|t|p].
    + destruct (Nat.lt_ge_cases t (ntasks s)) as [Ht|Ht].
      2:{ exfalso. unfold step_task in Hr. rewrite (beyond_noop _ _ _ H Ht) in Hr. lia. }
      destruct (is_done (tasks s t)) eqn:Ed.
      { exfalso. unfold step_task in Hr. unfold is_done in Ed. destruct (pcof s t); try discriminate. lia. }
      assert (Hnd : ~ donep s t) by congruence.
      destruct (kindof s t) as [a| | |q x] eqn:Hk.
      * exfalso. destruct (live_sub _ _ H t a Ht Hk Hnd) as (_ & Hcur & Hc).
        pose proof (iv_census _ _ H t Ht) as C. unfold census in C. rewrite Hk in C.
        destruct (not_normal_ex _ N) as (u & Hu & _).
        pose proof (iv_calls _ _ H) as K. unfold calls_ok in K. destruct (calls s) as [|c0 us] eqn:Ec; [discriminate|]. cbn in C. injection C as ->.
        destruct K as (_ & _ & _ & _ & Knd). cbn [tl] in Hu. inversion Knd as [|? ? X _]. apply X.
        unfold cur in Hcur. rewrite Ec in Hcur. rewrite <- Hcur at 1. destruct us as [|u1 us']; [destruct Hu|]. apply (last_in_tail t (u1 :: us') 0%nat). discriminate.
      * exfalso. rewrite (unsub_step_nreqs _ _ _ H Ht Hk) in Hr. lia.
      * exfalso. destruct (shutdown_dd _ _ H t N Ht Hk) as [X|X]; [contradiction|]. rewrite (doomed_step_nreqs _ _ _ H Ht Hk X) in Hr. lia.
      * rewrite (kid_step_new _ _ _ _ _ H Ht Hk r L Hr). discriminate.
    + exfalso. destruct (pcof s t) as [| | |w [| |]| | | |]; sproj in Hr; lia.
    + exfalso. destruct (pcof s p) as [| | | | |[|n] re| |]; try (sproj in Hr; lia). destruct n; sproj in Hr; lia.
Qed.

(* ---- the invariant is kept by every handle and every action ------------------------------------------------------------------ *)
Lemma Tinv_run_handle M rest s h :
  Inv (h :: rest ++ ready s) s -> Winv (h :: rest ++ ready s) s -> Tinv M s -> diverged s = false ->
  g_maxdur s <= M -> M <= TOL ->
  diverged (run_handle s h) = true \/ Tinv M (run_handle s h).
Proof.
  intros H W T Dv HM HT. destruct (Inv_run_handle rest s h H) as [D|I']; [now left|].
  destruct (diverged (run_handle s h)) eqn:Dv'; [now left|right]. constructor.
  - rewrite fr_pub_run_handle, fr_nsid_run_handle. apply (tv_pub _ _ T).
  - rewrite fr_lapsed_run_handle. apply (tv_lapsed _ _ T).
  - rewrite fr_g_maxdur_run_handle. apply (tv_gm _ _ T).
  - eapply kid_run_handle; try eassumption. apply (tv_kid _ _ T).
  - intros c0 a Hc Hk. rewrite fr_calls_run_handle in Hc. destruct (KP_run_handle s h) as [_ Kp].
    assert (Hin : In c0 (calls s)) by (destruct (calls s); [discriminate|injection Hc as ->; now left]).
    rewrite (Kp c0 (call_lt _ _ H c0 Hin)) in Hk. eapply tv_auto; eauto.
  - intros N'. eapply sd_run_handle; eassumption.
  - intros N'. eapply tm_run_handle; eassumption.
Qed.

Lemma Tinv_fold M hs : forall s,
  Inv (hs ++ ready s) s -> Winv (hs ++ ready s) s -> Tinv M s -> diverged s = false -> g_maxdur s <= M -> M <= TOL ->
  let s' := fold_left run_handle hs s in diverged s' = true \/ Tinv M s'.
Proof.
  induction hs as [|h hs IH]; intros s H W T Dv HM HT; cbn [fold_left]; [right; exact T|].
  cbv zeta. destruct (Tinv_run_handle M hs s h H W T Dv HM HT) as [D|T']; [left; now rewrite fold_run_diverged|].
  destruct (Winv_run_handle hs s h H W Dv) as [D|W']; [left; now rewrite fold_run_diverged|].
  destruct (Inv_run_handle hs s h H) as [D|I']; [left; now rewrite fold_run_diverged|].
  destruct (diverged (run_handle s h)) eqn:D'; [left; now rewrite fold_run_diverged|].
  apply IH; auto. now rewrite fr_g_maxdur_run_handle.
Qed.

Lemma Tinv_step M s a :
  Inv (ready s) s -> Winv (ready s) s -> Tinv M s -> allowed s a -> g_maxdur s <= M -> M <= TOL ->
  (forall r m g, a = ADeliver r (RAccept m g) -> TOL + M < grant_secs g) ->
  (forall b, a = ASubscribe b -> calls s = [] -> b = true) ->
  diverged (step s a) = true \/ Tinv M (step s a).
Proof.
  intros H W T Ha HM HT Hg Hb. unfold step. destruct (diverged s) eqn:Dv; [now left|].
  destruct a as [auto| |r rho|dt|].
  - right. eapply Tinv_call; try eassumption. intros a E Ec. injection E as <-. now apply Hb.
  - right. eapply Tinv_call; try eassumption. intros a E. discriminate.
  - right. apply Tinv_deliver; auto. intros m g ->. eapply Hg; eauto.
  - right. now apply Tinv_advance.
  - unfold iterate. apply Tinv_fold; auto; [now apply Inv_iterate_start| |].
    + eapply Winv_ext; [| | | | |exact W]; try reflexivity. intros h Hh. sproj. rewrite app_nil_r. apply in_or_app. now left.
    + destruct T. constructor; assumption.
Qed.

Lemma gm_step s a : g_maxdur s <= g_maxdur (step s a).
Proof.
  unfold step. destruct (diverged s); [lia|]. destruct a; autorewrite with fr_g_maxdur; try lia.
  unfold advance. destruct (ready s); [|lia]. sproj. lia.
Qed.
Lemma gm_run sched : forall s, g_maxdur s <= g_maxdur (run_from s sched).
Proof.
  induction sched as [|a r IH]; intros s; [cbn; lia|]. change (run_from s (a :: r)) with (run_from (step s a) r).
  pose proof (gm_step s a). specialize (IH (step s a)). lia.
Qed.

Lemma Tinv_init M sv : Tinv M (init sv).
Proof.
  constructor; cbn; try (intros; lia); try discriminate; auto.
  split; [constructor|intros x []].
Qed.

Lemma alive_diverged sched : forall s, diverged s = true -> Forall (fun b => b = true) (map alive_step (trace_from s sched)).
Proof.
  induction sched as [|a r IH]; intros s D; cbn [trace_from map]; [constructor|].
  rewrite step_diverged by exact D. constructor; [|now apply IH]. unfold alive_step. now rewrite observe_div, D.
Qed.

Lemma alive_from M sched : forall s,
  Good s -> (diverged s = true \/ Winv (ready s) s) -> (diverged s = true \/ Tinv M s) ->
  dom_sched (started s) sched = true -> g_maxdur (run_from s sched) <= M -> M <= TOL ->
  forallb (fun g => TOL + M <? grant_secs g) (grants_of sched) = true ->
  (started s = false -> auto_sub sched = true) ->
  Forall (fun b => b = true) (map alive_step (trace_from s sched)).
Proof.
  induction sched as [|a r IH]; intros s G W T D HM HT Hg Ha; [constructor|].
  destruct (diverged s) eqn:Dv; [now apply alive_diverged|].
  destruct G as [X|I]; [congruence|]. destruct W as [X|W]; [congruence|]. destruct T as [X|T]; [congruence|].
  cbn [trace_from map].
  pose proof (allowed_of_dom _ _ _ D) as Hal.
  change (run_from s (a :: r)) with (run_from (step s a) r) in HM.
  pose proof (gm_run r (step s a)) as G1. pose proof (gm_step s a) as G2.
  pose proof (Inv_step s a I Hal) as G'. pose proof (Winv_step s a I W Hal) as W'.
  assert (T' : diverged (step s a) = true \/ Tinv M (step s a)).
  { apply Tinv_step; auto; try lia.
    - intros r0 m g ->. cbn [grants_of forallb] in Hg. apply andb_true_iff in Hg. destruct Hg as [Hg _]. now apply Z.ltb_lt.
    - intros b -> Ec. assert (St : started s = false) by (unfold started; now rewrite Ec). specialize (Ha St). unfold auto_sub in Ha. cbn in Ha.
      destruct b; [reflexivity|discriminate]. }
  constructor.
  - destruct (diverged (step s a)) eqn:Dv'; [unfold alive_step; now rewrite observe_div, Dv'|].
    destruct G' as [X|I']; [congruence|]. destruct T' as [X|T']; [congruence|].
    eapply alive_ok; try eassumption. lia.
  - apply IH; auto.
    + now apply dom_sched_step.
    + destruct a as [b| |r0 [m g| | |]|dt|]; cbn [grants_of forallb] in Hg; try exact Hg. apply andb_true_iff in Hg. tauto.
    + intros St. destruct a as [b| |r0 rho|dt|].
      * exfalso. cbn [dom_sched] in D. apply andb_true_iff in D. destruct D as [D1 _]. apply negb_true_iff in D1.
        assert (Ec : calls s = []) by (unfold started in D1; destruct (calls s); [reflexivity|discriminate]).
        unfold step in St. rewrite Dv in St. rewrite started_call in St; auto. discriminate.
      * exfalso. cbn [dom_sched] in D. apply andb_true_iff in D. destruct D as [D1 _]. rewrite started_mono in St by exact D1. discriminate.
      * rewrite started_other in St; [|discriminate|discriminate]. exact (Ha St).
      * rewrite started_other in St; [|discriminate|discriminate]. exact (Ha St).
      * rewrite started_other in St; [|discriminate|discriminate]. exact (Ha St).
Qed.

Theorem kept_alive i : in_domain i = true -> lapse_premise i = true -> clause_alive i (model_run i) = None.
Proof.
  intros D P. unfold clause_alive. rewrite P. unfold lapse_premise in P. cbv zeta in P.
  apply andb_true_iff in P. destruct P as [P P3]. apply andb_true_iff in P. destruct P as [P1 P2]. apply Z.leb_le in P2.
  apply first_false_none. unfold model_run. apply (alive_from (g_maxdur (run i))).
  - right. apply Inv_init.
  - right. apply Winv_init.
  - right. apply Tinv_init.
  - now apply in_domain_dom_sched.
  - unfold run. lia.
  - exact P2.
  - exact P3.
  - intros _. exact P1.
Qed.
