(* C12 - clean shutdown: once an unsubscribe call has returned, nothing is routed, nothing is subscribed, no request is
   outstanding, the renewal task has ended and no further request is sent - for every schedule of the domain in which
   no unsubscribe call started while the renewal task was inside _async_do_resubscribe (known finding D20). *)
From Coq Require Import List Bool Arith ZArith Lia.
From AUC Require Import Prelude.PyDict C12.Model C12.Spec C12.Frame C12.InvDef C12.InvStep C12.InvStep2 C12.InvStep3
  C12.Reach C12.Yields.
Import ListNotations.

(* ---- the ghost flag only ever goes up ------------------------------------------------------------------------------ *)
Definition GM (s s' : state) : Prop := g_inflight s = true -> g_inflight s' = true.
Lemma GM_refl s : GM s s. Proof. intros H; exact H. Qed.
Lemma GM_trans a b c : GM a b -> GM b c -> GM a c. Proof. unfold GM; auto. Qed.
Lemma GM_same s s' : g_inflight s' = g_inflight s -> GM s s'. Proof. unfold GM. now intros ->. Qed.

Ltac gsame := apply GM_same; autorewrite with fr_g_inflight; sproj; reflexivity.

Lemma GM_unsub_services s t re : GM s (unsub_services s t re).
Proof.
  unfold unsub_services. destruct (rtask (forget_cancelled (with_subs s []))); [|gsame].
  intros H. autorewrite with fr_g_inflight. unfold mark_inflight. sproj. autorewrite with fr_g_inflight. sproj. now rewrite H.
Qed.

Lemma GM_after_sub t auto now0 o : GM (ost o) (after_pass_sub t auto now0 o).
Proof.
  unfold after_pass_sub. destruct o as [s'|s'|s' e]; cbn [ost]; [apply GM_refl|gsame|].
  destruct (is_upnp e); [apply GM_unsub_services|gsame].
Qed.

Lemma GM_sub_resume s t auto now0 todo v rho hdr : GM s (sub_resume s t auto now0 todo v rho hdr).
Proof.
  unfold sub_resume. cbv zeta. destruct rho as [m g| | |]; try apply GM_unsub_services.
  destruct hdr; [gsame|apply GM_unsub_services].
Qed.

Lemma GM_start_body s t : GM s (start_body s t).
Proof.
  unfold start_body. destruct (t_kind (tasks s t)).
  - destruct (subs s); [gsame|]. eapply GM_trans; [|apply GM_after_sub]. gsame.
  - apply GM_unsub_services.
  - gsame.
  - destruct (dget _ _ _); gsame.
Qed.

Lemma GM_step_task s t : GM s (step_task s t).
Proof.
  unfold step_task.
  destruct (t_pc (tasks s t)) as [|now0 todo v r|p st r|w ws|sids lt re|n re|r|st]; try apply GM_refl.
  - destruct (t_must _); [gsame|apply GM_start_body].
  - destruct (q_state _); try apply GM_refl; [|gsame]. destruct (t_must _); [gsame|].
    destruct (t_kind _); try apply GM_refl. apply GM_sub_resume.
  - destruct (q_state _); try apply GM_refl; [|gsame]. destruct (t_must _); [gsame|].
    destruct (t_kind _); try (eapply GM_trans; [|apply GM_after_sub]; gsame); gsame.
  - destruct ws; try apply GM_refl; [|gsame]. destruct (t_must _); gsame.
  - destruct (is_done _); [gsame|apply GM_refl].
  - destruct n; [gsame|apply GM_refl].
  - destruct (q_state _); try apply GM_refl; [|gsame]. destruct (t_must _); gsame.
Qed.

Lemma GM_run_handle s h : GM s (run_handle s h).
Proof.
  unfold run_handle. destruct (diverged s); [apply GM_refl|]. destruct h as [t|t|p].
  - apply GM_step_task.
  - destruct (t_pc _) as [| | |w [| |]| | | |]; try apply GM_refl. gsame.
  - destruct (t_pc _) as [| | | | |[|n] re| |]; try apply GM_refl. destruct n; gsame.
Qed.

Lemma GM_fold hs : forall s, GM s (fold_left run_handle hs s).
Proof. induction hs as [|h hs IH]; intros s; cbn [fold_left]; [apply GM_refl|]. eapply GM_trans; [apply GM_run_handle|apply IH]. Qed.

Lemma GM_step s a : GM s (step s a).
Proof.
  unfold step. destruct (diverged s); [apply GM_refl|]. destruct a; try gsame.
  unfold iterate. eapply GM_trans; [|apply GM_fold]. gsame.
Qed.

Lemma GM_run sched : forall s, GM s (run_from s sched).
Proof.
  induction sched as [|a r IH]; intros s; [apply GM_refl|]. unfold run_from in *. cbn [fold_left].
  eapply GM_trans; [apply GM_step|apply IH].
Qed.

(* ---- after an unsubscribe call has returned nothing sends requests any more ------------------------------------------ *)
Definition quiet (s : state) : Prop :=
  subs s = [] /\ rtask s = None /\
  forall t, is_done (tasks s t) = true \/ (kindof s t = KUnsub /\ pcof s t = PStart /\ t_must (tasks s t) = false).

Lemma quiet_step_task s t : quiet s -> quiet (step_task s t) /\ nreqs (step_task s t) = nreqs s.
Proof.
  intros (Es & Er & Q). unfold step_task. destruct (Q t) as [D|(K & P & M)].
  - unfold is_done in D. destruct (pcof s t); try discriminate. split; [repeat split; assumption|reflexivity].
  - rewrite P, M. unfold start_body. rewrite K. unfold unsub_services.
    rewrite forget_cancelled_none by exact Er. sproj. rewrite Er, Es. cbn [dkeys map]. unfold unsub_gather, unsub_return.
    rewrite finish_plain by (intros; sproj; rewrite K; discriminate). sproj. split; [|reflexivity]. split; [reflexivity|]. split; [exact Er|].
    intros t'. sproj. unfold fupd. destruct (Nat.eqb_spec t t') as [<-|X]; [now left|apply Q].
Qed.

Lemma quiet_run_handle s h : quiet s -> quiet (run_handle s h) /\ nreqs (run_handle s h) = nreqs s.
Proof.
  intros Q. unfold run_handle. destruct (diverged s); [now split|]. destruct h as [t|t|p].
  - now apply quiet_step_task.
  - destruct Q as (Es & Er & Q). destruct (Q t) as [D|(K & P & M)].
    + unfold is_done in D. destruct (pcof s t); try discriminate. split; [repeat split; assumption|reflexivity].
    + rewrite P. split; [repeat split; assumption|reflexivity].
  - destruct Q as (Es & Er & Q). destruct (Q p) as [D|(K & P & M)].
    + unfold is_done in D. destruct (pcof s p); try discriminate. split; [repeat split; assumption|reflexivity].
    + rewrite P. split; [repeat split; assumption|reflexivity].
Qed.

Lemma quiet_fold hs : forall s, quiet s -> quiet (fold_left run_handle hs s) /\ nreqs (fold_left run_handle hs s) = nreqs s.
Proof.
  induction hs as [|h hs IH]; intros s Q; cbn [fold_left]; [now split|].
  destruct (quiet_run_handle s h Q) as [Q1 N1]. destruct (IH _ Q1) as [Q2 N2]. split; [exact Q2|congruence].
Qed.

Lemma quiet_step s a : (forall b, a <> ASubscribe b) -> quiet s -> quiet (step s a) /\ nreqs (step s a) = nreqs s.
Proof.
  intros Ha Q. unfold step. destruct (diverged s); [now split|].
  destruct a as [b| |r rho|dt|].
  - now destruct (Ha b).
  - unfold call. destruct (user_busy s); [now split|]. destruct Q as (Es & Er & Q). unfold spawn. sproj.
    split; [|reflexivity]. split; [exact Es|]. split; [exact Er|].
    intros t. sproj. unfold fupd. destruct (Nat.eqb_spec (ntasks s) t) as [<-|X]; [right; auto|apply Q].
  - split; [|now rewrite fr_nreqs_deliver]. destruct Q as (Es & Er & Q).
    split; [now rewrite fr_subs_deliver|]. split; [now rewrite fr_rtask_deliver|]. intros t. rewrite fr_tasks_deliver. apply Q.
  - split; [|now rewrite fr_nreqs_advance]. destruct Q as (Es & Er & Q).
    split; [now rewrite fr_subs_advance|]. split; [now rewrite fr_rtask_advance|]. intros t. rewrite fr_tasks_advance. apply Q.
  - unfold iterate. apply (quiet_fold _ (with_ready s [])). exact Q.
Qed.

(* ---- what the invariant says once an unsubscribe call has returned ------------------------------------------------------ *)
Definition lc (s : state) : list (option status) := map (fun t => status_of (tasks s t)) (tl (calls s)).

Lemma status_done s t : is_some (status_of (tasks s t)) = is_done (tasks s t).
Proof. unfold status_of, is_done. now destruct (pcof s t). Qed.

Lemma last_in_tail {A} (x : A) l d : l <> [] -> In (last (x :: l) d) l.
Proof.
  revert x. induction l as [|y l IH]; intros x H; [congruence|]. destruct l as [|z l]; [now left|]. right. apply (IH y). discriminate.
Qed.

Lemma unsub_returned pend s :
  Inv pend s -> existsb is_some (lc s) = true ->
  subs s = [] /\ rtask s = None /\ (g_inflight s = false -> routed s = []) /\ quiet s /\
  (forall r, r < nreqs s -> q_state (reqs s r) <> QPending).
Proof.
  intros H Hex. apply existsb_exists in Hex. destruct Hex as (x & Hin & Hx). unfold lc in Hin. apply in_map_iff in Hin.
  destruct Hin as (u & <- & Hu). rewrite status_done in Hx.
  pose proof (iv_calls _ _ H) as K. pose proof (iv_phase _ _ H) as Ph. unfold calls_ok, phase_ok in *.
  destruct (calls s) as [|c0 us] eqn:Ecalls; [destruct Hu|]. cbn [tl] in Hu. cbv zeta in Ph.
  destruct K as (K0 & Kus & Klt & Kd & Knd).
  assert (Hus : us <> []) by (intros ->; destruct Hu).
  assert (Hcin : In (cur s) us) by (unfold cur; rewrite Ecalls; now apply last_in_tail).
  pose proof (Kus _ Hcin) as Kc. destruct (kindof s (cur s)) eqn:Ek; try discriminate.
  assert (Facts : subs s = [] /\ rtask s = None /\ (g_inflight s = false -> routed s = []) /\
                  (forall t, t < ntasks s -> t <> cur s -> donep s t) /\
                  (donep s (cur s) \/ (pcof s (cur s) = PStart))).
  { destruct (is_done (tasks s (cur s))) eqn:Ed.
    - unfold is_done in Ed. destruct (pcof s (cur s)); try discriminate. destruct Ph as (A & B & C & D).
      repeat split; auto.
    - assert (Hne : u <> cur s) by (intros ->; congruence).
      assert (L : 2 < length (c0 :: us)).
      { destruct us as [|a [|b l]]; cbn; try lia; [destruct Hu|]. exfalso. destruct Hu as [<-|[]]. apply Hne. unfold cur. now rewrite Ecalls. }
      unfold is_done in Ed. destruct (pcof s (cur s)) as [| | | |? ? [?|]|? [?|]| |] eqn:Epc; try contradiction; try discriminate.
      + destruct (Ph L) as (A & B & C & D). repeat split; auto.
      + destruct Ph as (X & _). lia.
      + destruct Ph as (X & _). lia. }
  destruct Facts as (F1 & F2 & F3 & F4 & F5).
  assert (Q : quiet s).
  { split; [exact F1|]. split; [exact F2|]. intros t. destruct (Nat.lt_ge_cases t (ntasks s)) as [Ht|Ht].
    - destruct (Nat.eq_dec t (cur s)) as [->|X]; [|left; now apply F4].
      destruct F5 as [F5|F5]; [now left|right]. repeat split; auto.
      apply not_doomed_must. eapply not_loop_not_doomed; [exact H| |rewrite Ek; discriminate].
      apply Klt. right. exact Hcin.
    - left. now rewrite (iv_beyond _ _ H t Ht). }
  split; [exact F1|]. split; [exact F2|]. split; [exact F3|]. split; [exact Q|].
  intros r Hr Hq. destruct (iv_req _ _ H r Hr Hq) as [A B]. destruct Q as (_ & _ & Q).
  destruct (Q (q_task (reqs s r))) as [D|(_ & P & _)].
  - unfold is_done in D. destruct (pcof s (q_task (reqs s r))); try discriminate. destruct B.
  - rewrite P in B. destruct B.
Qed.

(* ---- the clause, along a run ------------------------------------------------------------------------------------------------ *)
Lemma later_calls_observe s0 s : diverged s = false -> later_calls (observe s0 s) = lc s.
Proof. intros D. unfold observe, later_calls, lc. rewrite D. sproj. cbn [o_calls]. now destruct (calls s). Qed.

Lemma sort_by_nil {A} (l : list (nat * A)) : l = [] -> sort_by l = [].
Proof. now intros ->. Qed.

Lemma outstanding_nil s : (forall r, r < nreqs s -> q_state (reqs s r) <> QPending) -> outstanding s = [].
Proof.
  intros H. unfold outstanding. induction (nreqs s) as [|n IH] in H |- *; [reflexivity|].
  rewrite seq_S, filter_app, IH by (intros r Hr; apply H; lia). cbn.
  destruct (q_state (reqs s n)) eqn:E; try reflexivity. now destruct (H n ltac:(lia)).
Qed.

Lemma returned_ok_all pend s : Inv pend s -> forallb returned_ok (lc s) = true.
Proof.
  intros H. apply forallb_forall. intros x Hx. unfold lc in Hx. apply in_map_iff in Hx. destruct Hx as (u & <- & Hu).
  pose proof (iv_calls _ _ H) as K. unfold calls_ok in K. destruct (calls s) as [|c0 us]; [destruct Hu|]. cbn [tl] in Hu.
  destruct K as (_ & Kus & Klt & _). specialize (Kus u Hu). specialize (Klt u (or_intror Hu)).
  pose proof (iv_pc _ _ H u Klt) as P. unfold pc_ok in P. unfold status_of.
  destruct (kindof s u); try discriminate. destruct (pcof s u) as [| | | | | | |[[?|]|?|]]; try reflexivity; contradiction.
Qed.

Lemma clean_step_ok prev s a :
  Good s -> Good (step s a) -> (forall b, a <> ASubscribe b) \/ calls s = [] ->
  g_inflight (step s a) = false ->
  (diverged s = false -> later_calls prev = lc s) ->
  clean_step prev (observe s (step s a)) = true.
Proof.
  intros G G' Ha Gi Hprev. unfold clean_step. rewrite observe_div.
  destruct (diverged (step s a)) eqn:D'; [reflexivity|].
  destruct G' as [X|I']; [congruence|].
  assert (D : diverged s = false).
  { destruct (diverged s) eqn:E; [|reflexivity]. rewrite step_diverged in D' by exact E. congruence. }
  destruct G as [X|I]; [congruence|].
  rewrite later_calls_observe by exact D'. rewrite (returned_ok_all _ _ I'). cbn [andb].
  destruct (existsb is_some (lc (step s a))) eqn:Ex; [|reflexivity].
  destruct (unsub_returned _ _ I' Ex) as (F1 & F2 & F3 & Q & NP).
  unfold observe. rewrite D'. cbn [o_routed o_subs o_out o_rtask o_newreqs].
  rewrite (sort_by_nil _ (F3 Gi)), (sort_by_nil _ F1), (outstanding_nil _ NP). unfold rtask_obs. rewrite F2. cbn.
  rewrite (Hprev D). destruct (existsb is_some (lc s)) eqn:Ex0; [|reflexivity].
  destruct (unsub_returned _ _ I Ex0) as (_ & _ & _ & Q0 & _).
  assert (Hns : forall b, a <> ASubscribe b).
  { destruct Ha as [Ha|Ha]; [exact Ha|]. exfalso. unfold lc in Ex0. rewrite Ha in Ex0. discriminate. }
  destruct (quiet_step s a Hns Q0) as [_ N].
  match goal with |- context [seq _ ?d] => replace d with 0%nat by lia end. reflexivity.
Qed.

Lemma dom_no_sub s a r :
  dom_sched (started s) (a :: r) = true -> (forall b, a <> ASubscribe b) \/ calls s = [].
Proof.
  destruct a; cbn; intros D; try (left; discriminate).
  right. apply andb_true_iff in D. destruct D as [D _]. unfold started in D. destruct (calls s); [reflexivity|discriminate].
Qed.

Lemma dom_sched_step s a r :
  diverged s = false -> dom_sched (started s) (a :: r) = true -> dom_sched (started (step s a)) r = true.
Proof.
  intros Dv D. destruct a as [b| |r0 rho|dt|]; cbn [dom_sched] in D.
  - apply andb_true_iff in D. destruct D as [D1 D2]. apply negb_true_iff in D1.
    unfold step. rewrite Dv. rewrite started_call; auto. unfold started in D1. destruct (calls s); [reflexivity|discriminate].
  - apply andb_true_iff in D. destruct D as [D1 D2]. now rewrite started_mono.
  - rewrite started_other; [exact D|discriminate|discriminate].
  - rewrite started_other; [exact D|discriminate|discriminate].
  - rewrite started_other; [exact D|discriminate|discriminate].
Qed.

Lemma trace_diverged (f : snap -> snap -> bool) sched :
  (forall p x, o_div x = true -> f p x = true) ->
  forall s prev, diverged s = true -> Forall (fun b => b = true) (steps_with_prev f prev (trace_from s sched)).
Proof.
  intros Hf. induction sched as [|a r IH]; intros s prev D; cbn [trace_from steps_with_prev]; [constructor|].
  rewrite step_diverged by exact D. constructor; [apply Hf; now rewrite observe_div|]. now apply IH.
Qed.

Lemma clean_from sched : forall s prev,
  Good s -> dom_sched (started s) sched = true -> g_inflight (run_from s sched) = false ->
  (diverged s = false -> later_calls prev = lc s) ->
  Forall (fun b => b = true) (steps_with_prev clean_step prev (trace_from s sched)).
Proof.
  induction sched as [|a r IH]; intros s prev G D Gi Hprev; [constructor|].
  destruct (diverged s) eqn:Dv.
  { apply trace_diverged; [|exact Dv]. intros p x Hx. unfold clean_step. now rewrite Hx. }
  assert (G0 : Good s) by (destruct G as [X|X]; [discriminate|now right]). clear G. rename G0 into G.
  assert (Hprev0 : diverged s = false -> later_calls prev = lc s) by (intros _; now apply Hprev). clear Hprev. rename Hprev0 into Hprev.
  cbn [trace_from steps_with_prev].
  pose proof (Good_states (a :: r) s G D) as Gs. cbn [states_from] in Gs. inversion Gs as [|? ? G1 Gr]; subst.
  change (run_from s (a :: r)) with (run_from (step s a) r) in Gi.
  assert (Gi1 : g_inflight (step s a) = false).
  { destruct (g_inflight (step s a)) eqn:E; [|reflexivity]. rewrite (GM_run r _ E) in Gi. discriminate. }
  constructor.
  - apply clean_step_ok; auto. eapply dom_no_sub; eauto.
  - apply IH; auto.
    + now apply dom_sched_step.
    + intros Dv'. now apply later_calls_observe.
Qed.

Lemma clean_shutdown_partial i :
  in_domain i = true -> kf_inflight i = false -> clause_clean i (model_run i) = None.
Proof.
  intros D G. unfold clause_clean, model_run. apply first_false_none. apply clean_from.
  - right. apply Inv_init.
  - now apply in_domain_dom_sched.
  - exact G.
  - intros _. reflexivity.
Qed.
