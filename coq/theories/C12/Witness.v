(* C12 - concrete schedules: the witnesses of the two known findings and non-vacuity examples (vm_compute). *)
From Coq Require Import List Bool Arith ZArith NArith.
From AUC Require Import C12.Model C12.Spec.
Import ListNotations.
Local Open Scope Z_scope.

(* D19: one service granted 61 s; the renewal sent at t = 1 is answered at t = 131; the new deadline 1 + 61 is then
   more than 60 s in the past and the loop spins without awaiting *)
Definition w_d19 : input :=
  mkInput [true]
    [ASubscribe true; AIter; ADeliver 0%nat (RAccept SidFresh (GSecs 61)); AIter; AIter; AAdvance 1; AIter; AIter;
     AAdvance 130; ADeliver 1%nat (RAccept SidEcho (GSecs 61)); AIter].

Lemma d19_refuted :
  in_domain w_d19 = true /\ kf_overdue w_d19 = true /\ clause_yields w_d19 (model_run w_d19) = Some 10%nat.
Proof. vm_compute. repeat split; reflexivity. Qed.

(* D20: three services granted 120 s; at t = 60 the first renewal is in flight when async_unsubscribe_services runs:
   SID 0 is still routed after the call has returned and no UNSUBSCRIBE was sent for it *)
Definition w_d20 : input :=
  mkInput [true; true; true]
    [ASubscribe true; AIter; ADeliver 0%nat (RAccept SidFresh (GSecs 120)); AIter; ADeliver 1%nat (RAccept SidFresh (GSecs 120)); AIter;
     ADeliver 2%nat (RAccept SidFresh (GSecs 120)); AIter; AIter; AAdvance 60; AIter; AIter;
     AUnsubscribe; AIter; AIter; AIter; AIter; ADeliver 4%nat (RAccept SidEcho GAbsent); ADeliver 5%nat (RAccept SidEcho GAbsent);
     AIter; AIter; AIter].

Lemma d20_refuted :
  in_domain w_d20 = true /\ kf_inflight w_d20 = true /\ kf_overdue w_d20 = false /\
  clause_clean w_d20 (model_run w_d20) = Some 21%nat /\
  map o_routed (skipn 21 (model_run w_d20)) = [[(0%nat, 0%nat)]].
Proof. vm_compute. repeat split; reflexivity. Qed.

(* the same run with the unsubscribe two steps earlier (the renewal task still asleep): clean *)
Definition w_clean : input :=
  mkInput [true; true; true]
    [ASubscribe true; AIter; ADeliver 0%nat (RAccept SidFresh (GSecs 120)); AIter; ADeliver 1%nat (RAccept SidFresh (GSecs 120)); AIter;
     ADeliver 2%nat (RAccept SidFresh (GSecs 120)); AIter; AIter; AAdvance 60;
     AUnsubscribe; AIter; AIter; AIter; AIter; ADeliver 3%nat (RAccept SidEcho GAbsent); ADeliver 4%nat (RAccept SidEcho GAbsent);
     ADeliver 5%nat (RRefuse); AIter; AIter; AIter].

Lemma clean_example :
  in_domain w_clean = true /\ kf_inflight w_clean = false /\
  map o_calls (skipn 20 (model_run w_clean)) = [[Some (SRet None); Some (SRet None)]] /\
  length (concat (map o_newreqs (model_run w_clean))) = 6%nat.
Proof. vm_compute. repeat split; reflexivity. Qed.

(* two hours of renewals with a publisher that answers within 30 s and grants 300 s: never overdue, never lapsed *)
Definition round (r : nat) : list action :=
  [AAdvance 1000; AIter; AIter; AAdvance 30; ADeliver r (RAccept SidEcho (GSecs 300)); AIter].
Definition w_alive : input :=
  mkInput [true]
    ([ASubscribe true; AIter; ADeliver 0%nat (RAccept SidFresh (GSecs 300)); AIter; AIter] ++
     flat_map round (seq 1 30)).

Lemma alive_example :
  in_domain w_alive = true /\ kf_overdue w_alive = false /\ lapse_premise w_alive = true /\
  length (concat (map o_newreqs (model_run w_alive))) = 31%nat /\
  o_now (last (model_run w_alive) snap0) = 7230.
Proof. vm_compute. repeat split; reflexivity. Qed.

(* a subscribe call whose second service is refused: rolled back, raises *)
Definition w_rollback : input :=
  mkInput [true; false; true]
    [ASubscribe true; AIter; ADeliver 0%nat (RAccept SidFresh (GSecs 1800)); AIter; ADeliver 1%nat RRefuse; AIter; AIter;
     ADeliver 2%nat RUnreachable; AIter; AIter; AIter].

Lemma rollback_example :
  in_domain w_rollback = true /\
  map (fun x => (o_calls x, o_routed x, o_subs x)) (skipn 10 (model_run w_rollback)) = [([Some (SExc EResponse)], [], [])] /\
  map (fun q => fst (fst (fst q))) (concat (map o_newreqs (model_run w_rollback))) = [QSub; QSub; QUnsub].
Proof. vm_compute. repeat split; reflexivity. Qed.
