(* C12 - concrete schedules: the witnesses of the two known findings and non-vacuity examples (vm_compute). *)
From Coq Require Import List Bool Arith ZArith NArith.
From AUC Require Import C12.Model C12.Spec.
Import ListNotations.
Local Open Scope Z_scope.

(* D19: one service granted 61 s; the renewal sent at t = 1 is answered at t = 131; the new deadline 1 + 61 is then
   more than 60 s in the past and the loop spins without awaiting *)
Definition w_d19 : input :=
  mkInput [true]
    [ASubscribe true; AIter; ADeliver 0%nat (RAccept SidFresh (GSecs 61)); AIter; AIter; AAdvance 1; AIter; AIter;
     AAdvance 130; ADeliver 1%nat (RAccept SidEcho (GSecs 61)); AIter].

Lemma d19_refuted :
  in_domain w_d19 = true /\ kf_overdue w_d19 = true /\ clause_yields w_d19 (model_run w_d19) = Some 10%nat.
Proof. vm_compute. repeat split; reflexivity. Qed.

(* D20: three services granted 120 s; at t = 60 the first renewal is in flight when async_unsubscribe_services runs:
   SID 0 is still routed after the call has returned and no UNSUBSCRIBE was sent for it *)
Definition w_d20 : input :=
  mkInput [true; true; true]
    [ASubscribe true; AIter; ADeliver 0%nat (RAccept SidFresh (GSecs 120)); AIter; ADeliver 1%nat (RAccept SidFresh (GSecs 120)); AIter;
     ADeliver 2%nat (RAccept SidFresh (GSecs 120)); AIter; AIter; AAdvance 60; AIter; AIter;
     AUnsubscribe; AIter; AIter; AIter; AIter; ADeliver 4%nat (RAccept SidEcho GAbsent); ADeliver 5%nat (RAccept SidEcho GAbsent);
     AIter; AIter; AIter].

Lemma d20_refuted :
  in_domain w_d20 = true /\ kf_inflight w_d20 = true /\ kf_overdue w_d20 = false /\
  clause_clean w_d20 (model_run w_d20) = Some 21%nat /\
  map o_routed (skipn 21 (model_run w_d20)) = [[(0%nat, 0%nat)]].
Proof. vm_compute. repeat split; reflexivity. Qed.

(* the same run with the unsubscribe two steps earlier (the renewal task still asleep): clean *)
Definition w_clean : input :=
  mkInput [true; true; true]
    [ASubscribe true; AIter; ADeliver 0%nat (RAccept SidFresh (GSecs 120)); AIter; ADeliver 1%nat (RAccept SidFresh (GSecs 120)); AIter;
     ADeliver 2%nat (RAccept SidFresh (GSecs 120)); AIter; AIter; AAdvance 60;
     AUnsubscribe; AIter; AIter; AIter; AIter; ADeliver 3%nat (RAccept SidEcho GAbsent); ADeliver 4%nat (RAccept SidEcho GAbsent);
     ADeliver 5%nat (RRefuse); AIter; AIter; AIter].

Lemma clean_example :
  in_domain w_clean = true /\ kf_inflight w_clean = false /\
  map o_calls (skipn 20 (model_run w_clean)) = [[Some (SRet None); Some (SRet None)]] /\
  length (concat (map o_newreqs (model_run w_clean))) = 6%nat.
Proof. vm_compute. repeat split; reflexivity. Qed.

(* two hours of renewals with a publisher that answers within 30 s and grants 300 s: never overdue, never lapsed *)
Definition round (r : nat) : list action :=
  [AAdvance 1000; AIter; AIter; AAdvance 30; ADeliver r (RAccept SidEcho (GSecs 300)); AIter].
Definition w_alive : input :=
  mkInput [true]
    ([ASubscribe true; AIter; ADeliver 0%nat (RAccept SidFresh (GSecs 300)); AIter; AIter] ++
     flat_map round (seq 1 30)).

Lemma alive_example :
  in_domain w_alive = true /\ kf_overdue w_alive = false /\ lapse_premise w_alive = true /\
  length (concat (map o_newreqs (model_run w_alive))) = 31%nat /\
  o_now (last (model_run w_alive) snap0) = 7230.
Proof. vm_compute. repeat split; reflexivity. Qed.

(* a subscribe call whose second service is refused: rolled back, raises *)
Definition w_rollback : input :=
  mkInput [true; false; true]
    [ASubscribe true; AIter; ADeliver 0%nat (RAccept SidFresh (GSecs 1800)); AIter; ADeliver 1%nat RRefuse; AIter; AIter;
     ADeliver 2%nat RUnreachable; AIter; AIter; AIter].

Lemma rollback_example :
  in_domain w_rollback = true /\
  map (fun x => (o_calls x, o_routed x, o_subs x)) (skipn 10 (model_run w_rollback)) = [([Some (SExc EResponse)], [], [])] /\
  map (fun q => fst (fst (fst q))) (concat (map o_newreqs (model_run w_rollback))) = [QSub; QSub; QUnsub].
Proof. vm_compute. repeat split; reflexivity. Qed.

(* ---- the residual clean-shutdown clause (clause 6) on the D20 witness --------------------------------------------------------- *)
(* on the model's own trace the residual clause holds - SID 0, the one left routed, is the SID of the renewal (request 3,
   made by the renewal task at step 11, outstanding when the unsubscribe call was made at step 12) - while clause 5 fails *)
Lemma d20_residual :
  clause_clean_res w_d20 (model_run w_d20) = None /\ clause_clean w_d20 (model_run w_d20) = Some 21%nat /\
  c_exempt (res_final cacc0 snap0 (i_sched w_d20) (model_run w_d20)) = [0%nat] /\
  kf_inflight_obs w_d20 (model_run w_d20) = true /\ kf_inflight_obs w_clean (model_run w_clean) = false.
Proof. vm_compute. repeat split; reflexivity. Qed.

(* hand-made observations: the same trace, but when the unsubscribe call has returned (step 21) a second SID is still
   routed as well / another SID is routed instead of the one that was being renewed / the profile still holds a
   subscription / the call raised: each fails the residual clause at that step *)
Definition set_routed (x : snap) (r : list (sid * svc)) : snap :=
  mkSnap (o_now x) (o_newreqs x) (o_out x) r (o_subs x) (o_live x) (o_lapsed x) (o_events x) (o_avail x) (o_calls x) (o_rtask x)
         (o_idle x) (o_div x).
Definition set_subs (x : snap) (r : list (sid * Z)) : snap :=
  mkSnap (o_now x) (o_newreqs x) (o_out x) (o_routed x) r (o_live x) (o_lapsed x) (o_events x) (o_avail x) (o_calls x) (o_rtask x)
         (o_idle x) (o_div x).
Definition set_calls (x : snap) (r : list (option status)) : snap :=
  mkSnap (o_now x) (o_newreqs x) (o_out x) (o_routed x) (o_subs x) (o_live x) (o_lapsed x) (o_events x) (o_avail x) r (o_rtask x)
         (o_idle x) (o_div x).
Definition tamper_last (f : snap -> snap) (o : observation) : observation :=
  firstn 21 o ++ map f (skipn 21 o).

Lemma d20_residual_sharp :
  clause_clean_res w_d20 (tamper_last (fun x => set_routed x [(0%nat, 0%nat); (1%nat, 1%nat)]) (model_run w_d20)) = Some 21%nat /\
  clause_clean_res w_d20 (tamper_last (fun x => set_routed x [(1%nat, 1%nat)]) (model_run w_d20)) = Some 21%nat /\
  clause_clean_res w_d20 (tamper_last (fun x => set_subs x [(1%nat, 120)]) (model_run w_d20)) = Some 21%nat /\
  clause_clean_res w_d20 (tamper_last (fun x => set_calls x [Some (SRet None); Some (SExc EKey)]) (model_run w_d20)) = Some 21%nat /\
  clause_clean_res w_d20 (tamper_last (fun x => set_routed x []) (model_run w_d20)) = None.
Proof. vm_compute. repeat split; reflexivity. Qed.

(* ---- the residual loop-yields clause (clause 7) on the D19 witness ---------------------------------------------------------------- *)
(* the run stops yielding at step 10, a loop iteration before which the renewal task was pending: the residual clause holds;
   the same run cut short at step 9 (a response being delivered - no code runs there) or at step 1 (the iteration that
   starts the subscribe call: no renewal task exists yet) fails it *)
Definition div_from (n : nat) (o : observation) : observation := firstn n o ++ map (fun _ => div_snap) (skipn n o).
Lemma d19_residual :
  clause_yields_res w_d19 (model_run w_d19) = None /\ clause_yields w_d19 (model_run w_d19) = Some 10%nat /\
  clause_yields_res w_d19 (div_from 9 (model_run w_d19)) = Some 9%nat /\
  clause_yields_res w_d19 (div_from 1 (model_run w_d19)) = Some 1%nat.
Proof. vm_compute. repeat split; reflexivity. Qed.
